// C16 — literal values from statements never appear in logs nor in the redacted statement.
// Bounded-exhaustive enumeration on the real code: every statement of the sqlgen literal space
// (templates for every literal position named in the property and the C13 grammar restricted
// to literal operands; a unique marker at each position in turn and at all pairs of positions,
// in every literal spelling) is pushed through every redaction entry point
// (sqlparser.RedactSQLQuery, Parser.HandleRawSQLQuery in strict and default mode) and through
// AcraCensor.HandleQuery under every censor configuration (built by the real YAML loader) at
// log levels debug and info, with all logrus output captured (hook: message + every field;
// writer: formatted line). One single-threaded worker process per (dialect, shard): dialect and
// logrus configuration are process-wide, and a single thread makes every captured entry
// attributable to the statement being processed.
// Oracle: no marker core in any redacted string, in any captured log entry, in the query
// capture file; the redacted string re-parses to the shape of the original with literals
// wild-carded; unparsable statements (and their literals) appear in no redacted string and no
// log entry - the configured parse-error capture file is exempt.
package main

import (
	"flag"
	"fmt"
	"os"

	"verif/ev"
	"verif/fx"
	"verif/sqlgen"
)

var (
	workerDialect = flag.String("worker", "", "internal: run as the worker of this dialect")
	shard         = flag.Int("shard", 0, "internal: shard index")
	shards        = flag.Int("shards", 1, "internal: number of shards of this dialect")
	outFile       = flag.String("out", "", "internal: worker result file")
)

// shardsPerDialect: 16 single-threaded workers in total.
var shardsPerDialect = map[string]int{sqlgen.MySQL: 6, sqlgen.PostgreSQL: 6, sqlgen.MySQLANSI: 4}

func main() {
	r := ev.New("C16", "model_checking")

	if r.Replay != "" {
		var sr sessReplay
		r.LoadReplay(&sr)
		if sr.Part == "sessions" {
			sessionPart(r)
			r.Finish()
		}
		var c caseT
		r.LoadReplay(&c)
		sqlgen.Install(c.Dialect)
		col := sqlgen.NewCollector()
		env := newEnv()
		fmt.Printf("replay [%s] %s statement %q\n", c.Dialect, c.Kind, c.SQL)
		evalCase(col, env, c, true)
		env.close(col)
		tmp := fx.Scratch("c16r")
		col.Dump(tmp + "/r.json")
		sqlgen.Merge(r, tmp+"/r.json", c.Dialect)
		os.RemoveAll(tmp)
		r.Finish()
	}

	if *workerDialect != "" {
		sqlgen.Install(*workerDialect)
		col := sqlgen.NewCollector()
		runWorker(r, col)
		col.Dump(*outFile)
		return
	}

	scratch := fx.Scratch("c16")
	var workers []sqlgen.Worker
	for _, d := range sqlgen.Dialects {
		n := shardsPerDialect[d]
		for k := 0; k < n; k++ {
			workers = append(workers, sqlgen.Worker{Label: fmt.Sprintf("%s/%d", d, k),
				Args: []string{"-worker", d, "-shard", fmt.Sprint(k), "-shards", fmt.Sprint(n)}})
		}
	}
	var common []string
	if b := flag.Lookup("budget"); b != nil && b.Value.String() != "0s" {
		common = append(common, "-budget", b.Value.String())
	}
	sqlgen.RunWorkers(r, scratch, workers, common)
	os.RemoveAll(scratch)
	sessionPart(r)

	r.Rule("state = one distinct statement text in one dialect configuration (mysql, mysql-ansi, postgresql): every literal template (one per literal position named in the property: select list, conditions, IN lists, BETWEEN, LIKE, function arguments, VALUES rows, SET clauses, LIMIT/OFFSET, HAVING, sub-selects, unions, plus RETURNING / UPDATE..FROM / DELETE) and every (statement context x expression form) of the sqlgen grammar with literal operands, with a unique marker at each literal position in turn in every spelling (single-quoted, E'..' (PostgreSQL), \"..\" (MySQL), integer, decimal, exponent, negative) and at every pair of positions (templates: every pair of spellings; grammar forms: same spelling), other positions holding a neutral literal; thorough adds every chain of two core forms with the marker innermost; plus unparsable statements carrying markers. transition = one call of a redaction entry point or of AcraCensor.HandleQuery under one (censor configuration, log level); trace = one statement taken through all entry points and configurations. distinct_nontrivial = distinct (dialect, statement family, literal position, spelling, outcome) tuples")
	r.Set("censor_configurations", configNames())
	r.Set("log_levels", []string{"debug", "info"})
	r.Set("redaction_entry_points", []string{"sqlparser.RedactSQLQuery", "Parser{strict}.HandleRawSQLQuery", "Parser{default}.HandleRawSQLQuery"})
	r.Assume("log level is the logrus level only; acra-server -d additionally switches the tokenizer and yacc error messages to verbose mode, which quote the offending token by design (SetTokenizerVerbosity) - that mode is not modelled",
		"proxy sessions (sessions.go) run a menu of statements, not the literal space of the workers: for the literal space the proxies are taken to log exactly the second result of Parser.HandleRawSQLQuery (field sql) and whatever AcraCensor.HandleQuery logs",
		"hex and bit literals are not in the property's list of spellings and are not generated",
		"a marker is recognised by its core (zqjmarker, 98765, 9.8765), searched case-insensitively in every redacted string, every log message, every log field value and every formatted log line")
	r.Finish()
}

var _ = ev.Hex
