package main

// acra-backup-cli: the shipped (deprecated but still built and documented) whole-store backup
// command, driven as a real process on real directories:
//
//	ACRA_MASTER_KEY=<source master key> acra-backup --action=export --keys_private_dir=<src> --file=<f>
//	   (prints "Backup master key: <base64>" - the access key - and writes the bundle to <f>)
//	BACKUP_MASTER_KEY=<access key> ACRA_MASTER_KEY=<target master key> acra-backup --action=import --keys_private_dir=<dst> --file=<f>
//
// It is filesystem.KeyBackuper.Export(nil, ExportAllKeys) / Import behind a main(): the same
// expectations as v1-backuper "all/all" apply (whole folder, history included). The binary is
// built by the check itself from the repository under test (VERIF_REPO / VERIF_MODFILE).

import (
	"crypto/sha256"
	"encoding/base64"
	"fmt"
	"os"
	"os/exec"
	"path/filepath"
	"regexp"
	"strings"

	"verif/ev"
	"verif/kslab"
)

const PathCLI = "acra-backup-cli"

var cliBin, cliDir string

func buildCLI() {
	// (under VERIF_SCRATCH = /dev/shm when available: starting a 27 MB binary from the disk of
	// this VM costs seconds, from tmpfs 0.1 s)
	var err error
	if cliDir, err = kslab.Scratch("c18-cli"); err != nil {
		ev.Fatalf("scratch: %v", err)
	}
	cliBin = filepath.Join(cliDir, "acra-backup")
	args := []string{"build"}
	if m := os.Getenv("VERIF_MODFILE"); m != "" {
		args = append(args, "-modfile", m)
	}
	args = append(args, "-o", cliBin, "github.com/cossacklabs/acra/cmd/acra-backup")
	c := exec.Command("go", args...)
	c.Dir = filepath.Join(ev.Root, "mc")
	c.Env = append(os.Environ(), "GOFLAGS=-mod=mod", "GOPROXY=off", "GOSUMDB=off", "GOTOOLCHAIN=local")
	if out, err := c.CombinedOutput(); err != nil {
		os.RemoveAll(cliDir)
		ev.Fatalf("cannot build acra-backup from the repository under test: %v\n%s", err, out)
	}
}

func cleanupCLI() {
	if cliDir != "" {
		os.RemoveAll(cliDir)
	}
}

var logTimeRe = regexp.MustCompile(`time="[^"]*" `)
var backupKeyRe = regexp.MustCompile(`Backup master key: ([A-Za-z0-9+/=]+)`)

type cliError struct {
	code int
	out  string
}

func (e *cliError) Error() string {
	lines := strings.Split(strings.TrimSpace(e.out), "\n")
	return fmt.Sprintf("exit status %d: %s", e.code, logTimeRe.ReplaceAllString(lines[len(lines)-1], ""))
}

func runCLIProc(env []string, args ...string) (string, error) {
	c := exec.Command(cliBin, args...)
	c.Dir = cliDir // no config file there: defaults only
	c.Env = append([]string{"PATH=" + os.Getenv("PATH"), "HOME=" + cliDir}, env...)
	out, err := c.CombinedOutput()
	if err != nil {
		code := -1
		if ee, ok := err.(*exec.ExitError); ok {
			code = ee.ExitCode()
		}
		return string(out), &cliError{code, string(out)}
	}
	return string(out), nil
}

func b64(b []byte) string { return base64.StdEncoding.EncodeToString(b) }

// dirSnap hashes a real directory tree (names, modes, content).
func dirSnap(dir string) [32]byte {
	h := sha256.New()
	filepath.Walk(dir, func(p string, fi os.FileInfo, err error) error {
		if err != nil {
			fmt.Fprintf(h, "ERR %q %v;", p, err)
			return nil
		}
		rel, _ := filepath.Rel(dir, p)
		fmt.Fprintf(h, "%q %v %o %d:", rel, fi.IsDir(), fi.Mode().Perm(), fi.Size())
		if !fi.IsDir() {
			b, _ := os.ReadFile(p)
			h.Write(b)
		}
		return nil
	})
	var out [32]byte
	copy(out[:], h.Sum(nil))
	return out
}

// cliTamperings: first / middle / last byte of the bundle, first / last byte of the access
// key (xor 0x01) and wrong access keys - a process per attempt; in a replay every position.
func cliTamperings(t Tuple, b Bundle) []Tuple {
	if opt.replaying {
		return tamperingsSparse(t, b, 4)
	}
	n, m := len(b.Data), len(b.Access)
	var out []Tuple
	mk := func(kind string, pos int) {
		tt := t
		tt.Tamper, tt.Pos, tt.Mask = kind, pos, 0x01
		if kind == "wrong-keys" {
			tt.Pos, tt.Mask = 0, 0
		}
		out = append(out, tt)
	}
	if n > 0 {
		mk("bundle", 0)
		mk("bundle", n/2)
		mk("bundle", n-1)
	}
	if m > 0 {
		mk("access", 0)
		mk("access", m-1)
	}
	mk("wrong-keys", 0)
	return out
}

// runCLIState: every tuple of one source state on the acra-backup command.
func runCLIState(r *ev.Run, out *sink, st srcState, only *Tuple) {
	src, err := buildSource(PathCLI, st)
	if err != nil {
		ev.Fatalf("source: %v", err)
	}
	defer src.lab.Close()
	pop := populated(src.state)
	base := Tuple{Path: PathCLI, History: st.Hist, Sel: Selection{All: true}, Mode: ModeAll}
	work, err := os.MkdirTemp(cliDir, "run-")
	if err != nil {
		ev.Fatalf("%v", err)
	}
	defer os.RemoveAll(work)
	file := filepath.Join(work, "backup.bin")
	srcKeys := kslab.DefaultMasterKeys()
	log, xerr := runCLIProc([]string{"ACRA_MASTER_KEY=" + b64(srcKeys.V1)}, "--action=export", "--keys_private_dir="+src.lab.S.Dir, "--file="+file)
	r.Transitions(1)
	var b Bundle
	if xerr == nil {
		m := backupKeyRe.FindStringSubmatch(log)
		data, rerr := os.ReadFile(file)
		switch {
		case m == nil:
			xerr = fmt.Errorf("export printed no backup master key: %s", log)
		case rerr != nil:
			xerr = fmt.Errorf("export wrote no file: %v", rerr)
		default:
			b.Data = data
			b.Access, _ = base64.StdEncoding.DecodeString(m[1])
		}
	}
	fs, usable := judgeExport(src, base, &b, xerr)
	r.Eval(1)
	out.report(fs)
	if !usable {
		r.Class(PathCLI+"/export:"+errClass(xerr), 1)
		r.Distinct(strings.Join([]string{PathCLI, ModeAll, selClass(base.Sel, src.state), "-", "export:" + errClass(xerr)}, "|"))
		if opt.trace {
			fmt.Printf("  %s -> export unusable: %v\n", base, xerr)
		}
		return
	}
	targets := []string{TgtEmpty, TgtSame, TgtOther}
	if len(st.Hist) > cliTargetsDepth && only == nil {
		targets = targets[:1]
	}
	for _, target := range targets {
		if only != nil && only.Target != target {
			continue
		}
		t := base
		t.Target = target
		tgt, err := buildTarget(PathCLI, target, t.Sel, pop)
		if err != nil {
			ev.Fatalf("%v", err)
		}
		r.States(1)
		r.Traces(1)
		before := physViews(tgt.S)
		imp := func(data, access []byte) error {
			f := filepath.Join(work, "in.bin")
			if err := os.WriteFile(f, data, 0o600); err != nil {
				ev.Fatalf("%v", err)
			}
			_, err := runCLIProc([]string{"ACRA_MASTER_KEY=" + b64(targetKeys().V1), "BACKUP_MASTER_KEY=" + b64(access)}, "--action=import", "--keys_private_dir="+tgt.S.Dir, "--file="+f)
			r.Transitions(1)
			return err
		}
		// tampering (a process per attempt: sparse positions only)
		snap := dirSnap(tgt.S.Dir)
		var tampers []Tuple
		if only != nil || (target == TgtEmpty && len(st.Hist) <= cliTamperDepth) {
			tampers = cliTamperings(t, b)
		}
		for _, tt := range tampers {
			if only != nil && only.Tamper != "" && (only.Tamper != tt.Tamper || only.Pos != tt.Pos || only.Mask != tt.Mask) {
				continue
			}
			bb, _ := applyTamper(tt, b)
			ierr := imp(bb.Data, bb.Access)
			r.Eval(1)
			after := dirSnap(tgt.S.Dir)
			cls := tt.Tamper + ":rejected"
			switch {
			case ierr == nil:
				cls = tt.Tamper + ":ACCEPTED"
				out.report([]finding{{fmt.Sprintf("C18/%s/%s/import-accepts-altered-input", t.Path, tamperClass(tt)), fmt.Sprintf("import succeeded although %s (target %s)", tamperText(tt), changedText(after != snap)), tt}})
			case after != snap:
				cls = tt.Tamper + ":rejected-but-target-changed"
				out.report([]finding{{fmt.Sprintf("C18/%s/%s/rejected-import-changed-target", t.Path, tamperClass(tt)), fmt.Sprintf("import failed (%v) with %s but the target's stored bytes changed", ierr, tamperText(tt)), tt}})
			}
			r.Class(PathCLI+"/"+cls, 1)
			r.Distinct(strings.Join([]string{PathCLI, t.Mode, t.Target, cls}, "|"))
			if after != snap {
				tgt.Close()
				if tgt, err = buildTarget(PathCLI, target, t.Sel, pop); err != nil {
					ev.Fatalf("%v", err)
				}
				before = physViews(tgt.S)
				snap = dirSnap(tgt.S.Dir)
			}
		}
		ierr := imp(b.Data, b.Access)
		after := afterViews(r, src, t, tgt.S)
		fs, outcome := judgeImport(src, t, nil, before, after, ierr)
		r.Eval(1)
		out.report(fs)
		r.Class(PathCLI+"/import:"+outcome, 1)
		r.Distinct(strings.Join([]string{PathCLI, t.Mode, selClass(t.Sel, src.state), t.Target, outcome}, "|"))
		if opt.trace {
			fmt.Printf("  %s -> %s (err=%v) bundle=%dB findings=%d\n", t, outcome, ierr, len(b.Data), len(fs))
		}
		tgt.Close()
	}
}
