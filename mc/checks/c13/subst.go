package main

import (
	"bytes"
	"context"
	"fmt"
	"strings"

	"github.com/cossacklabs/acra/encryptor/mysql"
	"github.com/cossacklabs/acra/sqlparser"

	"verif/ev"
	"verif/par"
	"verif/sqlgen"
)

// menu of substituted byte strings (what an encryptor / tokenizer / hasher may produce).
type menuItem struct {
	Name  string
	Bytes []byte
}

func substMenu() []menuItem {
	high := make([]byte, 0, 128)
	for b := 0x80; b <= 0xff; b++ {
		high = append(high, byte(b))
	}
	all := make([]byte, 256)
	for i := range all {
		all[i] = byte(i)
	}
	return []menuItem{
		{"ascii-marker", []byte("zqjmarker")},
		{"single-quote", []byte("a'b")},
		{"two-single-quotes", []byte("''")},
		{"double-quote", []byte(`a"b`)},
		{"backtick", []byte("a`b")},
		{"backslash", []byte(`a\b`)},
		{"trailing-backslash", []byte(`ab\`)},
		{"backslash-quote", []byte(`\'`)},
		{"backslash-x-prefix", []byte(`\x41`)},
		{"backslash-x-prefix-quote", []byte(`\x'`)},
		{"nul", []byte("a\x00b")},
		{"ctrl-z", []byte("a\x1ab")},
		{"control-chars", []byte("\n\r\t\b")},
		{"percent-underscore", []byte("50%_x")},
		{"backslash-percent", []byte(`\%\_`)},
		{"high-bytes", high},
		{"single-high-byte", []byte{0x80}},
		{"all-bytes", all},
		{"utf8-multibyte", []byte("é€😀")},
		{"comment-like", []byte("x-- y/*z*/#")},
		{"injection-like", []byte("'; drop table t; --")},
		{"placeholder-like", []byte("? :v1 $1 ::x")},
		{"digits", []byte("0123")},
		{"negative-int", []byte("-17")},
		{"empty", []byte{}},
	}
}

var substCoder = &mysql.DBDataCoder{}

// substitute replaces the literal the way the MySQL query encryptor does:
// encryptor/mysql.UpdateExpressionValue (coder.Decode, updateFunc, coder.Encode, val.Val = coded).
func substitute(val *sqlparser.SQLVal, data []byte) error {
	return mysql.UpdateExpressionValue(context.Background(), val, substCoder, nil, func(context.Context, []byte) ([]byte, error) {
		return data, nil
	})
}

func substitutable(v *sqlparser.SQLVal) bool {
	switch v.Type {
	case sqlparser.StrVal, sqlparser.HexVal, sqlparser.IntVal, sqlparser.HexNum, sqlparser.PgEscapeString:
		return true // the types UpdateExpressionValue touches
	}
	return false
}

// substStatements: the seeds plus every literal spelling of the grammar in every context.
func substStatements(seeds []string) []string {
	out := append([]string{}, seeds...)
	seen := map[string]bool{}
	for _, s := range seeds {
		seen[s] = true
	}
	for _, c := range sqlgen.Contexts() {
		for _, a := range sqlgen.Atoms() {
			s := c.Pre + a + c.Post
			if seen[s] {
				continue
			}
			seen[s] = true
			t, err, pp := sqlgen.Parse(s)
			if err != nil || pp != "" || !sqlgen.IsDML(t) {
				continue
			}
			out = append(out, s)
		}
	}
	// statements whose plain round trip already fails are reported by phases (a)/(b); here
	// they would only repeat that finding under substitution keys
	scratch := sqlgen.NewCollector()
	var ok []string
	for _, s := range out {
		if o, _ := roundTrip(scratch, caseT{Dialect: sqlgen.Current, Kind: "subst", SQL: s}); o == oOK {
			ok = append(ok, s)
		}
	}
	return ok
}

func runSubst(r *ev.Run, expired func() bool, col *sqlgen.Collector, seeds []string) {
	d := sqlgen.Current
	if !sqlgen.IsMySQL() {
		col.Info("subst_skipped", "PostgreSQL substitutes through pg_query (encryptor/postgresql), not through sqlparser")
		return
	}
	stmts := substStatements(seeds)
	menu := substMenu()
	type job struct {
		stmt, lit int
	}
	var jobs []job
	for i, s := range stmts {
		t := mustParse(s)
		for k, sl := range sqlgen.Literals(t) {
			if strings.HasPrefix(sl.Path, "Nextval.") {
				// `select next <n> values from seq` (Vitess sequence syntax): the grammar takes
				// only an integer or a placeholder there, no encryptor ever substitutes it
				continue
			}
			if substitutable(sl.Get().(*sqlparser.SQLVal)) {
				jobs = append(jobs, job{i, k})
			}
		}
	}
	col.Info("subst_statements", len(stmts))
	col.Info("subst_literals", len(jobs))
	col.Info("subst_menu", len(menu))
	tl := newTally()
	done := par.Do(len(jobs), expired, func(i int) {
		j := jobs[i]
		for _, m := range menu {
			c := caseT{Dialect: d, Kind: "subst", SQL: stmts[j.stmt], Index: j.lit, Bytes: ev.Hex(m.Bytes), Menu: m.Name}
			tl.add(substOne(col, c))
		}
	})
	acc := tl.flush(col, "subst")
	col.States(int(acc))
	if done < len(jobs) {
		col.Capped(fmt.Sprintf("wall budget: substitution stopped after %d of %d literals", done, len(jobs)))
	}
	if len(jobs) > 0 {
		j := jobs[len(jobs)/2]
		col.Sample(caseT{Dialect: d, Kind: "subst", SQL: stmts[j.stmt], Index: j.lit, Bytes: ev.Hex(menu[3].Bytes), Menu: menu[3].Name})
	}
}

// substOne executes one substitution: parse, replace literal #Index, print, re-parse; the
// re-parsed tree must equal the tree that was printed (which holds the substituted node), the
// substituted node must decode (coder.Decode, as Acra would read it back) to exactly the
// substituted bytes, and printing must be a fixpoint.
func substOne(col *sqlgen.Collector, c caseT) string {
	data := ev.Unhex(c.Bytes)
	col.Transitions(1)
	T := mustParse(c.SQL)
	lits := sqlgen.Literals(T)
	if c.Index >= len(lits) {
		ev.Fatalf("substitution: literal index %d out of range for %q", c.Index, c.SQL)
	}
	val := lits[c.Index].Get().(*sqlparser.SQLVal)
	origType := val.Type
	err := substitute(val, data)
	if err != nil {
		if err == mysql.ErrUpdateLeaveDataUnchanged {
			return "unchanged"
		}
		return "subst-error"
	}
	col.Transitions(1)
	// finding keys name the literal kind before -> after substitution, not the menu entry:
	// one escaping defect fails on many byte strings
	kind := fmt.Sprintf("subst/valtype%d-to-%d", origType, val.Type)
	if len(val.CastType) > 0 {
		kind += "-cast"
	}
	out := checkTree(col, c, T, T, kind)
	if out != oOK {
		return out
	}
	// the node, as re-parsed, must hold exactly the substituted bytes
	s, _ := sqlgen.Print(T)
	t1 := mustParse(s)
	col.Transitions(2)
	l1 := sqlgen.Literals(t1)
	if c.Index >= len(l1) {
		col.Violation("C13/"+kind+"/literal-lost", fmt.Sprintf("[%s] after substituting literal %d of %q by %q the sent text %q has fewer literals", c.Dialect, c.Index, c.SQL, data, s), c)
		return "tree-differs"
	}
	got, derr := substCoder.Decode(l1[c.Index].Get(), nil)
	if derr != nil || !bytes.Equal(got, data) {
		col.Violation("C13/"+kind+"/other-bytes",
			fmt.Sprintf("[%s] literal %d of %q substituted by %q: sent text %q carries %q (decode error %v)", c.Dialect, c.Index, c.SQL, data, s, got, derr), c)
		return "tree-differs"
	}
	col.Distinct(fmt.Sprintf("%s|subst|%s|%d->%d|%s|ok", c.Dialect, lits[c.Index].Path, origType, val.Type, c.Menu))
	return oOK
}
