package main

import (
	"fmt"
	"sort"
	"strings"
	"sync"
	"sync/atomic"

	"github.com/cossacklabs/acra/sqlparser"
	pg_query "github.com/cossacklabs/pg_query_go/v5"

	"verif/par"
	"verif/sqlgen"
)

// Phase "observers": every statement of the space (obs_space.go) goes through the observer
// chain of a real proxy (obs_env.go); the text the proxy would send to the database is parsed
// again and compared with the parse of the received text under the oracle of obs_my.go /
// obs_pg.go.

type obsItem struct {
	SQL  string
	Desc *obsDesc
}

// obsTally counts outcome classes.
type obsTally struct {
	mu sync.Mutex
	m  map[string]int
}

func (t *obsTally) add(k string) {
	t.mu.Lock()
	t.m[k]++
	t.mu.Unlock()
}

func obsAssignItems(sp *obsCmpSpace, thorough bool) []obsItem {
	var assign []obsItem
	seen := map[string]bool{}
	for _, a := range obsAssignStatements(sp.spell, thorough) {
		if seen[a.SQL] {
			continue
		}
		seen[a.SQL] = true
		assign = append(assign, obsItem{a.SQL, a.Desc})
	}
	return assign
}

// interleaveKinds reorders the items so that the k-th items of all statement kinds follow each
// other (stable within a kind): a capped chunk has covered every kind to the same depth.
func interleaveKinds(items []obsItem) []obsItem {
	type ranked struct {
		it   obsItem
		rank int
		ord  int
	}
	seen := map[string]int{}
	r := make([]ranked, len(items))
	for i, it := range items {
		k := it.Desc.StmtKind
		r[i] = ranked{it, seen[k], i}
		seen[k]++
	}
	sort.SliceStable(r, func(a, b int) bool {
		if r[a].rank != r[b].rank {
			return r[a].rank < r[b].rank
		}
		return r[a].ord < r[b].ord
	})
	out := make([]obsItem, len(items))
	for i := range r {
		out[i] = r[i].it
	}
	return out
}

func runObservers(expired func() bool, thorough bool, col *sqlgen.Collector) {
	d := sqlgen.Current
	env := getObsEnv()
	defer env.close()
	sp := newObsCmpSpace(thorough)
	first := env.get()
	col.Info("observers_chain", observerNames(managerOf(first)))
	env.put(first)
	col.Info("observers_dimensions", sp.dims())
	tl := &obsTally{m: map[string]int{}}
	var accepted atomic.Int64
	run := func(what string, items []obsItem) bool {
		done := par.Do(len(items), expired, func(i int) {
			c := caseT{Dialect: d, Kind: "observers", SQL: items[i].SQL, Obs: items[i].Desc}
			out := observeOne(col, env, c)
			tl.add(out)
			if out != oRejected {
				accepted.Add(1)
			}
		})
		if done < len(items) {
			col.Capped(fmt.Sprintf("wall budget: observers phase stopped in %s after %d of its %d statements; everything after it in the order assignments, then operators %s was not run",
				what, done, len(items), strings.Join(opNames(sp.ops), ", ")))
			return false
		}
		return true
	}
	// Order of evaluation (a wall-budget cap cuts the tail): the assignment statements, then the
	// comparison statements operator by operator in the order of obsOps.
	assign := obsAssignItems(sp, thorough)
	col.Info("observers_assignment_statements_generated", len(assign))
	generated, complete := 0, run("the assignment statements", assign)
	perOp := map[string]int{}
	var sample *obsItem
	for _, op := range sp.ops {
		if !complete {
			break
		}
		var items []obsItem
		sp.enumerateOp(thorough, op, func(sql string, dd *obsDesc) { items = append(items, obsItem{sql, dd}) })
		generated += len(items)
		perOp[op.Name] = len(items)
		if sample == nil && len(items) > 0 {
			it := items[len(items)/3]
			sample = &it
		}
		complete = run("operator "+op.Name, interleaveKinds(items))
	}
	col.Info("observers_comparison_statements_generated", generated)
	col.Info("observers_comparison_statements_by_operator", perOp)
	keys := make([]string, 0, len(tl.m))
	for k := range tl.m {
		keys = append(keys, k)
	}
	sort.Strings(keys)
	for _, k := range keys {
		col.Class("observers:"+k, tl.m[k])
	}
	col.States(int(accepted.Load()))
	col.Info("observers_statements_accepted", accepted.Load())
	if sample != nil {
		col.Sample(caseT{Dialect: d, Kind: "observers", SQL: sample.SQL, Obs: sample.Desc})
	}
}

func opNames(ops []obsOp) []string {
	out := make([]string, len(ops))
	for i, o := range ops {
		out[i] = o.Name
	}
	return out
}

// classBareWord: one defect of the value encoder whatever the statement around the comparison
// is - its key names the operands (column family, spelling of the constant), not the statement kind.
const classBareWord = "substituted-constant-not-sent-as-a-constant"

const classIntroducerLost = "binary-introducer-lost-value-not-substituted"

func obsKey(c caseT, feature, class string) string {
	feature = strings.NewReplacer("/", "-", " ", "-").Replace(feature)
	if class == classBareWord {
		return fmt.Sprintf("C13/observers/%s/any-statement/%s/%s", c.Dialect, feature, class)
	}
	return fmt.Sprintf("C13/observers/%s/%s/%s/%s", c.Dialect, c.Obs.StmtKind, feature, class)
}

// featureFor picks the part of the statement that characterises a failure class.
func featureFor(d *obsDesc, class string) string {
	switch class {
	case classBareWord:
		l := strings.TrimPrefix(d.LClass, "col:")
		switch {
		case isSearchableClass(l):
			l = "searchable"
		case isTokenClass(l):
			l = "tokenized"
		}
		if d.RClass == "value" { // assignment statements
			return "assigned-to-" + l + "-" + d.Right
		}
		return l + "-vs-" + d.Right
	case "operand-altered", classIntroducerLost:
		// column classes by family: one defect of the rewrite does not depend on the envelope
		// or token type of the column
		fam := func(c string) string {
			c = strings.TrimPrefix(c, "col:")
			switch {
			case isSearchableClass(c):
				return "searchable"
			case isTokenClass(c):
				return "tokenized"
			case c == "":
				return "none"
			}
			return c
		}
		r := fam(d.RClass)
		if strings.HasPrefix(d.RClass, "col:") {
			r = "col-" + r
		}
		return fam(d.LClass) + "-vs-" + r
	case "panic":
		if d.Left == "substr-of-searchable" {
			return d.Left
		}
		if d.Ctx != "" && d.Ctx != "alone" {
			return d.Ctx
		}
	}
	return d.Feature
}

var obsShown atomic.Int64

// observeOne is the oracle on one statement.
func observeOne(col *sqlgen.Collector, env *obsEnv, c caseT) string {
	if c.Obs == nil {
		c.Obs = &obsDesc{StmtKind: "unknown", Feature: "unknown"}
	}
	d := c.Obs
	pg := sqlgen.IsPG()
	// is the statement in the space? (accepted by the dialect's own parser)
	var t0pg jmap
	col.Transitions(1)
	var t0my sqlparser.Statement
	if pg {
		var err error
		if t0pg, err = pgTree(c.SQL); err != nil {
			return oRejected
		}
	} else {
		var err error
		var pp string
		t0my, err, pp = sqlgen.Parse(c.SQL)
		if err != nil || pp != "" || !sqlgen.IsDML(t0my) {
			return oRejected
		}
	}
	chain := env.get()
	col.Transitions(1)
	res := chain.send(c.SQL)
	col.Eval(1)
	col.Traces(1)
	if res.Panic != "" {
		// the chain's state after a panic is unknown: do not reuse it
		col.Violation(obsKey(c, featureFor(d, "panic"), "panic"),
			fmt.Sprintf("[%s] observer chain panicked on %q: %s", c.Dialect, c.SQL, res.Panic), c)
		return "panic"
	}
	env.put(chain)
	obsClass := func(out string) string {
		col.Distinct(fmt.Sprintf("%s|observers|%s|%s|%s|%s|%s|%s", c.Dialect, d.StmtKind, d.Feature, d.LClass, d.RClass, d.Ctx, out))
		return out
	}
	if res.QueryErr != "" {
		// PostgreSQL: the changed statement cannot be serialised; the proxy fails the packet
		// and sends nothing (not a statement with another meaning)
		return obsClass("changed-statement-not-serialisable")
	}
	if !res.Changed {
		if res.Err != "" {
			return obsClass("observer-error-received-text-forwarded")
		}
		return obsClass("unchanged")
	}
	if res.Sent == c.SQL {
		return obsClass("changed-flag-same-text")
	}
	col.Transitions(1)
	var diff, shape, class, introCause string
	if pg {
		t1, err := pgTree(res.Sent)
		if err != nil {
			if why := pgDeparseAlone(c.SQL); why != "" {
				col.Violation(pgDeparseKey(c, "reparse-fails"),
					fmt.Sprintf("[%s] pg_query's deparser alone (no substitution involved) turns the received statement into a text that %s; the observers changed the statement, so this is what goes to the database: received %q, sent %q", c.Dialect, why, c.SQL, clip(res.Sent, 600)), c)
				return "reparse-fails-deparser-alone"
			}
			if d.RClass == "lit" && isProtectedClass(strings.TrimPrefix(d.LClass, "col:")) {
				// a protected column compared with a constant, and pg_query alone prints the
				// statement correctly: the constant was substituted by something that is not the
				// spelling of a constant. What the text then is (unparsable, a column reference)
				// depends on the substituted bytes (a random token): one class, one key.
				col.Violation(obsKey(c, featureFor(d, classBareWord), classBareWord),
					fmt.Sprintf("[%s] the constant compared with a protected column was replaced by text that is not a constant; the text sent to the database does not parse: received %q, sent %q: %v", c.Dialect, c.SQL, clip(res.Sent, 600), err), c)
				return classBareWord
			}
			col.Violation(obsKey(c, featureFor(d, "reparse-fails"), "reparse-fails"),
				fmt.Sprintf("[%s] the text sent to the database does not parse: received %q, sent %q: %v", c.Dialect, c.SQL, res.Sent, err), c)
			return "reparse-fails"
		}
		u := pgUndo(t0pg, t1, d)
		shape = u.shape()
		if diff = pgDiff(t0pg, t1, ""); diff != "" {
			class = pgDiffClass(diff)
			if strings.Contains(diff, "node type A_Const vs ") {
				// a constant of the received statement stands in the sent text as a bare word
				// (read as a column reference, a parameter, ...)
				class = classBareWord
			}
			if why := pgDeparseAlone(c.SQL); why != "" {
				col.Violation(pgDeparseKey(c, class),
					fmt.Sprintf("[%s] pg_query's deparser alone (no substitution involved) turns the received statement into a text that %s; the observers changed the statement, so this is what goes to the database: received %q, sent %q; first difference %s", c.Dialect, why, c.SQL, clip(res.Sent, 600), clip(diff, 300)), c)
				return class + "-deparser-alone"
			}
		}
	} else {
		t0 := t0my // the observers work on their own parses of the text, never on this tree
		t1, err, pp := sqlgen.Parse(res.Sent)
		if pp != "" || err != nil {
			col.Violation(obsKey(c, featureFor(d, "reparse-fails"), "reparse-fails"),
				fmt.Sprintf("[%s] the text sent to the database does not parse: received %q, sent %q: %v %s", c.Dialect, c.SQL, res.Sent, err, pp), c)
			return "reparse-fails"
		}
		u := myUndo(t0, t1, d)
		shape = u.shape()
		if diff = sqlgen.Diff(t0, t1, cmpOpts); diff != "" {
			class = myDiffClass(diff)
			if myIntroducerLost(t0, t1) {
				// one defect whatever the statement kind; what differs between defects is why the
				// statement was re-serialised at all: a value assigned to a protected column was
				// substituted (another observer's work), another comparison was rewritten, or both
				class = classIntroducerLost
				cmp := u.wrapOne + u.wrapBoth + u.opFam + u.cmpLit
				switch {
				case u.assignLit > 0 && cmp == 0:
					introCause = "re-serialised-for-an-assigned-value"
				case u.assignLit == 0 && cmp > 0:
					introCause = "re-serialised-for-another-comparison"
				default:
					introCause = "re-serialised-for-an-assigned-value-and-another-comparison"
				}
			}
		}
	}
	if diff != "" {
		key := obsKey(c, featureFor(d, class), class)
		if class == classIntroducerLost {
			key = fmt.Sprintf("C13/observers/%s/any-statement/%s/%s/%s", c.Dialect, featureFor(d, class), class, introCause)
		}
		col.Violation(key,
			fmt.Sprintf("[%s] the text sent to the database differs from the received statement by more than the documented substitutions: received %q, sent %q; first difference after undoing the permitted substitutions (%s): %s",
				c.Dialect, c.SQL, clip(res.Sent, 600), shape, clip(diff, 300)), c)
		return class
	}
	if obsShown.Add(1) <= 2 {
		col.Sample(map[string]interface{}{"dialect": c.Dialect, "kind": "observers", "received": c.SQL, "sent": clip(res.Sent, 400), "substitutions": shape})
	}
	return obsClass("ok:" + shape)
}

// pgDeparseAlone: Deparse(Parse(sql)) without any observer. Returns "" when the text parses
// back to the same tree, else what is wrong with it. Used to tell a defect of the
// serialiser the PostgreSQL observers depend on (github.com/cossacklabs/pg_query_go, not part
// of the repository) from a defect of the observers.
func pgDeparseAlone(sql string) string {
	t0, err := pgTree(sql)
	if err != nil {
		return ""
	}
	tree, err := pg_query.Parse(sql)
	if err != nil {
		return ""
	}
	text, err := pg_query.Deparse(tree)
	if err != nil {
		return ""
	}
	t1, err := pgTree(text)
	if err != nil {
		return fmt.Sprintf("does not parse (%q: %v)", text, err)
	}
	if d := pgDiff(t0, t1, ""); d != "" {
		return fmt.Sprintf("parses to another tree (%q: %s)", text, clip(d, 200))
	}
	return ""
}

// one key per context for all statement kinds and operators: it is one defect of the serialiser
func pgDeparseKey(c caseT, class string) string {
	ctx := c.Obs.Ctx
	if ctx == "" {
		ctx = c.Obs.Feature
	}
	return fmt.Sprintf("C13/observers/%s/pg_query-deparser-alone/%s/%s", c.Dialect, ctx, class)
}

func clip(s string, n int) string {
	if len(s) <= n {
		return s
	}
	return s[:n] + fmt.Sprintf("...(%d bytes)", len(s))
}

// observersReplay re-executes one element and prints what happened.
func observersReplay(col *sqlgen.Collector, c caseT) {
	env := getObsEnv()
	defer env.close()
	ch := env.get()
	res := ch.send(c.SQL)
	fmt.Printf("replay observers: received %q\n  sent %q\n  changed=%v error=%q panic=%q\n", c.SQL, clip(res.Sent, 2000), res.Changed, res.Err+res.QueryErr, res.Panic)
	out := observeOne(col, env, c)
	fmt.Printf("  outcome %s\n", out)
}
