package main

// Masked columns, value length against plaintext_length (both proxies).
//
// A masked column leaves plaintext_length bytes of one side visible and protects the rest. The
// property quantifies over all values: the lengths around plaintext_length are an input class of
// their own (nothing remains to protect when the value is not longer than plaintext_length; one
// byte remains when it is one byte longer). The main phases use plaintext_length 2 with values of
// 1, 5, 9, 33, 300 bytes - no value of exactly plaintext_length bytes. This phase enumerates
//
//	configurations  {acrablock, acrastruct} x plaintext_side {left, right} x plaintext_length n in
//	                {2, 6} (thorough: {1, 2, 3, 6, 16})
//	values          lengths {n-1 (when > 0), n, n+1} x {printable bytes, bytes with NUL / quote /
//	                backslash / 0x80 / 0xff}
//	histories       H1: one write statement - every write kind of the main alphabet (literal in every
//	                    spelling, schema order, multi-row, RETURNING, text / binary parameters, named
//	                    statement executed twice, prepared statements of MySQL) x every value;
//	                H2: INSERT of the printable value of a length, then every UPDATE / ON DUPLICATE KEY
//	                    UPDATE kind x every value;
//	                H3: INSERT of the printable value of a length, then every read kind of the main
//	                    alphabet (read by the writer)
//
// each executed from a fresh real proxy session against fresh protected and reference databases and
// followed by the audits of the owner and of the two readers that cannot reveal. Oracles: those of
// the main phases (pgcheck.Runner / mycheck.Runner) and, on the stored cells, (e) the stored value of
// a non-empty written value is never the plaintext itself, and never contains the part masking must
// hide when that part has 5 bytes or more. What masking must hide: the bytes outside the visible
// side; the WHOLE value when it is not longer than plaintext_length (a reader without keys must
// never receive the original value, so nothing of it may be stored or forwarded in clear).
// Permissive: the visible bytes of a longer value may reach the database in clear (documented
// meaning of plaintext_length); containment oracles skip byte strings shorter than 5 bytes.
//
// Finding keys: C04/mask-boundary/<length class>/<entry path>/<role>/<failure> and
// C04/mysql/mask-boundary/<length class>/...; entry path in {simple-query, extended-protocol,
// prepared-statement, audit-read} (the statement kind is in the message); length class in
// {len-below-n, len-eq-n, len-n-plus-1} (n = plaintext_length) of the value written by the statement
// the violation names (audits: of the last value written). Two-value statements write two values of
// the same length class. The configuration is named in the message and the replay file.

import (
	"bytes"
	"fmt"
	"os"
	"strings"
	"time"

	"github.com/cossacklabs/acra/keystore/filesystem"

	"verif/ev"
	"verif/fx"
	"verif/mycheck"
	"verif/par"
	"verif/pgcheck"
	"verif/sess"
)

type mbReplay struct {
	Part    string `json:"part"` // "pg-mask-boundary" / "mysql-mask-boundary"
	Config  string `json:"config"`
	History []hist `json:"history"` // value_index: index in mbValues(n)
	Detail  string `json:"detail,omitempty"`
}

type mbCfg struct {
	Env, Side string
	N         int
}

func (m mbCfg) pattern() string {
	if m.Side == "right" {
		return "**"
	}
	return "xxxx"
}

func (m mbCfg) maskLen() int {
	if m.Side == "right" {
		return -m.N
	}
	return m.N
}

func (m mbCfg) name() string {
	return fmt.Sprintf("%s-mask-%s%d", strings.TrimPrefix(m.Env, "acra"), m.Side, m.N)
}

func (m mbCfg) pg() pgcheck.ColCfg {
	return pgcheck.ColCfg{Name: m.name(),
		YAML: fmt.Sprintf("crypto_envelope: %s\n        masking: %q\n        plaintext_length: %d\n        plaintext_side: %s", m.Env, m.pattern(), m.N, m.Side),
		Prot: sess.OIDBytea, Shadow: sess.OIDBytea, Owner: fx.Alpha, Writer: fx.Alpha, Masked: true, MaskPat: m.pattern(), MaskLen: m.maskLen()}
}

func (m mbCfg) my() mycheck.Col { return mycheck.MaskedCol(m.Env, m.Side, m.N, m.pattern()) }

func mbCfgs(thorough bool) []mbCfg {
	ns := []int{2, 6}
	if thorough {
		ns = []int{1, 2, 3, 6, 16}
	}
	var out []mbCfg
	for _, env := range []string{"acrablock", "acrastruct"} {
		for _, side := range []string{"left", "right"} {
			for _, n := range ns {
				out = append(out, mbCfg{env, side, n})
			}
		}
	}
	return out
}

type mbVal struct {
	Class string
	B     []byte
}

// mbValues: lengths n-1, n, n+1, each printable and with the bytes statement spellings must escape
func mbValues(n int) []mbVal {
	var out []mbVal
	for _, l := range []int{n - 1, n, n + 1} {
		if l < 1 {
			continue
		}
		class := map[int]string{n - 1: "len-below-n", n: "len-eq-n", n + 1: "len-n-plus-1"}[l]
		// (no value is part of another one: the visible part of a longer value must not look like a shorter value)
		alpha := map[int][2]string{n - 1: {"Qz7#kPw0Xy-3", "\x00'\\\x80\xff\"%\x01\nz"}, n: {"Hm4&tRs9Lb+8", "'\x00\x81\\\xfe\"\x03;\r_"}, n + 1: {"Vc2!gNd5Jf=6", "\\'\x82\x00\xfd%\x04\"\x1a~"}}[l]
		out = append(out, mbVal{class, rep(l, alpha[0])}, mbVal{class, rep(l, alpha[1])})
	}
	return out
}

// mbHidden is what masking must keep away from the database and from readers without keys
func mbHidden(maskLen int, v []byte) []byte {
	switch {
	case maskLen > 0 && maskLen < len(v):
		return v[maskLen:]
	case maskLen < 0 && -maskLen < len(v):
		return v[:len(v)+maskLen]
	}
	return v
}

// mbStored is oracle (e) on one stored cell (p) of a written value (q)
func mbStored(maskLen int, p, q []byte, add func(key, format string, a ...interface{})) {
	if len(q) == 0 {
		return
	}
	if bytes.Equal(p, q) {
		add("audit/stored-equals-plaintext", "the stored value of the masked column is the plaintext itself: %.20q (%d bytes)", q, len(q))
		return
	}
	if h := mbHidden(maskLen, q); len(h) >= 5 && bytes.Contains(p, h) {
		add("audit/stored-contains-hidden-part", "the stored value of the masked column contains the part masking must hide: %.20q", h)
	}
}

// mbSub turns "<statement kind>/<role>/<failure>" into "<entry path>/<role>/<failure>": one defect
// shows under every statement kind of an entry path, so the key names the path (simple-query,
// extended-protocol / prepared-statement, audit-read) and the message the statement kind.
func mbSub(sub string) string {
	i := strings.Index(sub, "/")
	if i < 0 || sub[:i] == "audit" {
		return sub
	}
	kind, path := sub[:i], "simple-query"
	switch {
	case strings.HasPrefix(kind, "audit-"):
		path = "audit-read"
	case strings.HasPrefix(kind, "ext-"):
		path = "extended-protocol"
	case strings.HasPrefix(kind, "ps-"):
		path = "prepared-statement"
	}
	return path + sub[i:]
}

func mbIsUpdate(kind string) bool {
	return strings.Contains(kind, "update") // UPDATE and INSERT ... ON DUPLICATE KEY UPDATE kinds
}

// mbHistories builds H1, H2, H3 from the kinds each value admits. The first statement of H2 and H3
// writes the printable value of each length class (even value indices).
func mbHistories(nvals int, writeKinds func(vi int) []string, readKinds []string, baseInsert func(vi int) string) [][]hist {
	var out [][]hist
	for vi := 0; vi < nvals; vi++ {
		for _, k := range writeKinds(vi) {
			out = append(out, []hist{{Kind: k, K: 1, V: vi}})
		}
	}
	for v1 := 0; v1 < nvals; v1 += 2 {
		first := hist{Kind: baseInsert(v1), K: 1, V: v1}
		for vi := 0; vi < nvals; vi++ {
			for _, k := range writeKinds(vi) {
				if mbIsUpdate(k) {
					out = append(out, []hist{first, {Kind: k, K: 2, V: vi}})
				}
			}
		}
		for _, k := range readKinds {
			out = append(out, []hist{first, {Kind: k, K: 2, V: v1}})
		}
	}
	return out
}

// ---- PostgreSQL -------------------------------------------------------------------------------------

func mbBuildPG(c pgcheck.ColCfg, h hist, vals []mbVal) (pgcheck.Stmt, bool) {
	v, v2 := vals[h.V%len(vals)].B, vals[(h.V^1)%len(vals)].B // second value of two-value statements: same length, other alphabet
	for _, w := range writes(c, h.K, v, v2, true) {
		if w.Kind == h.Kind {
			// what must not reach the database: the part masking hides (the whole value when it is not
			// longer than plaintext_length). The whole of a longer value is not a usable needle: its
			// visible part is forwarded in clear next to random envelope bytes, which complete the value
			// by chance once in 256 when a single byte is hidden.
			for i, s := range w.Secrets {
				w.Secrets[i] = mbHidden(c.MaskLen, s)
			}
			return w, true
		}
	}
	for _, rd := range reads(c, 1, v, true) {
		if rd.Kind == h.Kind {
			return rd, true
		}
	}
	return pgcheck.Stmt{}, false
}

func mbRunPG(r *ev.Run, env *sess.PGEnv, m mbCfg, h []hist) (viol []pgcheck.Violation, harness string) {
	c := m.pg()
	vals := mbValues(m.N)
	var stmts []pgcheck.Stmt
	for _, x := range h {
		st, ok := mbBuildPG(c, x, vals)
		if !ok {
			ev.Fatalf("C04 mask boundary: unknown statement kind %s", x.Kind)
		}
		stmts = append(stmts, st)
	}
	rn := &pgcheck.Runner{Property: "C04", R: r, Env: env, Cfg: c,
		After: func(prot, shadow *sess.PGDB, add func(key, format string, a ...interface{})) {
			pt, st := prot.Tables["t"], shadow.Tables["t"]
			for i := 0; i < len(pt.Rows) && i < len(st.Rows); i++ {
				mbStored(c.MaskLen, pt.Rows[i][2], st.Rows[i][2], add)
			}
		}}
	viol, _, harness = rn.Run(stmts)
	return
}

// mbClass is the length class a violation is reported under: that of the value written by the
// statement the violation names; for violations of the audits, that of the last value written.
func mbClass(sub string, h []hist, vals []mbVal, isRead func(kind string) bool) string {
	kind := sub
	if i := strings.Index(sub, "/"); i >= 0 {
		kind = sub[:i]
	}
	for _, x := range h {
		if x.Kind == kind && !isRead(kind) {
			return vals[x.V%len(vals)].Class
		}
	}
	for i := len(h) - 1; i >= 0; i-- {
		if !isRead(h[i].Kind) {
			return vals[h[i].V%len(vals)].Class
		}
	}
	return vals[h[0].V%len(vals)].Class
}

func pgMaskBoundaryPhase(r *ev.Run, ks *filesystem.KeyStore, thorough bool, only *mbReplay) {
	defer phaseTime("mask boundary (PostgreSQL)")()
	total, kindsSeen := 0, map[string]bool{}
	for _, m := range mbCfgs(true) {
		c := m.pg()
		if only != nil && only.Config != c.Name {
			continue
		}
		if only == nil && !mbListed(m, thorough) {
			continue
		}
		env, err := sess.NewPGEnv(ks, sess.PGEnvOptions{EncryptorConfigYAML: c.ConfigYAML()})
		if err != nil {
			r.Violation("C04/mask-boundary/config-rejected", fmt.Sprintf("the configuration loader rejects masked configuration %s: %v", c.Name, err), mbReplay{Part: "pg-mask-boundary", Config: c.Name})
			continue
		}
		vals := mbValues(m.N)
		readSet := map[string]bool{}
		var readKinds []string
		for _, rd := range reads(c, 1, vals[0].B, thorough) {
			readKinds = append(readKinds, rd.Kind)
		}
		for _, rd := range reads(c, 1, vals[0].B, true) {
			readSet[rd.Kind] = true
		}
		hs := mbHistories(len(vals), func(vi int) []string {
			var ks []string
			for _, w := range writes(c, 1, vals[vi].B, vals[vi^1].B, thorough) {
				ks = append(ks, w.Kind)
			}
			return ks
		}, readKinds, func(int) string { return "insert-cols-lit0" })
		if only != nil {
			hs = [][]hist{only.History}
		}
		type outT struct {
			viol    []pgcheck.Violation
			harness string
			done    bool
		}
		outs := make([]outT, len(hs))
		done := par.Do(len(hs), r.Expired, func(i int) {
			v, hn := mbRunPG(r, env, m, hs[i])
			outs[i] = outT{v, hn, true}
			r.Eval(1)
			r.Traces(1)
		})
		if done < len(hs) {
			r.Capped(fmt.Sprintf("mask boundary (PostgreSQL): configuration %s: %d of %d histories", c.Name, done, len(hs)))
		}
		for i, o := range outs {
			if !o.done {
				continue
			}
			if o.harness != "" {
				ev.Fatalf("C04 mask boundary (PostgreSQL): configuration %s history %v: %s", c.Name, hs[i], o.harness)
			}
			isRead := func(k string) bool { return readSet[k] }
			class := mbClass("", hs[i], vals, isRead)
			var kl []string
			for _, x := range hs[i] {
				kl = append(kl, x.Kind)
				kindsSeen[x.Kind] = true
			}
			rp := mbReplay{Part: "pg-mask-boundary", Config: c.Name, History: hs[i]}
			for _, v := range o.viol {
				rp.Detail = v.Msg
				class := mbClass(strings.TrimPrefix(v.Key, "C04/"+c.Name+"/"), hs[i], vals, isRead)
				if only != nil {
					fmt.Println("replayed:", v.Key, "::", v.Msg)
				}
				r.Violation("C04/mask-boundary/"+class+"/"+mbSub(strings.TrimPrefix(v.Key, "C04/"+c.Name+"/")), v.Msg+" [configuration "+c.Name+", history "+strings.Join(kl, " > ")+"]", rp)
			}
			r.Distinct("mask-boundary|" + c.Name + "|" + class + "|" + strings.Join(kl, ">") + fmt.Sprint(len(o.viol) > 0))
			r.Class(map[bool]string{true: "mask-boundary-history-violating", false: "mask-boundary-history-ok"}[len(o.viol) > 0], 1)
		}
		total += len(hs)
		if r.Expired() {
			break
		}
	}
	if only != nil {
		return
	}
	r.States(total)
	r.Set("mask_boundary_pg_histories", total)
	r.Set("mask_boundary_pg_statement_kinds", len(kindsSeen))
}

// phaseTime prints the wall time of a phase when VERIF_PHASE_TIMES is set (cost accounting only)
func phaseTime(name string) func() {
	if os.Getenv("VERIF_PHASE_TIMES") == "" {
		return func() {}
	}
	t := time.Now()
	return func() { fmt.Fprintf(os.Stderr, "PHASE %s: %.1fs\n", name, time.Since(t).Seconds()) }
}

func mbListed(m mbCfg, thorough bool) bool {
	for _, x := range mbCfgs(thorough) {
		if x == m {
			return true
		}
	}
	return false
}

// ---- MySQL ------------------------------------------------------------------------------------------

func mbBuildMy(c mycheck.Col, h hist, vals []mbVal) (mycheck.Op, bool) {
	a, b := vals[h.V%len(vals)], vals[(h.V^1)%len(vals)] // second value of two-value statements: same length, other alphabet
	v, v2 := myVal{Name: a.Class, B: a.B}, myVal{Name: b.Class, B: b.B}
	for _, w := range myWrites(c, h.K, v, v2, true) {
		if w.Kind == h.Kind {
			return w, true
		}
	}
	for _, rd := range myReads(c, v, true) {
		if rd.Kind == h.Kind {
			return rd, true
		}
	}
	return mycheck.Op{}, false
}

func mbRunMy(r *ev.Run, env *sess.MyEnv, m mbCfg, h []hist) (viol []mycheck.Violation, harness string) {
	c := m.my()
	vals := mbValues(m.N)
	var ops []mycheck.Op
	for _, x := range h {
		op, ok := mbBuildMy(c, x, vals)
		if !ok {
			ev.Fatalf("C04 mask boundary (MySQL): unknown statement kind %s", x.Kind)
		}
		ops = append(ops, op)
	}
	rn := &mycheck.Runner{Property: "C04", R: r, Env: env, Col: c,
		After: func(prot, shadow *mycheck.DB, failed bool, add func(key, format string, a ...interface{})) {
			pt, st := prot.Tables["t"], shadow.Tables["t"]
			if failed || len(pt.Rows) != len(st.Rows) {
				return // the two databases may be out of step; the failure is already recorded
			}
			for i := range pt.Rows {
				mbStored(c.MaskLen, pt.Rows[i][2], st.Rows[i][2], add)
			}
		}}
	viol, _, harness = rn.Run(ops)
	return
}

func myMaskBoundaryPhase(r *ev.Run, ks *filesystem.KeyStore, thorough bool, only *mbReplay) {
	defer phaseTime("mask boundary (MySQL)")()
	total, kindsSeen := 0, map[string]bool{}
	for _, m := range mbCfgs(true) {
		c := m.my()
		if only != nil && only.Config != c.Name {
			continue
		}
		if only == nil && !mbListed(m, thorough) {
			continue
		}
		env, err := myEnvFor(ks, c)
		if err != nil {
			r.Violation("C04/mysql/mask-boundary/config-rejected", fmt.Sprintf("the MySQL configuration loader rejects masked configuration %s: %v", c.Name, err), mbReplay{Part: "mysql-mask-boundary", Config: c.Name})
			continue
		}
		vals := mbValues(m.N)
		mv := func(i int) myVal { return myVal{Name: vals[i%len(vals)].Class, B: vals[i%len(vals)].B} }
		readSet := map[string]bool{}
		var readKinds []string
		for _, rd := range myReads(c, mv(0), thorough) {
			readKinds = append(readKinds, rd.Kind)
		}
		for _, rd := range myReads(c, mv(0), true) {
			readSet[rd.Kind] = true
		}
		hs := mbHistories(len(vals), func(vi int) []string {
			var ks []string
			for _, w := range myWrites(c, 1, mv(vi), mv(vi^1), thorough) {
				ks = append(ks, w.Kind)
			}
			return ks
		}, readKinds, func(int) string { return "insert-hex" })
		if only != nil {
			hs = [][]hist{only.History}
		}
		type outT struct {
			viol    []mycheck.Violation
			harness string
			done    bool
		}
		outs := make([]outT, len(hs))
		done := par.Do(len(hs), r.Expired, func(i int) {
			v, hn := mbRunMy(r, env, m, hs[i])
			outs[i] = outT{v, hn, true}
			r.Eval(1)
			r.Traces(1)
		})
		if done < len(hs) {
			r.Capped(fmt.Sprintf("mask boundary (MySQL): configuration %s: %d of %d histories", c.Name, done, len(hs)))
		}
		for i, o := range outs {
			if !o.done {
				continue
			}
			if o.harness != "" {
				ev.Fatalf("C04 mask boundary (MySQL): configuration %s history %v: %s", c.Name, hs[i], o.harness)
			}
			isRead := func(k string) bool { return readSet[k] }
			class := mbClass("", hs[i], vals, isRead)
			var kl []string
			for _, x := range hs[i] {
				kl = append(kl, x.Kind)
				kindsSeen[x.Kind] = true
			}
			rp := mbReplay{Part: "mysql-mask-boundary", Config: c.Name, History: hs[i]}
			for _, v := range o.viol {
				rp.Detail = v.Msg
				class := mbClass(strings.TrimPrefix(v.Key, "C04/mysql/"+c.Name+"/"), hs[i], vals, isRead)
				if only != nil {
					fmt.Println("replayed:", v.Key, "::", v.Msg)
				}
				r.Violation("C04/mysql/mask-boundary/"+class+"/"+mbSub(strings.TrimPrefix(v.Key, "C04/mysql/"+c.Name+"/")), v.Msg+" [configuration "+c.Name+", history "+strings.Join(kl, " > ")+"]", rp)
			}
			r.Distinct("mysql-mask-boundary|" + c.Name + "|" + class + "|" + strings.Join(kl, ">") + fmt.Sprint(len(o.viol) > 0))
			r.Class(map[bool]string{true: "mysql-mask-boundary-history-violating", false: "mysql-mask-boundary-history-ok"}[len(o.viol) > 0], 1)
		}
		total += len(hs)
		if r.Expired() {
			break
		}
	}
	if only != nil {
		return
	}
	r.States(total)
	r.Set("mask_boundary_mysql_histories", total)
	r.Set("mask_boundary_mysql_statement_kinds", len(kindsSeen))
}
