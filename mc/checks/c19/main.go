// C19 — typed columns come back in the declared type or per the failure policy.
//
// Engine E5 + E4: for every (declared type, envelope, failure policy, default value)
// combination that the configuration validator accepts (its accept/reject decision is part of
// the space and is compared with the documented rules), values of that type (boundary integers,
// empty, non-UTF-8 bytes, long, NULL) are written through the real PostgreSQL proxy by literal,
// text parameter and binary parameter, and read back by the owner, by clients that cannot
// decrypt, and by the owner after the stored value was damaged - through simple and extended
// protocol, text and binary result formats, with Describe of statement and portal.
// Oracles: owner = exactly what a plain database with a column of the declared type answers
// (row description type, value encoding, NULLs); reader that cannot reveal = exactly the policy:
// the stored bytes / the configured default encoded as the declared type / an error for the
// statement with no row delivered and the session still usable; description and data agree.
package main

import (
	"bytes"
	"encoding/base64"
	"encoding/binary"
	"fmt"
	"os"
	"strconv"
	"strings"

	"github.com/jackc/pgx/v5/pgproto3"

	"github.com/cossacklabs/acra/keystore/filesystem"

	"verif/detrand"
	"verif/ev"
	"verif/fx"
	"verif/pgcheck"
	"verif/sess"
)

type typ struct {
	Name   string // data_type value
	OID    uint32
	Values [][]byte
	// defaults: candidate default_data_value strings with whether the documented rules accept them
	Defaults []defaultT
}

type defaultT struct {
	S     string
	Valid bool
}

var types = []typ{
	// (the empty value is stored as it is: the declared type's encoding of "empty" comes back)
	{"str", sess.OIDText, [][]byte{[]byte("a"), []byte("it's a \\ text 'value'"), bytes.Repeat([]byte("x"), 300), []byte("üñí✓"), []byte("")},
		[]defaultT{{"dflt", true}, {"", true}}},
	{"bytes", sess.OIDBytea, [][]byte{{0x00, 0xff, '\'', '\\', 0x80}, []byte("a"), bytes.Repeat([]byte{0xAB}, 300), {}},
		[]defaultT{{"ZGZsdA==", true}, {"not base64 !", false}}},
	{"int32", sess.OIDInt4, [][]byte{[]byte("0"), []byte("-1"), []byte("2147483647"), []byte("-2147483648")},
		[]defaultT{{"7", true}, {"-2147483648", true}, {"2147483648", false}, {"x", false}}},
	{"int64", sess.OIDInt8, [][]byte{[]byte("0"), []byte("9223372036854775807"), []byte("-9223372036854775808"), []byte("2147483648")},
		[]defaultT{{"7", true}, {"9223372036854775807", true}, {"9223372036854775808", false}}},
}

type cfgT struct {
	T        typ
	Envelope string
	Policy   string // "", ciphertext, default_value, error
	Default  *defaultT
	ByID     bool // data_type_db_identifier instead of data_type
	Search   bool // searchable: true (the stored value carries a search hash in front of the envelope)
}

func (c cfgT) name() string {
	n := c.T.Name + "/" + c.Envelope + "/policy=" + c.Policy
	if c.Default != nil {
		n += fmt.Sprintf("/default=%q", c.Default.S)
	}
	if c.ByID {
		n += "/by-oid"
	}
	if c.Search {
		n += "/searchable"
	}
	return n
}

func (c cfgT) yaml() string {
	var b strings.Builder
	b.WriteString("schemas:\n  - table: t\n    columns: [id, plain, c]\n    encrypted:\n      - column: c\n")
	fmt.Fprintf(&b, "        crypto_envelope: %s\n", c.Envelope)
	if c.ByID {
		fmt.Fprintf(&b, "        data_type_db_identifier: %d\n", c.T.OID)
	} else {
		fmt.Fprintf(&b, "        data_type: %s\n", c.T.Name)
	}
	if c.Policy != "" {
		fmt.Fprintf(&b, "        response_on_fail: %s\n", c.Policy)
	}
	if c.Default != nil {
		fmt.Fprintf(&b, "        default_data_value: %q\n", c.Default.S)
	}
	if c.Search {
		b.WriteString("        searchable: true\n")
	}
	return b.String()
}

// documented validity: default_data_value only together with response_on_fail: default_value
// (or without an explicit policy, where it implies it); the default must be a valid value of the type.
func (c cfgT) expectAccepted() (bool, bool) { // (accepted, judged)
	if c.Policy == "default_value" && c.Default == nil {
		// accepted by Acra and behaves like "ciphertext" with a log message; the statement does not
		// say what a default policy without a default means: not judged
		return false, false
	}
	if c.Default != nil && (c.Policy == "ciphertext" || c.Policy == "error") {
		return false, true
	}
	if c.Default != nil && !c.Default.Valid {
		return false, true
	}
	return true, true
}

func colCfg(c cfgT) pgcheck.ColCfg {
	return pgcheck.ColCfg{Name: c.name(), Prot: sess.OIDBytea, Shadow: c.T.OID, Owner: fx.Alpha, Writer: fx.Alpha}
}

func binParam(oid uint32, v []byte) []byte {
	if oid == sess.OIDInt8 {
		n, _ := strconv.ParseInt(string(v), 10, 64)
		var b [8]byte
		binary.BigEndian.PutUint64(b[:], uint64(n))
		return b[:]
	}
	return pgcheck.BinParam(oid, v)
}

// the default value as the stored form of the shadow database
func defaultStored(c cfgT) []byte {
	if c.T.Name == "bytes" {
		// documented: default for bytes is base64
		b, err := decodeB64(c.Default.S)
		if err != nil {
			return nil
		}
		return b
	}
	return []byte(c.Default.S)
}

type caseT struct {
	Config string `json:"config"`
	YAML   string `json:"yaml"`
	Stage  string `json:"stage"`
	Stmt   string `json:"statement"`
}

func reads() []pgcheck.Stmt {
	return []pgcheck.Stmt{
		pgcheck.Mk("simple-select", "", false, true, sess.Q("select id, c from t")),
		pgcheck.Mk("simple-select-star", "", false, true, sess.Q("select * from t")),
		pgcheck.Mk("ext-text", "", false, true, sess.Ext("", "select c, id from t", nil, nil, nil, nil)),
		pgcheck.Mk("ext-binary", "", false, true, sess.Ext("", "select c, id from t", nil, nil, []int16{1}, nil)),
		pgcheck.Mk("ext-describe-statement", "", false, true, []pgproto3.FrontendMessage{
			&pgproto3.Parse{Name: "d1", Query: "select c from t where id = $1"},
			&pgproto3.Describe{ObjectType: 'S', Name: "d1"},
			&pgproto3.Bind{PreparedStatement: "d1", Parameters: [][]byte{[]byte("1")}, ResultFormatCodes: []int16{1}},
			&pgproto3.Execute{}, &pgproto3.Close{ObjectType: 'S', Name: "d1"}, &pgproto3.Sync{}}),
	}
}

// classify what the client received for column index ci of the statement results
func dataRows(ms []sess.Msg) (rows [][][]byte, errs int, rfq int, desc []*pgproto3.RowDescription) {
	for _, m := range ms {
		switch x := m.B.(type) {
		case *pgproto3.DataRow:
			rows = append(rows, x.Values)
		case *pgproto3.ErrorResponse:
			errs++
		case *pgproto3.ReadyForQuery:
			rfq++
		case *pgproto3.RowDescription:
			desc = append(desc, x)
		}
	}
	return
}

func colIndex(kind string) int {
	switch kind {
	case "simple-select":
		return 1
	case "simple-select-star":
		return 2
	}
	return 0
}

func main() {
	r := ev.New("C19", "model_checking")
	fx.Quiet()
	detrand.Install(detrand.New("c19"))
	dir := fx.Scratch("c19")
	defer os.RemoveAll(dir)
	ks := fx.NewKeyStoreV1(dir, -1)
	fx.GenClientKeys(ks, fx.Alpha)
	fx.GenClientKeys(ks, fx.Bravo)
	thorough := r.Thorough()
	if r.Replay != "" && mysqlReplay(r, ks) { // MySQL replay files (part "mysql...", see mysql.go)
		os.RemoveAll(dir)
		r.Finish()
	}

	var cfgs []cfgT
	envs := []string{"acrablock"}
	if thorough {
		envs = append(envs, "acrastruct")
	}
	for _, t := range types {
		for _, e := range envs {
			for _, pol := range []string{"", "ciphertext", "default_value", "error"} {
				cfgs = append(cfgs, cfgT{T: t, Envelope: e, Policy: pol})
				for i := range t.Defaults {
					d := t.Defaults[i]
					cfgs = append(cfgs, cfgT{T: t, Envelope: e, Policy: pol, Default: &d})
				}
			}
			cfgs = append(cfgs, cfgT{T: t, Envelope: e, Policy: "error", ByID: true})
			// searchable columns with a declared type: a value whose search hash does not verify cannot
			// be revealed either
			cfgs = append(cfgs, cfgT{T: t, Envelope: e, Policy: "error", Search: true})
			for i := range t.Defaults {
				if d := t.Defaults[i]; d.Valid {
					cfgs = append(cfgs, cfgT{T: t, Envelope: e, Policy: "default_value", Default: &d, Search: true})
					break
				}
			}
		}
	}
	r.States(len(cfgs))

	// Acra's crypto registry / proxy factory are per process: configurations run one after the
	// other; statements inside a configuration sequentially (sessions are cheap)
	for _, c := range cfgs {
		if r.Expired() {
			r.Capped("wall budget: not all configurations")
			break
		}
		checkConfig(r, ks, c, thorough)
	}
	mysqlPart(r, ks, thorough) // MySQL half (mysql.go); last: it switches the process-wide SQL dialect
	r.Rule("state = one column configuration (type x envelope x policy x default value, incl. those the validator must reject); transitions = statements executed through the real proxy (writes by literal / text parameter / binary parameter, reads in simple and extended protocol with text and binary results and Describe) by the owner, by two kinds of non-owner and by the owner on damaged values; distinct_nontrivial = distinct (type, policy, reader, statement kind, format, outcome class)")
	r.Assume("Themis replaced by the pure-Go stand-in", "database end is the reference database /verif/mc/sess/pgdb.go", "PostgreSQL proxy only", "policy 'ciphertext' is read as: the stored bytes, either raw or in the database's own wire encoding of the stored column")
	r.Finish()
}

func decodeB64(s string) ([]byte, error) { return base64.StdEncoding.DecodeString(s) }

func checkConfig(r *ev.Run, ks *filesystem.KeyStore, c cfgT, thorough bool) {
	env, err := sess.NewPGEnv(ks, sess.PGEnvOptions{EncryptorConfigYAML: c.yaml()})
	accepted := err == nil
	r.Eval(1)
	if want, judged := c.expectAccepted(); judged && want != accepted {
		what := "rejected a configuration the documented rules allow"
		if accepted {
			what = "accepted a configuration the documented rules forbid"
		}
		r.Violation("C19/validator/"+c.T.Name+"/policy="+c.Policy+"/default="+defKind(c)+"/"+map[bool]string{true: "accepted", false: "rejected"}[accepted],
			fmt.Sprintf("configuration validator %s: %s (%v)", what, c.name(), err), caseT{Config: c.name(), YAML: c.yaml(), Stage: "validator"})
	}
	r.Distinct("validator|" + c.T.Name + "|" + c.Policy + "|" + defKind(c) + "|" + fmt.Sprint(accepted))
	if !accepted {
		r.Class("config-rejected", 1)
		return
	}
	r.Class("config-accepted", 1)
	cc := colCfg(c)
	prot, shadow := cc.NewDB(false), cc.NewDB(true)
	viol := func(key, format string, a ...interface{}) {
		r.Violation("C19/"+c.T.Name+"/policy="+c.Policy+"/"+key, fmt.Sprintf(format, a...)+" ["+c.name()+"]", caseT{Config: c.name(), YAML: c.yaml(), Stage: key})
	}
	open := func(id []byte) *sess.PGSession {
		s, err := sess.NewPGSession(env, id, nil)
		if err != nil {
			ev.Fatalf("session: %v", err)
		}
		if err := s.Startup(); err != nil {
			ev.Fatalf("startup: %v", err)
		}
		prot.ResetSession()
		shadow.ResetSession()
		return s
	}
	step := func(s *sess.PGSession, db *sess.PGDB, msgs []pgproto3.FrontendMessage, what string) *sess.StepResult {
		res, err := s.Step(msgs, db.Respond)
		r.Transitions(1)
		if err != nil {
			ev.Fatalf("%s %s: %v", c.name(), what, err)
		}
		for _, m := range res.DBSent {
			if e, ok := m.B.(*pgproto3.ErrorResponse); ok && e.Code == "XXVRF" {
				ev.Fatalf("%s %s: reference database: %s", c.name(), what, e.Message)
			}
		}
		if len(s.Panics) > 0 {
			viol(what+"/panic", "proxy goroutine panicked: %v", s.Panics)
		}
		return res
	}

	// ---- owner writes -------------------------------------------------------------------
	so := open(fx.Alpha)
	id := 0
	var writes []pgcheck.Stmt
	for vi, v := range c.T.Values {
		id++
		switch vi % 3 {
		case 0:
			writes = append(writes, pgcheck.Mk("ins-literal", "", true, true, sess.Q(fmt.Sprintf("insert into t (id, plain, c) values (%d, 'p', %s)", id, pgcheck.Literals(c.T.OID, v)[0])), v))
		case 1:
			writes = append(writes, pgcheck.Mk("ins-text-param", "", true, true, sess.Ext("", "insert into t (id, plain, c) values ($1, $2, $3)", [][]byte{pgcheck.I4(id), []byte("p"), pgcheck.TextParams(c.T.OID, v)[0]}, nil, nil, nil), v))
		case 2:
			writes = append(writes, pgcheck.Mk("ins-binary-param", "", true, true, sess.Ext("", "insert into t (id, plain, c) values ($1, $2, $3)", [][]byte{pgcheck.I4(id), []byte("p"), binParam(c.T.OID, v)}, []int16{0, 0, 1}, nil, nil), v))
		}
	}
	id++
	writes = append(writes, pgcheck.Mk("ins-null-literal", "", true, true, sess.Q(fmt.Sprintf("insert into t (id, plain, c) values (%d, 'p', NULL)", id))))
	id++
	writes = append(writes, pgcheck.Mk("ins-null-param", "", true, true, sess.Ext("", "insert into t (id, plain, c) values ($1, $2, $3)", [][]byte{pgcheck.I4(id), []byte("p"), nil}, nil, nil, nil)))
	id++
	writes = append(writes, pgcheck.Mk("ins-returning", "", true, true, sess.Q(fmt.Sprintf("insert into t (id, plain, c) values (%d, 'p', %s) returning id, c", id, pgcheck.Literals(c.T.OID, c.T.Values[0])[0])), c.T.Values[0]))
	writes = append(writes, pgcheck.Mk("upd-returning", "", true, true, sess.Q(fmt.Sprintf("update t set plain = 'u' where id = %d returning c, id", id))))
	id++
	writes = append(writes, pgcheck.Mk("ext-ins-describe-statement", "", true, true, []pgproto3.FrontendMessage{
		&pgproto3.Parse{Name: "i1", Query: "insert into t (id, plain, c) values ($1, $2, $3)"},
		&pgproto3.Describe{ObjectType: 'S', Name: "i1"},
		&pgproto3.Bind{PreparedStatement: "i1", Parameters: [][]byte{pgcheck.I4(id), []byte("p"), pgcheck.TextParams(c.T.OID, c.T.Values[0])[0]}},
		&pgproto3.Execute{}, &pgproto3.Close{ObjectType: 'S', Name: "i1"}, &pgproto3.Sync{}}, c.T.Values[0]))
	writes = append(writes, pgcheck.Mk("del-returning", "", true, true, sess.Q(fmt.Sprintf("delete from t where id = %d returning id, plain, c", id))))
	for _, w := range writes {
		res := step(so, prot, w.Msgs, "owner/"+w.Kind)
		want := shadow.Direct(w.Msgs)
		if res.Terminated {
			viol("owner/"+w.Kind+"/terminated", "session closed: %v", so.ProxyErrors)
			so.Close()
			return
		}
		if d := sess.Diff(res.Client, want); d != "" {
			viol("owner/"+w.Kind+"/result-differs", "write: %s", d)
		}
		r.Eval(1)
	}
	// ---- owner reads ----------------------------------------------------------------------
	// (owner only: two statements pipelined before one Sync on the unnamed statement and portal, the
	// first with binary results - each answer is encoded as its own statement asked)
	pipelined := pgcheck.Mk("ext-pipelined-binary-then-text", "", false, true, []pgproto3.FrontendMessage{
		&pgproto3.Parse{Query: "select c, id from t"}, &pgproto3.Bind{ResultFormatCodes: []int16{1}}, &pgproto3.Execute{},
		&pgproto3.Parse{Query: "select id, c from t"}, &pgproto3.Bind{}, &pgproto3.Execute{}, &pgproto3.Sync{}})
	for _, rd := range append(reads(), pipelined) {
		res := step(so, prot, rd.Msgs, "owner/"+rd.Kind)
		want := shadow.Direct(rd.Msgs)
		r.Eval(1)
		if res.Terminated {
			viol("owner/"+rd.Kind+"/terminated", "session closed: %v", so.ProxyErrors)
			so.Close()
			return
		}
		d := sess.Diff(res.Client, want)
		if d != "" {
			viol("owner/"+rd.Kind+"/result-differs", "owner does not receive the value as the declared type: %s", d)
		}
		r.Distinct(fmt.Sprintf("%s|%s|owner|%s|%v", c.T.Name, c.Policy, rd.Kind, d == ""))
	}
	so.Close()

	// ---- readers that cannot reveal ---------------------------------------------------------
	damaged := prot.Clone()
	for _, row := range damaged.Tables["t"].Rows {
		if len(row[2]) > 60 {
			row[2][len(row[2])-7] ^= 0x10
		}
	}
	type rdr struct {
		name string
		id   []byte
		db   *sess.PGDB
	}
	readers := []rdr{{"other-keys", fx.Bravo, prot}, {"no-keys", fx.NoKeys, prot}, {"owner-damaged", fx.Alpha, damaged}}
	if c.Search {
		// the envelope is intact (the owner's key opens it) but the search hash in front of it is not
		// the hash of its content
		hashDamaged := prot.Clone()
		for _, row := range hashDamaged.Tables["t"].Rows {
			if len(row[2]) > 60 {
				row[2][7] ^= 0x10
			}
		}
		readers = append(readers, rdr{"owner-search-hash-damaged", fx.Alpha, hashDamaged})
	}
	for _, rd := range readers {
		s := open(rd.id)
		rd.db.ResetSession()
		for _, st := range reads() {
			res := step(s, rd.db, st.Msgs, rd.name+"/"+st.Kind)
			r.Eval(1)
			ci := colIndex(st.Kind)
			rows, errs, rfq, desc := dataRows(res.Client)
			stored := rd.db.Tables["t"].Rows
			shadowRows := shadow.Tables["t"].Rows
			if st.Kind == "ext-describe-statement" {
				stored, shadowRows = stored[:1], shadowRows[:1]
			}
			outcome := "ok"
			bad := func(key, format string, a ...interface{}) {
				outcome = key
				viol(rd.name+"/"+st.Kind+"/"+key, format, a...)
			}
			if res.Terminated {
				bad("terminated", "session closed: %v", s.ProxyErrors)
				break
			}
			// description announces the declared type in every case
			for _, d := range desc {
				if ci < len(d.Fields) && d.Fields[ci].DataTypeOID != c.T.OID {
					bad("description-type", "column described as type oid %d, declared type has oid %d", d.Fields[ci].DataTypeOID, c.T.OID)
				}
			}
			binaryFmt := st.Kind == "ext-binary" || st.Kind == "ext-describe-statement"
			policy := c.Policy
			if policy == "" && c.Default != nil {
				policy = "default_value"
			}
			if policy == "default_value" && c.Default == nil {
				policy = "ciphertext" // no default configured: see expectAccepted
			}
			switch policy {
			case "error":
				// rows whose value cannot be revealed exist (non-NULL rows) => error for the statement
				if errs == 0 {
					bad("no-error", "policy error: no error response was delivered (%d rows delivered)", len(rows))
				}
				for _, row := range rows {
					if ci < len(row) && row[ci] != nil {
						// a row delivered before the failing one must not carry an unrevealed value
						bad("row-delivered", "policy error: a row with a value was delivered: %.30x", row[ci])
						break
					}
				}
				if rfq != 1 {
					bad("ready-count", "policy error: %d ReadyForQuery messages for one statement", rfq)
				}
				// session still usable and aligned
				follow := sess.Q("select id from t where id = 1")
				res2 := step(s, rd.db, follow, rd.name+"/"+st.Kind+"/follow-up")
				if res2.Terminated {
					bad("follow-up-terminated", "policy error: session unusable afterwards")
				} else if d := sess.Diff(res2.Client, shadow.Clone().Direct(follow)); d != "" {
					bad("follow-up-differs", "policy error: the next statement is answered wrongly: %s", d)
				}
			default:
				if errs != 0 {
					bad("unexpected-error", "policy %q: error response delivered", policy)
					break
				}
				if len(rows) != len(stored) {
					bad("row-count", "%d rows delivered, %d stored", len(rows), len(stored))
					break
				}
				for i, row := range rows {
					got := row[ci]
					st0 := stored[i][2]
					if st0 == nil {
						if got != nil {
							bad("null-changed", "NULL came back as %.30x", got)
						}
						continue
					}
					if len(st0) == 0 {
						// the empty value is stored as it is (nothing to reveal, nothing protected): every reader
						// may get it back as the empty value in the encoding of the protocol format, or what
						// the policy prescribes (same reading as the MySQL half)
						if len(got) == 0 || bytes.Equal(got, []byte("\\x")) {
							continue
						}
					}
					var allowed [][]byte
					if policy == "default_value" {
						dv := defaultStored(c)
						f := int16(0)
						if binaryFmt {
							f = 1
						}
						allowed = [][]byte{wire(c.T.OID, dv, f)}
					} else {
						allowed = [][]byte{st0, []byte(fmt.Sprintf("\\x%x", st0))}
					}
					ok := false
					for _, a := range allowed {
						if bytes.Equal(got, a) {
							ok = true
						}
					}
					if !ok {
						plain := shadowRows[i][2]
						if bytes.Equal(got, plain) || (len(plain) > 3 && bytes.Contains(got, plain)) {
							bad("revealed", "value was revealed to a reader that must not get it")
							continue
						}
						bad("policy-not-applied", "policy %q: got %.40x, allowed %.40x", policy, got, allowed[0])
					}
				}
			}
			r.Distinct(fmt.Sprintf("%s|%s|%s|%s|%s", c.T.Name, policy, rd.name, st.Kind, outcome))
		}
		s.Close()
	}
	r.Traces(1)
	if c.T.Name == "str" && c.Policy == "default_value" && c.Default != nil {
		r.Sample(caseT{Config: c.name(), YAML: c.yaml(), Stage: "all readers", Stmt: "select id, c from t / extended text / extended binary / describe"})
	}
}

func defKind(c cfgT) string {
	if c.Default == nil {
		return "none"
	}
	if c.Default.Valid {
		return "valid"
	}
	return "invalid"
}

func wire(oid uint32, stored []byte, format int16) []byte {
	db := sess.NewPGDB()
	t := db.AddTable("w", sess.PGColumn{Name: "v", OID: oid})
	t.Rows = [][][]byte{{stored}}
	var msgs []pgproto3.FrontendMessage
	if format == 1 {
		msgs = sess.Ext("", "select v from w", nil, nil, []int16{1}, nil)
	} else {
		msgs = sess.Q("select v from w")
	}
	for _, m := range db.Direct(msgs) {
		if d, ok := m.B.(*pgproto3.DataRow); ok {
			return d.Values[0]
		}
	}
	return nil
}
