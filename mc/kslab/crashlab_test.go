package kslab

import (
	"testing"

	"github.com/cossacklabs/acra/keystore"
)

// Checkpoint / Rollback must reproduce the canonical state on every storage that has images,
// also after a simulated crash in the middle of a write, and a failing Unlock must not leave the
// back end locked.
func TestCheckpointRollback(t *testing.T) {
	cfgs := []Config{
		{Format: "v1", Storage: "mem", Cache: keystore.WithoutCache},
		{Format: "v2", Storage: "mem"},
		{Format: "v2", Storage: "dir"},
	}
	for _, cfg := range cfgs {
		for _, k := range []Kind{StoragePair, StorageSym} {
			sl := SlotOf(k, Alpha)
			lab, err := NewLab(cfg, []Slot{sl})
			if err != nil {
				t.Fatal(err)
			}
			gen := Op{Code: OpGenerate, Kind: sl.Kind, Client: sl.Client}
			lab.Apply(gen)
			want := lab.Canon()
			cp, err := lab.Checkpoint()
			if err != nil {
				t.Fatal(err)
			}
			lab.Apply(gen)
			lab.Apply(Op{Code: OpDestroyCurrent, Kind: sl.Kind, Client: sl.Client})
			if lab.Canon() == want {
				t.Fatalf("%s %s: operations did not change the state", cfg.Name(), sl)
			}
			if err := lab.Rollback(cp); err != nil {
				t.Fatal(err)
			}
			if got := lab.Canon(); got != want {
				t.Fatalf("%s %s: rollback gave %s, want %s", cfg.Name(), sl, got, want)
			}
			// crash in the middle of a rotation (every call), restart, roll back again
			seam := lab.S.Seam()
			seam.ResetLog()
			lab.Apply(gen)
			n := seam.Calls()
			for i := 0; i < n; i++ {
				if err := lab.Rollback(cp); err != nil {
					t.Fatal(err)
				}
				seam.ResetLog()
				seam.SetHook(FailAt(i, Fault{Action: CrashAfter}))
				if c := Crashable(func() { lab.Apply(gen) }); c == nil {
					t.Fatalf("%s %s: no crash at call %d of %d", cfg.Name(), sl, i, n)
				}
				if err := lab.Restart(); err != nil {
					t.Fatalf("%s %s: restart after crash at call %d: %v", cfg.Name(), sl, i, err)
				}
				lab.Relearn(sl)
				_ = lab.Canon()
			}
			if cfg.Format == "v2" {
				for i := 0; i < n; i++ {
					if err := lab.Rollback(cp); err != nil {
						t.Fatal(err)
					}
					seam.ResetLog()
					seam.SetHook(lab.S.Backend.FailReleasing(i, ErrInjected))
					lab.Apply(gen) // must not dead-lock on a lock the failed Unlock left held
					seam.SetHook(nil)
					_ = lab.Canon()
				}
			}
			if err := lab.Rollback(cp); err != nil {
				t.Fatal(err)
			}
			if got := lab.Canon(); got != want {
				t.Fatalf("%s %s: final rollback gave %s, want %s", cfg.Name(), sl, got, want)
			}
			lab.Close()
		}
	}
}
