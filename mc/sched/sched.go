// Package sched is engine E1: a cooperative scheduler plus a stateless, preemption-bounded
// depth-first explorer of thread interleavings of the real code.
//
// A scenario registers 2-3 "threads" (goroutines that only run while they hold the baton).
// Hooked operations (scheduler-aware locks, instrumented seams) call Point / Acquire / Release;
// at each such scheduling point the scheduler either continues the running thread (default) or,
// following the choice sequence being explored, switches to another enabled thread. The
// explorer replays a choice prefix, takes the default afterwards and branches on every
// alternative whose preemption count stays within the bound (iterative context bounding).
// A lockset access monitor reports unsynchronised conflicting accesses on every execution.
package sched

import (
	"fmt"
	"runtime/debug"
	"sort"
	"strings"
)

// Lock is a scheduler-aware reader/writer lock. Zero value is unlocked.
type Lock struct {
	Name    string
	writer  *thread
	readers map[*thread]int
}

type thread struct {
	id       int
	name     string
	fn       func()
	resume   chan struct{}
	done     bool
	started  bool
	waitLock *Lock
	waitExcl bool
	waitCond func() bool // blocked until the condition holds (WaitUntil)
	held     map[*Lock]bool // lock -> exclusive?
	panicMsg string
}

// PointInfo describes one scheduling point of an execution.
type PointInfo struct {
	Running        int    // thread that reached the point
	Op             string // description
	Enabled        []int  // enabled thread ids in canonical order (running first if enabled)
	RunningEnabled bool
	Chosen         int // index into Enabled
}

// Access is one monitored access.
type Access struct {
	Thread int
	Obj    string
	Write  bool
	Locks  map[*Lock]bool
	Op     string
}

// Execution is the record of one complete run.
type Execution struct {
	Points   []PointInfo
	Choices  []int
	Deadlock bool
	Horizon  bool // step horizon exceeded
	Panics   []string
	Races    []string
	Trace    []string
}

// Scheduler runs one execution.
type Scheduler struct {
	threads  []*thread
	cur      *thread
	back     chan struct{} // thread -> scheduler hand-off
	prefix   []int
	exec     *Execution
	maxSteps int
	accesses []Access
	KeepTrace bool
	// diverged is set when a replayed prefix names a choice that does not exist
	diverged string
	pending  *thread
	aborting bool
}

var active *Scheduler

// Active returns the scheduler of the running execution (nil outside).
func Active() *Scheduler { return active }

// New creates a scheduler that will follow prefix and then default choices.
func New(prefix []int, maxSteps int) *Scheduler {
	return &Scheduler{back: make(chan struct{}), prefix: prefix, exec: &Execution{}, maxSteps: maxSteps}
}

// Go registers a thread.
func (s *Scheduler) Go(name string, fn func()) {
	s.threads = append(s.threads, &thread{id: len(s.threads), name: name, fn: fn, resume: make(chan struct{}), held: map[*Lock]bool{}})
}

func (s *Scheduler) enabled(t *thread) bool {
	if t.done {
		return false
	}
	if t.waitCond != nil {
		return t.waitCond()
	}
	if t.waitLock == nil {
		return true
	}
	return s.available(t.waitLock, t, t.waitExcl)
}

func (s *Scheduler) available(l *Lock, t *thread, excl bool) bool {
	if l.writer != nil && l.writer != t {
		return false
	}
	if l.writer == t {
		return false // not re-entrant: self-deadlock is a real deadlock
	}
	if excl {
		for r := range l.readers {
			if r != t || l.readers[r] > 0 {
				return false
			}
		}
	}
	return true
}

// Run executes all threads to completion under the choice sequence and returns the record.
func (s *Scheduler) Run() *Execution {
	active = s
	defer func() { active = nil }()
	for _, t := range s.threads {
		t := t
		go func() {
			<-t.resume
			defer func() {
				if r := recover(); r != nil {
					if _, ok := r.(abortExec); !ok {
						t.panicMsg = fmt.Sprintf("%v\n%s", r, debug.Stack())
					}
				}
				t.done = true
				s.back <- struct{}{}
			}()
			if s.aborting {
				return
			}
			t.fn()
		}()
	}
	s.cur = nil
	next := s.choose("start")
	for next != nil {
		s.cur = next
		next.resume <- struct{}{}
		<-s.back
		if s.pending != nil {
			next, s.pending = s.pending, nil
			continue
		}
		if !s.cur.done {
			break // deadlock, horizon or divergence noticed inside a yield
		}
		s.cur = nil
		next = s.choose("exit")
	}
	// unwind whatever is still parked
	s.aborting = true
	for _, t := range s.threads {
		if !t.done {
			t.resume <- struct{}{}
			<-s.back
		}
	}
	for _, t := range s.threads {
		if t.panicMsg != "" {
			s.exec.Panics = append(s.exec.Panics, t.name+": "+t.panicMsg)
		}
	}
	s.findRaces()
	return s.exec
}

type abortExec struct{}

// choose picks the next thread to run at a scheduling point reached by s.cur (nil at start).
func (s *Scheduler) choose(op string) *thread {
	var en []*thread
	runningEnabled := s.cur != nil && s.enabled(s.cur)
	if runningEnabled {
		en = append(en, s.cur)
	}
	for _, t := range s.threads {
		if t != s.cur && s.enabled(t) {
			en = append(en, t)
		}
	}
	if len(en) == 0 {
		for _, t := range s.threads {
			if !t.done {
				s.exec.Deadlock = true
			}
		}
		return nil
	}
	if len(s.exec.Points) >= s.maxSteps {
		s.exec.Horizon = true
		return nil
	}
	idx := 0
	i := len(s.exec.Choices)
	if i < len(s.prefix) {
		idx = s.prefix[i]
		if idx >= len(en) {
			s.diverged = fmt.Sprintf("replayed choice %d at point %d but only %d threads enabled", idx, i, len(en))
			return nil
		}
	}
	pi := PointInfo{Op: op, RunningEnabled: runningEnabled, Chosen: idx, Running: -1}
	if s.cur != nil {
		pi.Running = s.cur.id
	}
	for _, t := range en {
		pi.Enabled = append(pi.Enabled, t.id)
	}
	s.exec.Points = append(s.exec.Points, pi)
	s.exec.Choices = append(s.exec.Choices, idx)
	if s.KeepTrace {
		s.exec.Trace = append(s.exec.Trace, fmt.Sprintf("%d:%s -> T%d", pi.Running, op, en[idx].id))
	}
	return en[idx]
}

// yield is called by the running thread at a scheduling point.
func (s *Scheduler) yield(op string) {
	t := s.cur
	next := s.choose(op)
	if next == t {
		return
	}
	// hand the baton to the scheduler loop (next == nil: deadlock / horizon / divergence)
	s.pending = next
	s.back <- struct{}{}
	<-t.resume
	if s.aborting {
		panic(abortExec{})
	}
}

// WaitUntil blocks the running thread cooperatively until cond holds (a read on an empty in-memory
// connection, a wait for another thread's step): the thread is not enabled while cond is false, so
// waiting does not make the execution space cyclic; nobody enabled = deadlock. cond must only read
// state that other scheduler threads change.
func (s *Scheduler) WaitUntil(cond func() bool, op string) {
	t := s.cur
	t.waitCond = cond
	s.yield(op)
	if !cond() {
		panic("sched: thread scheduled while its wait condition is false: " + op)
	}
	t.waitCond = nil
}

// Point is a plain scheduling point (before a seam call).
func (s *Scheduler) Point(op string) { s.yield(op) }

// Diverged reports a replay divergence (harness error).
func (s *Scheduler) Diverged() string { return s.diverged }

// CurrentThread returns the id of the running thread.
func (s *Scheduler) CurrentThread() int {
	if s.cur == nil {
		return -1
	}
	return s.cur.id
}

// Acquire takes l (exclusive or shared), yielding before and blocking cooperatively.
func (s *Scheduler) Acquire(l *Lock, excl bool) {
	t := s.cur
	kind := "RLock"
	if excl {
		kind = "Lock"
	}
	t.waitLock, t.waitExcl = l, excl
	s.yield(kind + " " + l.Name)
	if !s.available(l, t, excl) {
		panic("sched: thread scheduled while its lock is unavailable: " + l.Name)
	}
	t.waitLock = nil
	if excl {
		l.writer = t
	} else {
		if l.readers == nil {
			l.readers = map[*thread]int{}
		}
		l.readers[t]++
	}
	t.held[l] = excl
}

// Release releases l and yields afterwards (so the window after a release is explorable).
func (s *Scheduler) Release(l *Lock, excl bool) {
	t := s.cur
	if excl {
		if l.writer != t {
			panic("sched: unlock of a lock not held exclusively by this thread: " + l.Name)
		}
		l.writer = nil
	} else {
		if l.readers[t] == 0 {
			panic("sched: runlock of a lock not held by this thread: " + l.Name)
		}
		l.readers[t]--
		if l.readers[t] == 0 {
			delete(l.readers, t)
		}
	}
	delete(t.held, l)
	if l.readers[t] > 0 {
		t.held[l] = false
	}
	kind := "RUnlock"
	if excl {
		kind = "Unlock"
	}
	s.yield(kind + " " + l.Name)
}

// Access records a monitored access to obj by the running thread.
func (s *Scheduler) Access(obj string, write bool, op string) {
	t := s.cur
	if t == nil {
		return
	}
	locks := map[*Lock]bool{}
	for l, e := range t.held {
		locks[l] = e
	}
	s.accesses = append(s.accesses, Access{Thread: t.id, Obj: obj, Write: write, Locks: locks, Op: op})
}

// findRaces: two accesses to one object from different threads, at least one a write, with
// no common lock that is held exclusively by at least the writing side(s).
func (s *Scheduler) findRaces() {
	seen := map[string]bool{}
	for i, a := range s.accesses {
		for _, b := range s.accesses[i+1:] {
			if a.Obj != b.Obj || a.Thread == b.Thread || (!a.Write && !b.Write) {
				continue
			}
			protected := false
			for l, ea := range a.Locks {
				eb, ok := b.Locks[l]
				if !ok {
					continue
				}
				// a common lock protects the pair if every writer holds it exclusively
				if (!a.Write || ea) && (!b.Write || eb) && (ea || eb) {
					protected = true
				}
			}
			if !protected {
				ops := []string{a.Op, b.Op}
				sort.Strings(ops)
				k := a.Obj + ": " + strings.Join(ops, " / ")
				if !seen[k] {
					seen[k] = true
					s.exec.Races = append(s.exec.Races, k)
				}
			}
		}
	}
	sort.Strings(s.exec.Races)
}
