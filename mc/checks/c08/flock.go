package main

// flock.go: failures of the interprocess lock of the v2 directory back end. The main part treats
// Lock / Unlock as seam calls of api.Backend ("the call returns an error"); what the real
// fileLock does when flock(2) ITSELF fails - its designed poison-and-recover protocol around an
// in-process mutex - is below that seam. Here the build overlay (overlay.sh) gives flock(2) an
// environment seam and makes the mutex visible: for a short history of key store operations on
// the real key store over the real directory back end, every flock call of the main handle is
// made to fail once (each errno of a menu), and the rest of the history goes on on the SAME handle.
//
// Oracle: no operation blocks (a Lock on a mutex that an earlier operation left locked is a
// deadlock in a sequential history; it is reported at once, nothing waits), none panics, every
// operation after the faulted one answers as in the unfaulted run (or as in the run without the
// faulted operation, when that one reported an error), and the keys stored at the end (read below
// the API on a fresh handle) are intact: no unreadable key, no half-written pair, and per slot at
// least as many keys as acknowledged generations minus acknowledged destructions.

import (
	"fmt"
	"sort"
	"strings"
	"syscall"

	"github.com/cossacklabs/acra/keystore/v2/keystore/filesystem/backend"
	"github.com/cossacklabs/acra/verifsync"

	"verif/ev"
	"verif/kslab"
)

type flockReplay struct {
	History []kslab.Op `json:"history"`
	Call    int        `json:"flock_call"` // 1-based flock call of the main handle, 0 = none
	Errno   int        `json:"errno"`
}

var flockErrnos = []syscall.Errno{syscall.EBADF, syscall.EINTR, syscall.ENOLCK}

func flockHistories(thorough bool) [][]kslab.Op {
	a := kslab.Slot{Kind: kslab.StorageSym, Client: kslab.Alpha}
	p := kslab.Slot{Kind: kslab.StoragePair, Client: kslab.Bravo}
	op := func(code string, sl kslab.Slot) kslab.Op {
		return kslab.Op{Code: code, Kind: sl.Kind, Client: sl.Client}
	}
	hs := [][]kslab.Op{
		{op(kslab.OpGenerate, a), op(kslab.OpReadAll, a), op(kslab.OpGenerate, a), op(kslab.OpReadCurrent, a), {Code: kslab.OpListKeys}},
		{op(kslab.OpGenerate, p), op(kslab.OpGenerate, a), op(kslab.OpDestroyCurrent, p), op(kslab.OpReadAll, a), op(kslab.OpGenerate, p)},
	}
	if thorough {
		hs = append(hs, []kslab.Op{op(kslab.OpGenerate, a), op(kslab.OpGenerate, a), op(kslab.OpGenerate, a), {Code: kslab.OpDestroyRotated, Kind: a.Kind, Client: a.Client, Index: 2}, {Code: kslab.OpListRotated}, op(kslab.OpReadAll, a), op(kslab.OpGenerate, p), op(kslab.OpReadCurrent, p)})
	}
	return hs
}

type flockRun struct {
	answers []string // per operation
	final   string   // canonical stored state on a fresh handle
	problem string   // what is wrong with the stored keys at the end ("" = intact)
	calls   int      // flock calls of the main handle
	dead    int      // index of the operation that would block, -1
	panics  []string
	failed  int // index of the operation during which the fault struck, -1
}

// runFlock executes h on a fresh real store; the failAt-th flock call of the main handle (1-based,
// 0 = none) returns errno instead of being made.
func runFlock(h []kslab.Op, failAt int, errno syscall.Errno) (out flockRun) {
	out.dead, out.failed = -1, -1
	slots := []kslab.Slot{}
	seen := map[kslab.Slot]bool{}
	for _, o := range h {
		if !o.Global() && !seen[o.Slot()] {
			seen[o.Slot()] = true
			slots = append(slots, o.Slot())
		}
	}
	sort.Slice(slots, func(i, j int) bool { return slots[i].String() < slots[j].String() })
	held := map[interface{}]bool{}
	side := map[int]bool{}
	learning := true
	cur := -1
	backend.VerifFlockHook = func(fd, how int) error {
		if learning {
			side[fd] = true
			return nil
		}
		if side[fd] {
			return nil
		}
		out.calls++
		if out.calls == failAt {
			out.failed = cur
			return errno
		}
		return nil
	}
	verifsync.AcquireHook = func(key interface{}, kind string, exclusive bool) bool {
		if held[key] && out.dead < 0 {
			// in a sequential history this Lock never returns. It is recorded and the execution goes
			// on as if it had been granted (a panic here would leave the seams' own locks held)
			out.dead = cur
		}
		held[key] = true
		return true
	}
	verifsync.ReleaseHook = func(key interface{}, kind string, exclusive bool) bool {
		held[key] = false
		return true
	}
	defer func() { backend.VerifFlockHook, verifsync.AcquireHook, verifsync.ReleaseHook = nil, nil, nil }()

	lab, err := kslab.NewLab(kslab.Config{Format: "v2", Storage: "dir"}, slots)
	if err != nil {
		ev.Fatalf("flock part: cannot open a v2 directory store: %v", err)
	}
	defer lab.Close()
	// the side handle (inspection below the API) has its own lock file: learn its descriptor
	side = map[int]bool{}
	lab.S.Side.ListKeys()
	learning = false
	if len(side) == 0 {
		ev.Fatalf("flock part: the side handle made no flock call")
	}
	for i, o := range h {
		cur = i
		res := lab.Apply(o)
		a := answerSig(res)
		for _, e := range []error{res.Err, res.CurSecretErr, res.CurPublicErr} {
			if p, ok := kslab.IsPanic(e); ok {
				out.panics = append(out.panics, fmt.Sprintf("%s panicked at %s: %s", o, p.Site(), p.Value))
			}
		}
		out.answers = append(out.answers, a)
		if out.dead >= 0 {
			return out // the handle is stuck from here on: nothing after this can be judged
		}
	}
	cur = len(h)
	learning = true // the fresh handle's lock file is not under test
	if err := lab.Restart(); err != nil {
		out.final = "restart failed: " + err.Error()
		return out
	}
	st := lab.State()
	out.final = st.StorageCanon()
	for _, sl := range st.Slots {
		acked := 0
		for i, o := range h {
			if i >= len(out.answers) || o.Global() || o.Slot() != sl.Slot {
				continue
			}
			// (the faulted operation may report an error although its effect is complete)
			switch {
			case o.Code == kslab.OpGenerate && out.answers[i] == "ok":
				acked++
			case (o.Code == kslab.OpDestroyCurrent || o.Code == kslab.OpDestroyRotated) && (out.answers[i] == "ok" || i == out.failed):
				acked--
			}
		}
		switch {
		case sl.Anomaly != "":
			out.problem = fmt.Sprintf("%s: %s", sl.Slot, sl.Anomaly)
		case len(sl.Surv) < acked:
			out.problem = fmt.Sprintf("%s: %d keys stored, %d generations acknowledged (net of acknowledged destructions)", sl.Slot, len(sl.Surv), acked)
		case sl.Slot.Kind.IsPair() && (sl.PubCur != sl.Cur || fmt.Sprint(sl.PubSurv) != fmt.Sprint(sl.Surv)):
			out.problem = fmt.Sprintf("%s: private and public parts differ: %s", sl.Slot, sl)
		}
		for _, o := range sl.Surv {
			if o <= 0 {
				out.problem = fmt.Sprintf("%s: a stored key is none of the generated ones: %s", sl.Slot, sl)
			}
		}
	}
	return out
}

func flockElement(r *ev.Run, h []kslab.Op, k int, errno syscall.Errno, ref flockRun, without map[int]string, trace bool) {
	rp := replayT{Config: kslab.Config{Format: "v2", Storage: "dir"}, Flock: &flockReplay{History: h, Call: k, Errno: int(errno)}}
	got := runFlock(h, k, errno)
	r.Eval(1)
	r.Transitions(len(got.answers))
	r.Traces(1)
	site := "?"
	if got.failed >= 0 && got.failed < len(h) {
		site = h[got.failed].Code
	}
	if trace {
		fmt.Printf("  flock call %d -> %v during operation #%d (%s)\n  answers: %v\n  reference: %v\n  stored: %s\n", k, errno, got.failed+1, site, got.answers, ref.answers, got.final)
	}
	base := fmt.Sprintf("C08/v2/flock-failure/%s/", site)
	class := "recovered"
	switch {
	case got.dead >= 0:
		class = "blocks-forever"
		r.Violation(base+"later-operation-blocks-forever", fmt.Sprintf("flock call %d of %q fails with %v (during operation #%d %s): operation #%d %s then locks a mutex that was left locked - it never returns", k, kslab.HistoryString(h), errno, got.failed+1, site, got.dead+1, h[got.dead]), rp)
	case len(got.panics) > 0:
		class = "panic"
		r.Violation(base+"panic", fmt.Sprintf("flock call %d of %q fails with %v: %s", k, kslab.HistoryString(h), errno, strings.Join(got.panics, "; ")), rp)
	default:
		for i := got.failed + 1; i < len(h) && i < len(got.answers); i++ {
			want := ref.answers[i]
			alt, hasAlt := "", false
			if w, ok := without[got.failed]; ok {
				// the faulted operation may have reported an error without taking effect: later
				// answers are then those of the history without it
				parts := strings.Split(w, "\x00")
				if j := i - 1; j < len(parts) {
					alt, hasAlt = parts[j], true
				}
			}
			if got.answers[i] != want && !(hasAlt && got.answers[i] == alt) {
				class = "later-operation-differs"
				r.Violation(base+"later-operation-answers-differently/"+h[i].Code, fmt.Sprintf("flock call %d of %q fails with %v during operation #%d: operation #%d %s answers %q, without the fault %q", k, kslab.HistoryString(h), errno, got.failed+1, i+1, h[i], got.answers[i], want), rp)
				break
			}
		}
		if class == "recovered" && got.problem != "" {
			class = "stored-keys-damaged"
			r.Violation(base+"stored-keys-damaged", fmt.Sprintf("flock call %d of %q fails with %v during operation #%d: at the end %s (stored: %s)", k, kslab.HistoryString(h), errno, got.failed+1, got.problem, got.final), rp)
		}
	}
	r.Distinct(fmt.Sprintf("flock|%s|%v|%s", site, errno, class))
	r.Class("flock:"+class, 1)
}

// flockWithout runs the history without operation i (what a faulted operation without effect leaves).
func flockWithout(h []kslab.Op, i int) string {
	var g []kslab.Op
	g = append(g, h[:i]...)
	g = append(g, h[i+1:]...)
	o := runFlock(g, 0, 0)
	return strings.Join(o.answers, "\x00")
}

func flockPart(r *ev.Run) {
	total, calls := 0, 0
	for _, h := range flockHistories(r.Thorough()) {
		ref := runFlock(h, 0, 0)
		if ref.dead >= 0 || len(ref.panics) > 0 {
			ev.Fatalf("flock part: the unfaulted history %q does not run: %+v", kslab.HistoryString(h), ref)
		}
		again := runFlock(h, 0, 0)
		if ref.problem != "" {
			ev.Fatalf("flock part: the unfaulted history %q ends with damaged keys: %s", kslab.HistoryString(h), ref.problem)
		}
		if strings.Join(again.answers, "|") != strings.Join(ref.answers, "|") || again.final != ref.final || again.calls != ref.calls {
			ev.Fatalf("flock part: two unfaulted runs of %q differ: %+v vs %+v", kslab.HistoryString(h), ref, again)
		}
		without := map[int]string{}
		for i, o := range h {
			if o.Mutating() {
				without[i] = flockWithout(h, i)
			}
		}
		calls += ref.calls
		for k := 1; k <= ref.calls; k++ {
			for _, e := range flockErrnos {
				if r.Expired() {
					r.Capped(fmt.Sprintf("flock part: %d elements done", total))
					return
				}
				flockElement(r, h, k, e, ref, without, false)
				total++
			}
		}
	}
	r.States(total)
	r.Set("flock_failures", map[string]int{"histories": len(flockHistories(r.Thorough())), "flock_calls_of_unfaulted_runs": calls, "errnos": len(flockErrnos), "elements": total})
}

func replayFlock(r *ev.Run, c *flockReplay) {
	ref := runFlock(c.History, 0, 0)
	without := map[int]string{}
	for i, o := range c.History {
		if o.Mutating() {
			without[i] = flockWithout(c.History, i)
		}
	}
	fmt.Printf("replay (flock failure): history %s, %d flock calls without fault\n", kslab.HistoryString(c.History), ref.calls)
	flockElement(r, c.History, c.Call, syscall.Errno(c.Errno), ref, without, true)
	r.States(1)
}
