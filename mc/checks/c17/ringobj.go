package main

// Ring-object scenarios: every writer keeps ONE key ring object (api.MutableKeyRing, opened before
// the threads start, so its snapshot is stale as soon as another writer commits) and performs
// several updates through it - AddKey, SetCurrent, SetState, DestroyKey. This is the state the
// property names ("per-handle KeyRing.data snapshot may be stale") together with the in-memory
// transaction log of the object: an update that fails (concurrent modification, injected back-end
// failure) must leave nothing behind in the object that a LATER successful update of the same object
// would then store.
//
// Oracle: the ring read through a fresh handle after all threads finished equals the result of the
// reference model (list of (seqnum, state, data) + current) applied to exactly the SUCCESSFUL
// operations in some order that respects each thread's program order, every operation being
// enabled in the model when it is applied. Operations are few (<= 5), so all orders are tried.

import (
	"bytes"
	"fmt"
	"sort"
	"strings"

	apiV2 "github.com/cossacklabs/acra/keystore/v2/keystore/api"

	"verif/detrand"
	"verif/ev"
	"verif/sched"
)

const ringPath = "client/alpha_1/storage-sym"

type rop struct {
	Kind  string // add | setcur | setstate | destroy
	Seq   int
	State apiV2.KeyState
}

func (o rop) String() string {
	switch o.Kind {
	case "add":
		return "add"
	case "setcur":
		return fmt.Sprintf("setcur(%d)", o.Seq)
	case "setstate":
		return fmt.Sprintf("setstate(%d,%v)", o.Seq, o.State)
	}
	return fmt.Sprintf("destroy(%d)", o.Seq)
}

type ringScenario struct {
	Name    string
	Pre     []rop // applied through a set-up ring object before the threads exist
	Threads [][]rop
	Fault   bool
}

func rAdd() rop                           { return rop{Kind: "add"} }
func rCur(n int) rop                      { return rop{Kind: "setcur", Seq: n} }
func rState(n int, st apiV2.KeyState) rop { return rop{Kind: "setstate", Seq: n, State: st} }
func rDestroy(n int) rop                  { return rop{Kind: "destroy", Seq: n} }
func threeKeys() []rop                    { return []rop{rAdd(), rAdd(), rAdd(), rCur(3)} }
func ringScenarios(thorough bool) []ringScenario {
	sc := []ringScenario{
		// writer 1's destroy loses against the other writer's state change, then writer 1 goes on
		{Name: "RO-destroy+add|activate", Pre: threeKeys(), Threads: [][]rop{{rDestroy(2), rAdd()}, {rState(2, apiV2.KeyActive)}}},
		{Name: "RO-destroy+add|destroy", Pre: threeKeys(), Threads: [][]rop{{rDestroy(2), rAdd()}, {rDestroy(2)}}},
		{Name: "RO-setcur+state|setcur+add", Pre: threeKeys(), Threads: [][]rop{{rCur(1), rState(2, apiV2.KeyDeactivated)}, {rCur(2), rAdd()}}},
		{Name: "RO-add+setcur|add+setcur", Pre: threeKeys(), Threads: [][]rop{{rAdd(), rCur(4)}, {rAdd(), rCur(4)}}},
		// the back end fails under writer 1's destroy / add (every data call in turn)
		{Name: "RO-destroy+add|activate-fault", Pre: threeKeys(), Threads: [][]rop{{rDestroy(2), rAdd()}, {rState(1, apiV2.KeyActive)}}, Fault: true},
	}
	if thorough {
		sc = append(sc,
			ringScenario{Name: "RO-state-chain", Pre: threeKeys(), Threads: [][]rop{{rState(2, apiV2.KeyActive), rState(2, apiV2.KeySuspended)}, {rState(2, apiV2.KeyDeactivated), rDestroy(2)}}},
			ringScenario{Name: "RO-three-writers", Pre: threeKeys(), Threads: [][]rop{{rDestroy(2), rAdd()}, {rState(2, apiV2.KeyActive)}, {rCur(1), rAdd()}}},
			ringScenario{Name: "RO-setcur+state|setcur+add-fault", Pre: threeKeys(), Threads: [][]rop{{rCur(1), rState(2, apiV2.KeyDeactivated)}, {rCur(2), rAdd()}}, Fault: true},
		)
	}
	return sc
}

// reference model
type mkey struct {
	Seq   int
	State apiV2.KeyState
	Val   string // "" = no data
}
type mring struct {
	Keys []mkey
	Cur  int
}

func (m mring) clone() mring { return mring{Keys: append([]mkey(nil), m.Keys...), Cur: m.Cur} }
func (m *mring) find(seq int) *mkey {
	for i := range m.Keys {
		if m.Keys[i].Seq == seq {
			return &m.Keys[i]
		}
	}
	return nil
}

// apply returns false when the operation is not enabled in this state.
func (m *mring) apply(o rop, val string) bool {
	switch o.Kind {
	case "add":
		next := 1
		if n := len(m.Keys); n > 0 {
			next = m.Keys[n-1].Seq + 1
		}
		m.Keys = append(m.Keys, mkey{Seq: next, State: apiV2.KeyPreActive, Val: val})
		return true
	case "setcur":
		if m.find(o.Seq) == nil {
			return false
		}
		m.Cur = o.Seq
		return true
	case "setstate":
		k := m.find(o.Seq)
		if k == nil || !apiV2.KeyStateTransitionValid(k.State, o.State) {
			return false
		}
		k.State = o.State
		return true
	case "destroy":
		k := m.find(o.Seq)
		if k == nil || !apiV2.KeyStateTransitionValid(k.State, apiV2.KeyDestroyed) {
			return false
		}
		k.State, k.Val = apiV2.KeyDestroyed, ""
		return true
	}
	return false
}

func (m mring) String() string {
	var b strings.Builder
	for _, k := range m.Keys {
		d := "-"
		if k.Val != "" {
			d = "k" + k.Val
		}
		fmt.Fprintf(&b, "%d:%v:%s ", k.Seq, k.State, d)
	}
	fmt.Fprintf(&b, "cur=%d", m.Cur)
	return b.String()
}

type doneOp struct {
	Op  rop
	Val string
}

// serialResults returns the model states reachable by applying the successful operations of every
// thread in some merged order (program order kept), all operations enabled.
func serialResults(start mring, perThread [][]doneOp) map[string]bool {
	out := map[string]bool{}
	idx := make([]int, len(perThread))
	var rec func(m mring)
	rec = func(m mring) {
		done := true
		for t := range perThread {
			if idx[t] < len(perThread[t]) {
				done = false
				o := perThread[t][idx[t]]
				n := m.clone()
				if n.apply(o.Op, o.Val) {
					idx[t]++
					rec(n)
					idx[t]--
				}
			}
		}
		if done {
			out[m.String()] = true
		}
	}
	rec(start)
	return out
}

func symDesc(val []byte) apiV2.KeyDescription {
	return apiV2.KeyDescription{Data: []apiV2.KeyData{{Format: apiV2.ThemisSymmetricKeyFormat, SymmetricKey: append([]byte(nil), val...)}}}
}

func runRop(ring apiV2.MutableKeyRing, o rop, val []byte) error {
	switch o.Kind {
	case "add":
		_, err := ring.AddKey(symDesc(val))
		return err
	case "setcur":
		return ring.SetCurrent(o.Seq)
	case "setstate":
		return ring.SetState(o.Seq, o.State)
	}
	return ring.DestroyKey(o.Seq)
}

// readModel reads the stored ring through a fresh handle into model form; vals maps key bytes to names.
func readModel(b *sbackend, vals map[string]string) (mring, error) {
	_, mks := v2Handle(b)
	ring, err := mks.OpenKeyRing(ringPath)
	if err != nil {
		return mring{}, err
	}
	seqs, err := ring.AllKeys()
	if err != nil {
		return mring{}, err
	}
	sort.Ints(seqs)
	var m mring
	for _, sq := range seqs {
		st, err := ring.State(sq)
		if err != nil {
			return mring{}, err
		}
		k := mkey{Seq: sq, State: st}
		if v, err := ring.SymmetricKey(sq, apiV2.ThemisSymmetricKeyFormat); err == nil {
			name, ok := vals[string(v)]
			if !ok {
				name = "?unknown"
			}
			k.Val = name
		}
		m.Keys = append(m.Keys, k)
	}
	if c, err := ring.CurrentKey(); err == nil {
		m.Cur = c
	}
	return m, nil
}

func (sc ringScenario) build(failAt int) sched.Scenario {
	return func(s *sched.Scheduler) func(x *sched.Execution) []string {
		newExecution()
		detrand.Install(detrand.New("c17/" + sc.Name))
		b := newSBackend()
		vals := map[string]string{}
		val := func(name string) []byte {
			v := bytes.Repeat([]byte{0}, 32)
			copy(v, "key-"+name+"-................................")
			vals[string(v)] = name
			return v
		}
		_, setupKS := v2Handle(b)
		setupRing, err := setupKS.OpenKeyRingRW(ringPath)
		if err != nil {
			ev.Fatalf("ring set-up: %v", err)
		}
		var start mring
		for i, o := range sc.Pre {
			name := fmt.Sprintf("p%d", i)
			if err := runRop(setupRing, o, val(name)); err != nil {
				ev.Fatalf("ring set-up %v: %v", o, err)
			}
			if !start.apply(o, name) {
				ev.Fatalf("ring set-up %v not enabled in the model", o)
			}
		}
		if got, err := readModel(b, vals); err != nil || got.String() != start.String() {
			ev.Fatalf("ring set-up: stored %v (%v), model %v", got, err, start)
		}
		if failAt > 0 {
			b.failThread, b.failAt = 1, failAt
		}
		okOps := make([][]doneOp, len(sc.Threads))
		results := make([][]string, len(sc.Threads))
		for ti, ops := range sc.Threads {
			ti, ops := ti, ops
			_, ks := v2Handle(b)
			ring, err := ks.OpenKeyRingRW(ringPath) // opened now: every writer starts from the same snapshot
			if err != nil {
				ev.Fatalf("open ring: %v", err)
			}
			s.Go(fmt.Sprintf("H%d", ti+1), func() {
				for oi, o := range ops {
					name := fmt.Sprintf("t%do%d", ti+1, oi+1)
					err := runRop(ring, o, val(name))
					if err == nil {
						okOps[ti] = append(okOps[ti], doneOp{o, name})
						results[ti] = append(results[ti], o.String()+"=ok")
					} else {
						results[ti] = append(results[ti], o.String()+"=err")
					}
				}
			})
		}
		return func(x *sched.Execution) []string {
			got, err := readModel(b, vals)
			if err != nil {
				return []string{fmt.Sprintf("final key ring cannot be read through a fresh handle: %v", err)}
			}
			want := serialResults(start, okOps)
			if want[got.String()] {
				return nil
			}
			var outcome []string
			for ti, rs := range results {
				outcome = append(outcome, fmt.Sprintf("H%d:%s", ti+1, strings.Join(rs, ",")))
			}
			if len(want) == 0 {
				return []string{"operations reported success that are not enabled in any serial order: " + strings.Join(outcome, " ")}
			}
			return []string{"final ring is not the result of the successful operations in any serial order: " + strings.Join(outcome, " ") + " -> " + got.String()}
		}
	}
}
