package main

import (
	"fmt"
	"sort"
	"strings"
	"sync"
	"sync/atomic"

	pg_query "github.com/cossacklabs/pg_query_go/v5"

	"verif/par"
	"verif/sqlgen"
)

// Phase "observers": every statement of the space (obs_space.go) goes through the observer
// chain of a real proxy (obs_env.go); the text the proxy would send to the database is parsed
// again and compared with the parse of the received text under the oracle of obs_my.go /
// obs_pg.go.

type obsItem struct {
	SQL  string
	Desc *obsDesc
}

// obsTally counts outcome classes.
type obsTally struct {
	mu sync.Mutex
	m  map[string]int
}

func (t *obsTally) add(k string) {
	t.mu.Lock()
	t.m[k]++
	t.mu.Unlock()
}

func obsItems(thorough bool) (cmp, assign []obsItem, dims map[string]int) {
	sp := newObsCmpSpace(thorough)
	sp.enumerate(thorough, func(sql string, d *obsDesc) { cmp = append(cmp, obsItem{sql, d}) })
	seen := map[string]bool{}
	for _, a := range obsAssignStatements(sp.spell, thorough) {
		if seen[a.SQL] {
			continue
		}
		seen[a.SQL] = true
		assign = append(assign, obsItem{a.SQL, a.Desc})
	}
	return cmp, assign, sp.dims()
}

func runObservers(expired func() bool, thorough bool, col *sqlgen.Collector) {
	d := sqlgen.Current
	env := getObsEnv()
	defer env.close()
	cmp, assign, dims := obsItems(thorough)
	first := env.get()
	col.Info("observers_chain", observerNames(managerOf(first)))
	env.put(first)
	col.Info("observers_dimensions", dims)
	col.Info("observers_comparison_statements_generated", len(cmp))
	col.Info("observers_assignment_statements_generated", len(assign))
	// assignments first: fewer and each of them re-serialised
	items := append(append([]obsItem{}, assign...), cmp...)
	tl := &obsTally{m: map[string]int{}}
	var accepted atomic.Int64
	done := par.Do(len(items), expired, func(i int) {
		c := caseT{Dialect: d, Kind: "observers", SQL: items[i].SQL, Obs: items[i].Desc}
		out := observeOne(col, env, c)
		tl.add(out)
		if out != oRejected {
			accepted.Add(1)
		}
	})
	keys := make([]string, 0, len(tl.m))
	for k := range tl.m {
		keys = append(keys, k)
	}
	sort.Strings(keys)
	for _, k := range keys {
		col.Class("observers:"+k, tl.m[k])
	}
	col.States(int(accepted.Load()))
	col.Info("observers_statements_accepted", accepted.Load())
	if done < len(items) {
		col.Capped(fmt.Sprintf("wall budget: observers phase stopped after %d of %d statements", done, len(items)))
	}
	if len(cmp) > 0 {
		j := len(cmp) / 3
		col.Sample(caseT{Dialect: d, Kind: "observers", SQL: cmp[j].SQL, Obs: cmp[j].Desc})
	}
}

func obsKey(c caseT, feature, class string) string {
	feature = strings.NewReplacer("/", "-", " ", "-").Replace(feature)
	return fmt.Sprintf("C13/observers/%s/%s/%s/%s", c.Dialect, c.Obs.StmtKind, feature, class)
}

// featureFor picks the part of the statement that characterises a failure class.
func featureFor(d *obsDesc, class string) string {
	switch class {
	case "operand-altered":
		r := d.RClass
		if r == "" {
			r = "none"
		}
		return strings.ReplaceAll(d.LClass+"-vs-"+r, ":", "-")
	case "panic":
		if d.Left == "substr-of-searchable" {
			return d.Left
		}
		if d.Ctx != "" && d.Ctx != "alone" {
			return d.Ctx
		}
	}
	return d.Feature
}

var obsShown atomic.Int64

// observeOne is the oracle on one statement.
func observeOne(col *sqlgen.Collector, env *obsEnv, c caseT) string {
	if c.Obs == nil {
		c.Obs = &obsDesc{StmtKind: "unknown", Feature: "unknown"}
	}
	d := c.Obs
	pg := sqlgen.IsPG()
	// is the statement in the space? (accepted by the dialect's own parser)
	var t0pg jmap
	col.Transitions(1)
	if pg {
		if _, err := pg_query.Parse(c.SQL); err != nil {
			return oRejected
		}
		var err error
		if t0pg, err = pgTree(c.SQL); err != nil {
			return oRejected
		}
	} else {
		t0, err, pp := sqlgen.Parse(c.SQL)
		if err != nil || pp != "" || !sqlgen.IsDML(t0) {
			return oRejected
		}
	}
	chain := env.get()
	col.Transitions(1)
	res := chain.send(c.SQL)
	col.Eval(1)
	col.Traces(1)
	if res.Panic != "" {
		// the chain's state after a panic is unknown: do not reuse it
		col.Violation(obsKey(c, featureFor(d, "panic"), "panic"),
			fmt.Sprintf("[%s] observer chain panicked on %q: %s", c.Dialect, c.SQL, res.Panic), c)
		return "panic"
	}
	env.put(chain)
	obsClass := func(out string) string {
		col.Distinct(fmt.Sprintf("%s|observers|%s|%s|%s|%s|%s|%s", c.Dialect, d.StmtKind, d.Feature, d.LClass, d.RClass, d.Ctx, out))
		return out
	}
	if res.QueryErr != "" {
		// PostgreSQL: the changed statement cannot be serialised; the proxy fails the packet
		// and sends nothing (not a statement with another meaning)
		return obsClass("changed-statement-not-serialisable")
	}
	if !res.Changed {
		if res.Err != "" {
			return obsClass("observer-error-received-text-forwarded")
		}
		return obsClass("unchanged")
	}
	if res.Sent == c.SQL {
		return obsClass("changed-flag-same-text")
	}
	col.Transitions(1)
	var diff, shape, class string
	if pg {
		t1, err := pgTree(res.Sent)
		if err != nil {
			col.Violation(obsKey(c, featureFor(d, "reparse-fails"), "reparse-fails"),
				fmt.Sprintf("[%s] the text sent to the database does not parse: received %q, sent %q: %v", c.Dialect, c.SQL, res.Sent, err), c)
			return "reparse-fails"
		}
		u := pgUndo(t0pg, t1, d)
		shape = u.shape()
		if diff = pgDiff(t0pg, t1, ""); diff != "" {
			class = pgDiffClass(diff)
		}
	} else {
		t0 := mustParse(c.SQL)
		t1, err, pp := sqlgen.Parse(res.Sent)
		if pp != "" || err != nil {
			col.Violation(obsKey(c, featureFor(d, "reparse-fails"), "reparse-fails"),
				fmt.Sprintf("[%s] the text sent to the database does not parse: received %q, sent %q: %v %s", c.Dialect, c.SQL, res.Sent, err, pp), c)
			return "reparse-fails"
		}
		u := myUndo(t0, t1, d)
		shape = u.shape()
		if diff = sqlgen.Diff(t0, t1, cmpOpts); diff != "" {
			class = myDiffClass(diff)
		}
	}
	if diff != "" {
		col.Violation(obsKey(c, featureFor(d, class), class),
			fmt.Sprintf("[%s] the text sent to the database differs from the received statement by more than the documented substitutions: received %q, sent %q; first difference after undoing the permitted substitutions (%s): %s",
				c.Dialect, c.SQL, clip(res.Sent, 600), shape, clip(diff, 300)), c)
		return class
	}
	if obsShown.Add(1) <= 2 {
		col.Sample(map[string]interface{}{"dialect": c.Dialect, "kind": "observers", "received": c.SQL, "sent": clip(res.Sent, 400), "substitutions": shape})
	}
	return obsClass("ok:" + shape)
}

func clip(s string, n int) string {
	if len(s) <= n {
		return s
	}
	return s[:n] + fmt.Sprintf("...(%d bytes)", len(s))
}

// observersReplay re-executes one element and prints what happened.
func observersReplay(col *sqlgen.Collector, c caseT) {
	env := getObsEnv()
	defer env.close()
	ch := env.get()
	res := ch.send(c.SQL)
	fmt.Printf("replay observers: received %q\n  sent %q\n  changed=%v error=%q panic=%q\n", c.SQL, clip(res.Sent, 2000), res.Changed, res.Err+res.QueryErr, res.Panic)
	out := observeOne(col, env, c)
	fmt.Printf("  outcome %s\n", out)
}
