// C15 — poison records always raise the alarm, ordinary data never does.
//
// Bounded-exhaustive enumeration on the real implementation. Space (all of it is evaluated):
//
//	key stores   {v1 filesystem, v2 in-memory backend} x poison-key histories {generate;
//	             generate+rotate; rotate twice} (pair and symmetric key rotated together)
//	positives    poison records of both envelope kinds, data length {1,100}, made under EVERY key
//	             of the history (made while that key was current), placed alone / after a genuine
//	             search hash / inserted at offset {0,1,7,mid,end} into fills {zeros, 0xFF, '"' run,
//	             '%' run, text, another client's valid envelope (struct, block), the requesting
//	             client's own valid envelope (struct, block)}
//	negatives    ordinary protected values of every producer / all 6 stored forms of both clients
//	             (alone and embedded, asked for by the owner and by the other client), deterministic
//	             pseudo-random bytes (plain and behind well-formed headers), every truncation and
//	             every single-bit flip of poison records, poison records of a different key store
//	delivery     the column-processor chains built by the real PostgreSQL and MySQL proxy factories
//	             (the proxy is built by factory.New on a stub session; subscriber order and detector
//	             callback order are whatever the factory produced), envl.Lab.ColumnChain mirrors
//	             with/without the old-container wrapper and the hmac processor (v1), every Translator
//	             decrypt operation in both call styles; with and without callbacks configured.
//	sessions     whole sessions through the real MySQL and PostgreSQL proxies (response handlers
//	             included) over {protocol x column configuration x result shape x stored value x
//	             reader}: see sessions.go (own space, oracle and finding keys C15/session/...).
//
// Oracle. Positives: the recording callback ran at least once and its sequence number is smaller
// than the one the harness draws right after the call returns; on the factory chains additionally
// the record was tried with the poison keys before the client's keys (the factories' "poison record
// processor should be first": with the callback order swapped every callback still runs before
// the column is handed on, so only the order of key use shows the swap). Negatives: the callback
// never ran. Without callbacks: no panic, column chains hand the value on unchanged.
//
// Permissive choices (the statement leaves these open): what a path returns after the alarm
// (value, error) is not judged; a bit flip inside the 12-byte container header leaves the
// AEAD-protected envelope intact, so both alarm and silence are admitted there; a flipped record
// that still opens under the poison keys to exactly its original payload is "still valid"
// (bits the crypto backend neither authenticates nor validates) and may alarm - such positions are
// listed in the evidence; a panic with callbacks configured on a negative is not C15's business.
//
// Finding keys: C15/<path>/poison-missed/<cause>, where <cause> is the smallest set of attributes
// (kind, key, fill, record-position, input, keystore) that describes exactly the classes of
// positives that failed on that path; C15/<path>/false-alarm/<negative class>;
// C15/<path>/callback-after-return; C15/<path>/callback-after-client-decrypt-attempt;
// C15/<path>/no-callbacks/....
package main

import (
	"bytes"
	"crypto/sha256"
	"encoding/binary"
	"encoding/json"
	"fmt"
	"os"
	"runtime"
	"sort"
	"strings"
	"sync"
	"time"

	"github.com/cossacklabs/acra/crypto"
	"github.com/cossacklabs/acra/hmac"

	"verif/envl"
	"verif/ev"
	"verif/fx"
	"verif/par"
)

// input is one value "coming back from storage".
type input struct {
	Class    string // positive | ordinary | random | truncated | bitflip | foreign
	Kind     string // envelope kind of the record (struct|block), stored form for ordinary values
	Age      int
	DLen     int
	Fill     string // "", "hash", or the fill name
	Off      string // offset name inside the fill
	Desc     string // alteration / producer description
	Sub      string // sub-class used in finding keys of negatives
	Field    string // bit flips: the record field hit
	Data     []byte
	Rec      []byte // the intact poison record inside Data (positives)
	Positive bool
	IDs      [][]byte
	FlipOff  int    // byte offset of the damage inside the record (damaged records), -1 otherwise
	Payload  []byte // the random payload of the original record (damaged records)
}

func (in input) place() string {
	switch in.Fill {
	case "":
		return "alone"
	case "hash":
		return "searchable"
	}
	return in.Fill + "@" + in.Off
}

// fillClass and offClass are the coarse placement attributes used in finding keys.
func (in input) fillClass() string {
	switch {
	case in.Fill == "":
		return "none(record-alone)"
	case in.Fill == "hash":
		return "search-hash"
	case strings.HasPrefix(in.Fill, "own-"):
		return in.Fill + "-envelope"
	case strings.HasPrefix(in.Fill, "other-"):
		return "other-client-envelope"
	}
	return "plain-bytes"
}

func (in input) offClass() string {
	switch in.Off {
	case "":
		return "-"
	case "0":
		return "before"
	case "end":
		return "after"
	case "mid":
		return "in-the-middle"
	}
	return "within-first-bytes"
}

// caseT is the replay payload: it fully determines one delivery.
type caseT struct {
	Store     string `json:"store"`
	Path      string `json:"path"`
	Callbacks bool   `json:"callbacks_configured"`
	ClientID  string `json:"client_id"`
	Positive  bool   `json:"expect_alarm"`
	Class     string `json:"class"`
	Sub       string `json:"sub_class,omitempty"`
	Kind      string `json:"kind"`
	Age       int    `json:"key_age"`
	DLen      int    `json:"data_len"`
	Place     string `json:"placement"`
	Desc      string `json:"description,omitempty"`
	Input     string `json:"input_hex"`
	Record    string `json:"record_hex,omitempty"`
	FlipOff   int    `json:"damage_offset"`
	Payload   string `json:"payload_hex,omitempty"`
	OwnFill   bool   `json:"own_envelope_fill,omitempty"`
}

type fill struct {
	Name string
	Data []byte
}

func simpleFills() []fill {
	text := []byte("The quick brown fox jumps over the lazy dog; 0123456789 abcdef.\n")
	return []fill{
		{"zeros", bytes.Repeat([]byte{0}, 64)},
		{"ff", bytes.Repeat([]byte{0xFF}, 64)},
		{"quotes", bytes.Repeat([]byte{'"'}, 64)},
		{"pct", bytes.Repeat([]byte{'%'}, 64)},
		{"text", text[:64]},
	}
}

var envFills = []string{"other-struct", "other-block", "own-struct", "own-block"}

func offsets(n int) []struct {
	Name string
	At   int
} {
	return []struct {
		Name string
		At   int
	}{{"0", 0}, {"1", 1}, {"7", 7}, {"mid", n / 2}, {"end", n}}
}

func embed(f, rec []byte, at int) []byte {
	out := make([]byte, 0, len(f)+len(rec))
	out = append(out, f[:at]...)
	out = append(out, rec...)
	return append(out, f[at:]...)
}

func fillsOf(st *store) []fill {
	fs := simpleFills()
	for _, n := range envFills {
		fs = append(fs, fill{n, st.Env[n]})
	}
	return fs
}

// placements returns rec alone, after a search hash and inserted at every offset of every fill.
func placements(st *store, rec []byte, fs []fill) []input {
	out := []input{{Data: rec}, {Fill: "hash", Data: append(append([]byte{}, st.Hash...), rec...)}}
	for _, f := range fs {
		for _, o := range offsets(len(f.Data)) {
			out = append(out, input{Fill: f.Name, Off: o.Name, Data: embed(f.Data, rec, o.At)})
		}
	}
	return out
}

// prng is a private SHA-256 counter stream (independent of the key material stream).
func prng(seed string, n int) []byte {
	var out []byte
	for c := uint64(0); len(out) < n; c++ {
		var b [8]byte
		binary.LittleEndian.PutUint64(b[:], c)
		h := sha256.Sum256(append([]byte("c15/"+seed+"/"), b[:]...))
		out = append(out, h[:]...)
	}
	return out[:n]
}

func randomInputs() []input {
	var out []input
	add := func(desc string, d []byte) {
		out = append(out, input{Class: "random", Kind: "-", Desc: desc, Sub: "random-bytes", Data: d, IDs: [][]byte{fx.Alpha}})
	}
	for _, n := range []int{0, 1, 11, 12, 13, 32, 33, 45, 100, 173, 257, 1000} {
		for s := 0; s < 3; s++ {
			add(fmt.Sprintf("%d bytes, stream %d", n, s), prng(fmt.Sprintf("plain/%d", s), n))
		}
	}
	// random bodies behind well-formed headers reach the handlers
	for _, id := range []byte{crypto.AcraStructEnvelopeID, crypto.AcraBlockEnvelopeID} {
		for _, n := range []int{1, 150, 300} {
			body := prng(fmt.Sprintf("body/%x/%d", id, n), n)
			c, _ := crypto.SerializeEncryptedData(body, id)
			add(fmt.Sprintf("container header id=%#x + %d random bytes", id, n), c)
			tagged := append(bytes.Repeat([]byte{'"'}, 8), body...)
			c, _ = crypto.SerializeEncryptedData(tagged, id)
			add(fmt.Sprintf("container header id=%#x + struct tag + %d random bytes", id, n), c)
		}
	}
	add("struct tag + 250 random bytes", append(bytes.Repeat([]byte{'"'}, 8), prng("rawstruct", 250)...))
	add("block tag + 150 random bytes", append(bytes.Repeat([]byte{'"'}, 4), prng("rawblock", 150)...))
	add("hash id + 300 random bytes", append([]byte{0x7F}, prng("hashlike", 300)...))
	return out
}

// fieldAt names the record field a byte offset falls into.
func fieldAt(kind string, rec []byte, off int) string {
	f := envl.BlockCont
	if kind == "struct" {
		f = envl.StructCont
	}
	for _, x := range envl.Fields(f, rec) {
		if off >= x.Off && off < x.Off+x.Len {
			return x.Name
		}
	}
	return "ciphertext"
}

// ---------------------------------------------------------------------------------------------

type job struct {
	st   *store
	in   *input
	p    *path
	cb   bool
	id   []byte
	skey string
}

type miss struct {
	tuple [6]string
	c     caseT
	msg   string
}

type checker struct {
	r          *ev.Run
	mu         sync.Mutex
	misses     map[string][]miss            // path -> misses
	totals     map[string]map[[6]string]int // path -> tuple -> number of positives delivered
	replayKey  string                       // replay mode: the finding key of the replayed file (a single miss cannot be re-described)
	stillValid map[string]int               // damaged-record sub-class -> alarms admitted because the record still opens to its payload
}

func hashClass(p *path, in []byte) string {
	if p.Family != "translator" || !strings.Contains(p.Name, "Searchable") {
		return "-"
	}
	if hmac.ExtractHash(in) == nil {
		return "value-without-hash-prefix"
	}
	return "value-with-hash-prefix"
}

func tupleOf(p *path, in *input) [6]string {
	age := "current-key"
	if in.Age > 0 {
		age = "rotated-key"
	}
	return [6]string{in.Kind, age, in.fillClass(), in.offClass(), hashClass(p, in.Data), ""}
}

func mkCase(j job) caseT {
	c := caseT{Store: j.st.Name, Path: j.p.Name, Callbacks: j.cb, ClientID: string(j.id), Positive: j.in.Positive,
		Class: j.in.Class, Sub: j.in.Sub, Kind: j.in.Kind, Age: j.in.Age, DLen: j.in.DLen, Place: j.in.place(), Desc: j.in.Desc,
		Input: ev.Hex(j.in.Data), OwnFill: strings.HasPrefix(j.in.Fill, "own-")}
	if j.in.Rec != nil {
		c.Record = ev.Hex(j.in.Rec)
	}
	c.FlipOff = j.in.FlipOff
	if j.in.Payload != nil {
		c.Payload = ev.Hex(j.in.Payload)
	}
	return c
}

func short(b []byte) string {
	if len(b) > 40 {
		return fmt.Sprintf("%x…(%d bytes)", b[:40], len(b))
	}
	return fmt.Sprintf("%x", b)
}

// eval delivers one value through one path and applies the oracle.
func (k *checker) eval(j job, verbose bool) {
	r := k.r
	d := newDelivery(j.st, j.cb)
	data := append([]byte(nil), j.in.Data...)
	o := envl.Guard(func() ([]byte, error) { return j.p.Run(d, j.id, data) })
	ret := seq.Add(1) // the value is in the caller's hands from here on
	d.release()
	if j.cb && j.in.Positive {
		// A callback that has not run by now is a violation either way; waiting a little only tells
		// "ran after the value was handed over" (asynchronous callback) from "never ran".
		for i := 0; i < 5; i++ {
			d.r.mu.Lock()
			n := len(d.r.calls)
			d.r.mu.Unlock()
			if n > 0 {
				break
			}
			time.Sleep(time.Millisecond)
		}
	}
	d.r.mu.Lock()
	calls := append([]int64(nil), d.r.calls...)
	pAt, cAt := d.r.pAtCall, d.r.cAtCall
	pReads, cReads := d.r.poisonReads, d.r.clientReads
	d.r.mu.Unlock()
	r.Eval(1)
	r.Transitions(1)
	r.Traces(1)
	if verbose {
		fmt.Printf("replay %s on %s (callbacks=%v, client %s): callbacks ran %d times %v, returned at %d; poison-key reads %d, client-key reads %d (at first callback %d/%d); out=%s err=%v panic=%q\n",
			j.in.Class, j.p.Name, j.cb, j.id, len(calls), calls, ret, pReads, cReads, pAt, cAt, short(o.Out), o.Err, o.Panic)
	}

	out := "returned"
	switch {
	case o.Panic != "":
		out = "panic"
	case o.Err != nil:
		out = "error"
	case j.p.Column && bytes.Equal(o.Out, j.in.Data):
		out = "unchanged"
	case j.p.Column:
		out = "changed"
	}
	alarm := fmt.Sprintf("alarm=%d", len(calls))
	base := "C15/" + j.p.Key
	c := mkCase(j)

	switch {
	case !j.cb:
		alarm = "no-callbacks"
		switch {
		case o.Panic != "":
			r.Violation(fmt.Sprintf("%s/no-callbacks/%s/panic:%s:%s", base, j.in.Class, envl.PanicSite(o.Stack), envl.PanicClass(o.Panic)),
				fmt.Sprintf("%s panicked on a %s value (%s, %s) with no intrusion callbacks configured: %s", j.p.Name, j.in.Class, j.in.Kind, j.in.place(), o.Panic), c)
		case j.p.Column && o.Err != nil:
			r.Violation(fmt.Sprintf("%s/no-callbacks/%s/column-error", base, j.in.Class),
				fmt.Sprintf("%s returned error %v instead of handing the value on (%s, %s, %s)", j.p.Name, o.Err, j.in.Class, j.in.Kind, j.in.place()), c)
		case j.p.Column && !strings.HasPrefix(j.in.Fill, "own-") && !bytes.Equal(o.Out, j.in.Data):
			// Only the requesting client's own envelope (own-* fills) may legitimately be replaced by its
			// plaintext; there nothing is demanded of the bytes (a record whose last byte is '%' even
			// completes the split own envelope behind it, which is then rightly decrypted).
			r.Violation(fmt.Sprintf("%s/no-callbacks/%s/value-changed", base, j.in.Class),
				fmt.Sprintf("%s changed a value nobody can decrypt (%s, %s, %s): out=%s", j.p.Name, j.in.Class, j.in.Kind, j.in.place(), short(o.Out)), c)
		}
	case j.in.Positive:
		t := tupleOf(j.p, j.in)
		t[5] = j.st.Format
		k.mu.Lock()
		if k.totals[j.p.Key] == nil {
			k.totals[j.p.Key] = map[[6]string]int{}
		}
		k.totals[j.p.Key][t]++
		k.mu.Unlock()
		switch {
		case len(calls) == 0:
			alarm = "MISSED"
			msg := fmt.Sprintf("%s delivered a value containing a %s poison record (key age %d, data length %d, placement %s, store %s) and the intrusion callbacks never ran (outcome %s, err=%v, panic=%q)",
				j.p.Name, j.in.Kind, j.in.Age, j.in.DLen, j.in.place(), j.st.Name, out, o.Err, o.Panic)
			k.mu.Lock()
			k.misses[j.p.Key] = append(k.misses[j.p.Key], miss{t, c, msg})
			k.mu.Unlock()
		case calls[0] > ret:
			alarm = "LATE"
			r.Violation(base+"/callback-after-return", fmt.Sprintf("%s: the callback ran (seq %d) after the call had returned (seq %d) for a %s record, %s",
				j.p.Name, calls[0], ret, j.in.Kind, j.in.place()), c)
		case j.p.Column && j.p.Spy && pAt != cAt+1:
			// Each container candidate is tried once with the poison keys and once with the client's
			// keys; "poison record processor should be first" means that when the callback runs the
			// poison keys have been read exactly once more than the client's keys.
			alarm = "AFTER-CLIENT-ATTEMPT"
			r.Violation(base+"/callback-after-client-decrypt-attempt",
				fmt.Sprintf("%s: the record (%s, %s) was tried with the client's keys before the poison check ran the callbacks (poison-key reads %d, client-key reads %d when the callback ran)",
					j.p.Name, j.in.Kind, j.in.place(), pAt, cAt), c)
		}
	case len(calls) > 0 && (j.in.Class == "bitflip" || j.in.Class == "truncated") && j.in.FlipOff >= 0 && j.in.FlipOff < crypto.SerializedContainerMinSize:
		// Only the 12-byte container framing is damaged, the AEAD-protected envelope behind it is
		// byte-identical and the old-container scan may still find it: an intact poison envelope IS
		// in the value, so the statement admits the alarm (and it admits silence).
		alarm = "alarm-on-intact-inner-envelope"
	case len(calls) > 0 && (j.in.Class == "bitflip" || j.in.Class == "truncated") && stillValid(j.st, j.in):
		// The flip hit bits that the crypto backend in use neither authenticates nor validates (with
		// the stand-in: length/CRC/prefix byte of the ephemeral public key container and the unused
		// top bit of the X25519 coordinate; libthemis validates the container CRC): the record still
		// opens under the poison keys to exactly the original payload, i.e. its authenticated content
		// is unaltered. Admitted, and listed in the evidence.
		alarm = "alarm-on-still-valid-record"
		k.mu.Lock()
		k.stillValid[j.in.Field]++
		k.mu.Unlock()
	default:
		if len(calls) > 0 {
			alarm = "FALSE-ALARM"
			r.Violation(fmt.Sprintf("%s/false-alarm/%s", base, j.in.Sub),
				fmt.Sprintf("%s ran the intrusion callbacks %d times on a value that contains no intact poison record of this key store: %s %s (%s), store %s, client %s",
					j.p.Name, len(calls), j.in.Class, j.in.Kind, strings.TrimSpace(j.in.Desc+" "+j.in.Field), j.st.Name, j.id), c)
		}
	}
	age := "-"
	if j.in.Class == "positive" {
		age = fmt.Sprint(j.in.Age)
	}
	cls := j.in.Class
	if j.in.Class != "positive" {
		cls += ":" + j.in.Sub + ":" + j.in.Field
	}
	r.Distinct(strings.Join([]string{j.p.Name, cls, j.in.Kind, age, j.in.place(), alarm, out}, "|"))
	fam := j.p.Family
	r.Class(fmt.Sprintf("%s:%s:%s:%s", fam, j.in.Class, alarm, out), 1)
}

// report turns the collected misses into violations with one key per cause: the smallest
// description (all / one attribute / two attributes) that covers exactly the failing classes.
func (k *checker) report() {
	dims := []string{"kind", "key", "fill", "record-position", "input", "keystore"}
	var paths []string
	for p := range k.misses {
		paths = append(paths, p)
	}
	sort.Strings(paths)
	for _, p := range paths {
		ms := k.misses[p]
		if k.replayKey != "" {
			for _, m := range ms {
				key := k.replayKey
				if !strings.Contains(key, "/poison-missed/") {
					key = "C15/" + p + "/poison-missed/replayed-case"
				}
				k.r.Violation(key, m.msg, m.c)
			}
			continue
		}
		sort.Slice(ms, func(a, b int) bool {
			x, y := ms[a].c, ms[b].c
			if x.Input != y.Input {
				return x.Input < y.Input
			}
			if x.Path != y.Path {
				return x.Path < y.Path
			}
			return x.Store < y.Store
		})
		failed := map[[6]string]int{}
		first := map[[6]string]miss{}
		for _, m := range ms {
			if failed[m.tuple] == 0 {
				first[m.tuple] = m
			}
			failed[m.tuple]++
		}
		all := k.totals[p]
		emit := func(cause string, ts [][6]string) {
			sort.Slice(ts, func(a, b int) bool { return fmt.Sprint(ts[a]) < fmt.Sprint(ts[b]) })
			pick := first[ts[0]]
			for _, t := range ts {
				for i := 0; i < failed[t]; i++ {
					k.r.Violation("C15/"+p+"/poison-missed/"+cause, pick.msg, pick.c)
				}
			}
		}
		// classes in which every delivery failed are described greedily by the smallest attribute
		// sets (all / one / two / ... attributes) that select only such classes; classes that failed
		// only partly are reported one by one
		fully := map[[6]string]bool{}
		remaining := map[[6]string]bool{}
		for t, n := range failed {
			if n == all[t] {
				fully[t], remaining[t] = true, true
			} else {
				emit(strings.Join(t[:], ",")+",some", [][6]string{t})
			}
		}
		for len(remaining) > 0 {
			found := false
			for size := 0; size <= len(dims) && !found; size++ {
				bestCover, bestName := 0, ""
				var bestSel [][6]string
				for m := 0; m < 1<<len(dims); m++ {
					var idx []int
					for b := 0; b < len(dims); b++ {
						if m&(1<<b) != 0 {
							idx = append(idx, b)
						}
					}
					if len(idx) != size {
						continue
					}
					seen := map[[6]string]bool{}
					for t := range remaining {
						var want [6]string
						for _, b := range idx {
							want[b] = t[b]
						}
						if seen[want] {
							continue
						}
						seen[want] = true
						ok, cover := true, 0
						var sel [][6]string
						for x := range all {
							match := true
							for _, b := range idx {
								if x[b] != want[b] {
									match = false
								}
							}
							if !match {
								continue
							}
							if !fully[x] {
								ok = false
								break
							}
							if remaining[x] {
								cover++
								sel = append(sel, x)
							}
						}
						if !ok || cover == 0 {
							continue
						}
						name := "all-poison-records"
						if len(idx) > 0 {
							var parts []string
							for _, b := range idx {
								parts = append(parts, dims[b]+"="+want[b])
							}
							name = strings.Join(parts, ",")
						}
						if cover > bestCover || (cover == bestCover && name < bestName) {
							bestCover, bestName, bestSel = cover, name, sel
						}
					}
				}
				if bestCover > 0 {
					emit(bestName, bestSel)
					for _, t := range bestSel {
						delete(remaining, t)
					}
					found = true
				}
			}
		}
	}
}

func main() {
	r := ev.New("C15", "model_checking")
	fx.Quiet()

	// key stores: both formats x three histories, plus a foreign store whose poison records must
	// not alarm anybody else
	var stores []*store
	for h := 1; h <= 3; h++ {
		stores = append(stores, newStoreV1(fmt.Sprintf("v1-h%d", h), h))
	}
	stores = append(stores, newStoreV1("v1-h3-middle-destroyed", 4))
	foreign := newStoreV1("v1-foreign", 1)
	initSchemas()
	for h := 1; h <= 3; h++ {
		stores = append(stores, newStoreV2(fmt.Sprintf("v2-h%d", h), h, runtime.GOMAXPROCS(0)))
	}
	stores = append(stores, newStoreV2("v2-h3-middle-destroyed", 4, runtime.GOMAXPROCS(0)))
	defer func() {
		for _, s := range append(stores, foreign) {
			s.close()
		}
	}()
	for _, s := range stores {
		if s.Broken != "" {
			r.Violation("C15/"+s.Format+"/poison-key-history/records-of-live-keys-unreadable", s.Name+": "+s.Broken, map[string]string{"store": s.Name})
		}
	}
	paths := allPaths()
	byName := map[string]*store{foreign.Name: foreign}
	for _, s := range stores {
		byName[s.Name] = s
	}
	k := &checker{r: r, misses: map[string][]miss{}, totals: map[string]map[[6]string]int{}, stillValid: map[string]int{}}

	if r.Replay != "" && sessionReplay(r, stores) { // replay files of the session phase (sessions.go)
		r.Finish()
	}
	if r.Replay != "" {
		var c caseT
		r.LoadReplay(&c)
		var doc struct {
			Key string `json:"finding_key"`
		}
		if b, err := os.ReadFile(r.Replay); err == nil {
			json.Unmarshal(b, &doc)
		}
		k.replayKey = doc.Key
		if k.replayKey == "" {
			k.replayKey = "replay"
		}
		st := byName[c.Store]
		if st == nil {
			ev.Fatalf("replay: unknown store %q", c.Store)
		}
		for i := range paths {
			if paths[i].Name == c.Path {
				in := &input{Class: c.Class, Kind: c.Kind, Age: c.Age, DLen: c.DLen, Desc: c.Desc, Sub: c.Sub, Data: ev.Unhex(c.Input), Positive: c.Positive}
				if c.Record != "" {
					in.Rec = ev.Unhex(c.Record)
				}
				in.FlipOff = c.FlipOff
				if c.Payload != "" {
					in.Payload = ev.Unhex(c.Payload)
				}
				in.Fill, in.Off = "", ""
				if i := strings.Index(c.Place, "@"); i > 0 {
					in.Fill, in.Off = c.Place[:i], c.Place[i+1:]
				} else if c.Place == "searchable" {
					in.Fill = "hash"
				}
				k.eval(job{st: st, in: in, p: &paths[i], cb: c.Callbacks, id: []byte(c.ClientID)}, true)
			}
		}
		k.report()
		r.Finish()
	}

	// wiring evidence: what the real factories built
	shapes := map[string]string{}
	for i := range paths {
		if paths[i].Family == "pg" || paths[i].Family == "mysql" {
			for _, cb := range []bool{true, false} {
				d := newDelivery(stores[0], cb)
				search := strings.Contains(paths[i].Name, "search=true")
				shapes[fmt.Sprintf("%s callbacks=%v", paths[i].Name, cb)] = chainShape(factoryObserver(d, paths[i].Family, search, fx.Alpha))
				d.release()
			}
		}
	}
	r.Set("factory_chains", shapes)

	// ------------------------------------------------------------------ enumerate the inputs
	perStore := map[*store][]*input{}
	nInputs := 0
	add := func(st *store, in input) {
		if in.IDs == nil {
			in.IDs = [][]byte{fx.Alpha}
		}
		if in.Class != "bitflip" && in.Class != "truncated" {
			in.FlipOff = -1
		}
		x := in
		perStore[st] = append(perStore[st], &x)
		nInputs++
	}
	rnd := randomInputs()
	for _, st := range stores {
		fs := fillsOf(st)
		// positives: every record of the history at every placement
		for _, rc := range st.Records {
			for _, pl := range placements(st, rc.Data, fs) {
				pl.Class, pl.Kind, pl.Age, pl.DLen, pl.Rec, pl.Positive = "positive", rc.Kind, rc.Age, rc.DLen, rc.Data, true
				add(st, pl)
			}
		}
		// foreign poison records: same placements on simple fills, must stay silent
		for _, rc := range foreign.Records {
			for _, pl := range placements(st, rc.Data, simpleFills()) {
				if !r.Thorough() && pl.Fill != "" && pl.Fill != "hash" && pl.Off != "7" {
					continue
				}
				pl.Class, pl.Kind, pl.DLen, pl.Sub = "foreign", rc.Kind, rc.DLen, "foreign-poison-record"
				pl.Desc = "record of key store " + foreign.Name
				pl.Rec = rc.Data
				add(st, pl)
			}
		}
		// ordinary protected values of both clients, asked for by owner and by the other client
		if r.Thorough() || st.Hist == 2 {
			sizes := []int{1, 100}
			for _, owner := range [][]byte{fx.Alpha, fx.Bravo} {
				for _, n := range sizes {
					pt := bytes.Repeat([]byte{'p'}, n)
					type pv struct {
						name string
						f    envl.Form
						v    []byte
					}
					var vals []pv
					if st.Lab != nil {
						for _, p := range envl.Producers {
							o := st.Lab.Protect(p, owner, pt)
							if o.Err != nil || o.Panic != "" {
								ev.Fatalf("producer %s: %v %s", p.Name, o.Err, o.Panic)
							}
							vals = append(vals, pv{p.Name, p.Form, o.Out})
						}
					} else {
						for _, f := range envl.AllForms {
							vals = append(vals, pv{"library:" + string(f), f, produce(st.KS, f, owner, pt)})
						}
					}
					for _, v := range vals {
						base := input{Class: "ordinary", Kind: string(v.f), DLen: n, Sub: "ordinary-envelope:" + string(v.f),
							Desc: fmt.Sprintf("%s of %s", v.name, owner), IDs: [][]byte{fx.Alpha, fx.Bravo}}
						x := base
						x.Data = v.v
						add(st, x)
						for _, f := range simpleFills() {
							if f.Name != "zeros" && f.Name != "text" {
								continue
							}
							for _, o := range offsets(len(f.Data)) {
								if o.Name == "1" || o.Name == "mid" {
									continue
								}
								x := base
								x.Fill, x.Off, x.Data = f.Name, o.Name, embed(f.Data, v.v, o.At)
								add(st, x)
							}
						}
					}
				}
			}
		}
		// pseudo-random bytes
		for _, in := range rnd {
			add(st, in)
		}
		// damaged records: every truncation and every single-bit flip
		damaged := func(rc record) {
			payload := openRecord(st, rc.Kind, rc.Data)
			if payload == nil {
				ev.Fatalf("%s: cannot open own %s poison record", st.Name, rc.Kind)
			}
			for n, a := range envl.Truncations(rc.Data) {
				add(st, input{Class: "truncated", Kind: rc.Kind, Age: rc.Age, DLen: rc.DLen, Desc: a.Desc, Sub: "truncated-poison-record", Data: a.Data,
					FlipOff: n, Payload: payload})
			}
			for i, a := range envl.BitFlips(rc.Data) {
				add(st, input{Class: "bitflip", Kind: rc.Kind, Age: rc.Age, DLen: rc.DLen, Desc: a.Desc,
					Sub: "bitflipped-poison-record:" + rc.Kind, Field: fieldAt(rc.Kind, rc.Data, i/8), Data: a.Data, FlipOff: i / 8, Payload: payload})
			}
		}
		for _, rc := range st.Records {
			switch {
			case st.Name == "v1-h2" && rc.DLen == 1 && rc.Age == 0:
				damaged(rc) // quick: current-key records of both kinds, data length 1, v1
			case r.Thorough() && st.Hist == 2:
				damaged(rc) // thorough: every record (both keys, both lengths, both kinds) of v1-h2 and v2-h2
			}
		}
	}
	r.States(nInputs)

	// ------------------------------------------------------------------ deliveries
	var jobs []job
	for _, st := range stores {
		for _, in := range perStore[st] {
			for i := range paths {
				p := &paths[i]
				if p.V1Only && st.Lab == nil {
					continue
				}
				for _, id := range in.IDs {
					jobs = append(jobs, job{st: st, in: in, p: p, cb: true, id: id})
					// without callbacks: everything that contains a poison record, plus random bytes
					if in.Class == "positive" || in.Class == "foreign" || in.Class == "random" || (r.Thorough() && in.Class != "ordinary") {
						jobs = append(jobs, job{st: st, in: in, p: p, cb: false, id: id})
					}
				}
			}
		}
	}
	for i := 0; i < len(jobs); i += len(jobs)/5 + 1 {
		c := mkCase(jobs[i])
		if len(c.Input) > 160 {
			c.Input = c.Input[:160] + "..."
		}
		if len(c.Record) > 80 {
			c.Record = c.Record[:80] + "..."
		}
		r.Sample(c)
	}
	done := par.Do(len(jobs), r.Expired, func(i int) { k.eval(jobs[i], false) })
	if done < len(jobs) {
		r.Capped(fmt.Sprintf("wall budget: %d of %d deliveries done", done, len(jobs)))
	}
	k.report()
	r.Set("damaged_records_still_opening_to_their_payload_admitted", k.stillValid)

	// whole sessions through the real MySQL and PostgreSQL proxies (sessions.go); last: it switches
	// the process-wide SQL dialect and re-initialises the crypto registry
	if !r.Expired() {
		sessionPhase(r, stores)
	} else {
		r.Capped("wall budget: session phase not run")
	}

	var pn []string
	for _, p := range paths {
		pn = append(pn, p.Name)
	}
	r.Set("delivery_paths", pn)
	r.Set("key_stores", []string{"v1-h1", "v1-h2", "v1-h3", "v2-h1", "v2-h2", "v2-h3", "v1-foreign (source of foreign records)"})
	r.Set("record_data_lengths", dataLens)
	h := sha256.New()
	for _, st := range stores {
		for _, rc := range st.Records {
			h.Write(rc.Data)
		}
	}
	r.Set("records_digest", fmt.Sprintf("%x", h.Sum(nil)[:8])) // equal across runs: keys and records are reproducible
	r.Set("deliveries", len(jobs))
	r.Rule("state = one value coming back from storage (per key store: every poison record of the history x {alone, after a search hash, 9 fills x 5 offsets}; foreign-store records; ordinary envelopes of every producer/form x 2 owners x {alone, embedded}; pseudo-random byte strings; every truncation and every single-bit flip of poison records); transition = that value delivered through one path (4 real proxy-factory chains, 4 Lab.ColumnChain mirrors on v1, 6 Translator decrypt operations) under one client identity with callbacks configured or not; distinct_nontrivial counts distinct (path, class, kind/form, key age, placement, alarm outcome, value outcome) tuples" + sessionRule)
	r.Assume("Themis is replaced by the pure-Go stand-in /verif/shim/gothemis (AEAD assumption: any change to ciphertext, tag, nonce, context or key makes decryption fail)",
		"values reach the factory-built chains without column info in the context, so the wire-format decoder/encoder subscribers of the proxies pass them through unchanged (wire encodings are the subject of the session-level checks)",
		"base.OldContainerDetectionOn is a constant (true) in this tree: the factory chains always carry the OldContainerDetectorWrapper; the variant without it is covered through envl.Lab.ColumnChain on the v1 store only",
		"pair and symmetric poison keys are rotated together (histories of 1, 2 and 3 keys of each kind); v1 key store without key cache")
	r.Assume(sessionAssumptions...)
	r.Finish()
}
