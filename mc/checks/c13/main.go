// C13 — re-serialised statements mean the same as the statements received.
// Bounded-exhaustive enumeration on the real parser/printer (sqlparser.New(ModeStrict).Parse,
// sqlparser.String, encryptor/mysql.UpdateExpressionValue), one worker process per SQL dialect
// (the dialect is a process-wide global): (a) every valid-case statement literal of Acra's
// own parser tests, (b) every derivation of a compact DML grammar up to a depth, (c) every
// expression sub-tree of every seed spliced into every expression slot of every seed, (d)
// every literal of every seed replaced the way the MySQL query encryptor replaces values, with
// each member of a byte-string menu.
// Oracle: t = Parse(s); s' = String(t); t' = Parse(s') succeeds; t' is structurally equal to t
// (reflective comparison, sqlgen/compare.go); String(t') == s'; for (d) t' equals the tree
// with the substituted node and that node decodes to exactly the substituted bytes. In the
// MySQL dialects additionally: the string literals of the received and of the sent text, read
// by an independent lexer with MySQL's own rules (sqlgen/mysqllex.go), are the same sequence
// (the tree comparison alone cannot see a literal Acra's tokenizer decodes differently from
// the database and prints back from the decoded form).
package main

import (
	"flag"
	"os"
	"runtime/pprof"
	"time"

	"github.com/sirupsen/logrus"

	"verif/ev"
	"verif/fx"
	"verif/sqlgen"
)

var (
	workerDialect = flag.String("worker", "", "internal: run as the worker of this dialect")
	outFile       = flag.String("out", "", "internal: worker result file")
	onlyPhase     = flag.String("phase", "", "run only this phase (idents|observers|grammar|splice|subst; the seed statements always run), for debugging")
)

func main() {
	r := ev.New("C13", "model_checking")
	logrus.SetOutput(os.Stderr)
	logrus.SetLevel(logrus.PanicLevel)

	if r.Replay != "" {
		var c caseT
		r.LoadReplay(&c)
		sqlgen.Install(c.Dialect)
		col := sqlgen.NewCollector()
		replay(col, c)
		tmp := fx.Scratch("c13r")
		defer os.RemoveAll(tmp)
		col.Dump(tmp + "/r.json")
		sqlgen.Merge(r, tmp+"/r.json", c.Dialect)
		os.RemoveAll(tmp)
		r.Finish()
	}

	if *workerDialect != "" {
		// this worker's wall budget: the -budget flag or the tier default of ev, a little less
		// so that the result file is written in time
		budget := 4 * time.Minute
		if r.Thorough() {
			budget = 40 * time.Minute
		}
		if b := flag.Lookup("budget"); b != nil {
			if dur, err := time.ParseDuration(b.Value.String()); err == nil && dur > 0 {
				budget = dur
			}
		}
		workerDeadline = time.Now().Add(budget * 95 / 100)
		sqlgen.Install(*workerDialect)
		col := sqlgen.NewCollector()
		if pf := os.Getenv("VERIF_CPUPROFILE"); pf != "" {
			f, _ := os.Create(pf + "." + *workerDialect)
			pprof.StartCPUProfile(f)
			defer pprof.StopCPUProfile()
		}
		runWorker(r, col)
		col.Dump(*outFile)
		return
	}

	scratch := fx.Scratch("c13")
	defer os.RemoveAll(scratch)
	var workers []sqlgen.Worker
	for _, d := range sqlgen.Dialects {
		workers = append(workers, sqlgen.Worker{Label: d, Args: []string{"-worker", d}})
	}
	var common []string
	if *onlyPhase != "" {
		common = append(common, "-phase", *onlyPhase)
	}
	if b := flag.Lookup("budget"); b != nil && b.Value.String() != "0s" {
		common = append(common, "-budget", b.Value.String())
	}
	sqlgen.RunWorkers(r, scratch, workers, common)
	os.RemoveAll(scratch)

	r.Rule("state = one distinct statement text in one dialect configuration (mysql, mysql-ansi, postgresql), only statements the strict parser accepts as DML count: (a) every valid-case literal of sqlparser/parse_test.go + precedence_test.go (extracted with go/ast at run time); (b) every derivation of the sqlgen grammar: every statement skeleton (all combinations of optional clauses of SELECT/UNION/INSERT/UPDATE/DELETE); every atom (identifier/literal/placeholder/cast spelling) in every statement context and at every operand position of every expression form, every pair of atoms around two-operand forms (quick: core forms); every operator chain of length <= 2 over all forms in every context (quick: 7 main contexts); every full operator tree of depth 2 over the core forms; every chain of length 3 over the core forms (quick: WHERE and select-list contexts; thorough: every context) and of length 4 (thorough: WHERE context); (c) every textually distinct expression sub-tree of every seed (quick: one per root signature) spliced - non-atomic ones inside ParenExpr - into every expression slot of every seed of the same dialect; (d) every literal (in an expression position) of every seed and of every atom-in-context statement substituted through encryptor/mysql.UpdateExpressionValue with every member of the byte menu (MySQL dialects). transition = one Parse or String call; trace = one statement taken through parse-print-parse-print. distinct_nontrivial = distinct (dialect, AST parent>child edge with operators, outcome) and (dialect, slot, spliced root, outcome) and (dialect, slot, literal kind before->after, menu entry) observations")
	tierDepth := 3
	if r.Thorough() {
		tierDepth = 4
	}
	r.Set("grammar_max_chain_depth", tierDepth)
	r.Set("dialects", sqlgen.Dialects)
	r.Assume("comparison ignores only: lower-case caches of identifiers, ColName.Metadata (not set by the parser), names of non-mask placeholders (all printed as ?), ORDER BY direction on NULL/rand() (never printed), and in PostgreSQL quotes added around a lower-case keyword identifier; MySQL `interval '<string>' <unit>` (valid MySQL that Acra's grammar rejects) is counted as unverifiable, not as a violation",
		"the meaning of a statement is its sqlparser tree: two texts mean the same iff the strict parser of the same dialect builds structurally equal trees (a literal the parser itself decodes differently from the database, e.g. MySQL '\\%' or PostgreSQL standard_conforming_strings, is outside this model)",
		"PostgreSQL value substitution goes through pg_query (encryptor/postgresql) and is not in scope; only the sqlparser path (MySQL encryptors) is exercised for (d)",
		"forwarded text of full proxy sessions (C04) is not re-checked here: the encryptors forward exactly sqlparser.String(tree)")
	r.Finish()
}
