package main

import (
	"fmt"
	"strings"
)

// Phase "idents", second menu: the identifier ALPHABET. A quoted identifier may hold any
// byte; which of them the printer may write without quotes is decided by a character table
// of the printer (formatIDForDialect), which of them the tokenizer reads back as one name by
// a character table of the tokenizer (scanIdentifier), and which of them the database reads
// as one name by the database's own table (MySQL: [0-9a-zA-Z$_] and bytes >= 0x80). The
// three tables must agree on every character; the hostile-byte menu of idents.go holds only
// a few punctuation characters. Here every printable ASCII character that is not a letter
// or a digit (0x20..0x7E: 33 characters, among them '@', '$', '#', '.', '-', '_') stands in
// every place of a name (inner, leading, trailing, alone, doubled leading, doubled inner),
// in every identifier position of the grammar (the template list of idents.go: table,
// column, alias, qualifier, function name, ...), in every quote style of the dialect.
// thorough: additionally every ordered pair of such characters next to each other inside a
// name (a<c1><c2>b), and the two-identifier templates over pairs of inner-shape names.
// Oracle: the one of the identifier phase (round trip on Acra's parser/printer, and the
// independent reading of the quoted identifiers of the received and the sent text).

// punctAlphabet: every printable ASCII byte that is not a letter or a digit.
func punctAlphabet() []byte {
	var out []byte
	for c := byte(0x20); c <= 0x7e; c++ {
		if (c >= '0' && c <= '9') || (c >= 'a' && c <= 'z') || (c >= 'A' && c <= 'Z') {
			continue
		}
		out = append(out, c)
	}
	return out
}

var punctNames = map[byte]string{
	' ': "space", '!': "exclamation-mark", '"': "double-quote", '#': "hash", '$': "dollar", '%': "percent", '&': "ampersand",
	'\'': "single-quote", '(': "left-paren", ')': "right-paren", '*': "asterisk", '+': "plus", ',': "comma", '-': "minus",
	'.': "dot", '/': "slash", ':': "colon", ';': "semicolon", '<': "less-than", '=': "equals", '>': "greater-than",
	'?': "question-mark", '@': "at-sign", '[': "left-bracket", '\\': "backslash", ']': "right-bracket", '^': "caret",
	'_': "underscore", '`': "backtick", '{': "left-brace", '|': "pipe", '}': "right-brace", '~': "tilde",
}

// byteName: a stable name of a byte for finding keys.
func byteName(c byte) string {
	if n, ok := punctNames[c]; ok {
		return n
	}
	if (c >= '0' && c <= '9') || (c >= 'a' && c <= 'z') || (c >= 'A' && c <= 'Z') {
		return "alnum"
	}
	return fmt.Sprintf("byte-0x%02x", c)
}

type alphaShape struct {
	Name string
	Make func(c byte) string
}

// alphaShapes: the places of a name in which the character stands.
func alphaShapes() []alphaShape {
	s := func(c byte) string { return string([]byte{c}) }
	return []alphaShape{
		{"inner", func(c byte) string { return "a" + s(c) + "b" }},
		{"leading", func(c byte) string { return s(c) + "a" }},
		{"trailing", func(c byte) string { return "a" + s(c) }},
		{"alone", func(c byte) string { return s(c) }},
		{"doubled-leading", func(c byte) string { return s(c) + s(c) + "a" }},
		{"doubled-inner", func(c byte) string { return "a" + s(c) + s(c) + "b" }}, // thorough (alphaQuickShapes)
	}
}

// alphaQuickShapes: how many of the shapes the quick tier runs (the first ones).
const alphaQuickShapes = 5

// alphabetJobs: the single-identifier statements of the alphabet menu.
func alphabetJobs(thorough bool) []identJob {
	var jobs []identJob
	styles, shapes, chars := identStyles(), alphaShapes(), punctAlphabet()
	if !thorough {
		shapes = shapes[:alphaQuickShapes]
	}
	add := func(tmpls []string, base int, stringQuoted bool) {
		for ti, t := range tmpls {
			for _, st := range styles {
				if stringQuotedStyle(st) != stringQuoted {
					continue
				}
				for _, sh := range shapes {
					for _, c := range chars {
						raw := sh.Make(c)
						jobs = append(jobs, identJob{sql: strings.ReplaceAll(t, "{}", st.quote(raw)), style: st, raws: []string{raw},
							tmpl: base + ti, entry: byteName(c) + "/" + sh.Name, alpha: true, shape: sh.Name, char: byteName(c)})
					}
				}
			}
		}
	}
	add(identTemplates(), 0, false)
	add(identAliasTemplates(), 1000, true)
	return jobs
}

// alphabetThoroughJobs: every ordered pair of alphabet characters next to each other inside a
// name, in every template; the two-identifier templates over pairs of inner-shape names.
func alphabetThoroughJobs() []identJob {
	var jobs []identJob
	styles, chars := identStyles(), punctAlphabet()
	two := func(tmpls []string, base int, stringQuoted bool) {
		for ti, t := range tmpls {
			for _, st := range styles {
				if stringQuotedStyle(st) != stringQuoted {
					continue
				}
				for _, c1 := range chars {
					for _, c2 := range chars {
						if c1 == c2 {
							continue // the doubled-inner shape
						}
						raw := "a" + string([]byte{c1, c2}) + "b"
						jobs = append(jobs, identJob{sql: strings.ReplaceAll(t, "{}", st.quote(raw)), style: st, raws: []string{raw},
							tmpl: base + ti, entry: byteName(c1) + "+" + byteName(c2) + "/inner", alpha: true, shape: "two-inner", char: byteName(c1) + "+" + byteName(c2)})
					}
				}
			}
		}
	}
	two(identTemplates(), 0, false)
	two(identAliasTemplates(), 1000, true)
	for ti, t := range identPairTemplates() {
		for _, st := range styles {
			if stringQuotedStyle(st) {
				continue
			}
			for _, c1 := range chars {
				for _, c2 := range chars {
					if c1 == c2 {
						continue
					}
					a, b := "a"+string([]byte{c1})+"b", "a"+string([]byte{c2})+"b"
					sql := strings.ReplaceAll(strings.ReplaceAll(t, "{1}", st.quote(a)), "{2}", st.quote(b))
					jobs = append(jobs, identJob{sql: sql, style: st, raws: []string{a, b}, tmpl: ti, pair: true,
						entry: byteName(c1) + "/inner+" + byteName(c2) + "/inner", alpha: true, shape: "pair-inner", char: byteName(c1) + "+" + byteName(c2)})
				}
			}
		}
	}
	return jobs
}

// blankQuoted replaces every quoted token (identifier or string) of a text by spaces: what is
// left is the text written outside quotes.
func blankQuoted(text, idQuotes, strQuotes string) string {
	b := []byte(text)
	for i := 0; i < len(b); i++ {
		c := b[i]
		isID, isStr := strings.IndexByte(idQuotes, c) >= 0, strings.IndexByte(strQuotes, c) >= 0
		if !isID && !isStr {
			continue
		}
		b[i] = ' '
		i++
		for i < len(b) {
			if isStr && b[i] == '\\' && i+1 < len(b) {
				b[i], b[i+1] = ' ', ' '
				i += 2
				continue
			}
			if b[i] == c {
				if i+1 < len(b) && b[i+1] == c {
					b[i], b[i+1] = ' ', ' '
					i += 2
					continue
				}
				b[i] = ' '
				break
			}
			b[i] = ' '
			i++
		}
	}
	return string(b)
}

// printedBareClass names the first character of a name that MySQL does not read inside an
// unquoted name, and whether it leads the name.
func printedBareClass(raw string) string {
	for i := 0; i < len(raw); i++ {
		c := raw[i]
		if c == '_' || c == '$' || c >= 0x80 || (c >= 'a' && c <= 'z') || (c >= 'A' && c <= 'Z') || (c >= '0' && c <= '9' && i > 0) {
			continue
		}
		if c >= '0' && c <= '9' {
			return "digit/leading"
		}
		if i == 0 {
			return byteName(c) + "/leading"
		}
		return byteName(c) + "/inner"
	}
	return "empty-name"
}
