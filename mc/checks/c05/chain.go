package main

// Firewall configurations: own description, YAML text for the real loader, the independent
// evaluator of the documented chain semantics, and the driver of the real AcraCensor.

import (
	"fmt"
	"runtime/debug"
	"strings"

	acracensor "github.com/cossacklabs/acra/acra-censor"
	"github.com/cossacklabs/acra/acra-censor/common"
	"github.com/cossacklabs/acra/sqlparser"
	"github.com/cossacklabs/acra/sqlparser/dialect/mysql"
	"github.com/cossacklabs/acra/sqlparser/dialect/postgresql"
	"gopkg.in/yaml.v2"
)

// handlerT is one handler of a chain. Rules index into world.rules; Ignore lists pool statement
// indices (>= 0) or unparsable strings (-(k+1)).
type handlerT struct {
	Kind   string `json:"handler"` // allowall denyall allow deny query_ignore
	Rules  []int  `json:"rules,omitempty"`
	Ignore []int  `json:"ignore,omitempty"`
}

type configT struct {
	IPE   bool       `json:"ignore_parse_error"`
	Chain []handlerT `json:"chain"`
}

func (c configT) shape() string {
	if len(c.Chain) == 0 {
		return "empty"
	}
	var l []string
	for _, h := range c.Chain {
		l = append(l, h.Kind)
	}
	return strings.Join(l, ",")
}

func (c configT) id() string {
	var b strings.Builder
	fmt.Fprintf(&b, "%v", c.IPE)
	for _, h := range c.Chain {
		fmt.Fprintf(&b, "|%s%v%v", h.Kind, h.Rules, h.Ignore)
	}
	return b.String()
}

// world is everything that is fixed for one run: pool, rules, reference match matrix, texts.
type world struct {
	thorough bool
	pool     []*stmtT
	rules    []*ruleT
	tables   []tablesT
	refRule  [][]tri               // [rule][stmt] for queries / patterns rules (tables rules: handler level)
	refDiff  [][]string            // first difference (patterns), diagnosis only
	texts    map[string][][]string // dialect -> [stmt][variant]
	ruleText map[string][]string   // dialect -> [rule]
}

func newWorld(thorough bool) *world {
	w := &world{thorough: thorough, pool: buildPool(thorough)}
	w.rules = deriveRules(w.pool)
	for _, s := range w.pool {
		w.tables = append(w.tables, stmtTables(s))
	}
	w.refRule = make([][]tri, len(w.rules))
	w.refDiff = make([][]string, len(w.rules))
	for ri, r := range w.rules {
		w.refRule[ri] = make([]tri, len(w.pool))
		w.refDiff[ri] = make([]string, len(w.pool))
		for si, s := range w.pool {
			switch r.Kind {
			case "queries":
				w.refRule[ri][si] = refQuery(w.pool, r, si)
			case "patterns":
				w.refRule[ri][si], w.refDiff[ri][si] = refPattern(w.pool, r, s)
			}
		}
	}
	w.texts = map[string][][]string{}
	w.ruleText = map[string][]string{}
	for _, d := range dialects {
		var tt [][]string
		for _, s := range w.pool {
			var vs []string
			for v := 0; v < nVariants; v++ {
				vs = append(vs, text(s.Root, nil, d, v))
			}
			tt = append(tt, vs)
		}
		w.texts[d] = tt
		var rt []string
		for _, r := range w.rules {
			rt = append(rt, r.text(w.pool, d))
		}
		w.ruleText[d] = rt
	}
	return w
}

var dialects = []string{"mysql", "postgresql"}

func setDialect(d string) {
	switch d {
	case "mysql":
		sqlparser.SetDefaultDialect(mysql.NewMySQLDialect())
	case "postgresql":
		sqlparser.SetDefaultDialect(postgresql.NewPostgreSQLDialect())
	default:
		panic("dialect " + d)
	}
}

// ---- YAML for the real loader -----------------------------------------------------------------

type yamlHandler struct {
	Handler  string   `yaml:"handler"`
	Queries  []string `yaml:"queries,omitempty"`
	Tables   []string `yaml:"tables,omitempty"`
	Patterns []string `yaml:"patterns,omitempty"`
}

type yamlConfig struct {
	IgnoreParseError bool          `yaml:"ignore_parse_error"`
	Version          string        `yaml:"version"`
	Handlers         []yamlHandler `yaml:"handlers"`
}

func (w *world) ignoreText(d string, i int) string {
	if i < 0 {
		return unparsable[-i-1]
	}
	return w.texts[d][i][vAsIs]
}

func (w *world) yamlOf(c configT, d string) []byte {
	y := yamlConfig{IgnoreParseError: c.IPE, Version: acracensor.MinimalCensorConfigVersion, Handlers: []yamlHandler{}}
	for _, h := range c.Chain {
		yh := yamlHandler{Handler: h.Kind}
		for _, ri := range h.Rules {
			t := w.ruleText[d][ri]
			switch w.rules[ri].Kind {
			case "queries":
				yh.Queries = append(yh.Queries, t)
			case "tables":
				yh.Tables = append(yh.Tables, t)
			case "patterns":
				yh.Patterns = append(yh.Patterns, t)
			}
		}
		for _, i := range h.Ignore {
			yh.Queries = append(yh.Queries, w.ignoreText(d, i))
		}
		y.Handlers = append(y.Handlers, yh)
	}
	b, err := yaml.Marshal(y)
	if err != nil {
		panic(err)
	}
	return b
}

// ---- reference evaluation of the documented chain semantics -----------------------------------

// refHandler: does handler h (allow / deny) match pool statement si.
func (w *world) refHandler(h handlerT, si int) tri {
	res := no
	var tset []string
	for _, ri := range h.Rules {
		if w.rules[ri].Kind == "tables" {
			tset = append(tset, w.rules[ri].Table)
		} else {
			res = or3(res, w.refRule[ri][si])
		}
	}
	if len(tset) > 0 {
		res = or3(res, refTables(h.Kind, tset, w.tables[si]))
	}
	return res
}

// refIgnore: is statement si listed by query_ignore handler h ("the same statement up to
// formatting"; the same up to identifier case: not compared).
func (w *world) refIgnore(h handlerT, si int) tri {
	res := no
	for _, q := range h.Ignore {
		if q == si {
			return yes
		}
		if q >= 0 && si >= 0 {
			if _, fold := termEqual(w.pool[q].Root, w.pool[si].Root); fold {
				res = unk
			}
		}
	}
	return res
}

const (
	vAccept = "accept"
	vReject = "reject"
	vUnk    = "not-compared"
)

// refChain evaluates the documented semantics (package doc of acra-censor, handler doc comments,
// TestAllowDenyTables, TestQueryIgnoring, TestIgnoringQueryParseErrors):
//
//	no handlers                 => the firewall is off: everything passes
//	statement cannot be parsed  => rejected, unless ignore_parse_error; then allow / deny rules cannot
//	                               match it, allowall / denyall / query_ignore (by its text) still decide
//	handlers in configuration order, the first decisive one wins:
//	  deny: a matching rule => rejected, else next     allow: a matching rule => accepted, else next
//	  allowall => accepted     denyall => rejected     query_ignore: a listed statement => accepted
//	end of chain               => accepted
//
// si >= 0: pool statement; si < 0: unparsable string -(si+1). Returns the verdict and the index of
// the deciding handler (-1 end of chain / parse verdict).
func (w *world) refChain(c configT, si int) (string, int) {
	if len(c.Chain) == 0 {
		return vAccept, -1
	}
	if si < 0 && !c.IPE {
		return vReject, -1
	}
	var rec func(i int) (string, int)
	rec = func(i int) (string, int) {
		if i == len(c.Chain) {
			return vAccept, -1
		}
		h := c.Chain[i]
		switch h.Kind {
		case "allowall":
			return vAccept, i
		case "denyall":
			return vReject, i
		}
		m := no
		hit := vReject
		switch h.Kind {
		case "query_ignore":
			hit = vAccept
			m = w.refIgnore(h, si)
		case "allow":
			hit = vAccept
			if si >= 0 {
				m = w.refHandler(h, si)
			}
		default:
			if si >= 0 {
				m = w.refHandler(h, si)
			}
		}
		switch m {
		case yes:
			return hit, i
		case no:
			return rec(i + 1)
		}
		rest, j := rec(i + 1)
		if rest == hit {
			return hit, j // same verdict whether or not this handler matches
		}
		return vUnk, i
	}
	return rec(0)
}

// ---- the real AcraCensor ----------------------------------------------------------------------

func errClass(err error) string {
	switch err {
	case nil:
		return "accept"
	case common.ErrDenyByQueryError:
		return "deny-query"
	case common.ErrDenyByTableError:
		return "deny-table"
	case common.ErrDenyByPatternError:
		return "deny-pattern"
	case common.ErrDenyAllError:
		return "denyall"
	case sqlparser.ErrQuerySyntaxError:
		return "syntax"
	}
	return "error:" + err.Error()
}

func accepted(class string) string {
	if class == "accept" {
		return vAccept
	}
	return vReject
}

// load builds a censor from YAML through the real configuration loader.
func load(y []byte) (*acracensor.AcraCensor, error) {
	c := acracensor.NewAcraCensor()
	if err := c.LoadConfiguration(y); err != nil {
		c.ReleaseAll()
		return nil, err
	}
	return c, nil
}

// panicSite: the innermost Acra function on the stack of a recovered panic.
func panicSite(stack string) string {
	lines := strings.Split(stack, "\n")
	seenPanic := false
	for _, l := range lines {
		if strings.HasPrefix(l, "panic(") {
			seenPanic = true
			continue
		}
		if seenPanic && strings.HasPrefix(l, "github.com/cossacklabs/acra/") {
			f := strings.TrimPrefix(l, "github.com/cossacklabs/acra/")
			if i := strings.LastIndex(f, "("); i > 0 {
				f = f[:i]
			}
			return f
		}
	}
	return "unknown-site"
}

// handle calls the real HandleQuery; a panic is an observation, not a harness failure.
func handle(c interface{ HandleQuery(string) error }, q string) (class string) {
	defer func() {
		if p := recover(); p != nil {
			class = fmt.Sprintf("panic:%s %v", panicSite(string(debug.Stack())), p)
		}
	}()
	return errClass(c.HandleQuery(q))
}
