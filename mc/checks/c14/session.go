package main

import (
	"context"
	"fmt"
	"io"
	"net"
	"os"
	"runtime/debug"
	"sync"
	"time"

	"github.com/sirupsen/logrus"

	"github.com/cossacklabs/acra/decryptor/base"
	"github.com/cossacklabs/acra/logging"
)

// Scripted sessions: both pumps of a real proxy object (ProxyClientConnection and
// ProxyDatabaseConnection) run in their own goroutines exactly as in
// cmd/acra-server/common/listener.go, on connections whose input is released segment by
// segment by the driver. A segment is released only when the pump that reads it is blocked in
// Read on an empty connection, so one pump runs at a time and a session is deterministic.
// Everything a pump writes is discarded. A panic in a pump is relayed to the caller with the
// pump's own stack.

type relayedPanic struct {
	Msg   string
	Stack string
}

type sched struct {
	mu   sync.Mutex
	cond *sync.Cond
}

type scriptConn struct {
	s            *sched
	name         string
	buf          []byte
	eof          bool
	waiting      bool
	deadlinePast bool
	written      int
}

type timeoutErr struct{}

func (timeoutErr) Error() string   { return "i/o timeout (scripted)" }
func (timeoutErr) Timeout() bool   { return true }
func (timeoutErr) Temporary() bool { return true }
func (timeoutErr) Unwrap() error   { return os.ErrDeadlineExceeded }

func (c *scriptConn) Read(p []byte) (int, error) {
	c.s.mu.Lock()
	defer c.s.mu.Unlock()
	for len(c.buf) == 0 {
		if c.eof {
			return 0, io.EOF
		}
		if c.deadlinePast {
			return 0, timeoutErr{}
		}
		c.waiting = true
		c.s.cond.Broadcast()
		c.s.cond.Wait()
		c.waiting = false
	}
	n := copy(p, c.buf)
	c.buf = c.buf[n:]
	return n, nil
}

func (c *scriptConn) Write(p []byte) (int, error) {
	c.s.mu.Lock()
	defer c.s.mu.Unlock()
	if c.eof {
		return 0, io.ErrClosedPipe
	}
	c.written += len(p)
	return len(p), nil
}

func (c *scriptConn) Close() error {
	c.s.mu.Lock()
	c.eof = true
	c.s.cond.Broadcast()
	c.s.mu.Unlock()
	return nil
}

type scriptAddr string

func (a scriptAddr) Network() string { return "script" }
func (a scriptAddr) String() string  { return string(a) }

func (c *scriptConn) LocalAddr() net.Addr  { return scriptAddr(c.name + "-local") }
func (c *scriptConn) RemoteAddr() net.Addr { return scriptAddr(c.name + "-remote") }
func (c *scriptConn) SetDeadline(t time.Time) error {
	return c.SetReadDeadline(t)
}
func (c *scriptConn) SetReadDeadline(t time.Time) error {
	c.s.mu.Lock()
	c.deadlinePast = !t.IsZero() && !t.After(time.Now())
	c.s.cond.Broadcast()
	c.s.mu.Unlock()
	return nil
}
func (c *scriptConn) SetWriteDeadline(t time.Time) error { return nil }

// session implements base.ClientSession.
type session struct {
	ctx  context.Context
	c, d net.Conn
	ps   interface{}
	mu   sync.Mutex
	data map[string]interface{}
}

func (s *session) Context() context.Context       { return s.ctx }
func (s *session) ClientConnection() net.Conn     { return s.c }
func (s *session) DatabaseConnection() net.Conn   { return s.d }
func (s *session) ProtocolState() interface{}     { return s.ps }
func (s *session) SetProtocolState(x interface{}) { s.ps = x }
func (s *session) GetData(k string) (interface{}, bool) {
	s.mu.Lock()
	defer s.mu.Unlock()
	v, ok := s.data[k]
	return v, ok
}
func (s *session) SetData(k string, v interface{}) { s.mu.Lock(); defer s.mu.Unlock(); s.data[k] = v }
func (s *session) DeleteData(k string)             { s.mu.Lock(); defer s.mu.Unlock(); delete(s.data, k) }
func (s *session) HasData(k string) bool {
	s.mu.Lock()
	defer s.mu.Unlock()
	_, ok := s.data[k]
	return ok
}

type step struct {
	client bool
	data   []byte
}

// runSession builds a proxy with factory on fresh scripted connections and plays the steps.
func runSession(factory base.ProxyFactory, clientID []byte, steps []step) (string, error) {
	sc := &sched{}
	sc.cond = sync.NewCond(&sc.mu)
	cli := &scriptConn{s: sc, name: "client"}
	db := &scriptConn{s: sc, name: "db"}
	s := &session{c: cli, d: db, data: map[string]interface{}{}}
	ctx := logging.SetLoggerToContext(context.Background(), logrus.NewEntry(logrus.StandardLogger()))
	ctx = base.SetClientSessionToContext(ctx, s)
	ac := base.NewAccessContext(base.WithClientID(clientID))
	ctx = base.SetAccessContextToContext(ctx, ac)
	s.ctx = ctx
	proxy, err := factory.New(clientID, s)
	if err != nil {
		return "", fmt.Errorf("proxy factory: %w", err)
	}
	proxy.AddClientIDObserver(ac)
	errCh := make(chan base.ProxyError, 64)

	var exited [2]bool
	var relayed *relayedPanic
	pump := func(i int, fn func(context.Context, chan<- base.ProxyError)) {
		defer func() {
			r := recover()
			sc.mu.Lock()
			if r != nil && relayed == nil {
				relayed = &relayedPanic{Msg: fmt.Sprint(r), Stack: string(debug.Stack())}
			}
			exited[i] = true
			sc.cond.Broadcast()
			sc.mu.Unlock()
		}()
		fn(ctx, errCh)
	}
	go pump(0, proxy.ProxyClientConnection)
	go pump(1, proxy.ProxyDatabaseConnection)

	conns := [2]*scriptConn{cli, db}
	idle := func(i int) bool { return exited[i] || (conns[i].waiting && len(conns[i].buf) == 0) }
	sc.mu.Lock()
	for !(idle(0) && idle(1)) {
		sc.cond.Wait()
	}
	played := 0
	for _, st := range steps {
		if exited[0] || exited[1] {
			break
		}
		i := 1
		if st.client {
			i = 0
		}
		if len(st.data) == 0 {
			continue
		}
		conns[i].buf = append(conns[i].buf, st.data...)
		sc.cond.Broadcast()
		for !(idle(0) && idle(1)) {
			sc.cond.Wait()
		}
		played++
	}
	// like the listener: an error of either pump closes both connections
	cli.eof, db.eof = true, true
	sc.cond.Broadcast()
	for !(exited[0] && exited[1]) {
		sc.cond.Wait()
	}
	rp := relayed
	sc.mu.Unlock()
	if rp != nil {
		panic(*rp)
	}
	cls := fmt.Sprintf("played-%d-of-%d", played, len(steps))
	select {
	case pe := <-errCh:
		return cls, pe.Unwrap()
	default:
	}
	return cls, nil
}

// bytesConn: a net.Conn over a fixed byte string (for the packet readers that take a net.Conn).
type bytesConn struct {
	b []byte
}

func (c *bytesConn) Read(p []byte) (int, error) {
	if len(c.b) == 0 {
		return 0, io.EOF
	}
	n := copy(p, c.b)
	c.b = c.b[n:]
	return n, nil
}
func (c *bytesConn) Write(p []byte) (int, error)        { return len(p), nil }
func (c *bytesConn) Close() error                       { return nil }
func (c *bytesConn) LocalAddr() net.Addr                { return scriptAddr("l") }
func (c *bytesConn) RemoteAddr() net.Addr               { return scriptAddr("r") }
func (c *bytesConn) SetDeadline(t time.Time) error      { return nil }
func (c *bytesConn) SetReadDeadline(t time.Time) error  { return nil }
func (c *bytesConn) SetWriteDeadline(t time.Time) error { return nil }
