package main

// phaseConcurrent (engine E1): 2-3 requests tokenize / detokenize overlapping values at the same
// time through one Pseudoanonymizer on one shared token store. Scheduling points: every
// TokenStorage call (Save / Get / Stat) and every lock operation the stores perform inside a call
// (the in-memory store's RWMutex, bbolt's transaction locks - made visible by the build overlay,
// see hooks.go), so that a call that is not atomic in itself is explored too. The
// stateless DFS of /verif/mc/sched explores every interleaving with at most B preemptions
// (B = 0,1,2 quick; 3 thorough). Token draws are an environment choice: the first draws of
// every request can be forced equal, so that two requests try to issue the same token.
// Oracle on every execution: consistent tokenization of one value gives every concurrent
// request the same token; two different values never end up with one token; the owner
// detokenizes every issued token to its value; a concurrent detokenize of a not-yet-known token
// returns the token itself or the value - never another value; no deadlock, no panic; afterwards
// tokenizing the same value again returns the token issued before.

import (
	"bytes"
	"crypto/rand"
	"fmt"
	"os"
	"regexp"
	"time"

	bolt "go.etcd.io/bbolt"

	"github.com/cossacklabs/acra/pseudonymization"
	"github.com/cossacklabs/acra/pseudonymization/common"
	"github.com/cossacklabs/acra/pseudonymization/storage"

	"verif/detrand"
	"verif/ev"
	"verif/fx"
	"verif/sched"
)

// schedStore is the scheduling seam over a real TokenStorage.
type schedStore struct{ inner common.TokenStorage }

func cpoint(op string) {
	if s := sched.Active(); s != nil && s.CurrentThread() >= 0 {
		s.Point(op)
	}
}

func (t *schedStore) Save(id []byte, ctx common.TokenContext, data []byte) error {
	cpoint("Save")
	return t.inner.Save(id, ctx, data)
}
func (t *schedStore) Get(id []byte, ctx common.TokenContext) ([]byte, error) {
	cpoint("Get")
	return t.inner.Get(id, ctx)
}
func (t *schedStore) Stat(id []byte, ctx common.TokenContext) (common.TokenMetadata, error) {
	cpoint("Stat")
	return t.inner.Stat(id, ctx)
}
func (t *schedStore) VisitMetadata(cb func(int, common.TokenMetadata) (common.TokenAction, error)) error {
	cpoint("VisitMetadata")
	return t.inner.VisitMetadata(cb)
}
func (t *schedStore) SetAccessTimeGranularity(g time.Duration) error {
	return t.inner.SetAccessTimeGranularity(g)
}

type creq struct {
	Kind   string // "tok" (consistent), "tok-random", "detok-first" (detokenize the forced first token)
	Client int    // 0 alpha, 1 bravo
	Value  string
}

type cscenario struct {
	Name    string
	Store   string // memory | memory+enc | bolt
	Threads [][]creq
	Forced  bool // first draws of every request forced equal
}

func concurrentScenarios(thorough bool) []cscenario {
	v, w := "value-one", "value-two"
	sc := []cscenario{
		{Name: "T2-same", Store: "memory", Threads: [][]creq{{{"tok", 0, v}}, {{"tok", 0, v}}}},
		{Name: "T2-same-forced", Store: "memory", Forced: true, Threads: [][]creq{{{"tok", 0, v}}, {{"tok", 0, v}}}},
		{Name: "T2-cross-forced", Store: "memory", Forced: true, Threads: [][]creq{{{"tok", 0, v}}, {{"tok", 0, w}}}},
		{Name: "T2-cross-clients-forced", Store: "memory", Forced: true, Threads: [][]creq{{{"tok", 0, v}}, {{"tok", 1, v}}}},
		{Name: "T3-detok-forced", Store: "memory", Forced: true, Threads: [][]creq{{{"tok", 0, v}}, {{"tok", 0, v}}, {{"detok-first", 0, ""}}}},
		{Name: "T2-same-enc", Store: "memory+enc", Threads: [][]creq{{{"tok", 0, v}}, {{"tok", 0, v}}}},
		{Name: "T2-consistent-vs-random", Store: "memory", Forced: true, Threads: [][]creq{{{"tok", 0, v}}, {{"tok-random", 0, w}}}},
		{Name: "T2-same-bolt", Store: "bolt", Threads: [][]creq{{{"tok", 0, v}}, {{"tok", 0, v}}}},
	}
	if thorough {
		sc = append(sc,
			cscenario{Name: "T3-same", Store: "memory", Threads: [][]creq{{{"tok", 0, v}}, {{"tok", 0, v}}, {{"tok", 0, v}}}},
			cscenario{Name: "T2-two-each-forced", Store: "memory", Forced: true, Threads: [][]creq{{{"tok", 0, v}, {"tok", 0, w}}, {{"tok", 0, w}, {"tok", 0, v}}}},
			cscenario{Name: "T2-cross-forced-bolt", Store: "bolt", Forced: true, Threads: [][]creq{{{"tok", 0, v}}, {{"tok", 0, w}}}},
		)
	}
	return sc
}

var cClients = [][]byte{fx.Alpha, fx.Bravo}

type cEnv struct {
	boltDir string
	boltDB  *bolt.DB
}

func (sc cscenario) build(env *cEnv, ks interface {
	GetClientIDSymmetricKeys([]byte) ([][]byte, error)
	GetClientIDSymmetricKey([]byte) ([]byte, error)
}) sched.Scenario {
	return func(s *sched.Scheduler) func(x *sched.Execution) []string {
		cLocks = map[interface{}]*sched.Lock{}
		rnd := detrand.New("c10-concurrent/" + sc.Name)
		// forced draws: the first 16 draws of every thread return the same bytes for all threads
		// (index-dependent), later draws come from the stream
		drawsByThread := map[int]int{}
		if sc.Forced {
			rnd.Hook = func(n int) []byte {
				sch := sched.Active()
				if sch == nil || sch.CurrentThread() < 0 {
					return nil
				}
				t := sch.CurrentThread()
				k := drawsByThread[t]
				drawsByThread[t]++
				if k >= 16 {
					return nil
				}
				b := make([]byte, n)
				for i := range b {
					b[i] = byte(17*k + 3*i + 5)
				}
				return b
			}
		}
		prev := rand.Reader
		rand.Reader = rnd
		var inner common.TokenStorage
		switch sc.Store {
		case "bolt":
			env.boltDB.Update(func(tx *bolt.Tx) error {
				return tx.ForEach(func(name []byte, _ *bolt.Bucket) error { return tx.DeleteBucket(name) })
			})
			inner = storage.NewBoltDBTokenStorage(env.boltDB)
		default:
			m, err := storage.NewMemoryTokenStorage()
			if err != nil {
				ev.Fatalf("memory store: %v", err)
			}
			inner = m
		}
		var st common.TokenStorage = &schedStore{inner}
		if sc.Store == "memory+enc" {
			enc, err := storage.NewSCellEncryptor(ks)
			if err != nil {
				ev.Fatalf("token encryptor: %v", err)
			}
			st = storage.WrapStorageWithEncryption(st, enc)
		}
		pa, err := pseudonymization.NewPseudoanonymizer(st)
		if err != nil {
			ev.Fatalf("pseudoanonymizer: %v", err)
		}
		type res struct {
			req creq
			out string
			err error
		}
		results := make([][]res, len(sc.Threads))
		// the token the forced draws produce for a 9-byte string (computed by a dry run below)
		forcedToken := ""
		if sc.Forced {
			dry, _ := storage.NewMemoryTokenStorage()
			dpa, _ := pseudonymization.NewPseudoanonymizer(dry)
			save := rnd.Hook
			k := 0
			rnd.Hook = func(n int) []byte {
				b := make([]byte, n)
				for i := range b {
					b[i] = byte(17*k + 3*i + 5)
				}
				k++
				return b
			}
			if t, err := dpa.Anonymize("value-one", common.TokenContext{ClientID: cClients[0]}, common.TokenType_String); err == nil {
				forcedToken = t.(string)
			}
			rnd.Hook = save
		}
		for ti, reqs := range sc.Threads {
			ti, reqs := ti, reqs
			s.Go(fmt.Sprintf("R%d", ti+1), func() {
				for _, q := range reqs {
					ctx := common.TokenContext{ClientID: cClients[q.Client]}
					var out interface{}
					var err error
					switch q.Kind {
					case "tok":
						out, err = pa.AnonymizeConsistently(q.Value, ctx, common.TokenType_String)
					case "tok-random":
						out, err = pa.Anonymize(q.Value, ctx, common.TokenType_String)
					case "detok-first":
						out, err = pa.Deanonymize(forcedToken, ctx, common.TokenType_String)
					}
					o, _ := out.(string)
					results[ti] = append(results[ti], res{q, o, err})
				}
			})
		}
		return func(x *sched.Execution) []string {
			defer func() { rand.Reader = prev }()
			rnd.Hook = nil
			var fails []string
			failf := func(format string, a ...interface{}) { fails = append(fails, fmt.Sprintf(format, a...)) }
			tokenOf := map[string]string{} // client/value -> token (consistent requests)
			valueOf := map[string]string{} // client/token -> value (all issued tokens)
			for ti, rs := range results {
				for _, r := range rs {
					if r.req.Kind == "detok-first" {
						if r.err != nil {
							failf("R%d: detokenize returned an error: %v", ti+1, r.err)
						} else if r.out != forcedToken && r.out != "value-one" {
							failf("R%d: detokenize of a token being issued returned neither the token nor its value", ti+1)
						}
						continue
					}
					if r.err != nil {
						failf("R%d: %s(%s) failed: %v", ti+1, r.req.Kind, r.req.Value, r.err)
						continue
					}
					if len(r.out) != len(r.req.Value) {
						failf("R%d: token length %d for a value of length %d", ti+1, len(r.out), len(r.req.Value))
					}
					ck := fmt.Sprintf("%d/%s", r.req.Client, r.req.Value)
					if r.req.Kind == "tok" {
						if prev, ok := tokenOf[ck]; ok && prev != r.out {
							failf("consistent tokenization gave two concurrent requests different tokens for one value")
						}
						tokenOf[ck] = r.out
					}
					tk := fmt.Sprintf("%d/%s", r.req.Client, r.out)
					if prev, ok := valueOf[tk]; ok && prev != r.req.Value {
						failf("two different values share one token in one client context")
					}
					valueOf[tk] = r.req.Value
				}
			}
			// sequential epilogue on the same store (no scheduler): owner detokenizes, repeat is stable
			for tk, val := range valueOf {
				var client int
				var tok string
				fmt.Sscanf(tk, "%d/", &client)
				tok = tk[2:]
				ctx := common.TokenContext{ClientID: cClients[client]}
				back, err := pa.Deanonymize(tok, ctx, common.TokenType_String)
				if err != nil || back.(string) != val {
					failf("owner detokenizes an issued token to %q (%v), expected its value", back, err)
				}
				other := common.TokenContext{ClientID: cClients[1-client]}
				if ob, err := pa.Deanonymize(tok, other, common.TokenType_String); err == nil && ob.(string) == val && !bytes.Equal(cClients[0], cClients[1]) {
					if _, same := valueOf[fmt.Sprintf("%d/%s", 1-client, tok)]; !same {
						failf("another client detokenized a token to the owner's value")
					}
				}
			}
			for ck, tok := range tokenOf {
				var client int
				fmt.Sscanf(ck, "%d/", &client)
				again, err := pa.AnonymizeConsistently(ck[2:], common.TokenContext{ClientID: cClients[client]}, common.TokenType_String)
				if err != nil || again.(string) != tok {
					failf("tokenizing the same value again gives %q (%v), not the token issued before", again, err)
				}
			}
			return fails
		}
	}
}

type concurrentReplay struct {
	Phase    string `json:"phase"`
	Scenario string `json:"scenario"`
	Bound    int    `json:"preemption_bound"`
	Choices  []int  `json:"choices"`
	Failure  string `json:"failure"`
}

func phaseConcurrent(r *ev.Run) {
	installLockHooks()
	saved := rand.Reader
	defer func() { rand.Reader = saved }()
	detrand.Install(detrand.New("c10-concurrent-keys"))
	dir := fx.Scratch("c10c")
	defer os.RemoveAll(dir)
	ks := fx.NewKeyStoreV1(dir, -1)
	fx.GenClientKeys(ks, fx.Alpha)
	fx.GenClientKeys(ks, fx.Bravo)
	env := &cEnv{boltDir: dir}
	db, err := bolt.Open(dir+"/tokens.bolt", 0600, &bolt.Options{NoSync: true})
	if err != nil {
		ev.Fatalf("bolt: %v", err)
	}
	defer db.Close()
	env.boltDB = db
	maxBound := 2
	if r.Thorough() {
		maxBound = 3
	}
	scs := concurrentScenarios(r.Thorough())
	if r.Replay != "" {
		var rp concurrentReplay
		r.LoadReplay(&rp)
		for _, sc := range scs {
			if sc.Name == rp.Scenario {
				e := &sched.Explorer{Scenario: sc.build(env, ks), Bound: rp.Bound}
				for _, f := range e.Replay(rp.Choices) {
					fmt.Println("replayed:", f)
					r.Violation("C10/concurrent/"+sc.Name+"/"+keyOf(f), f, rp)
				}
			}
		}
		return
	}
	total := 0
	for _, sc := range scs {
		for bound := 0; bound <= maxBound; bound++ {
			if r.Expired() {
				r.Capped(fmt.Sprintf("concurrent %s: preemption bound %d not started", sc.Name, bound))
				break
			}
			e := &sched.Explorer{Scenario: sc.build(env, ks), Bound: bound, Stop: r.Expired,
				Outcome: func(x *sched.Execution) string { return fmt.Sprint(x.Choices) }}
			res := e.Run()
			total += res.Executions
			r.Eval(res.Executions)
			r.Traces(res.Executions)
			r.Transitions(res.Transitions)
			if !res.Complete {
				r.Capped(fmt.Sprintf("concurrent %s: preemption bound %d partial", sc.Name, bound))
			}
			for _, f := range res.Order {
				rp := concurrentReplay{Phase: "concurrent", Scenario: sc.Name, Bound: bound, Choices: res.Failures[f], Failure: f}
				again := e.Replay(res.Failures[f])
				ok := false
				for _, a := range again {
					if a == f {
						ok = true
					}
				}
				if !ok {
					ev.Fatalf("concurrent %s: failure %q did not replay (%v)", sc.Name, f, again)
				}
				r.Violation("C10/concurrent/"+sc.Name+"/"+keyOf(f), fmt.Sprintf("%s (preemption bound %d, schedule %v)", f, bound, res.Failures[f]), rp)
			}
			r.Distinct(fmt.Sprintf("concurrent|%s|%d|%d", sc.Name, bound, len(res.Outcomes)))
			if bound == maxBound {
				r.Sample(map[string]interface{}{"phase": "concurrent", "scenario": sc.Name, "preemption_bound": bound, "executions": res.Executions, "scheduling_points_max": res.MaxPoints})
			}
		}
	}
	r.States(total)
	r.Set("concurrent_executions", total)
	r.Set("concurrent_scenarios", len(scs))
}

var quotedValue = regexp.MustCompile(`"[^"]*"`)

func keyOf(f string) string {
	// values (tokens) are not part of a finding key
	b := []byte(quotedValue.ReplaceAllString(f, "<value>"))
	for i, c := range b {
		if c == ' ' {
			b[i] = '_'
		}
	}
	if len(b) > 100 {
		b = b[:100]
	}
	return string(b)
}
