// Package sess is engine E5: real Acra proxies driven in-process over in-memory connections,
// lock-step, with an independent wire codec at the client end and a reference database at the
// database end.
package sess

import (
	"errors"
	"io"
	"net"
	"os"
	"sync"
	"time"
)

// half is one direction of a duplex in-memory connection: unbounded buffer, blocking reads
// with deadline support, never-blocking writes.
type half struct {
	mu       sync.Mutex
	cond     *sync.Cond
	buf      []byte
	closed   bool
	deadline time.Time
	timer    *time.Timer
	// log of every byte ever written into this half
	log []byte
}

func newHalf() *half {
	h := &half{}
	h.cond = sync.NewCond(&h.mu)
	return h
}

func (h *half) write(p []byte) (int, error) {
	h.mu.Lock()
	defer h.mu.Unlock()
	if h.closed {
		return 0, io.ErrClosedPipe
	}
	h.buf = append(h.buf, p...)
	h.log = append(h.log, p...)
	h.cond.Broadcast()
	return len(p), nil
}

func (h *half) read(p []byte) (int, error) {
	h.mu.Lock()
	defer h.mu.Unlock()
	for len(h.buf) == 0 {
		if h.closed {
			return 0, io.EOF
		}
		if !h.deadline.IsZero() && !time.Now().Before(h.deadline) {
			return 0, os.ErrDeadlineExceeded
		}
		h.cond.Wait()
	}
	n := copy(p, h.buf)
	h.buf = h.buf[n:]
	return n, nil
}

func (h *half) setDeadline(t time.Time) {
	h.mu.Lock()
	defer h.mu.Unlock()
	h.deadline = t
	if h.timer != nil {
		h.timer.Stop()
		h.timer = nil
	}
	if !t.IsZero() {
		d := time.Until(t)
		if d < 0 {
			d = 0
		}
		h.timer = time.AfterFunc(d, func() {
			h.mu.Lock()
			h.cond.Broadcast()
			h.mu.Unlock()
		})
	}
	h.cond.Broadcast()
}

func (h *half) close() {
	h.mu.Lock()
	h.closed = true
	h.cond.Broadcast()
	h.mu.Unlock()
}

// Conn is one end of a duplex in-memory connection.
type Conn struct {
	in, out *half
	name    string
}

type addr string

func (a addr) Network() string { return "mem" }
func (a addr) String() string  { return string(a) }

// Pipe returns the two ends of a buffered duplex connection.
func Pipe(nameA, nameB string) (*Conn, *Conn) {
	ab, ba := newHalf(), newHalf()
	return &Conn{in: ba, out: ab, name: nameA}, &Conn{in: ab, out: ba, name: nameB}
}

func (c *Conn) Read(p []byte) (int, error)  { return c.in.read(p) }
func (c *Conn) Write(p []byte) (int, error) { return c.out.write(p) }
func (c *Conn) Close() error {
	c.in.close()
	c.out.close()
	return nil
}
func (c *Conn) LocalAddr() net.Addr  { return addr(c.name) }
func (c *Conn) RemoteAddr() net.Addr { return addr(c.name + "-peer") }
func (c *Conn) SetDeadline(t time.Time) error {
	c.in.setDeadline(t)
	return nil
}
func (c *Conn) SetReadDeadline(t time.Time) error {
	c.in.setDeadline(t)
	return nil
}
func (c *Conn) SetWriteDeadline(t time.Time) error { return nil }

// Received returns a copy of every byte the peer has written to this end so far.
func (c *Conn) Received() []byte {
	c.in.mu.Lock()
	defer c.in.mu.Unlock()
	return append([]byte(nil), c.in.log...)
}

// Sent returns a copy of every byte written through this end.
func (c *Conn) Sent() []byte {
	c.out.mu.Lock()
	defer c.out.mu.Unlock()
	return append([]byte(nil), c.out.log...)
}

var errTimeout = errors.New("sess: harness timeout")
