// Package sqlgen is the shared SQL statement space of checks C13 and C16: seed statements
// extracted from Acra's own parser tests, a compact DML grammar enumerator, AST splicing,
// value substitution, a reflective structural comparison of sqlparser trees and the
// worker-process plumbing needed because the SQL dialect is a process-wide global in Acra.
package sqlgen

import (
	"github.com/cossacklabs/acra/sqlparser"
	"github.com/cossacklabs/acra/sqlparser/dialect"
	"github.com/cossacklabs/acra/sqlparser/dialect/mysql"
	"github.com/cossacklabs/acra/sqlparser/dialect/postgresql"

	"verif/ev"
)

// Dialect names. acra-server installs exactly one of these at start-up with
// sqlparser.SetDefaultDialect (cmd/acra-server/acra-server.go); sqlparser.New(mode).Parse,
// sqlparser.String, ColIdent.Format, NewMySQLDoubleQuotedStrVal all read that global, so a
// process of a check works in exactly one dialect (one worker process per dialect).
const (
	MySQL      = "mysql"
	MySQLANSI  = "mysql-ansi"
	PostgreSQL = "postgresql"
)

// Dialects lists all dialect configurations of the parser.
var Dialects = []string{MySQL, MySQLANSI, PostgreSQL}

// Current is the dialect installed in this process ("" before Install).
var Current string

// DialectValue returns the dialect object of a name.
func DialectValue(name string) dialect.Dialect {
	switch name {
	case MySQL:
		return mysql.NewMySQLDialect()
	case MySQLANSI:
		return mysql.NewMySQLDialect(mysql.SetANSIMode(true))
	case PostgreSQL:
		return postgresql.NewPostgreSQLDialect()
	}
	ev.Fatalf("unknown dialect %q", name)
	return nil
}

// Install sets the process-wide dialect, once.
func Install(name string) {
	if Current != "" && Current != name {
		ev.Fatalf("dialect already installed as %s, cannot switch to %s in one process", Current, name)
	}
	sqlparser.SetDefaultDialect(DialectValue(name))
	Current = name
}

// IsMySQL / IsPG classify the installed dialect.
func IsMySQL() bool { return Current == MySQL || Current == MySQLANSI }
func IsPG() bool    { return Current == PostgreSQL }

var strict = sqlparser.New(sqlparser.ModeStrict)

// Parse parses with the strict parser in the installed dialect, turning panics into errors
// (a panic of the parser is reported by the callers as its own class).
func Parse(sql string) (st sqlparser.Statement, err error, panicked string) {
	defer func() {
		if p := recover(); p != nil {
			st, err, panicked = nil, nil, sprint(p)
		}
	}()
	st, err = strict.Parse(sql)
	return st, err, ""
}

// Print is sqlparser.String with panics caught.
func Print(n sqlparser.SQLNode) (s string, panicked string) {
	defer func() {
		if p := recover(); p != nil {
			s, panicked = "", sprint(p)
		}
	}()
	return sqlparser.String(n), ""
}

// IsDML says whether the statement is one of the data-manipulation statements the
// properties quantify over.
func IsDML(st sqlparser.Statement) bool {
	switch st.(type) {
	case *sqlparser.Select, *sqlparser.Union, *sqlparser.ParenSelect, *sqlparser.Insert, *sqlparser.Update, *sqlparser.Delete:
		return true
	}
	return false
}
