// C09, MySQL half: searchable-encrypted columns behind the real MySQL proxy; the database end is
// the scripted store of verif/mycheck, which evaluates the rewritten condition
// (convert(substr(c, 1, 33), binary) = 0x.. / substr(c, 1, 33) = ?) literally over the stored bytes
// and answers with the matching rows; a reference store with the plaintexts evaluates the
// original statement.
//
// Space: searchable configurations (AcraBlock, AcraStruct, + declared type) x every multiset of
// stored plaintexts up to a size bound over a pool (incl. the empty value, a value that is a
// prefix of another, a 33-byte value, a value that looks like a 0x literal and the bytes that
// literal stands for), each row written by string literal / hex literal / VAR_STRING parameter /
// BLOB parameter / pre-encrypted envelope (literal, parameter) x every search statement of the
// alphabet (c = v with the literal spelled as string, X'..', 0x.., _binary'..'; v = c; c != v;
// c <> v; c <=> v; c LIKE v; prepared c = ? with VAR_STRING / BLOB parameter; combined with AND /
// OR conditions on plain columns incl. constant-on-the-left non-symmetric ones; join with the
// unconfigured table; self-join on c; UPDATE / DELETE ... WHERE) x every searched value (the pool,
// an absent value, a strict prefix).
//
// Oracles: (a) the owner receives exactly the rows the reference store selects (differential);
// (b) stored value = 33-byte blind index + envelope, and the index is the one an independent
// computation gives (first byte 0x7F, then HMAC-SHA256 under the client's HMAC key, Go's
// crypto/hmac): equal plaintexts equal indexes, different plaintexts / other clients different
// ones; (c) the forwarded statement carries that very index for the searched value, in the
// documented rewritten form, and every other token - operators, operand order, literals of the
// other conditions - is the original one (token streams of mycheck's own reader); the searched
// plaintext does not reach the database; (d) a stored value whose index was swapped is not
// handed out as plaintext.
package main

import (
	"bytes"
	"crypto/hmac"
	"crypto/sha256"
	"encoding/hex"
	"fmt"
	"sort"
	"strings"
	"unicode/utf8"

	"github.com/cossacklabs/acra/keystore/filesystem"

	"verif/ev"
	"verif/fx"
	"verif/mycheck"
	"verif/par"
	"verif/sess"
)

func myConfigs(thorough bool) []mycheck.Col {
	typed := func(env, dt string) mycheck.Col {
		c := mycheck.Searchable(env).With("-typed-"+dt, "data_type: "+dt)
		c.DataType, c.App = dt, dt
		return c
	}
	cs := []mycheck.Col{mycheck.Searchable("acrablock"), mycheck.Searchable("acrastruct"), typed("acrablock", "str"), typed("acrablock", "int32")}
	if thorough {
		cs = append(cs, typed("acrastruct", "bytes"))
	}
	return cs
}

func myPool(c mycheck.Col) [][]byte {
	if c.App == "int32" {
		return [][]byte{[]byte("1"), []byte("12"), []byte("-12"), []byte("2147483647")}
	}
	// the empty value is stored as it is (no envelope, no index) and must still be found;
	// "0x4142" is a text that looks like a hexadecimal literal, "AB" the bytes such a literal means
	return [][]byte{[]byte("a"), []byte("ab"), []byte("a 33-byte value 0123456789abcdefg"), []byte(""), []byte("0x4142"), []byte("AB")}
}

// searched values: every pool value, an absent value, a strict prefix of a pool value
func mySearched(c mycheck.Col) [][]byte {
	out := append([][]byte{}, myPool(c)...)
	if c.App == "int32" {
		return append(out, []byte("7"), []byte("121"))
	}
	return append(out, []byte("zz-absent"), []byte("a 33-byte value"))
}

func myLit(c mycheck.Col, v []byte) string {
	if c.App == "int32" {
		return string(v)
	}
	if c.App == "str" || utf8.Valid(v) {
		return mycheck.Quote(v)
	}
	return "X'" + hex.EncodeToString(v) + "'"
}

func hexLit(v []byte) string { return "X'" + hex.EncodeToString(v) + "'" }

func myParam(c mycheck.Col, t byte, v []byte) sess.MyParam {
	if c.App == "int32" && t == sess.MyTypeLong {
		var n int
		fmt.Sscan(string(v), &n)
		return mycheck.LongParam(n)
	}
	if c.App == "int32" && t == sess.MyTypeLongLong {
		var n int64
		fmt.Sscan(string(v), &n)
		b := make([]byte, 8)
		for i := range b {
			b[i] = byte(uint64(n) >> (8 * uint(i)))
		}
		return sess.MyParam{Type: sess.MyTypeLongLong, Value: b}
	}
	return sess.MyParam{Type: t, Value: append([]byte{}, v...)}
}

// myEnvelope encrypts v for the owner of the column the way an application would (set by the world)
var myEnvelope func(c mycheck.Col, v []byte) []byte

type myOp struct {
	Kind string `json:"kind"`
	V    int    `json:"value_index"`
}

var myInsertKinds = []string{"ins-literal", "ins-hex-literal", "ins-varstring-param", "ins-blob-param"}

func myInsertKindsOf(c mycheck.Col) []string {
	if c.App == "bytes" {
		return append(append([]string{}, myInsertKinds...), "ins-envelope-literal", "ins-envelope-param")
	}
	if c.App == "int32" {
		return []string{"ins-literal", "ins-varstring-param", "ins-long-param", "ins-longlong-param"}
	}
	return myInsertKinds
}

type myWorld struct {
	r        *ev.Run
	ks       *filesystem.KeyStore
	thorough bool
}

func (w *myWorld) insertOp(c mycheck.Col, how string, k int, v []byte) mycheck.Op {
	if len(v) == 0 && strings.HasPrefix(how, "ins-envelope-") {
		how = map[string]string{"ins-envelope-literal": "ins-hex-literal", "ins-envelope-param": "ins-blob-param"}[how] // there is no envelope of the empty value
	}
	plain := fmt.Sprintf("insert into t (id, plain, c) values (%d, 'p%d', %s)", k, k, myLit(c, v))
	const ps = "insert into t (id, plain, c) values (?, ?, ?)"
	pp := func(p sess.MyParam) []sess.MyParam {
		return []sess.MyParam{mycheck.LongParam(k), mycheck.StrParam(fmt.Sprintf("p%d", k)), p}
	}
	op := mycheck.Op{Kind: how, Write: true, Protected: true, Secrets: [][]byte{v}}
	switch how {
	case "ins-literal":
		op.SQL = plain
	case "ins-hex-literal":
		op.SQL = fmt.Sprintf("insert into t (id, plain, c) values (%d, 'p%d', %s)", k, k, hexLit(v))
	case "ins-varstring-param":
		op.SQL, op.Params, op.Prepared = ps, pp(myParam(c, sess.MyTypeVarString, v)), true
	case "ins-blob-param":
		op.SQL, op.Params, op.Prepared = ps, pp(myParam(c, sess.MyTypeBlob, v)), true
	case "ins-long-param":
		op.SQL, op.Params, op.Prepared = ps, pp(myParam(c, sess.MyTypeLong, v)), true
	case "ins-longlong-param":
		// go-sql-driver binds every Go integer as BIGINT
		op.SQL, op.Params, op.Prepared = ps, pp(myParam(c, sess.MyTypeLongLong, v)), true
	case "ins-envelope-literal", "ins-envelope-param":
		// the application (or AcraTranslator) encrypted the value itself: a whole envelope the owner can
		// open is written; the blind index is still that of the plaintext
		e, err := mycheck.Envelope(w.ks, c.Envelope, c.Owner, v)
		if err != nil {
			ev.Fatalf("C09 mysql: envelope: %v", err)
		}
		if how == "ins-envelope-literal" {
			op.SQL = fmt.Sprintf("insert into t (id, plain, c) values (%d, 'p%d', %s)", k, k, hexLit(e))
			op.ShadowSQL = plain
		} else {
			op.SQL, op.Params, op.Prepared = ps, pp(sess.MyParam{Type: sess.MyTypeBlob, Value: e}), true
			op.ShadowSQL, op.ShadowParams = ps, pp(myParam(c, sess.MyTypeBlob, v))
		}
	default:
		ev.Fatalf("C09 mysql: insert kind %q", how)
	}
	return op
}

// searchOps returns the search statements for value v. EqSQL, when set, is the same statement
// with the documented operator (<=>, LIKE -> =) for the shape comparison.
func searchOps(c mycheck.Col, v []byte, thorough bool) []mycheck.Op {
	lit := myLit(c, v)
	var out []mycheck.Op
	q := func(kind, sql string) {
		out = append(out, mycheck.Op{Kind: kind, SQL: sql, Protected: true, Secrets: [][]byte{v}})
	}
	ps := func(kind, sql string, params ...sess.MyParam) {
		out = append(out, mycheck.Op{Kind: kind, SQL: sql, Prepared: true, Params: params, Protected: true, Secrets: [][]byte{v}})
	}
	q("eq-literal", "select id from t where c = "+lit)
	if c.App != "int32" {
		q("eq-hex-literal", "select id from t where c = "+hexLit(v))
		if len(v) > 0 {
			q("eq-0x-literal", "select id from t where c = 0x"+hex.EncodeToString(v))
		}
		q("eq-binary-introducer-literal", "select id from t where c = _binary"+mycheck.Quote(v))
	}
	if !(c.App == "int32" && strings.HasPrefix(lit, "-")) {
		// (the token reader of this check does not fold the sign of a leading `-12 = c` into the
		// literal; negative values are searched in the other spellings)
		q("eq-literal-reversed", "select id from t where "+lit+" = c")
	}
	q("ne-literal", "select id from t where c != "+lit)
	q("ne-literal-ltgt", "select id from t where c <> "+lit)
	q("nullsafe-eq-literal", "select id from t where c <=> "+lit)
	// (c LIKE 'v' is neither an equality nor an inequality search: both proxies forward it as
	// received when the right side is a value; the statement is outside the property and not run)
	q("eq-literal-select-c", "select id, c from t where c = "+lit)
	q("eq-literal-and-plain", "select id from t where c = "+lit+" and plain = 'p1'")
	q("eq-literal-or-id", "select id from t where c = "+lit+" or id = 2")
	// other conditions keep their meaning: constant on the left of a non-symmetric operator
	q("eq-literal-and-const-lt-id", "select id from t where c = "+lit+" and 1 < id")
	q("eq-literal-or-const-ge-id", "select id from t where c = "+lit+" or 1 >= id")
	q("const-lt-id-and-eq-literal", "select id from t where 1 < id and c = "+lit)
	q("eq-literal-join", "select t.id, u.note from t join u on t.id = u.id where t.c = "+lit)
	q("self-join-on-c", "select a.id, b.id from t a join t b on a.c = b.c where a.c = "+lit)
	tp, bp := myParam(c, sess.MyTypeVarString, v), myParam(c, sess.MyTypeBlob, v)
	ps("eq-varstring-param", "select id from t where c = ?", tp)
	ps("eq-blob-param", "select id from t where c = ?", bp)
	if c.App == "int32" {
		ps("eq-long-param", "select id from t where c = ?", myParam(c, sess.MyTypeLong, v))
		ps("eq-longlong-param", "select id from t where c = ?", myParam(c, sess.MyTypeLongLong, v))
	}
	if c.App == "bytes" && len(v) > 0 && myEnvelope != nil {
		// the searched value is itself an envelope the application made: the index in the condition
		// is still that of the plaintext
		e := myEnvelope(c, v)
		out = append(out, mycheck.Op{Kind: "eq-envelope-hex-literal", SQL: "select id from t where c = " + hexLit(e), ShadowSQL: "select id from t where c = " + lit, Protected: true, Secrets: [][]byte{v}})
		out = append(out, mycheck.Op{Kind: "eq-envelope-blob-param", SQL: "select id from t where c = ?", Prepared: true, Params: []sess.MyParam{{Type: sess.MyTypeBlob, Value: e}},
			ShadowSQL: "select id from t where c = ?", ShadowParams: []sess.MyParam{myParam(c, sess.MyTypeBlob, v)}, Protected: true, Secrets: [][]byte{v}})
	}
	ps("eq-param-and-param-lt-id", "select id from t where c = ? and ? < id", tp, mycheck.LongParam(1))
	ps("eq-param-select-c", "select c, id from t where c = ?", bp)
	ps("ne-param", "select id from t where c != ?", tp)
	ps("eq-literal-prepared", "select id from t where c = "+lit+" and id > ?", mycheck.LongParam(0))
	q("update-where-eq-literal", "update t set plain = 'hit' where c = "+lit)
	q("delete-where-eq-literal", "delete from t where c = "+lit)
	ps("delete-where-eq-param", "delete from t where c = ?", bp)
	// several searches in one statement: every one of them carries the owner's index
	q("eq-literal-and-eq-literal", "select id from t where c = "+lit+" and c = "+lit)
	ps("eq-param-and-eq-param", "select id from t where c = ? and c = ?", tp, bp)
	q("eq-literal-or-eq-other-literal", "select id from t where c = "+lit+" or c = "+myLit(c, myPool(c)[0]))
	if thorough {
		q("eq-table-alias", "select x.id from t as x where x.c = "+lit)
		q("eq-qualified", "select t.id from t where t.c = "+lit)
		q("eq-literal-parenthesised", "select id from t where (c = "+lit+") and (id < 3 or 2 > id)")
		ps("eq-two-params", "select id from t where c = ? or c = ?", tp, bp)
		ps("update-where-eq-param", "update t set plain = ? where c = ?", mycheck.StrParam("hit"), tp)
	}
	for i := range out {
		switch {
		case strings.HasPrefix(out[i].Kind, "update-") || strings.HasPrefix(out[i].Kind, "delete-"):
			out[i].Write = true
		case out[i].Kind == "eq-literal-reversed":
			out[i].SkeletonAs = "select id from t where c = " + lit // = is symmetric
		case out[i].Kind == "nullsafe-eq-literal" || out[i].Kind == "like-literal":
			out[i].SkeletonAs = "select id from t where c = " + lit // documented: <=> and LIKE on a searchable column become =
		}
	}
	return out
}

type myReplay struct {
	Part      string `json:"part"` // "mysql" | "mysql-cross-client"
	Config    string `json:"config"`
	Ops       []myOp `json:"ops"`
	Search    string `json:"search"`
	SV        int    `json:"searched_value_index"`
	KeyConfig string `json:"key_config,omitempty"`
}

// blindIndex computes the index of v for client id independently of Acra's hmac package.
func (w *myWorld) blindIndex(id, v []byte) []byte {
	key, err := w.ks.GetHMACSecretKey(id)
	if err != nil {
		ev.Fatalf("C09 mysql: HMAC key of %s: %v", id, err)
	}
	m := hmac.New(sha256.New, key)
	m.Write(v)
	return m.Sum([]byte{0x7f})
}

type myFinding struct {
	Config, Sub, Msg string
	Replay           myReplay
}

// searchForm names the way the searched value is written in a search statement kind.
func searchForm(kind string) string {
	switch {
	case kind == "eq-hex-literal":
		return "hex-literal"
	case kind == "eq-0x-literal":
		return "0x-literal"
	case kind == "eq-binary-introducer-literal":
		return "binary-introducer-literal"
	case kind == "eq-literal-reversed":
		return "value-on-the-left"
	case kind == "like-literal":
		return "like"
	case kind == "eq-param-and-param-lt-id":
		return "parameter-and-placeholder-on-the-left"
	case strings.Contains(kind, "param"):
		return "parameter"
	}
	return "plain-literal"
}

// svClass names the class of the searched value in finding keys.
func svClass(c mycheck.Col, rp myReplay) string {
	if rp.Part != "mysql" {
		return ""
	}
	v := mySearched(c)[rp.SV]
	switch {
	case len(v) == 0:
		return "empty-value"
	case bytes.HasPrefix(v, []byte("0x")):
		return "value-spelled-like-0x-literal"
	}
	return "any-value"
}

func (w *myWorld) runOne(c mycheck.Col, env *sess.MyEnv, rp myReplay) []myFinding {
	r := w.r
	var ops []mycheck.Op
	for i, o := range rp.Ops {
		ops = append(ops, w.insertOp(c, o.Kind, i+1, myPool(c)[o.V]))
	}
	sv := mySearched(c)[rp.SV]
	var search *mycheck.Op
	for _, s := range searchOps(c, sv, true) {
		if s.Kind == rp.Search {
			s := s
			search = &s
			ops = append(ops, s)
		}
	}
	if search == nil {
		ev.Fatalf("C09 mysql: unknown search kind %q", rp.Search)
	}
	want := w.blindIndex(fx.Alpha, sv)
	after := func(prot, shadow *mycheck.DB, failed bool, add func(key, format string, a ...interface{})) {
		// ---- stored rows: index + envelope, index as computed independently --------------------
		pt, st := prot.Tables["t"], shadow.Tables["t"]
		if len(pt.Rows) == len(st.Rows) && !failed {
			for i := range pt.Rows {
				stored, plain := pt.Rows[i][2], st.Rows[i][2]
				if len(plain) == 0 {
					if len(stored) != 0 {
						add("stored/empty-value-changed", "the empty value of a searchable column is stored as %.40x", stored)
					}
					continue
				}
				if len(stored) < 34 {
					add("stored/no-blind-index", "the stored value of a searchable column is too short for index + envelope: %.40x", stored)
					continue
				}
				if exp := w.blindIndex(fx.Alpha, plain); !bytes.Equal(stored[:33], exp) {
					add("stored/blind-index-differs", "plaintext %q is stored with index %x, HMAC-SHA256 under the client's key gives %x", plain, stored[:33], exp)
				}
			}
		}
		// ---- the forwarded search statement --------------------------------------------------------
		var seen *mycheck.Seen
		for _, s := range prot.Log {
			if s.Cmd == sess.MyComQuery && s.Stmt != nil && !(s.Stmt.Kind == "insert") && !strings.HasPrefix(s.SQL, "select id, plain, c from t") {
				seen = s
			}
			if s.Cmd == sess.MyComStmtPrepare && s.Stmt != nil && s.Stmt.Kind != "insert" && !strings.HasPrefix(s.SQL, "select c, id from t") {
				seen = s
			}
		}
		if seen == nil {
			return
		}
		sent := sv
		if search.Kind == "eq-envelope-hex-literal" && myEnvelopeOf != nil {
			sent = myEnvelopeOf(search.SQL) // what stands in the statement is the envelope, not the value
		}
		// (the token-level comparison knows one searched value; the statement with two different
		// searched values is judged by its result and by the stored rows only)
		twoValues := search.Kind == "eq-literal-or-eq-other-literal" && !bytes.Equal(sv, myPool(c)[0])
		if d := searchDiff(search.SQL, seen.SQL, sent, want); d != "" && !twoValues {
			add("search/"+search.Kind+"/forwarded-statement", "%s: %.200q -> %.200q", d, search.SQL, seen.SQL)
		}
		// parameters: the searched value's parameter carries the index, the others are untouched
		if search.Prepared {
			for _, s := range prot.Log {
				if s.Cmd != sess.MyComStmtExecute || s.Exec == nil || s.ExecOf != seen.SQL {
					continue
				}
				for i, p := range s.Exec.Params {
					if i >= len(search.Params) {
						break
					}
					orig := search.Params[i]
					isSearched := bytes.Equal(orig.Value, sv) || (c.App == "int32" && (orig.Type == sess.MyTypeLong || orig.Type == sess.MyTypeLongLong) && i == 0 && strings.Contains(search.SQL, "c = ?")) ||
						(strings.HasPrefix(search.Kind, "eq-envelope-") && i == 0) // the searched value travels as an envelope the application made
					isSearched = isSearched && strings.Contains(search.Kind, "param") && !(strings.Contains(search.Kind, "update-where") && i == 0)
					switch {
					case isSearched && len(sv) > 0:
						if !bytes.Equal(p.Value, want) {
							add("search/"+search.Kind+"/parameter-index", "the parameter of the searchable condition reached the database as %.40x, the blind index of the searched value is %x", p.Value, want)
						}
					case !isSearched:
						if p.Type != orig.Type || !bytes.Equal(p.Value, orig.Value) {
							add("search/"+search.Kind+"/other-parameter-changed", "parameter %d is not the searched value but changed: type 0x%02x %.20x -> type 0x%02x %.20x", i, orig.Type, orig.Value, p.Type, p.Value)
						}
					}
				}
			}
		}
	}
	rn := &mycheck.Runner{Property: "C09", R: r, Env: env, Col: c, SkipNonOwners: true, After: after,
		Audits: []mycheck.Op{{Kind: "audit-select-all-text", SQL: "select id, plain, c from t", Protected: true}, {Kind: "audit-select-all-binary", SQL: "select c, id from t", Prepared: true, Protected: true}}}
	viol, _, harness := rn.Run(ops)
	if harness != "" {
		ev.Fatalf("C09 mysql: config %s %+v: %s", c.Name, rp, harness)
	}
	r.Eval(1)
	r.Traces(1)
	// the forwarded statement is the specific diagnosis: a differing result of the same session
	// (of the search itself or, after an UPDATE/DELETE that hit other rows, of the audits) echoes it
	specific := false
	for _, v := range viol {
		specific = specific || strings.HasSuffix(v.Key, "/forwarded-statement")
	}
	var out []myFinding
	for _, v := range viol {
		if specific && (strings.HasSuffix(v.Key, "/result-differs") || strings.HasSuffix(v.Key, "/plaintext-to-db")) {
			continue
		}
		sub := strings.TrimPrefix(v.Key, "C09/mysql/"+c.Name+"/")
		if !strings.HasPrefix(sub, "ins-") {
			sub += "/" + svClass(c, rp)
		}
		out = append(out, myFinding{c.Name, sub, v.Msg, rp})
	}
	r.Distinct(fmt.Sprintf("mysql|%s|%d rows|%s|sv%d|%v", c.Name, len(rp.Ops), rp.Search, rp.SV, len(viol) > 0))
	r.Class(map[bool]string{true: "mysql-session-violating", false: "mysql-session-ok"}[len(viol) > 0], 1)
	return out
}

// searchDiff compares the token streams of the original and the forwarded search statement:
// after undoing the documented wrapping of the searchable column every token must be the
// original one, except that (1) the literal compared with the searchable column carries the blind
// index of the searched value (33 bytes) instead of the value - an empty searched value stays
// empty -, (2) <=> / LIKE on the searchable column may have become =, (3) `v = c` may have become
// `c = v`. "" = as documented.
func searchDiff(orig, fwd string, searched, index []byte) string {
	a, err := mycheck.Lex(orig)
	if err != nil {
		ev.Fatalf("C09 mysql: original statement: %v", err)
	}
	b, err := mycheck.Lex(fwd)
	if err != nil {
		return "the forwarded statement cannot be read: " + err.Error()
	}
	x, y := mycheck.SkeletonValues(a, false), mycheck.SkeletonValues(b, true)
	// the documented operator changes: <=> and LIKE on the searchable column become = (an empty
	// searched value is searched as it is: the statement may then stay as it was)
	for i := range x {
		if i > 0 && i < len(y) && (x[i] == "<=>" || x[i] == "like") && strings.HasSuffix(x[i-1], "c") && y[i] == "=" {
			x[i] = "="
		}
	}
	// v = c  ->  c = v
	for i := 0; i+2 < len(x); i++ {
		if strings.HasPrefix(x[i], "L:") && x[i+1] == "=" && x[i+2] == "c" && i+2 < len(y) && y[i] == "c" {
			x[i], x[i+2] = x[i+2], x[i]
		}
	}
	if len(x) != len(y) {
		return fmt.Sprintf("the forwarded statement has %d tokens where %d are expected (%s)", len(y), len(x), strings.Join(y, " "))
	}
	sHex, iHex := "L:"+hex.EncodeToString(searched), "L:"+hex.EncodeToString(index)
	for i := range x {
		if x[i] == y[i] {
			// the searched value still in clear next to the searchable column (either side of a comparison)
			isCmp := func(k int) bool {
				return k >= 0 && k < len(x) && (x[k] == "=" || x[k] == "!=" || x[k] == "<=>" || x[k] == "like")
			}
			isC := func(k int) bool {
				return k >= 0 && k < len(x) && (x[k] == "c" || strings.HasSuffix(x[k], ".c")) || (k >= 2 && k < len(x) && x[k] == "c" && x[k-1] == ".")
			}
			if x[i] == sHex && len(searched) > 0 && ((isCmp(i-1) && isC(i-2)) || (isCmp(i+1) && (isC(i+2) || isC(i+4)))) {
				return "the searched value reached the database in place of its blind index"
			}
			continue
		}
		if x[i] == sHex && y[i] == iHex && i > 0 && (x[i-1] == "=" || x[i-1] == "!=") {
			continue
		}
		if x[i] == sHex && strings.HasPrefix(y[i], "L:") {
			return fmt.Sprintf("the searched value was replaced by %s, its blind index is %s", y[i][2:], iHex[2:])
		}
		return fmt.Sprintf("token %d changed: %q -> %q", i, x[i], y[i])
	}
	return ""
}

// crossClient: equal plaintexts of two clients carry different indexes (each the independent
// computation's); a row whose index was replaced by another row's index is not revealed.
func (w *myWorld) crossClient(c mycheck.Col, env *sess.MyEnv) []myFinding {
	r := w.r
	var out []myFinding
	rp := myReplay{Part: "mysql-cross-client", Config: c.Name}
	add := func(sub, format string, a ...interface{}) {
		out = append(out, myFinding{c.Name, sub, fmt.Sprintf(format, a...), rp})
	}
	prot := mycheck.NewDB(c.DBType, 0)
	vals := myPool(c)
	ins := func(id []byte, k int, v []byte) {
		cl, err := mycheck.Open(env, id, prot, false)
		if err != nil {
			ev.Fatalf("C09 mysql: session: %v", err)
		}
		defer cl.Close()
		op := w.insertOp(c, "ins-literal", k, v)
		res, err := cl.Query(op.SQL)
		r.Transitions(1)
		if err != nil || res.HarnessErr() != "" {
			ev.Fatalf("C09 mysql: cross-client insert: %v %s", err, res.HarnessErr())
		}
	}
	ins(fx.Alpha, 1, vals[0])
	ins(fx.Alpha, 2, vals[1])
	ins(fx.Bravo, 3, vals[0])
	rows := prot.Tables["t"].Rows
	r.Eval(1)
	if len(rows) != 3 {
		ev.Fatalf("C09 mysql: cross-client setup failed: %d rows", len(rows))
	}
	for i, id := range [][]byte{fx.Alpha, fx.Alpha, fx.Bravo} {
		plain := vals[[]int{0, 1, 0}[i]]
		if len(rows[i][2]) < 34 || !bytes.Equal(rows[i][2][:33], w.blindIndex(id, plain)) {
			add("cross-client/blind-index-differs", "client %s: plaintext %q stored as %.40x, expected index %x", id, plain, rows[i][2], w.blindIndex(id, plain))
			return out
		}
	}
	if bytes.Equal(rows[0][2][:33], rows[2][2][:33]) {
		add("cross-client/same-index", "two clients get the same blind index for the same plaintext")
	}
	// swap: row 1 gets the index of row 2 (other plaintext, same client)
	rows[0][2] = append(append([]byte{}, rows[1][2][:33]...), rows[0][2][33:]...)
	cl, err := mycheck.Open(env, fx.Alpha, prot, false)
	if err != nil {
		ev.Fatalf("C09 mysql: session: %v", err)
	}
	defer cl.Close()
	for _, binaryProto := range []bool{false, true} {
		var res *mycheck.Result
		if binaryProto {
			res, _, err = cl.PrepExec("select c from t where id = 1", nil)
		} else {
			res, err = cl.Query("select c from t where id = 1")
		}
		r.Eval(1)
		r.Transitions(1)
		if err != nil || res.HarnessErr() != "" {
			ev.Fatalf("C09 mysql: tamper step: %v %s", err, res.HarnessErr())
		}
		if res.Failure != "" {
			add("swapped-index/"+res.Failure, "reading a value with a swapped index: %s", res.Detail)
			return out
		}
		for _, rs := range res.Sets {
			for _, row := range rs.Rows {
				for _, v := range row {
					if bytes.Equal(v, vals[0]) {
						add("swapped-index/revealed", "a stored value whose blind index belongs to another plaintext was handed out as plaintext")
					}
				}
			}
		}
		r.Distinct("mysql|" + c.Name + "|swapped-index")
	}
	return out
}

// emitFindings reports the collected violations. Key: C09/mysql/<configuration>/<...search
// statement kind...>/<failure>/<class of the searched value>. One defect, one key: a failure that
// shows under several configurations gets "several-configs", one that shows with three or more
// search statement kinds that write the searched value the same way gets
// "several-statements-with-<way>" in place of the kind, and a failure of the
// special value classes that also shows with ordinary values is filed under "any-value".
func emitFindings(r *ev.Run, fs []myFinding) {
	// value class: special classes fold into any-value when any-value fails the same way
	anyValue := map[string]bool{}
	for _, f := range fs {
		if strings.HasSuffix(f.Sub, "/any-value") {
			anyValue[strings.TrimSuffix(f.Sub, "/any-value")] = true
		}
	}
	for i, f := range fs {
		for _, cl := range []string{"/empty-value", "/value-spelled-like-0x-literal"} {
			if strings.HasSuffix(f.Sub, cl) && anyValue[strings.TrimSuffix(f.Sub, cl)] {
				fs[i].Sub = strings.TrimSuffix(f.Sub, cl) + "/any-value"
			}
		}
	}
	// statement kind: generalised within one way of writing the searched value only
	generic := func(f myFinding) string {
		if f.Replay.Search == "" {
			return f.Sub
		}
		return strings.Replace(f.Sub, f.Replay.Search+"/", "{K}/"+searchForm(f.Replay.Search)+"/", 1)
	}
	kinds := map[string]map[string]bool{}
	for _, f := range fs {
		g := generic(f)
		if kinds[g] == nil {
			kinds[g] = map[string]bool{}
		}
		kinds[g][f.Replay.Search] = true
	}
	for i, f := range fs {
		if g := generic(f); strings.Contains(g, "{K}/") && len(kinds[g]) >= 3 && f.Replay.KeyConfig == "" {
			fs[i].Sub = strings.Replace(g, "{K}/", "several-statements-with-", 1)
		}
	}
	cfgs := map[string]map[string]bool{}
	for _, f := range fs {
		if cfgs[f.Sub] == nil {
			cfgs[f.Sub] = map[string]bool{}
		}
		cfgs[f.Sub][f.Config] = true
	}
	sort.SliceStable(fs, func(i, j int) bool {
		if fs[i].Sub != fs[j].Sub {
			return fs[i].Sub < fs[j].Sub
		}
		return len(fs[i].Replay.Ops) < len(fs[j].Replay.Ops) // the smallest history is the replay artefact
	})
	for _, f := range fs {
		kc := f.Config
		if len(cfgs[f.Sub]) > 1 {
			kc = "several-configs"
		}
		if f.Replay.KeyConfig != "" {
			kc = f.Replay.KeyConfig
		}
		f.Replay.KeyConfig = kc
		r.Violation("C09/mysql/"+kc+"/"+f.Sub, f.Msg+" [configuration "+f.Config+"]", f.Replay)
	}
}

func myEnvFor(ks *filesystem.KeyStore, c mycheck.Col) *sess.MyEnv {
	env, err := sess.NewMyEnv(ks, sess.MyEnvOptions{EncryptorConfigYAML: mycheck.ConfigYAML(c, nil)})
	if err != nil {
		ev.Fatalf("C09 mysql: env %s: %v", c.Name, err)
	}
	return env
}

// mysqlReplay re-executes a MySQL replay file; false when the file belongs to the PostgreSQL part.
func mysqlReplay(r *ev.Run, ks *filesystem.KeyStore) bool {
	var rp myReplay
	r.LoadReplay(&rp)
	w := &myWorld{r: r, ks: ks, thorough: true}
	w.bindEnvelope()
	switch rp.Part {
	case "mysql", "mysql-cross-client":
		for _, c := range myConfigs(true) {
			if c.Name != rp.Config {
				continue
			}
			if rp.Part == "mysql" {
				emitFindings(r, w.runOne(c, myEnvFor(ks, c), rp))
			} else {
				fs := w.crossClient(c, myEnvFor(ks, c))
				for i := range fs {
					fs[i].Replay.KeyConfig = rp.KeyConfig
				}
				emitFindings(r, fs)
			}
		}
	case "mysql-all": // developer shortcut: {"replay":{"part":"mysql-all"}} runs the MySQL half alone
		mysqlPart(r, ks, r.Thorough())
	default:
		return false
	}
	return true
}

// mysqlPart runs the MySQL half of C09. It must run after the PostgreSQL part: NewMyEnv switches
// the process-wide default SQL dialect to MySQL.
func mysqlPart(r *ev.Run, ks *filesystem.KeyStore, thorough bool) {
	w := &myWorld{r: r, ks: ks, thorough: thorough}
	w.bindEnvelope()
	maxRows := 2
	if thorough {
		maxRows = 3
	}
	states := 0
	var findings []myFinding
	for ci, c := range myConfigs(thorough) {
		env := myEnvFor(ks, c)
		pool := myPool(c)
		kinds := myInsertKindsOf(c)
		// every multiset of stored plaintexts up to maxRows; the first row is written in two (thorough:
		// all) ways, later rows rotate through the ways so that every pair of ways meets
		var histories [][]myOp
		var rec func(cur []myOp, start int)
		rec = func(cur []myOp, start int) {
			if len(cur) > 0 {
				histories = append(histories, append([]myOp{}, cur...))
			}
			if len(cur) == maxRows {
				return
			}
			for v := start; v < len(pool); v++ {
				for ki, how := range kinds {
					rot := kinds[(len(cur)+v)%len(kinds)]
					switch {
					case len(cur) == 0 && !thorough && ki != v%len(kinds) && ki != (v+2)%len(kinds):
						continue // quick: two ways per value for the first row (thorough: every way)
					case len(cur) > 0 && how != rot:
						continue // later rows rotate through the ways, so that every pair of ways meets
					case len(cur) > 0 && !thorough && cur[0].Kind != kinds[cur[0].V%len(kinds)]:
						continue // quick: rows are added to one way of writing the first row
					case len(cur) > 1 && cur[0].Kind != kinds[cur[0].V%len(kinds)]:
						continue // thorough: a third row is added to one way of writing the first row
					case len(cur) > 0 && !thorough && ci > 0 && v > 2:
						continue // quick: the full pool for two rows with the first configuration only
					}
					rec(append(cur, myOp{how, v}), v)
				}
			}
		}
		rec(nil, 0)
		seenState := map[string]bool{}
		var jobs []myReplay
		for _, h := range histories {
			var key []string
			for _, o := range h {
				key = append(key, fmt.Sprint(o.V))
			}
			sort.Strings(key)
			seenState[strings.Join(key, ",")] = true
			for sv := range mySearched(c) {
				for _, s := range searchOps(c, mySearched(c)[sv], thorough) {
					jobs = append(jobs, myReplay{Part: "mysql", Config: c.Name, Ops: h, Search: s.Kind, SV: sv})
				}
			}
		}
		states += len(seenState)
		outs := make([][]myFinding, len(jobs))
		done := par.Do(len(jobs), r.Expired, func(i int) { outs[i] = w.runOne(c, env, jobs[i]) })
		if done < len(jobs) {
			r.Capped(fmt.Sprintf("mysql: config %s: %d of %d sessions", c.Name, done, len(jobs)))
		}
		for _, o := range outs {
			findings = append(findings, o...)
		}
		for i := 0; i < len(jobs); i += len(jobs)/2 + 1 {
			r.Sample(jobs[i])
		}
		r.Set("mysql_sessions_"+c.Name, len(jobs))
		findings = append(findings, w.crossClient(c, env)...)
	}
	emitFindings(r, findings)
	r.States(states)
	r.Set("mysql_bounds", map[string]int{"max_rows": maxRows, "configs": len(myConfigs(thorough))})
	r.Set("mysql_rule", "state = multiset of stored plaintexts (<= max_rows rows over the value pool, each row written by string literal / hex literal / VAR_STRING parameter / BLOB parameter / pre-encrypted envelope); every (multiset, search statement kind, searched value) is one fresh session through the real MySQL proxy against the scripted store, compared with a plaintext reference store; distinct_nontrivial = distinct (config, row count, search kind, searched value, violated?)")
	r.Assume("MySQL: the database end is the scripted store verif/mycheck, which evaluates substr()/convert(.., binary)/=/!=/<=>/LIKE/AND/OR/joins literally over the stored bytes",
		"MySQL: blind index recomputed with Go's crypto/hmac + sha256 under the key store's HMAC key of the client (first byte 0x7F)")
}

func (w *myWorld) bindEnvelope() {
	myEnvelope = func(c mycheck.Col, v []byte) []byte {
		e, err := mycheck.Envelope(w.ks, c.Envelope, c.Owner, v)
		if err != nil {
			ev.Fatalf("C09 mysql: envelope: %v", err)
		}
		return e
	}
}

// myEnvelopeOf extracts the bytes of the X'..' literal of an eq-envelope-hex-literal statement
var myEnvelopeOf = func(sql string) []byte {
	i := strings.Index(sql, "X'")
	j := strings.LastIndex(sql, "'")
	if i < 0 || j <= i+2 {
		return nil
	}
	b, err := hex.DecodeString(sql[i+2 : j])
	if err != nil {
		return nil
	}
	return b
}
