// C04, MySQL half: the real MySQL proxy (decryptor/mysql) driven in-process by sess.MySession
// against the scripted table store of verif/mycheck; a reference store that never sees Acra
// holds the plaintexts and defines what the owning client must observe.
//
// Space: column variants (acrablock, acrastruct, searchable, masked left/right, tokenized
// str/int32/int64/bytes/email consistent or not, typed str/bytes/int32/int64, another client's
// column) x histories of up to 2 (thorough: 3) statements over the alphabet
//
//	writes  INSERT with a literal in every spelling the value admits ('..' with escapes, X'..',
//	        0x.., _binary'..', integer), schema-order INSERT, multi-row INSERT, INSERT ... ON
//	        DUPLICATE KEY UPDATE, UPDATE with a literal, prepared INSERT / multi-row INSERT / UPDATE
//	        with parameters of type VAR_STRING, BLOB, LONG, LONGLONG, NULL (typed MYSQL_TYPE_NULL or
//	        by bitmap only), over values {short, 33 bytes, every nasty byte, 300 bytes, NULL, empty,
//	        250, 251, 252 bytes (thorough: 65535, 65536)};
//	reads   by id, *, aliases, join, text and binary protocol, the unconfigured table u.
//
// Oracles: (a) no packet at the database end contains a plaintext in any spelling
// (sess.ContainsSecret) and no stored cell contains it; (b) the owner reads back exactly what the
// reference store answers (values compared in canonical form, names and aliases of the column
// definitions too); (c) readers without the keys get the stored form (masked columns: the mask
// view) and never the plaintext; (d) statements, parameters and results of the unconfigured table
// u pass byte-identically in both directions; rewritten statements keep their shape (token
// skeleton of verif/mycheck's own reader).
package main

import (
	"bytes"
	"encoding/binary"
	"encoding/hex"
	"fmt"
	"strconv"
	"strings"
	"unicode/utf8"

	"github.com/cossacklabs/acra/keystore/filesystem"

	"verif/ev"
	"verif/fx"
	"verif/mycheck"
	"verif/par"
	"verif/sess"
)

func myConfigs(thorough bool) []mycheck.Col {
	cs := []mycheck.Col{
		mycheck.Block(), mycheck.Struct(), mycheck.Searchable("acrablock"), mycheck.MaskedCol("acrablock", "left", 2, "xxxx"),
		mycheck.Tokenized("str", true), mycheck.Typed("acrablock", "str", "", nil), mycheck.OtherClient("acrablock", fx.Bravo),
		mycheck.Tokenized("int32", true),
	}
	if thorough {
		cs = append(cs, mycheck.Searchable("acrastruct"), mycheck.MaskedCol("acrastruct", "right", 2, "**"),
			mycheck.Tokenized("int64", true), mycheck.Tokenized("bytes", true), mycheck.Tokenized("email", true), mycheck.Tokenized("str", false), mycheck.Tokenized("int32", false),
			mycheck.Typed("acrablock", "int32", "", nil), mycheck.Typed("acrastruct", "bytes", "", nil), mycheck.Typed("acrablock", "int64", "", nil))
	}
	return cs
}

// ---- values and their spellings ---------------------------------------------------------------------

type myVal struct {
	Name string
	Null bool
	B    []byte
}

func rep(n int, alphabet string) []byte {
	out := make([]byte, n)
	for i := range out {
		out[i] = alphabet[i%len(alphabet)]
	}
	return out
}

// myValues: the quick values first, the thorough ones after them (indices are stable: replays)
func myValues(c mycheck.Col, thorough bool) []myVal {
	var v []myVal
	switch {
	case c.App == "int32":
		v = []myVal{{"12", false, []byte("12")}, {"min", false, []byte("-2147483648")}, {"max", false, []byte("2147483647")}, {"0", false, []byte("0")}, {Name: "NULL", Null: true}}
	case c.App == "int64":
		v = []myVal{{"12", false, []byte("12")}, {"min", false, []byte("-9223372036854775808")}, {"max", false, []byte("9223372036854775807")}, {"2^31", false, []byte("2147483648")}, {Name: "NULL", Null: true}}
	case c.Token == "email":
		v = []myVal{{"short", false, []byte("ab@c.de")}, {"plain", false, []byte("someone@example.com")}, {"quote", false, []byte("o'neil+tag@example.co.uk")}, {Name: "NULL", Null: true}}
	case c.App == "str":
		v = []myVal{{"a", false, []byte("a")}, {"mark5", false, []byte("mark5")}, {"33", false, []byte("it's a \\ 33-byte text value!!! abcd")}, {"300", false, rep(300, "long-text-")},
			{Name: "NULL", Null: true}, {"empty", false, []byte{}}, {"250", false, rep(250, "abcdefghij")}, {"251", false, rep(251, "klmnopqrst")}, {"252", false, rep(252, "uvwxyz0123")}}
		if thorough {
			v = append(v, myVal{"utf8", false, []byte("üñí-✓ \"q\"")}, myVal{"65535", false, rep(65535, "0123456789abcdef")}, myVal{"65536", false, rep(65536, "fedcba9876543210")})
		}
	default:
		v = []myVal{{"a", false, []byte("a")}, {"mark5", false, []byte("mark5")}, {"33", false, []byte("a 33-byte value 0123456789abcdefg")},
			{"nasty", false, []byte{0x00, '\'', '\\', 0x80, 0xff, '"', '%', 'z', 0x01, '\n', 0x1a, '_'}}, {"300", false, rep(300, "long-bytes")},
			{Name: "NULL", Null: true}, {"empty", false, []byte{}}, {"250", false, rep(250, "abcdefghij")}, {"251", false, rep(251, "klmnopqrst")}, {"252", false, rep(252, "uvwxyz0123")}}
		if thorough {
			v = append(v, myVal{"tags", false, []byte(`"""""""" tag run %%% and more`)}, myVal{"65535", false, rep(65535, "0123456789abcdef")}, myVal{"65536", false, rep(65536, "fedcba9876543210")})
		}
	}
	return v
}

// quote writes a MySQL string literal: backslash escapes for \ ' NUL newline CR Ctrl-Z
func quote(b []byte) string {
	var s strings.Builder
	s.WriteByte('\'')
	for _, c := range b {
		switch c {
		case '\\':
			s.WriteString(`\\`)
		case '\'':
			s.WriteString(`\'`)
		case 0:
			s.WriteString(`\0`)
		case '\n':
			s.WriteString(`\n`)
		case '\r':
			s.WriteString(`\r`)
		case 0x1a:
			s.WriteString(`\Z`)
		default:
			s.WriteByte(c)
		}
	}
	s.WriteByte('\'')
	return s.String()
}

// literals returns the spellings of v for a column of application type app
func literals(c mycheck.Col, v myVal) []string {
	if v.Null {
		return []string{"NULL"}
	}
	switch c.App {
	case "int32", "int64":
		return []string{string(v.B)}
	case "str":
		return []string{quote(v.B)}
	}
	out := []string{"X'" + hex.EncodeToString(v.B) + "'"}
	if len(v.B) > 0 {
		out = append(out, "0x"+hex.EncodeToString(v.B))
	}
	if utf8.Valid(v.B) {
		out = append(out, quote(v.B))
	}
	return append(out, "_binary"+quote(v.B))
}

func long(n int) sess.MyParam {
	return sess.MyParam{Type: sess.MyTypeLong, Value: binary.LittleEndian.AppendUint32(nil, uint32(int32(n)))}
}
func vstr(s string) sess.MyParam { return sess.MyParam{Type: sess.MyTypeVarString, Value: []byte(s)} }

// param returns v as a parameter of MySQL type t (nil Value = NULL by bitmap)
func param(t byte, v myVal) sess.MyParam {
	if v.Null {
		return sess.MyParam{Type: t}
	}
	switch t {
	case sess.MyTypeLong:
		n, _ := strconv.ParseInt(string(v.B), 10, 32)
		return sess.MyParam{Type: t, Value: binary.LittleEndian.AppendUint32(nil, uint32(int32(n)))}
	case sess.MyTypeLongLong:
		n, _ := strconv.ParseInt(string(v.B), 10, 64)
		return sess.MyParam{Type: t, Value: binary.LittleEndian.AppendUint64(nil, uint64(n))}
	}
	return sess.MyParam{Type: t, Value: append([]byte{}, v.B...)}
}

// secretsOf: what must not reach the database for value v
func secretsOf(c mycheck.Col, vs ...myVal) [][]byte {
	var out [][]byte
	for _, v := range vs {
		if v.Null || len(v.B) == 0 {
			continue
		}
		switch {
		case c.Token != "" && (c.App == "int32" || c.App == "int64"):
			// a few digits: containment proves nothing; the stored-value audit compares instead
		case c.Masked:
			n := c.MaskLen
			// the part masking hides; the whole value when it is not longer than plaintext_length (nothing
			// of such a value may be forwarded in clear: a reader without keys must never receive it)
			if n > 0 && n < len(v.B) {
				out = append(out, v.B[n:])
			} else if n < 0 && -n < len(v.B) {
				out = append(out, v.B[:len(v.B)+n])
			} else {
				out = append(out, v.B)
			}
		default:
			out = append(out, v.B)
		}
	}
	return out
}

// ---- statement alphabet -------------------------------------------------------------------------------

func myWrites(c mycheck.Col, k int, v, v2 myVal, thorough bool) []mycheck.Op {
	var out []mycheck.Op
	w := func(kind, sql string, params []sess.MyParam, vals ...myVal) {
		out = append(out, mycheck.Op{Kind: kind, SQL: sql, Params: params, Prepared: params != nil, Write: true, Protected: true, Secrets: secretsOf(c, vals...)})
	}
	lits := literals(c, v)
	names := []string{"lit0", "lit1", "lit2", "lit3"}
	if c.App == "bytes" && !v.Null {
		// name the spellings, not their positions (an empty value has no 0x spelling)
		names = names[:0]
		for _, l := range lits {
			switch {
			case strings.HasPrefix(l, "X'"):
				names = append(names, "hex")
			case strings.HasPrefix(l, "0x"):
				names = append(names, "0x")
			case strings.HasPrefix(l, "_binary"):
				names = append(names, "binary-introducer")
			default:
				names = append(names, "string")
			}
		}
	}
	for li, lit := range lits {
		kind := "insert-" + names[li]
		if v.Null {
			kind = "insert-null-literal"
		}
		w(kind, fmt.Sprintf("insert into t (id, plain, c) values (%d, 'p%d', %s)", k, k, lit), nil, v)
	}
	lit, lit2 := lits[0], literals(c, v2)[0]
	w("insert-schema-order", fmt.Sprintf("insert into t values (%d, 'p%d', %s)", k, k, lit), nil, v)
	w("insert-two-rows", fmt.Sprintf("insert into t (id, plain, c) values (%d, 'p%d', %s), (%d, 'q', %s)", k, k, lit, k+100, lit2), nil, v, v2)
	w("insert-on-duplicate-key-update", fmt.Sprintf("insert into t (id, plain, c) values (1, 'dup', %s) on duplicate key update c = %s", lit, lit2), nil, v, v2)
	w("update-literal", fmt.Sprintf("update t set c = %s where id = %d", lit, k-1), nil, v)
	if thorough {
		w("insert-reordered-cols", fmt.Sprintf("insert into t (c, id) values (%s, %d)", lit, k), nil, v)
		w("insert-upper-quoted", fmt.Sprintf("INSERT INTO `t` (`id`, `plain`, `c`) VALUES (%d, 'p', %s)", k, lit), nil, v)
		w("update-two-columns", fmt.Sprintf("update t set plain = 'upd', c = %s where id = %d", lit, k-1), nil, v)
	}
	// prepared statements: the parameter types an application binds for this kind of value
	types := map[string]byte{"varstring": sess.MyTypeVarString, "blob": sess.MyTypeBlob}
	order := []string{"varstring", "blob"}
	if c.App == "int32" || c.App == "int64" {
		types["longlong"] = sess.MyTypeLongLong
		order = append(order, "longlong")
		if c.App == "int32" {
			types["long"] = sess.MyTypeLong
			order = append(order, "long")
		}
	}
	const ins = "insert into t (id, plain, c) values (?, ?, ?)"
	for _, n := range order {
		w("ps-insert-"+n, ins, []sess.MyParam{long(k), vstr("pp"), param(types[n], v)}, v)
	}
	main := types[order[len(order)-1]]
	if c.App == "bytes" {
		main = sess.MyTypeBlob
	}
	if v.Null {
		w("ps-insert-nulltype", ins, []sess.MyParam{long(k), vstr("pn"), {Type: sess.MyTypeNull}}, v)
	}
	w("ps-insert-two-rows", "insert into t (id, plain, c) values (?, ?, ?), (?, ?, ?)",
		[]sess.MyParam{long(k), vstr("r1"), param(main, v), long(k + 100), vstr("r2"), param(sess.MyTypeVarString, v2)}, v, v2)
	w("ps-insert-schema-order", "insert into t values (?, ?, ?)", []sess.MyParam{long(k), vstr("so"), param(main, v)}, v)
	w("ps-update", "update t set c = ? where id = ?", []sess.MyParam{param(main, v), long(k - 1)}, v)
	w("ps-insert-on-duplicate-key-update", "insert into t (id, plain, c) values (1, 'dup', ?) on duplicate key update c = ?", []sess.MyParam{param(main, v), param(main, v2)}, v, v2)
	if thorough {
		w("ps-insert-literal-and-param", fmt.Sprintf("insert into t (id, plain, c) values (%d, ?, %s)", k, lit), []sess.MyParam{vstr("mix")}, v)
	}
	// writes that do not involve the configured table
	out = append(out,
		mycheck.Op{Kind: "insert-unconfigured-table", SQL: fmt.Sprintf("insert  into u (id, note, c2) values (%d, 'n''%d', X'00ff27')", k+10, k), Write: true},
		mycheck.Op{Kind: "ps-insert-unconfigured-table", SQL: "insert into u (id, note, c2) values (?, ?, ?)", Prepared: true, Write: true,
			Params: []sess.MyParam{long(k + 20), vstr("it's"), {Type: sess.MyTypeBlob, Value: []byte{0, 0xff, 0xfb, '\''}}}})
	return out
}

func myReads(c mycheck.Col, v myVal, thorough bool) []mycheck.Op {
	rd := func(kind, sql string, params []sess.MyParam, prepared bool) mycheck.Op {
		return mycheck.Op{Kind: kind, SQL: sql, Params: params, Prepared: prepared, Protected: true}
	}
	out := []mycheck.Op{
		rd("select-c-by-id", "select c from t where id = 1", nil, false),
		rd("select-star", "select * from t", nil, false),
		rd("select-alias", "select id, c as x, plain from t", nil, false),
		rd("ps-select-c-by-id", "select c from t where id = ?", []sess.MyParam{long(1)}, true),
		rd("ps-select-star", "select * from t", nil, true),
		rd("ps-select-alias", "select plain, c x from t", nil, true),
		rd("select-join", "select t.c, u.note from t join u on t.id = u.id", nil, false),
		{Kind: "select-unconfigured-table", SQL: "select  note , id   from u where id = 2 /* keep my bytes */"},
		{Kind: "ps-select-unconfigured-table", SQL: "select note, c2 from u where id = ?", Prepared: true, Params: []sess.MyParam{long(1)}},
	}
	if c.Search && !v.Null {
		lit := literals(c, v)[0]
		a := rd("select-where-eq-literal", "select id, c from t where c = "+lit, nil, false)
		b := rd("ps-select-where-eq-param", "select id from t where c = ?", []sess.MyParam{param(sess.MyTypeBlob, v)}, true)
		a.Secrets, b.Secrets = secretsOf(c, v), secretsOf(c, v)
		out = append(out, a, b)
	}
	if thorough {
		out = append(out,
			rd("select-qualified-star", "select t.* from t", nil, false),
			rd("select-table-alias", "select x.c from t as x where x.id = 1", nil, false),
			rd("ps-select-join", "select u.note, t.c, t.id from t join u on t.id = u.id", nil, true))
	}
	return out
}

// ---- histories -----------------------------------------------------------------------------------------

type myHist struct {
	Kind string `json:"kind"`
	K    int    `json:"row_id"`
	V    int    `json:"value_index"`
}

type myReplay struct {
	Part    string   `json:"part"` // "mysql"
	Config  string   `json:"config"`
	History []myHist `json:"history"`
	Detail  string   `json:"detail,omitempty"`
	// KeyConfig is the configuration part of the finding key the full run chose ("several-configs"
	// when the same failure shows under more than one configuration); a replay keeps it
	KeyConfig string `json:"key_config,omitempty"`
}

// myFinding is a violation waiting for its final key (see emitFindings)
type myFinding struct {
	Config, Sub, Msg string
	Replay           myReplay
}

// emitFindings reports the collected violations. Key: C04/mysql/<configuration>/<statement
// kind>/<role>/<failure>; a failure that shows under several configurations is one defect and gets
// "several-configs" in place of the configuration.
func emitFindings(r *ev.Run, fs []myFinding) {
	cfgs := map[string]map[string]bool{}
	for _, f := range fs {
		if cfgs[f.Sub] == nil {
			cfgs[f.Sub] = map[string]bool{}
		}
		cfgs[f.Sub][f.Config] = true
	}
	for _, f := range fs {
		kc := f.Config
		if len(cfgs[f.Sub]) > 1 {
			kc = "several-configs"
		}
		if f.Replay.KeyConfig != "" {
			kc = f.Replay.KeyConfig
		}
		f.Replay.KeyConfig = kc
		r.Violation("C04/mysql/"+kc+"/"+f.Sub, f.Msg+" [configuration "+f.Config+"]", f.Replay)
	}
}

func myBuild(c mycheck.Col, h myHist, vals []myVal) (mycheck.Op, bool) {
	v, v2 := vals[h.V%len(vals)], vals[(h.V+1)%len(vals)]
	for _, w := range myWrites(c, h.K, v, v2, true) {
		if w.Kind == h.Kind {
			return w, true
		}
	}
	for _, rd := range myReads(c, v, true) {
		if rd.Kind == h.Kind {
			return rd, true
		}
	}
	return mycheck.Op{}, false
}

func myEnvFor(ks *filesystem.KeyStore, c mycheck.Col) (*sess.MyEnv, error) {
	return sess.NewMyEnv(ks, sess.MyEnvOptions{EncryptorConfigYAML: mycheck.ConfigYAML(c, nil)})
}

func myRunHistory(r *ev.Run, env *sess.MyEnv, c mycheck.Col, h []myHist) (viol []mycheck.Violation, state, harness string) {
	vals := myValues(c, true)
	var ops []mycheck.Op
	for _, x := range h {
		op, ok := myBuild(c, x, vals)
		if !ok {
			ev.Fatalf("C04 mysql: unknown statement kind %s for configuration %s", x.Kind, c.Name)
		}
		ops = append(ops, op)
	}
	rn := &mycheck.Runner{Property: "C04", R: r, Env: env, Col: c}
	return rn.Run(ops)
}

// mysqlReplay re-executes a MySQL replay file; false when the file belongs to the PostgreSQL part.
func mysqlReplay(r *ev.Run, ks *filesystem.KeyStore) bool {
	var rp myReplay
	r.LoadReplay(&rp)
	switch rp.Part {
	case "mysql":
		for _, c := range myConfigs(true) {
			if c.Name != rp.Config {
				continue
			}
			env, err := myEnvFor(ks, c)
			if err != nil {
				ev.Fatalf("C04 mysql: env: %v", err)
			}
			viol, _, harness := myRunHistory(r, env, c, rp.History)
			if harness != "" {
				ev.Fatalf("C04 mysql replay: %s", harness)
			}
			var fs []myFinding
			for _, v := range viol {
				fmt.Println("replayed:", v.Key, "::", v.Msg)
				fs = append(fs, myFinding{c.Name, strings.TrimPrefix(v.Key, "C04/mysql/"+c.Name+"/"), v.Msg, rp})
			}
			emitFindings(r, fs)
		}
	case "pg-mask-boundary", "mysql-mask-boundary": // mask_boundary.go
		var mb mbReplay
		r.LoadReplay(&mb)
		if mb.Part == "pg-mask-boundary" {
			pgMaskBoundaryPhase(r, ks, true, &mb)
		} else {
			myMaskBoundaryPhase(r, ks, true, &mb)
		}
	case "mask-boundary-dev": // developer shortcut: the mask boundary phases alone
		pgMaskBoundaryPhase(r, ks, r.Thorough(), nil)
		myMaskBoundaryPhase(r, ks, r.Thorough(), nil)
	case "pg-wide", "mysql-wide": // wide.go
		var w wideReplay
		r.LoadReplay(&w)
		if w.Part == "pg-wide" {
			pgWidePhase(r, ks, true, &w)
		} else {
			myWidePhase(r, ks, true, &w)
		}
	case "wide-dev": // developer shortcut: the wide result / parameter phases alone
		pgWidePhase(r, ks, r.Thorough(), nil)
		myWidePhase(r, ks, r.Thorough(), nil)
	case "mysql-pumps":
		mysqlPumpPhase(r, ks, r.Thorough())
	case "pg-pumps":
		pgPumpPhase(r, ks, r.Thorough())
	case "pg-pumps-dev": // developer shortcut: the PostgreSQL pump phase alone
		r.Replay = ""
		pgPumpPhase(r, ks, r.Thorough())
	case "mysql-pumps-dev": // developer shortcut: the pump phase alone
		r.Replay = ""
		mysqlPumpPhase(r, ks, r.Thorough())
	case "mysql-all": // developer shortcut: {"replay":{"part":"mysql-all"}} runs the MySQL half alone
		mysqlPart(r, ks, r.Thorough())
	default:
		return false
	}
	return true
}

// mysqlPart runs the MySQL half of C04. It must run after the PostgreSQL part: NewMyEnv switches
// the process-wide default SQL dialect to MySQL.
func mysqlPart(r *ev.Run, ks *filesystem.KeyStore, thorough bool) {
	depth := 2
	if thorough {
		depth = 3
	}
	total := 0
	cfgs := myConfigs(thorough)
	var findings []myFinding
	for _, c := range cfgs {
		env, err := myEnvFor(ks, c)
		if err != nil {
			r.Violation("C04/mysql/"+c.Name+"/config-rejected", fmt.Sprintf("the MySQL configuration loader rejects the configuration: %v", err), myReplay{Part: "mysql", Config: c.Name})
			continue
		}
		vals := myValues(c, thorough)
		// alphabet: the base write kinds x every value; every other kind x two (thorough: three) values
		// that rotate with the kind; the 64 KiB values with the base kinds only. Depth 3 (thorough)
		// continues from the histories made of CORE writes only (base kinds x three values, the UPDATE
		// and ON DUPLICATE KEY kinds x one value) with a core write or any read.
		var alphabet []myHist
		core := map[myHist]bool{}
		isWrite := map[string]bool{}
		big := func(v myVal) bool { return len(v.B) > 60000 }
		kinds := myWrites(c, 1, vals[0], vals[1], thorough)
		if c.App == "bytes" {
			kinds = myWrites(c, 1, vals[1], vals[2], thorough) // a value with every spelling
		}
		for ki, w := range kinds {
			isWrite[w.Kind] = true
			base := w.Kind == "insert-lit0" || w.Kind == "insert-hex" || w.Kind == "ps-insert-blob"
			for vi, v := range vals {
				switch {
				case strings.Contains(w.Kind, "unconfigured") && vi > 0:
					continue
				case big(v) && !base:
					continue
				case !base && vi != ki%len(vals) && vi != (ki+3)%len(vals) && !(thorough && vi == (ki+5)%len(vals)):
					continue
				}
				if _, ok := myBuild(c, myHist{Kind: w.Kind, K: 1, V: vi}, myValues(c, true)); !ok {
					continue // this value has no such spelling
				}
				alphabet = append(alphabet, myHist{Kind: w.Kind, V: vi})
				if (base && vi < 3) || (vi == ki%len(vals) && (strings.Contains(w.Kind, "update") || w.Kind == "ps-insert-two-rows")) {
					core[myHist{Kind: w.Kind, V: vi}] = true
				}
			}
		}
		if vi := nullIndex(vals); vi >= 0 {
			alphabet = append(alphabet, myHist{Kind: "ps-insert-nulltype", V: vi}, myHist{Kind: "insert-null-literal", V: vi})
			isWrite["ps-insert-nulltype"], isWrite["insert-null-literal"] = true, true
		}
		for _, rd := range myReads(c, vals[0], thorough) {
			vis := []int{0}
			if len(rd.Secrets) > 0 {
				vis = []int{0, 1, 2}
			}
			for _, vi := range vis {
				alphabet = append(alphabet, myHist{Kind: rd.Kind, V: vi})
			}
		}
		seen := map[string]bool{}
		frontier := [][]myHist{{}}
		for d := 1; d <= depth && len(frontier) > 0; d++ {
			var cands [][]myHist
			for _, h := range frontier {
				for _, a := range alphabet {
					if len(h) == 0 && !isWrite[a.Kind] {
						continue // a read first adds nothing
					}
					if d == 3 && isWrite[a.Kind] && !core[myHist{Kind: a.Kind, V: a.V}] {
						continue
					}
					cands = append(cands, append(append([]myHist{}, h...), myHist{Kind: a.Kind, V: a.V, K: len(h) + 1}))
				}
			}
			type outT struct {
				viol    []mycheck.Violation
				state   string
				harness string
				done    bool
			}
			outs := make([]outT, len(cands))
			done := par.Do(len(cands), r.Expired, func(i int) {
				v, s, hn := myRunHistory(r, env, c, cands[i])
				outs[i] = outT{v, s, hn, true}
				r.Eval(1)
				r.Traces(1)
			})
			if done < len(cands) {
				r.Capped(fmt.Sprintf("mysql: configuration %s depth %d: %d of %d histories", c.Name, d, done, len(cands)))
			}
			var next [][]myHist
			for i, o := range outs {
				if !o.done {
					continue
				}
				if o.harness != "" {
					ev.Fatalf("C04 mysql: configuration %s history %v: %s", c.Name, cands[i], o.harness)
				}
				var kl []string
				for _, x := range cands[i] {
					kl = append(kl, x.Kind)
				}
				rp := myReplay{Part: "mysql", Config: c.Name, History: cands[i]}
				for _, v := range o.viol {
					rp.Detail = v.Msg
					findings = append(findings, myFinding{c.Name, strings.TrimPrefix(v.Key, "C04/mysql/"+c.Name+"/"), v.Msg, rp})
				}
				r.Distinct("mysql|" + c.Name + "|" + strings.Join(kl, ">") + fmt.Sprint(len(o.viol) > 0))
				r.Class(map[bool]string{true: "mysql-history-violating", false: "mysql-history-ok"}[len(o.viol) > 0], 1)
				last := cands[i][len(cands[i])-1]
				// depth 3 continues from distinct table contents only (the last statement matters for
				// what a following statement meets only through the prepared-statement registry, which
				// every statement of the alphabet leaves empty)
				key := o.state
				if d < 2 {
					key += "#" + last.Kind
				}
				allCore := true
				for _, x := range cands[i] {
					allCore = allCore && core[myHist{Kind: x.Kind, V: x.V}]
				}
				if !seen[key] {
					seen[key] = true
					if d < 2 || allCore {
						next = append(next, cands[i])
					}
				}
				if len(cands[i]) == depth && r.Evals()%1499 == 0 {
					r.Sample(rp)
				}
			}
			frontier = next
			if r.Expired() {
				break
			}
		}
		total += len(seen)
		r.Set("mysql_states_"+c.Name, len(seen))
		r.Set("mysql_alphabet_"+c.Name, len(alphabet))
	}
	emitFindings(r, findings)
	r.States(total)
	r.Set("mysql_bounds", map[string]int{"configs": len(cfgs), "depth": depth})
	r.Set("mysql_rule", "BFS over statement histories (alphabet: write and read statement kinds x value index; row ids by position) per column configuration; every history runs from a fresh real MySQL proxy session against a fresh scripted store and a plaintext reference store, then is audited by the owner and by two readers that cannot reveal; state = canonical reference table contents (+ last statement kind at depth 1); distinct_nontrivial = distinct (config, statement-kind sequence, violated?)")
	r.Assume("MySQL: the database end is the scripted store verif/mycheck (own statement reader; INSERT/UPDATE/DELETE/SELECT with the operators the alphabet uses); statement shapes outside its domain abort the run as harness errors",
		"MySQL: classic protocol 4.1 without TLS and compression, CLIENT_DEPRECATE_EOF not negotiated (both modes are covered by C12)")
}

func nullIndex(vals []myVal) int {
	for i, v := range vals {
		if v.Null {
			return i
		}
	}
	return -1
}

var _ = bytes.Equal
