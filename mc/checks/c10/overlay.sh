#!/bin/bash
# the token stores' own locking becomes visible to the E1 scheduler: the in-memory store's RWMutex and
# bbolt's transaction locks (rwlock / metalock / mmaplock)
exec "$(dirname "$0")/../../../bin/mkoverlay.py" "$1" --sync pseudonymization/storage/memory.go --modsync go.etcd.io/bbolt db.go
