package kslab

import (
	"fmt"
	"testing"
)

// TestLabOnEveryConfiguration drives a short history that no known defect touches on all
// six standard configurations and all six kinds and checks answers, canonical states and
// the model's predictions.
func TestLabOnEveryConfiguration(t *testing.T) {
	t.Setenv("VERIF_SCRATCH", selfTestScratch(t))
	for _, cfg := range StandardConfigs {
		for _, k := range AllKinds {
			sl := SlotOf(k, Alpha)
			l, err := NewLab(cfg, []Slot{sl})
			if err != nil {
				t.Fatalf("%s: %v", cfg.Name(), err)
			}
			op := func(code string, idx int) Op { return Op{Code: code, Kind: k, Client: Alpha, Index: idx} }
			for i := 1; i <= 3; i++ {
				pre := l.State().Slot(sl)
				r := l.Apply(op(OpGenerate, 0))
				want, _ := pre.After(op(OpGenerate, 0))
				if got := l.State().Slot(sl); r.Err != nil || r.NewOrd != i || !got.SameKeys(want) {
					t.Fatalf("%s %s: generate #%d: err=%v new=%d state [%s], model [%s]", cfg.Name(), sl, i, r.Err, r.NewOrd, got, want)
				}
			}
			if !cfg.Cached() { // a warm cached v1 handle is allowed to be stale
				if r := l.Apply(op(OpReadCurrent, 0)); r.CurSecret != 3 || (k.IsPair() && r.CurPublic != 3) {
					t.Fatalf("%s %s: read-current = %d/%d (%v)", cfg.Name(), sl, r.CurSecret, r.CurPublic, r.CurSecretErr)
				}
				if Supports(OpReadAll, k) {
					r := l.Apply(op(OpReadAll, 0))
					if fmt.Sprint(r.All) != "[3 2 1]" {
						t.Fatalf("%s %s: read-all = %v (%v)", cfg.Name(), sl, r.All, r.Err)
					}
					for ord := 1; ord <= 3; ord++ {
						p, err := l.T.Probe(sl, ord)
						if err != nil || !ProbeReadable(k, p, r.AllVals) {
							t.Fatalf("%s %s: probe of key #%d unreadable (%v)", cfg.Name(), sl, ord, err)
						}
					}
				}
			}
			rows, err := l.S.Main.ListRotated()
			n := 0
			for _, row := range rows {
				if row.Slot == sl && row.Part != "pub" {
					n++
				}
			}
			if err != nil || n != 2 {
				t.Fatalf("%s %s: list-rotated shows %d rows (%v)", cfg.Name(), sl, n, err)
			}
			if Supports(OpDestroyCurrent, k) {
				pre := l.State().Slot(sl)
				l.Apply(op(OpDestroyCurrent, 0))
				want, _ := pre.After(op(OpDestroyCurrent, 0))
				if got := l.State().Slot(sl); !got.SameKeys(want) || got.Cur != 0 || fmt.Sprint(got.Surv) != "[2 1]" {
					t.Fatalf("%s %s: destroy-current left [%s], model [%s]", cfg.Name(), sl, got, want)
				}
			}
			before := l.State().StorageCanon()
			if r := l.Apply(Op{Code: OpReopen}); r.Err != nil || l.State().StorageCanon() != before {
				t.Fatalf("%s %s: reopen: %v, [%s] -> [%s]", cfg.Name(), sl, r.Err, before, l.State().StorageCanon())
			}
			l.Close()
		}
	}
}

// TestSeamFaults counts the storage calls of one real rotation on both formats and injects
// every fault kind at every call: the operation must fail or crash accordingly, a fresh
// handle must open, and the seam log must show the faulted call.
func TestSeamFaults(t *testing.T) {
	for _, cfg := range []Config{StandardConfigs[0], StandardConfigs[4]} {
		sl := SlotOf(StorageSym, Alpha)
		base, err := Open(cfg, "faults")
		if err != nil {
			t.Fatal(err)
		}
		if err := base.Main.Generate(sl); err != nil {
			t.Fatal(err)
		}
		resetLog := func(s *Store) {
			if s.Mem != nil {
				s.Mem.ResetLog()
				s.Mem.Record(true)
			} else {
				s.Backend.ResetLog()
				s.Backend.Record(true)
			}
		}
		setHook := func(s *Store, h Hook) {
			if s.Mem != nil {
				s.Mem.SetHook(h)
			} else {
				s.Backend.SetHook(h)
			}
		}
		calls := func(s *Store) []Call {
			if s.Mem != nil {
				return s.Mem.Log()
			}
			return s.Backend.Log()
		}
		resetLog(base)
		if err := base.Main.Generate(sl); err != nil {
			t.Fatal(err)
		}
		n := len(calls(base))
		if n < 4 {
			t.Fatalf("%s: a rotation made only %d seam calls", cfg.Name(), n)
		}
		base.Close()
		for k := 0; k < n; k++ {
			for _, f := range []Fault{{Action: Fail}, {Action: CrashBefore}, {Action: CrashAfter}, {Action: Torn, TornLen: 3}} {
				s, err := Open(cfg, "faults")
				if err != nil {
					t.Fatal(err)
				}
				if err := s.Main.Generate(sl); err != nil {
					t.Fatal(err)
				}
				resetLog(s)
				setHook(s, FailAt(k, f))
				var opErr error
				crash := Crashable(func() { opErr = s.Main.Generate(sl) })
				setHook(s, nil)
				log := calls(s)
				if len(log) <= k || log[k].Fault != f.Action.String() {
					t.Fatalf("%s call %d %v: fault not visible in the log (%d calls)", cfg.Name(), k, f.Action, len(log))
				}
				if f.Action == Fail && crash != nil {
					t.Fatalf("%s call %d: Fail must not crash", cfg.Name(), k)
				}
				if f.Action != Fail && crash == nil {
					t.Fatalf("%s call %d %v: expected a crash (err=%v)", cfg.Name(), k, f.Action, opErr)
				}
				if err := s.Reopen(); err != nil {
					t.Fatalf("%s call %d %v: reopen: %v", cfg.Name(), k, f.Action, err)
				}
				p := s.Inspect(sl)
				if len(p.Secrets) < 1 || len(p.Secrets) > 2 {
					t.Fatalf("%s call %d %v (%s%v): %d keys survive", cfg.Name(), k, f.Action, log[k].Op, log[k].Paths, len(p.Secrets))
				}
				s.Close()
			}
		}
	}
}
