package kslab

import (
	"sort"
	"sync"

	"github.com/cossacklabs/acra/keystore/v2/keystore/filesystem/backend"
	"github.com/cossacklabs/acra/keystore/v2/keystore/filesystem/backend/api"
)

// RecBackend wraps a v2 key store back end (api.Backend: the real in-memory back end, the
// real directory back end, ...) with the same capabilities as MemFS: call log (Get, Put,
// ListAll, Rename, RenameNX, Lock, Unlock, RLock, RUnlock, Close with path arguments and the
// Put payload), fault hook (Fail / CrashBefore / CrashAfter / Torn for Put) and, for the
// in-memory back end, snapshots.
//
// After a crash fault the lock methods and Close still pass through to the inner back end
// (the deferred Unlock of the interrupted operation has to release the real lock, as the
// operating system would on process death) while data calls return ErrCrashed.
type RecBackend struct {
	seam
	Inner api.Backend

	lockMu sync.Mutex
	wHeld  bool
	rHeld  int
}

var _ api.Backend = (*RecBackend)(nil)

// NewRecBackend wraps inner.
func NewRecBackend(inner api.Backend) *RecBackend { return &RecBackend{Inner: inner} }

// NewRecInMemory wraps a fresh real in-memory back end.
func NewRecInMemory() *RecBackend { return NewRecBackend(backend.NewInMemory()) }

func (b *RecBackend) Get(path string) (data []byte, err error) {
	e := b.run(Call{Op: "Get", Paths: []string{path}}, func() error { data, err = b.Inner.Get(path); return err }, nil)
	if e != nil {
		return nil, e
	}
	// the in-memory back end hands out its own slice: protect the stored bytes from callers
	return append([]byte(nil), data...), nil
}

func (b *RecBackend) Put(path string, data []byte) error {
	return b.run(Call{Op: "Put", Paths: []string{path}, Data: append([]byte(nil), data...)},
		func() error { return b.Inner.Put(path, append([]byte(nil), data...)) },
		func(n int) error { return b.Inner.Put(path, append([]byte(nil), data[:n]...)) })
}

func (b *RecBackend) ListAll() (paths []string, err error) {
	e := b.run(Call{Op: "ListAll"}, func() error { paths, err = b.Inner.ListAll(); return err }, nil)
	if e != nil {
		return nil, e
	}
	return paths, nil
}

func (b *RecBackend) Rename(oldpath, newpath string) error {
	return b.run(Call{Op: "Rename", Paths: []string{oldpath, newpath}}, func() error { return b.Inner.Rename(oldpath, newpath) }, nil)
}

func (b *RecBackend) RenameNX(oldpath, newpath string) error {
	return b.run(Call{Op: "RenameNX", Paths: []string{oldpath, newpath}}, func() error { return b.Inner.RenameNX(oldpath, newpath) }, nil)
}

// lockCall logs a lock-type call; hooks see it and may Fail it, crash faults on lock calls
// are applied as for data calls, but a dead seam lets lock calls through. The wrapper keeps
// track of the inner lock it holds so that Revive can release what a crashed operation left
// locked (as process death would).
func (b *RecBackend) lockCall(op string, do func() error) error {
	tracked := func() error {
		err := do()
		if err == nil {
			b.lockMu.Lock()
			switch op {
			case "Lock":
				b.wHeld = true
			case "Unlock":
				b.wHeld = false
			case "RLock":
				b.rHeld++
			case "RUnlock":
				b.rHeld--
			case "Close":
				b.wHeld, b.rHeld = false, 0
			}
			b.lockMu.Unlock()
		}
		return err
	}
	b.mu.Lock()
	dead := b.crashed
	b.mu.Unlock()
	if dead {
		return tracked()
	}
	return b.run(Call{Op: op}, tracked, nil)
}

func (b *RecBackend) Lock() error { return b.lockCall("Lock", func() error { return b.Inner.Lock() }) }
func (b *RecBackend) Unlock() error {
	return b.lockCall("Unlock", func() error { return b.Inner.Unlock() })
}
func (b *RecBackend) RLock() error {
	return b.lockCall("RLock", func() error { return b.Inner.RLock() })
}
func (b *RecBackend) RUnlock() error {
	return b.lockCall("RUnlock", func() error { return b.Inner.RUnlock() })
}
func (b *RecBackend) Close() error {
	return b.lockCall("Close", func() error { return b.Inner.Close() })
}

// Revive makes the seam usable again after a crash and releases the inner locks the
// interrupted operation still held.
func (b *RecBackend) Revive() {
	b.lockMu.Lock()
	w, r := b.wHeld, b.rHeld
	b.wHeld, b.rHeld = false, 0
	b.lockMu.Unlock()
	if b.Inner != nil {
		if w {
			b.Inner.Unlock()
		}
		for ; r > 0; r-- {
			b.Inner.RUnlock()
		}
	}
	b.seam.Revive()
}

// BackendSnap is the full content of a back end (path -> bytes).
type BackendSnap map[string][]byte

// SnapshotBackend reads everything stored in b (through ListAll/Get of the given back end;
// pass RecBackend.Inner to stay out of the log).
func SnapshotBackend(b api.Backend) (BackendSnap, error) {
	paths, err := b.ListAll()
	if err != nil {
		return nil, err
	}
	snap := BackendSnap{}
	for _, p := range paths {
		d, err := b.Get(p)
		if err != nil {
			return nil, err
		}
		snap[p] = append([]byte(nil), d...)
	}
	return snap, nil
}

// NewInMemoryFrom builds a fresh real in-memory back end holding snap.
func NewInMemoryFrom(snap BackendSnap) *backend.InMemory {
	m := backend.NewInMemory()
	paths := make([]string, 0, len(snap))
	for p := range snap {
		paths = append(paths, p)
	}
	sort.Strings(paths)
	for _, p := range paths {
		m.Put(p, append([]byte(nil), snap[p]...))
	}
	return m
}

// Snapshot returns the content of the wrapped back end (not logged).
func (b *RecBackend) Snapshot() (BackendSnap, error) { return SnapshotBackend(b.Inner) }

// RestoreInMemory replaces the wrapped back end by a fresh in-memory one holding snap and
// revives the seam.
func (b *RecBackend) RestoreInMemory(snap BackendSnap) {
	b.mu.Lock()
	b.Inner = NewInMemoryFrom(snap)
	b.crashed = false
	b.mu.Unlock()
}
