package main

// Rows through ONE subscriber chain. The proxies build the chain [hmac] detector [hmac] once per
// session and push every column of every row through it; the PostgreSQL proxy keeps the per-column
// results until the row is complete (PgProxy.handleDataRow sets ColumnData for every column and
// assembles the packet afterwards). The single-value part above uses a fresh chain per value; this
// part enumerates every row history of up to 3 (thorough: 4) column values over a menu of intact,
// damaged and unprotected values on one shared chain, keeps every result until the end of the
// history, and compares it then with what a fresh chain returns for that value alone (which the
// single-value part judges): a result must depend neither on the values seen before nor be changed
// by the values processed after it.

import (
	"bytes"
	"fmt"

	"verif/envl"
	"verif/ev"
	"verif/fx"
)

type rowItem struct {
	Name string
	Data []byte
}

type rowReplay struct {
	Part  string   `json:"part"`
	Chain string   `json:"chain"`
	Names []string `json:"values"`
}

func rowMenu(l *envl.Lab) []rowItem {
	var menu []rowItem
	long, short := plaintext(40, 0), plaintext(3, 1)
	for _, f := range []envl.Form{envl.BlockSearch, envl.StructSearch, envl.BlockCont} {
		p := envl.ProducerFor(f)
		a, b := l.Protect(p, fx.Alpha, long), l.Protect(p, fx.Alpha, short)
		if a.Err != nil || b.Err != nil {
			ev.Fatalf("cannot produce %s: %v %v", f, a.Err, b.Err)
		}
		menu = append(menu, rowItem{string(f) + ":long", a.Out}, rowItem{string(f) + ":short", b.Out})
		if f.IsSearchable() {
			// the long value with the hash of the short one; the long value with a damaged envelope
			swapped := append(append([]byte{}, b.Out[:33]...), a.Out[33:]...)
			flipped := append([]byte{}, a.Out...)
			flipped[len(flipped)-1] ^= 0x01
			menu = append(menu, rowItem{string(f) + ":long-hashswap", swapped}, rowItem{string(f) + ":long-envelope-bitflip", flipped})
		} else {
			flipped := append([]byte{}, a.Out...)
			flipped[len(flipped)-1] ^= 0x01
			menu = append(menu, rowItem{string(f) + ":long-bitflip", flipped})
		}
	}
	menu = append(menu, rowItem{"plain:long", bytes.Repeat([]byte("unprotected "), 12)}, rowItem{"plain:short", []byte("pq")})
	return menu
}

type chainSpec struct {
	name            string
	old, searchable bool
}

var rowChains = []chainSpec{{"Column[hmac,EnvelopeDetector,hmac]", false, true}, {"Column[hmac,OldContainerDetectorWrapper,hmac]", true, true}, {"Column[EnvelopeDetector]", false, false}}

func rowPart(r *ev.Run, l *envl.Lab) {
	menu := rowMenu(l)
	byName := map[string]rowItem{}
	for _, m := range menu {
		byName[m.Name] = m
	}
	one := func(cs chainSpec, names []string) {
		obs := l.ColumnChain(cs.old, cs.searchable)
		ctx := fx.Ctx(fx.Alpha)
		type kept struct {
			in, out []byte
			err     error
		}
		var held []kept
		rp := rowReplay{Part: "rows", Chain: cs.name, Names: names}
		func() {
			defer func() {
				if p := recover(); p != nil {
					r.Violation("C03/rows/"+cs.name+"/panic", fmt.Sprintf("chain panicked on column %d of row %v: %v", len(held), names, p), rp)
				}
			}()
			for i, n := range names {
				in := append([]byte{}, byName[n].Data...)
				_, out, err := obs.OnColumnDecryption(ctx, i, in)
				held = append(held, kept{in, out, err})
				r.Transitions(1)
			}
		}()
		r.Eval(1)
		r.Traces(1)
		class := "same-as-alone"
		for i, h := range held {
			fresh := l.ColumnChain(cs.old, cs.searchable)
			_, want, werr := fresh.OnColumnDecryption(fx.Ctx(fx.Alpha), 0, append([]byte{}, byName[names[i]].Data...))
			if (h.err == nil) != (werr == nil) || !bytes.Equal(h.out, want) {
				class = "differs"
				when := "was different from the start or was changed by the columns processed after it"
				r.Violation(fmt.Sprintf("C03/rows/%s/result-depends-on-neighbours/%s", cs.name, kindOf(names[i])),
					fmt.Sprintf("column %d (%s) of the row %v: at the end of the row the result held for it is %x (err %v), alone the same value gives %x (err %v): it %s", i, names[i], names, trunc(h.out), h.err, trunc(want), werr, when), rp)
				break
			}
		}
		r.Distinct(fmt.Sprintf("rows|%s|%v|%s", cs.name, kinds(names), class))
	}
	if r.Replay != "" {
		var rp rowReplay
		r.LoadReplay(&rp)
		for _, cs := range rowChains {
			if cs.name == rp.Chain {
				one(cs, rp.Names)
			}
		}
		return
	}
	depth := 3
	if r.Thorough() {
		depth = 4
	}
	n := 0
	for _, cs := range rowChains {
		var rec func(cur []string)
		rec = func(cur []string) {
			if r.Expired() {
				return
			}
			if len(cur) >= 2 {
				one(cs, append([]string{}, cur...))
				n++
			}
			if len(cur) == depth {
				return
			}
			for _, m := range menu {
				rec(append(cur, m.Name))
			}
		}
		rec(nil)
	}
	r.States(n)
	r.Set("row_histories", n)
	r.Set("row_menu", len(menu))
}

func kindOf(name string) string {
	for i := 0; i < len(name); i++ {
		if name[i] == ':' {
			return name[i+1:]
		}
	}
	return name
}

func kinds(names []string) []string {
	out := make([]string, len(names))
	for i, n := range names {
		out[i] = kindOf(n)
	}
	return out
}
