package envl

import (
	"encoding/binary"
	"fmt"
	"sort"
)

// Field is a byte range of a stored value with a name (layout written from the documented
// formats; shim Seal/SecureMessage layouts are those of Themis).
type Field struct {
	Name     string
	Off, Len int
	Numeric  bool // little-endian integer field (length / type / id)
}

const hashLen = 33

func sealFields(prefix string, off int) []Field {
	return []Field{
		{prefix + ".seal.alg", off, 4, true},
		{prefix + ".seal.ivlen", off + 4, 4, true},
		{prefix + ".seal.taglen", off + 8, 4, true},
		{prefix + ".seal.msglen", off + 12, 4, true},
		{prefix + ".seal.iv", off + 16, 12, false},
		{prefix + ".seal.tag", off + 28, 16, false},
	}
}

func structFields(off int) []Field {
	f := []Field{
		{"struct.tag", off, 8, false},
		{"struct.pubkey.tag", off + 8, 4, false},
		{"struct.pubkey.len", off + 12, 4, true},
		{"struct.pubkey.crc", off + 16, 4, true},
		{"struct.pubkey.body", off + 20, 33, false},
		{"struct.wrapped.magic", off + 53, 4, true},
		{"struct.wrapped.len", off + 57, 4, true},
	}
	f = append(f, sealFields("struct.wrapped", off+61)...)
	f = append(f, Field{"struct.wrapped.ct", off + 105, 32, false})
	f = append(f, Field{"struct.datalen", off + 137, 8, true})
	f = append(f, sealFields("struct.data", off+145)...)
	return f
}

func blockFields(off int) []Field {
	f := []Field{
		{"block.tag", off, 4, false},
		{"block.restlen", off + 4, 8, true},
		{"block.kektype", off + 12, 1, true},
		{"block.keyid", off + 13, 2, true},
		{"block.dektype", off + 15, 1, true},
		{"block.keylen", off + 16, 2, true},
	}
	f = append(f, sealFields("block.key", off+18)...)
	f = append(f, Field{"block.key.ct", off + 18 + 44, 32, false})
	f = append(f, sealFields("block.data", off+18+76)...)
	return f
}

// Fields returns the field map of a stored value of the given form.
func Fields(f Form, v []byte) []Field {
	off := 0
	var out []Field
	if f.IsSearchable() {
		out = append(out, Field{"hash.alg", 0, 1, true}, Field{"hash.mac", 1, 32, false})
		off += hashLen
	}
	if !f.IsRaw() {
		out = append(out, Field{"container.tag", off, 3, false}, Field{"container.len", off + 3, 8, true}, Field{"container.envid", off + 11, 1, true})
		off += 12
	}
	if f.IsStruct() {
		out = append(out, structFields(off)...)
	} else {
		out = append(out, blockFields(off)...)
	}
	var ok []Field
	for _, x := range out {
		if x.Off+x.Len <= len(v) {
			ok = append(ok, x)
		}
	}
	return ok
}

// Boundary values tried in every numeric field (width permitting), plus field±1 and the
// value-length-relative ones that are added per call.
var boundary = []uint64{0, 1, 2, 0x7F, 0x80, 0xFF, 0x100, 0xFFFF, 0x10000, 1<<31 - 1, 1 << 31, 1<<32 - 1, 1 << 32,
	1<<63 - 1, 1 << 63, 1<<64 - 1, 1<<64 - 4, 1<<64 - 5, 1<<64 - 12, 1<<64 - 13}

func getLE(b []byte) uint64 {
	var v uint64
	for i := len(b) - 1; i >= 0; i-- {
		v = v<<8 | uint64(b[i])
	}
	return v
}

func putLE(b []byte, v uint64) {
	for i := range b {
		b[i] = byte(v)
		v >>= 8
	}
}

// Alt is one altered value.
type Alt struct {
	Kind string // bitflip, truncate, append, field, splice, hashswap
	Desc string // e.g. field name=value, bit index
	Key  string // coarse description used in finding keys (no values)
	Data []byte
}

func clone(b []byte) []byte { return append([]byte(nil), b...) }

// BitFlips returns every single-bit flip of v.
func BitFlips(v []byte) []Alt {
	out := make([]Alt, 0, len(v)*8)
	for i := range v {
		for bit := 0; bit < 8; bit++ {
			d := clone(v)
			d[i] ^= 1 << bit
			out = append(out, Alt{"bitflip", fmt.Sprintf("byte %d bit %d", i, bit), "bitflip", d})
		}
	}
	return out
}

// Truncations returns every strict prefix of v.
func Truncations(v []byte) []Alt {
	out := make([]Alt, 0, len(v))
	for n := 0; n < len(v); n++ {
		out = append(out, Alt{"truncate", fmt.Sprintf("to %d of %d", n, len(v)), "truncate", clone(v[:n])})
	}
	return out
}

// Appends returns v extended by each suffix.
func Appends(v []byte, other []byte) []Alt {
	suffixes := map[string][]byte{
		"zero":  {0},
		"quote": {'"'},
		"pct":   {'%'},
		"aa16":  {0xAA, 0xAA, 0xAA, 0xAA, 0xAA, 0xAA, 0xAA, 0xAA, 0xAA, 0xAA, 0xAA, 0xAA, 0xAA, 0xAA, 0xAA, 0xAA},
		"tag8":  {'"', '"', '"', '"', '"', '"', '"', '"'},
		"ctag3": {'%', '%', '%'},
		"other": other,
	}
	var out []Alt
	for _, name := range []string{"zero", "quote", "pct", "aa16", "tag8", "ctag3", "other"} {
		out = append(out, Alt{"append", name, "append:" + name, append(clone(v), suffixes[name]...)})
	}
	return out
}

func fieldValues(f Field, cur uint64, total int) []uint64 {
	vals := append([]uint64{}, boundary...)
	vals = append(vals, cur-1, cur+1, cur-2, cur+2, cur*2, uint64(total), uint64(total)-1, uint64(total)+1, uint64(total-f.Off), uint64(total-f.Off-f.Len))
	var mask uint64 = 1<<64 - 1
	if f.Len < 8 {
		mask = 1<<(8*uint(f.Len)) - 1
	}
	seen := map[uint64]bool{cur & mask: true}
	var out []uint64
	for _, v := range vals {
		v &= mask
		if !seen[v] {
			seen[v] = true
			out = append(out, v)
		}
	}
	return out
}

// FieldEdits sets every numeric field to every boundary value, and replaces every opaque field
// by zeros / 0xFF.
func FieldEdits(f Form, v []byte) []Alt {
	var out []Alt
	for _, fld := range Fields(f, v) {
		if fld.Numeric {
			cur := getLE(v[fld.Off : fld.Off+fld.Len])
			for _, nv := range fieldValues(fld, cur, len(v)) {
				d := clone(v)
				putLE(d[fld.Off:fld.Off+fld.Len], nv)
				out = append(out, Alt{"field", fmt.Sprintf("%s=%#x", fld.Name, nv), "field:" + fld.Name, d})
			}
		} else {
			for _, fill := range []byte{0x00, 0xFF} {
				d := clone(v)
				for i := 0; i < fld.Len; i++ {
					d[fld.Off+i] = fill
				}
				out = append(out, Alt{"field", fmt.Sprintf("%s filled %#x", fld.Name, fill), "field:" + fld.Name, d})
			}
		}
	}
	return out
}

// FieldEditPairs: two numeric fields edited at once (thorough).
func FieldEditPairs(f Form, v []byte) []Alt {
	var nums []Field
	for _, fld := range Fields(f, v) {
		if fld.Numeric {
			nums = append(nums, fld)
		}
	}
	small := []uint64{0, 1, 0xFF, 0xFFFF, 1<<32 - 1, 1<<64 - 1, 1<<64 - 4}
	var out []Alt
	for i, a := range nums {
		for _, b := range nums[i+1:] {
			for _, va := range small {
				for _, vb := range small {
					d := clone(v)
					putLE(d[a.Off:a.Off+a.Len], va)
					putLE(d[b.Off:b.Off+b.Len], vb)
					out = append(out, Alt{"field2", fmt.Sprintf("%s=%#x,%s=%#x", a.Name, va, b.Name, vb), "field2:" + a.Name + "+" + b.Name, d})
				}
			}
		}
	}
	return out
}

// Splices returns head(v1)[:i] || tail(v2)[j:] for all field boundaries i of v1 and j of v2.
func Splices(f Form, v1, v2 []byte) []Alt {
	bounds := func(v []byte) []int {
		m := map[int]bool{}
		for _, fld := range Fields(f, v) {
			m[fld.Off] = true
			m[fld.Off+fld.Len] = true
		}
		var out []int
		for k := range m {
			out = append(out, k)
		}
		sort.Ints(out)
		return out
	}
	var out []Alt
	for _, i := range bounds(v1) {
		for _, j := range bounds(v2) {
			d := append(clone(v1[:i]), v2[j:]...)
			out = append(out, Alt{"splice", fmt.Sprintf("v1[:%d]+v2[%d:]", i, j), "splice", d})
		}
	}
	return out
}

var _ = binary.LittleEndian
