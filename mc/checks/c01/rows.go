package main

// rows.go (part S): the transparent column processor serves a whole session with ONE subscriber
// chain; parts A and B reveal every value through a fresh chain. Here every sequence of up to 3
// (thorough 4) values over a menu - the owner's values of every stored form, values of another
// client, values whose search hash does not verify, unprotected bytes - goes through one shared
// chain, and every value of the owner must come back as its original plaintext, whatever was
// processed before it in the session. Also: input that already is a protected value of the owner
// (made by the application itself) written through the searchable transparent encryptor comes back
// as the original when the owner reads it.

import (
	"bytes"
	"fmt"

	"github.com/cossacklabs/acra/hmac"

	"verif/envl"
	"verif/ev"
	"verif/fx"
)

type rowVal struct {
	Name string
	Data []byte
	Want []byte // nil: not the owner's intact value (nothing demanded of it here)
	// OldOnly: a bare (not serialized) envelope, which only the chain with the old-container
	// detector looks for
	OldOnly bool
}

type rowsReplay struct {
	Part  string   `json:"part"` // "S"
	Chain string   `json:"chain"`
	Names []string `json:"values"`
}

func rowsMenu(l *envl.Lab) []rowVal {
	ptA, ptB := []byte("the owner's first value, 40 bytes long.."), []byte("xyz")
	var m []rowVal
	for _, f := range []envl.Form{envl.BlockSearch, envl.StructSearch, envl.BlockCont, envl.StructCont} {
		p := envl.ProducerFor(f)
		a, b, o := l.Protect(p, fx.Alpha, ptA), l.Protect(p, fx.Alpha, ptB), l.Protect(p, fx.Bravo, ptA)
		if a.Err != nil || b.Err != nil || o.Err != nil {
			ev.Fatalf("part S: cannot produce %s: %v %v %v", f, a.Err, b.Err, o.Err)
		}
		m = append(m, rowVal{string(f) + ":own-long", a.Out, ptA, false}, rowVal{string(f) + ":own-short", b.Out, ptB, false}, rowVal{string(f) + ":other-client", o.Out, nil, false})
		if f.IsSearchable() {
			n := hmac.GetDefaultHashSize()
			m = append(m, rowVal{string(f) + ":own-long-with-hash-of-short", append(append([]byte{}, b.Out[:n]...), a.Out[n:]...), nil, false})
		}
	}
	// values the application protected itself (for its own identity) and wrote through the searchable
	// transparent encryptor: passed through, indexed by their plaintext, revealed to the owner
	for _, p := range envl.AllProducers() {
		if p.Name != "SearchableDataEncryptor(struct)" && p.Name != "SearchableDataEncryptor(block)" {
			continue
		}
		for _, g := range []envl.Form{envl.StructRaw, envl.StructCont, envl.BlockRaw, envl.BlockCont} {
			inner := l.Protect(envl.ProducerFor(g), fx.Alpha, ptA)
			if inner.Err != nil {
				ev.Fatalf("part S: cannot produce %s: %v", g, inner.Err)
			}
			outer := l.Protect(p, fx.Alpha, inner.Out)
			if outer.Err != nil || outer.Panic != "" {
				ev.Fatalf("part S: %s on an own %s value: %v %s", p.Name, g, outer.Err, outer.Panic)
			}
			m = append(m, rowVal{string(p.Form) + ":app-protected-" + string(g), outer.Out, ptA, g.IsRaw()})
		}
	}
	m = append(m, rowVal{"plain", []byte("not protected at all"), nil, false})
	return m
}

var rowsChains = []struct {
	name            string
	old, searchable bool
}{{"Column[hmac,EnvelopeDetector,hmac]", false, true}, {"Column[hmac,OldContainerDetectorWrapper,hmac]", true, true}}

func rowsPart(r *ev.Run, l *envl.Lab) {
	menu := rowsMenu(l)
	byName := map[string]rowVal{}
	for _, v := range menu {
		byName[v.Name] = v
	}
	one := func(chain int, names []string) {
		cs := rowsChains[chain]
		obs := l.ColumnChain(cs.old, cs.searchable)
		ctx := fx.Ctx(fx.Alpha)
		rp := rowsReplay{Part: "S", Chain: cs.name, Names: names}
		outs := make([][]byte, 0, len(names))
		func() {
			defer func() {
				if p := recover(); p != nil {
					r.Violation("C01/S/"+cs.name+"/panic", fmt.Sprintf("chain panicked on value %d of %v: %v", len(outs), names, p), rp)
				}
			}()
			for i, n := range names {
				_, out, err := obs.OnColumnDecryption(ctx, i, append([]byte{}, byName[n].Data...))
				if err != nil {
					out = nil
				}
				outs = append(outs, out)
				r.Transitions(1)
			}
		}()
		r.Eval(1)
		r.Traces(1)
		class := "revealed"
		for i, out := range outs {
			want := byName[names[i]].Want
			if byName[names[i]].OldOnly && !cs.old {
				continue
			}
			if want != nil && !bytes.Equal(out, want) {
				class = "not-revealed"
				r.Violation(fmt.Sprintf("C01/S/%s/own-value-not-revealed-after-other-values/%s", cs.name, kindOfRow(names[i])),
					fmt.Sprintf("value %d (%s) of the session %v: the owner gets %.40x instead of the original %.40q", i, names[i], names, out, want), rp)
				break
			}
		}
		r.Distinct(fmt.Sprintf("S|%s|%v|%s", cs.name, names[len(names)-1], class))
	}
	if r.Replay != "" {
		var rp rowsReplay
		r.LoadReplay(&rp)
		for ci, cs := range rowsChains {
			if cs.name == rp.Chain {
				one(ci, rp.Names)
			}
		}
		return
	}
	depth := 3
	if r.Thorough() {
		depth = 4
	}
	n := 0
	for ci := range rowsChains {
		var rec func(cur []string)
		rec = func(cur []string) {
			if r.Expired() {
				return
			}
			if len(cur) >= 1 {
				one(ci, append([]string{}, cur...))
				n++
			}
			if len(cur) == depth {
				return
			}
			for _, v := range menu {
				rec(append(cur, v.Name))
			}
		}
		rec(nil)
	}
	r.States(n)
	r.Set("part_S_sessions", n)
	r.Set("part_S_menu", len(menu))
}

func kindOfRow(name string) string {
	for i := len(name) - 1; i >= 0; i-- {
		if name[i] == ':' {
			return name[i+1:]
		}
	}
	return name
}
