package main

// phaseConcurrent (engine E1): the translator serves all requests through ONE TranslatorService.
// Two or three requests of different identities overlap: a request of B that carries a value
// protected for A runs at the same time as A's own request for the same value (and a request of
// B for B's own value). Scheduling points: every lookup in the request's context.Context (the
// harness hands each request its own context whose Value() yields to the scheduler - logger,
// access context, trace lookups all pass through it) and every key store read. The stateless
// DFS of /verif/mc/sched explores every interleaving with at most B preemptions (B = 0,1,2 quick;
// 3 thorough).
// Oracle on every execution: every request returns exactly what it returns when it runs alone -
// the owner its plaintext, the other identity an error and never the owner's plaintext.

import (
	"bytes"
	"context"
	"crypto/rand"
	"fmt"
	"os"
	"time"

	"github.com/cossacklabs/acra/cmd/acra-translator/common"
	acracrypto "github.com/cossacklabs/acra/crypto"
	"github.com/cossacklabs/acra/keystore"
	"github.com/cossacklabs/acra/pseudonymization"
	tokenCommon "github.com/cossacklabs/acra/pseudonymization/common"
	tokenStorage "github.com/cossacklabs/acra/pseudonymization/storage"
	"github.com/cossacklabs/themis/gothemis/keys"

	"verif/detrand"
	"verif/ev"
	"verif/fx"
	"verif/sched"
)

func ccPoint(op string) {
	if s := sched.Active(); s != nil && s.CurrentThread() >= 0 {
		s.Point(op)
	}
}

// pointCtx is the context of one request: every lookup is a scheduling point.
type pointCtx struct{ name string }

func (pointCtx) Deadline() (time.Time, bool) { return time.Time{}, false }
func (pointCtx) Done() <-chan struct{}       { return nil }
func (pointCtx) Err() error                  { return nil }
func (c pointCtx) Value(key interface{}) interface{} {
	ccPoint("ctx.Value")
	return nil
}

// pointKS yields before the key reads the reveal paths use.
type pointKS struct{ keystore.ServerKeyStore }

func (k pointKS) GetClientIDSymmetricKeys(id []byte) ([][]byte, error) {
	ccPoint("ks.sym-keys")
	return k.ServerKeyStore.GetClientIDSymmetricKeys(id)
}
func (k pointKS) GetClientIDSymmetricKey(id []byte) ([]byte, error) {
	ccPoint("ks.sym-key")
	return k.ServerKeyStore.GetClientIDSymmetricKey(id)
}
func (k pointKS) GetServerDecryptionPrivateKeys(id []byte) ([]*keys.PrivateKey, error) {
	ccPoint("ks.private-keys")
	return k.ServerKeyStore.GetServerDecryptionPrivateKeys(id)
}
func (k pointKS) GetServerDecryptionPrivateKey(id []byte) (*keys.PrivateKey, error) {
	ccPoint("ks.private-key")
	return k.ServerKeyStore.GetServerDecryptionPrivateKey(id)
}
func (k pointKS) GetHMACSecretKey(id []byte) ([]byte, error) {
	ccPoint("ks.hmac-key")
	return k.ServerKeyStore.GetHMACSecretKey(id)
}

type ccReq struct {
	Kind  string `json:"kind"`     // sym | struct | sym-search | struct-search | detok
	As    int    `json:"identity"` // index into ccIDs
	Owner int    `json:"owner"`    // whose value the request carries
}

type ccScenario struct {
	Name    string
	Threads []ccReq
}

var ccIDs = [][]byte{fx.Alpha, fx.Bravo}

func ccScenarios(thorough bool) []ccScenario {
	var out []ccScenario
	for _, k := range []string{"sym", "struct", "sym-search", "struct-search", "detok"} {
		// the intruder (alpha with bravo's value) against the owner's own request
		out = append(out, ccScenario{"T2-" + k + "-intruder-vs-owner", []ccReq{{k, 0, 1}, {k, 1, 1}}})
		// the intruder against a request of the owner for something else, plus its own traffic
		out = append(out, ccScenario{"T3-" + k + "-intruder-owner-own", []ccReq{{k, 0, 1}, {k, 1, 1}, {k, 0, 0}}})
	}
	if thorough {
		for _, k := range []string{"sym", "struct"} {
			out = append(out, ccScenario{"T3-" + k + "-two-intruders", []ccReq{{k, 0, 1}, {k, 1, 0}, {k, 1, 1}}})
		}
		out = append(out, ccScenario{"T2-mixed-sym-intruder-vs-struct-owner", []ccReq{{"sym", 0, 1}, {"struct", 1, 1}}})
		out = append(out, ccScenario{"T2-mixed-detok-intruder-vs-sym-owner", []ccReq{{"detok", 0, 1}, {"sym", 1, 1}}})
	}
	return out
}

type ccWorld struct {
	svc    *common.TranslatorService
	plain  [2][]byte
	block  [2][]byte
	strct  [2][]byte
	sblock [2]common.SearchableResponse
	sstrct [2]common.SearchableResponse
	token  [2]string
}

func newCCWorld(dir string) *ccWorld {
	ks := fx.NewKeyStoreV1(dir, -1)
	fx.GenClientKeys(ks, fx.Alpha)
	fx.GenClientKeys(ks, fx.Bravo)
	mem, err := tokenStorage.NewMemoryTokenStorage()
	if err != nil {
		ev.Fatalf("token storage: %v", err)
	}
	enc, err := tokenStorage.NewSCellEncryptor(ks)
	if err != nil {
		ev.Fatalf("token encryptor: %v", err)
	}
	tok, err := pseudonymization.NewPseudoanonymizer(tokenStorage.WrapStorageWithEncryption(mem, enc))
	if err != nil {
		ev.Fatalf("tokenizer: %v", err)
	}
	svc, err := common.NewTranslatorService(&common.TranslatorData{Keystorage: pointKS{ks}, Tokenizer: tok})
	if err != nil {
		ev.Fatalf("translator service: %v", err)
	}
	w := &ccWorld{svc: svc}
	ctx := context.Background()
	for i, id := range ccIDs {
		w.plain[i] = []byte(fmt.Sprintf("secret that belongs to %s", id))
		if w.block[i], err = svc.EncryptSym(ctx, w.plain[i], id, nil); err != nil {
			ev.Fatalf("EncryptSym: %v", err)
		}
		if w.strct[i], err = svc.Encrypt(ctx, w.plain[i], id, nil); err != nil {
			ev.Fatalf("Encrypt: %v", err)
		}
		if w.sblock[i], err = svc.EncryptSymSearchable(ctx, w.plain[i], id, nil); err != nil {
			ev.Fatalf("EncryptSymSearchable: %v", err)
		}
		if w.sstrct[i], err = svc.EncryptSearchable(ctx, w.plain[i], id, nil); err != nil {
			ev.Fatalf("EncryptSearchable: %v", err)
		}
		t, err := svc.Tokenize(ctx, string(w.plain[i]), tokenCommon.TokenType_String, id, nil)
		if err != nil {
			ev.Fatalf("Tokenize: %v", err)
		}
		w.token[i] = t.(string)
	}
	return w
}

type ccResult struct {
	out []byte
	err error
}

func (w *ccWorld) do(ctx context.Context, q ccReq) ccResult {
	id := ccIDs[q.As]
	switch q.Kind {
	case "sym":
		o, err := w.svc.DecryptSym(ctx, append([]byte{}, w.block[q.Owner]...), id, nil)
		return ccResult{o, err}
	case "struct":
		o, err := w.svc.Decrypt(ctx, append([]byte{}, w.strct[q.Owner]...), id, nil)
		return ccResult{o, err}
	case "sym-search":
		s := w.sblock[q.Owner]
		o, err := w.svc.DecryptSymSearchable(ctx, append([]byte{}, s.EncryptedData...), append([]byte{}, s.Hash...), id, nil)
		return ccResult{o, err}
	case "struct-search":
		s := w.sstrct[q.Owner]
		o, err := w.svc.DecryptSearchable(ctx, append([]byte{}, s.EncryptedData...), append([]byte{}, s.Hash...), id, nil)
		return ccResult{o, err}
	case "detok":
		o, err := w.svc.Detokenize(ctx, w.token[q.Owner], tokenCommon.TokenType_String, id, nil)
		s, _ := o.(string)
		return ccResult{[]byte(s), err}
	}
	panic(q.Kind)
}

func (sc ccScenario) build(w *ccWorld) sched.Scenario {
	return func(s *sched.Scheduler) func(x *sched.Execution) []string {
		results := make([]ccResult, len(sc.Threads))
		for ti, q := range sc.Threads {
			ti, q := ti, q
			s.Go(fmt.Sprintf("R%d", ti+1), func() {
				results[ti] = w.do(pointCtx{fmt.Sprintf("R%d", ti+1)}, q)
			})
		}
		return func(x *sched.Execution) []string {
			var fails []string
			for ti, q := range sc.Threads {
				got := results[ti]
				who := fmt.Sprintf("R%d (%s as %s on a value of %s)", ti+1, q.Kind, ccIDs[q.As], ccIDs[q.Owner])
				if q.As == q.Owner {
					if got.err != nil || !bytes.Equal(got.out, w.plain[q.Owner]) {
						fails = append(fails, fmt.Sprintf("%s: the owner did not get its value back while other requests were in flight", who))
					}
					continue
				}
				if bytes.Contains(got.out, w.plain[q.Owner]) {
					fails = append(fails, fmt.Sprintf("%s: received the other identity's plaintext while a request of that identity was in flight", who))
				} else if got.err == nil && q.Kind != "detok" {
					// detokenize of an unknown token answers the token itself without an error (by design)
					fails = append(fails, fmt.Sprintf("%s: reveal under another identity reported success", who))
				}
			}
			return fails
		}
	}
}

type ccReplay struct {
	Scenario string `json:"scenario"`
	Name     string `json:"concurrent_scenario"`
	Bound    int    `json:"preemption_bound"`
	Choices  []int  `json:"choices"`
	Failure  string `json:"failure"`
}

func ccKey(f string) string {
	b := []byte(f)
	for i, c := range b {
		if c == ' ' {
			b[i] = '_'
		}
	}
	if len(b) > 110 {
		b = b[:110]
	}
	return string(b)
}

func phaseConcurrent(r *ev.Run) {
	saved := rand.Reader
	defer func() { rand.Reader = saved }()
	detrand.Install(detrand.New("c02-concurrent"))
	dir := fx.Scratch("c02c")
	defer os.RemoveAll(dir)
	w := newCCWorld(dir)
	maxBound := 2
	if r.Thorough() {
		maxBound = 3
	}
	scs := ccScenarios(r.Thorough())
	if r.Replay != "" {
		var rp ccReplay
		r.LoadReplay(&rp)
		for _, sc := range scs {
			if sc.Name == rp.Name {
				e := &sched.Explorer{Scenario: sc.build(w), Bound: rp.Bound}
				for _, f := range e.Replay(rp.Choices) {
					fmt.Println("replayed:", f)
					r.Violation("C02/concurrent/"+sc.Name+"/"+ccKey(f), f, rp)
				}
			}
		}
		return
	}
	// sequential control: every request alone gives the expected answer (otherwise the phase is vacuous)
	for _, k := range []string{"sym", "struct", "sym-search", "struct-search", "detok"} {
		own := w.do(context.Background(), ccReq{k, 1, 1})
		if own.err != nil || !bytes.Equal(own.out, w.plain[1]) {
			ev.Fatalf("concurrent phase control: owner request %s failed sequentially: %v", k, own.err)
		}
		other := w.do(context.Background(), ccReq{k, 0, 1})
		if bytes.Contains(other.out, w.plain[1]) {
			ev.Fatalf("concurrent phase control: %s reveals under another identity sequentially", k)
		}
	}
	total := 0
	for _, sc := range scs {
		for bound := 0; bound <= maxBound; bound++ {
			if r.Expired() {
				r.Capped(fmt.Sprintf("concurrent %s: preemption bound %d not started", sc.Name, bound))
				break
			}
			e := &sched.Explorer{Scenario: sc.build(w), Bound: bound, Stop: r.Expired,
				Outcome: func(x *sched.Execution) string { return fmt.Sprint(x.Choices) }}
			res := e.Run()
			total += res.Executions
			r.Eval(res.Executions)
			r.Traces(res.Executions)
			r.Transitions(res.Transitions)
			if !res.Complete {
				r.Capped(fmt.Sprintf("concurrent %s: preemption bound %d partial", sc.Name, bound))
			}
			for _, f := range res.Order {
				rp := ccReplay{Scenario: "concurrent", Name: sc.Name, Bound: bound, Choices: res.Failures[f], Failure: f}
				again := e.Replay(res.Failures[f])
				ok := false
				for _, a := range again {
					if a == f {
						ok = true
					}
				}
				if !ok {
					ev.Fatalf("concurrent %s: failure %q did not replay (%v)", sc.Name, f, again)
				}
				r.Violation("C02/concurrent/"+sc.Name+"/"+ccKey(f), fmt.Sprintf("%s (preemption bound %d, schedule %v)", f, bound, res.Failures[f]), rp)
			}
			r.Distinct(fmt.Sprintf("concurrent|%s|%d|%d", sc.Name, bound, len(res.Outcomes)))
			if bound == maxBound {
				r.Sample(map[string]interface{}{"phase": "concurrent", "scenario": sc.Name, "preemption_bound": bound, "executions": res.Executions, "scheduling_points_max": res.MaxPoints})
			}
		}
	}
	r.States(total)
	r.Set("concurrent_executions", total)
	r.Set("concurrent_scenarios", len(scs))
	r.Set("concurrent_preemption_bound", maxBound)
}

func initRegistryForReplay() {
	if err := acracrypto.InitRegistry(nil); err != nil {
		ev.Fatalf("registry: %v", err)
	}
}
