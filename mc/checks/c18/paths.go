package main

// Format paths of C18: how a selection of keys is exported from a source key store, what the
// "bundle" and the "access keys" are, how the bundle is imported into a target key store,
// and an independent decoder that opens a bundle with its access keys (for the oracle only).

import (
	"bytes"
	"context"
	"encoding/gob"
	"errors"
	"fmt"

	"github.com/cossacklabs/acra/cmd/acra-keys/keys"
	"github.com/cossacklabs/acra/keystore"
	"github.com/cossacklabs/acra/keystore/filesystem"
	keystoreV2 "github.com/cossacklabs/acra/keystore/v2/keystore"
	apiV2 "github.com/cossacklabs/acra/keystore/v2/keystore/api"
	asn1V2 "github.com/cossacklabs/acra/keystore/v2/keystore/asn1"
	cryptoV2 "github.com/cossacklabs/acra/keystore/v2/keystore/crypto"
	"github.com/cossacklabs/acra/keystore/v2/keystore/signature"

	"verif/kslab"
)

// Path names.
const (
	PathV1       = "v1-backuper"    // filesystem.KeyBackuper Export -> Import, v1 -> v1
	PathV2Rings  = "v2-rings"       // ExportKeyRings -> ImportKeyRings with a crypto suite, v2 -> v2
	PathV2Backup = "v2-backuper"    // keystore/v2/keystore.KeyBackuper Export -> Import, v2 -> v2
	PathMigrate  = "v1-to-v2"       // cmd/acra-keys/keys.MigrateV1toV2 (ImportKeyFileV1), v1 directory -> v2
	ModePublic   = "public"         // public parts only
	ModePrivate  = "private"        // private / symmetric parts (v2: and the public parts)
	ModeAll      = "all"            // everything the path can carry
	TgtEmpty     = "empty"          // fresh key store
	TgtSame      = "same"           // already holds its own keys in the selected slots (v2: default import delegate)
	TgtSameOver  = "same-overwrite" // v2-rings: delegate answers ImportOverwrite
	TgtSameSkip  = "same-skip"      // v2-rings: delegate answers ImportSkip
	TgtOther     = "other"          // holds keys of another client and of an unselected slot
	Zulu         = "zulu_9"         // client that exists only in "other" targets
	exportKeyCtx = "AKSv2 keystore: exported key rings"
)

// Bundle is what travels: the exported data and, separately, the access keys.
type Bundle struct {
	Data []byte
	// Access is the serialised access key material as the API returns it (v1: the 32-byte
	// key; v2-backuper: JSON of both keys). For v2-rings the caller supplies the two raw
	// keys: Access = enc || sig (32 + 32 bytes).
	Access []byte
	// Rings (v2 paths, filled in by the export oracle): key ring paths the opened bundle holds.
	Rings map[string]bool
}

// carried tells whether the secret / public part of a slot travels on a path in a mode.
func carried(path, mode string, sl kslab.Slot, explicitIDs bool) (secret, public bool) {
	pair := sl.Kind.IsPair()
	switch path {
	case PathCLI:
		return true, pair // KeyBackuper.Export(nil, ExportAllKeys): the whole folder
	case PathV1:
		if !explicitIDs {
			// whole directory: with a single key folder ExportPrivateKeys and ExportAllKeys both
			// read every file of it (public files included, they are simply not decrypted);
			// ExportPublicOnly reads only a SEPARATE public folder: with one folder (the only
			// layout explored here) it is documented-by-code to carry nothing, and no command
			// passes (no ids, ExportPublicOnly). Expected: an empty bundle, target unchanged.
			if mode == ModePublic {
				return false, false
			}
			return true, pair
		}
		switch mode {
		case ModePublic:
			return false, pair
		case ModePrivate:
			return true, false // KeyStoragePrivate / KeyPoisonPrivate carry the private file only
		}
		return true, pair
	case PathV2Rings, PathV2Backup:
		// ExportPrivateKeys: "private and public key data"; otherwise private and symmetric
		// data are stripped and rings without public data are left out.
		return mode == ModePrivate, pair
	case PathMigrate:
		return true, pair
	}
	return false, false
}

// v1 / v2 export ids of a selection; ok=false when the API has no selector for a slot.
func exportIDs(path, mode string, sel []kslab.Slot) (ids []keystore.ExportID, ok bool) {
	for _, sl := range sel {
		id := []byte(sl.Client)
		switch sl.Kind {
		case kslab.StoragePair:
			if mode != ModePrivate {
				ids = append(ids, keystore.ExportID{KeyKind: keystore.KeyStoragePublic, ContextID: id})
			}
			if mode != ModePublic {
				ids = append(ids, keystore.ExportID{KeyKind: keystore.KeyStoragePrivate, ContextID: id})
			}
		case kslab.PoisonPair:
			if mode != ModePrivate {
				ids = append(ids, keystore.ExportID{KeyKind: keystore.KeyPoisonPublic})
			}
			if mode != ModePublic {
				ids = append(ids, keystore.ExportID{KeyKind: keystore.KeyPoisonPrivate})
			}
		case kslab.StorageSym:
			if mode == ModePublic {
				continue // the command line refuses; nothing public to export
			}
			ids = append(ids, keystore.ExportID{KeyKind: keystore.KeySymmetric, ContextID: id})
		case kslab.SearchHMAC:
			if mode == ModePublic {
				continue
			}
			ids = append(ids, keystore.ExportID{KeyKind: keystore.KeySearch, ContextID: id})
		case kslab.PoisonSym:
			if path == PathV1 {
				return nil, false // v1 KeyBackuper has no case for KeyPoisonSymmetric
			}
			if mode == ModePublic {
				continue
			}
			ids = append(ids, keystore.ExportID{KeyKind: keystore.KeyPoisonSymmetric})
		default:
			return nil, false // audit log key: no selector in either KeyBackuper
		}
	}
	return ids, true
}

func scell(key []byte) keystore.KeyEncryptor {
	e, err := keystore.NewSCellKeyEncryptor(append([]byte(nil), key...))
	if err != nil {
		panic(err)
	}
	return e
}

func v1Backuper(s *kslab.Store, mk kslab.MasterKeys, withStore bool) *filesystem.KeyBackuper {
	var ks keystore.ServerKeyStore
	if withStore {
		ks = s.V1
	}
	b, err := filesystem.NewKeyBackuper(s.Dir, "", s.Mem, scell(mk.V1), ks)
	if err != nil {
		panic(err)
	}
	return b
}

func exportMode(mode string) keystore.ExportMode {
	switch mode {
	case ModePublic:
		return keystore.ExportPublicOnly
	case ModePrivate:
		return keystore.ExportPrivateKeys
	}
	return keystore.ExportAllKeys
}

func guard(err *error) {
	if v := recover(); v != nil {
		*err = &kslab.PanicError{Value: fmt.Sprint(v)}
	}
}

// doExport exports sel (nil = everything) from src on a path.
func doExport(path, mode string, src *kslab.Store, srcKeys kslab.MasterKeys, sel []kslab.Slot, all bool) (b Bundle, err error) {
	defer src.Bind()()
	defer guard(&err)
	switch path {
	case PathV1:
		var ids []keystore.ExportID
		if !all {
			ids, _ = exportIDs(path, mode, sel)
			if len(ids) == 0 {
				return b, errors.New("harness: empty id list")
			}
		}
		bk, err := v1Backuper(src, srcKeys, true).Export(ids, exportMode(mode))
		if err != nil {
			return b, err
		}
		return Bundle{Data: bk.Data, Access: bk.Keys}, nil
	case PathV2Rings:
		var paths []string
		if all {
			if paths, err = src.V2.ListKeyRings(); err != nil {
				return b, err
			}
		} else {
			for _, sl := range sel {
				paths = append(paths, kslab.V2RingPath(sl))
			}
		}
		enc, err1 := keystore.GenerateSymmetricKey()
		sig, err2 := keystore.GenerateSymmetricKey()
		if err1 != nil || err2 != nil {
			return b, errors.New("harness: cannot generate access keys")
		}
		suite, err := cryptoV2.NewSCellSuite(append([]byte(nil), enc...), append([]byte(nil), sig...))
		if err != nil {
			return b, err
		}
		data, err := src.V2.ExportKeyRings(paths, suite, exportMode(mode))
		if err != nil {
			return b, err
		}
		return Bundle{Data: data, Access: append(append([]byte(nil), enc...), sig...)}, nil
	case PathV2Backup:
		bk, err := keystoreV2.NewKeyBackuper("", "", src.V2)
		if err != nil {
			return b, err
		}
		var ids []keystore.ExportID
		m := exportMode(mode)
		if !all {
			ids, _ = exportIDs(path, mode, sel)
			if len(ids) == 0 {
				return b, errors.New("harness: empty id list")
			}
		}
		out, err := bk.Export(ids, m)
		if err != nil {
			return b, err
		}
		return Bundle{Data: out.Data, Access: out.Keys}, nil
	}
	return b, errors.New("harness: no bundle on path " + path)
}

type delegate struct{ d apiV2.ImportDecision }

var errDelegate = errors.New("delegate says so")

func (d delegate) DecideKeyRingOverwrite(cur, nw *asn1V2.KeyRing) (apiV2.ImportDecision, error) {
	if d.d == apiV2.ImportAbort {
		return d.d, errDelegate
	}
	return d.d, nil
}

// doImport imports a bundle into tgt.
func doImport(path, target string, tgt *kslab.Store, tgtKeys kslab.MasterKeys, b Bundle) (err error) {
	defer tgt.Bind()()
	defer guard(&err)
	data, access := append([]byte(nil), b.Data...), append([]byte(nil), b.Access...)
	switch path {
	case PathV1:
		_, err = v1Backuper(tgt, tgtKeys, false).Import(&keystore.KeysBackup{Data: data, Keys: access})
		return err
	case PathV2Rings:
		if len(access) != 64 {
			return errors.New("harness: access keys of v2-rings are 64 bytes")
		}
		suite, err := cryptoV2.NewSCellSuite(access[:32], access[32:])
		if err != nil {
			return err
		}
		var d apiV2.KeyRingImportDelegate
		switch target {
		case TgtSameOver:
			d = delegate{apiV2.ImportOverwrite}
		case TgtSameSkip:
			d = delegate{apiV2.ImportSkip}
		}
		_, err = tgt.V2.ImportKeyRings(data, suite, d)
		return err
	case PathV2Backup:
		bk, err := keystoreV2.NewKeyBackuper("", "", tgt.V2)
		if err != nil {
			return err
		}
		_, err = bk.Import(&keystore.KeysBackup{Data: data, Keys: access})
		return err
	}
	return errors.New("harness: no bundle on path " + path)
}

// doMigrate runs the v1 -> v2 migration of the whole source directory.
func doMigrate(src, tgt *kslab.Store) (err error) {
	defer tgt.Bind()()
	defer guard(&err)
	return keys.MigrateV1toV2(src.V1, tgt.V2)
}

// Opened is the content of a bundle as an independent decoder sees it with the access keys.
type Opened struct {
	Plain []byte           // decrypted serialisation (gob / DER)
	Files []*keystore.Key  // v1
	Rings []asn1V2.KeyRing // v2
}

// accessKeysOf decodes the access key blob of a path into key values (for telling a
// re-serialisation of the same keys from wrong keys).
func accessKeysOf(path string, access []byte) (enc, sig []byte, err error) {
	switch path {
	case PathV1, PathCLI:
		return access, nil, nil
	case PathV2Rings:
		if len(access) != 64 {
			return nil, nil, errors.New("bad length")
		}
		return access[:32], access[32:], nil
	}
	sk := &keystoreV2.SerializedKeys{}
	if err := sk.Unmarshal(access); err != nil {
		return nil, nil, err
	}
	return sk.Encryption, sk.Signature, nil
}

// openBundle decrypts a bundle with its access keys without going through the import code.
func openBundle(path string, b Bundle) (o Opened, err error) {
	defer guard(&err)
	enc, sig, err := accessKeysOf(path, b.Access)
	if err != nil {
		return o, err
	}
	if path == PathV1 || path == PathCLI {
		o.Plain, err = scell(enc).Decrypt(context.Background(), append([]byte(nil), b.Data...), keystore.NewEmptyKeyContext(nil))
		if err != nil {
			return o, err
		}
		err = gob.NewDecoder(bytes.NewReader(o.Plain)).Decode(&o.Files)
		return o, err
	}
	suite, err := cryptoV2.NewSCellSuite(append([]byte(nil), enc...), append([]byte(nil), sig...))
	if err != nil {
		return o, err
	}
	notary, err := signature.NewNotary(suite.SignatureAlgorithms)
	if err != nil {
		return o, err
	}
	c, err := notary.Verify(append([]byte(nil), b.Data...), []byte(exportKeyCtx))
	if err != nil {
		return o, err
	}
	o.Plain, err = suite.KeyEncryptor.Decrypt(context.Background(), append([]byte(nil), c.Payload.Data.Bytes...), keystore.NewEmptyKeyContext([]byte(exportKeyCtx)))
	if err != nil {
		return o, err
	}
	ek, err := asn1V2.UnmarshalEncryptedKeys(o.Plain)
	if err != nil {
		return o, err
	}
	o.Rings = ek.KeyRings
	return o, nil
}
