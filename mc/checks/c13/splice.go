package main

import (
	"fmt"
	"sort"
	"sync/atomic"

	"github.com/cossacklabs/acra/sqlparser"

	"verif/ev"
	"verif/par"
	"verif/sqlgen"
)

var rejectedShown atomic.Int64

// donor sub-tree reference
type subRef struct {
	donor int // index into seeds
	sub   int // index into Slots(parse(seeds[donor]))
	text  string
	shape string
}

func mustParse(sql string) sqlparser.Statement {
	t, err, pp := sqlgen.Parse(sql)
	if err != nil || pp != "" {
		ev.Fatalf("statement accepted before is rejected now (non-deterministic parser?): %q: %v %s", sql, err, pp)
	}
	return t
}

// runSplice: every distinct expression sub-tree of every seed into every expression slot of
// every seed. quick: one representative per sub-tree shape; thorough: every textually
// distinct sub-tree.
func runSplice(r *ev.Run, expired func() bool, col *sqlgen.Collector, seeds []string) {
	d := sqlgen.Current
	// collect distinct donor sub-trees (single threaded, deterministic)
	var subs []subRef
	seenText := map[string]bool{}
	totalSlots, totalSubs := 0, 0
	for di, s := range seeds {
		t := mustParse(s)
		sl := sqlgen.Slots(t)
		totalSlots += len(sl)
		for si, slot := range sl {
			e := slot.Get()
			if !sqlgen.Donatable(e) {
				continue
			}
			totalSubs++
			txt, pp := sqlgen.Print(e)
			if pp != "" || seenText[txt] {
				continue
			}
			seenText[txt] = true
			subs = append(subs, subRef{donor: di, sub: si, text: txt, shape: nodeSig(e)})
		}
	}
	sort.SliceStable(subs, func(i, j int) bool { return subs[i].text < subs[j].text })
	distinctText := len(subs)
	if !r.Thorough() {
		seenShape := map[string]bool{}
		var rep []subRef
		for _, s := range subs {
			if seenShape[s.shape] {
				continue
			}
			seenShape[s.shape] = true
			rep = append(rep, s)
		}
		subs = rep
		col.Capped(fmt.Sprintf("quick tier splices one representative per sub-tree root signature (node type, operator, child node types: %d of %d textually distinct sub-trees) into every slot; thorough splices all", len(subs), distinctText))
	}
	// donors grouped so that a job parses each needed donor once
	byDonor := map[int][]subRef{}
	var donors []int
	for _, s := range subs {
		if _, ok := byDonor[s.donor]; !ok {
			donors = append(donors, s.donor)
		}
		byDonor[s.donor] = append(byDonor[s.donor], s)
	}
	sort.Ints(donors)
	col.Info("splice_slots", totalSlots)
	col.Info("splice_subtrees_total", totalSubs)
	col.Info("splice_subtrees_distinct_text", distinctText)
	col.Info("splice_subtrees_used", len(subs))
	col.Info("splice_pairs", totalSlots*len(subs))

	tl := newTally()
	done := par.Do(len(seeds), expired, func(hi int) {
		host := mustParse(seeds[hi])
		slots := sqlgen.Slots(host)
		col.Transitions(1)
		for _, dn := range donors {
			dt := mustParse(seeds[dn])
			col.Transitions(1)
			dslots := sqlgen.Slots(dt)
			for _, sr := range byDonor[dn] {
				raw := dslots[sr.sub].Get()
				for k, slot := range slots {
					sub := sqlgen.WrapFor(slot, raw)
					subSig := nodeSig(sub)
					old := slot.Get()
					slot.Set(sub)
					c := caseT{Dialect: d, Kind: "splice", SQL: seeds[hi], Slot: k, Donor: seeds[dn], Sub: sr.sub}
					out := spliceCheck(col, c, host, slot.Path, subSig)
					slot.Set(old)
					tl.add(out)
				}
			}
			if expired() {
				return
			}
		}
	})
	acc := tl.flush(col, "splice")
	col.States(int(acc))
	if done < len(seeds) || expired() {
		col.Capped(fmt.Sprintf("wall budget: splicing stopped after %d of %d host statements", done, len(seeds)))
	}
	if len(seeds) > 0 && len(subs) > 0 {
		col.Sample(caseT{Dialect: d, Kind: "splice", SQL: seeds[len(seeds)/3], Slot: 0, Donor: seeds[subs[len(subs)/2].donor], Sub: subs[len(subs)/2].sub})
	}
}

// spliceCheck: host is the spliced tree T. s = String(T) is the statement "received";
// t = Parse(s) (not accepted: outside the space); T must equal t (the spliced tree prints to a
// text that means the spliced tree); then the plain round-trip oracle on t.
func spliceCheck(col *sqlgen.Collector, c caseT, T sqlparser.Statement, slotPath, subSig string) string {
	col.Transitions(1)
	s, pp := sqlgen.Print(T)
	if pp != "" {
		col.Eval(1)
		col.Violation("C13/splice/print-panic/"+panicSig(pp), fmt.Sprintf("[%s] printer panicked on spliced tree (host %q slot %d, donor %q sub %d): %s", c.Dialect, c.SQL, c.Slot, c.Donor, c.Sub, pp), c)
		return "print-panic"
	}
	col.Transitions(1)
	t, err, pp := sqlgen.Parse(s)
	if pp != "" {
		col.Eval(1)
		col.Violation("C13/splice/parse-panic/"+panicSig(pp), fmt.Sprintf("[%s] parser panicked on %q: %s", c.Dialect, s, pp), c)
		return "parse-panic"
	}
	if err != nil {
		if rejectedShown.Add(1) <= 3 {
			col.Info(fmt.Sprintf("splice_rejected_example_%d", rejectedShown.Load()), s)
		}
		return oRejected
	}
	if !sqlgen.IsDML(t) {
		return oNonDML
	}
	if dd := sqlgen.Diff(T, t, cmpOpts); dd != "" {
		col.Eval(1)
		col.Traces(1)
		sig, min, rel := localise3(col, T)
		key := slotPath + "/" + diffSig(dd)
		if sig != "" {
			key = sig + "/" + rel
		}
		col.Violation("C13/splice/printed-tree-reparses-differently/"+key,
			fmt.Sprintf("[%s] spliced tree (host %q slot %d <- donor %q sub %d) prints as %q which parses to a different tree: %s; smallest failing expression %q", c.Dialect, c.SQL, c.Slot, c.Donor, c.Sub, s, dd, min), c)
		return "tree-differs"
	}
	// T equals t, so String(t) must be the text just parsed (printing depends only on what the
	// comparison compares); then Parse(String(t)) is the parse just done and the round trip of
	// t holds without repeating it.
	col.Eval(1)
	col.Traces(1)
	col.Transitions(1)
	out := oOK
	if s2, pp := sqlgen.Print(t); pp != "" || s2 != s {
		col.Violation("C13/splice/not-fixpoint/"+slotPath,
			fmt.Sprintf("[%s] spliced tree (host %q slot %d <- donor %q sub %d) prints as %q; the structurally equal re-parsed tree prints as %q", c.Dialect, c.SQL, c.Slot, c.Donor, c.Sub, s, s2), c)
		out = "not-fixpoint"
	}
	if out == oOK {
		col.Distinct(c.Dialect + "|splice|" + slotPath + "<-" + subSig + "|" + out)
	}
	return out
}

// spliceOne re-executes one splice from its replay payload.
func spliceOne(col *sqlgen.Collector, c caseT) string {
	host := mustParse(c.SQL)
	donor := mustParse(c.Donor)
	hs, ds := sqlgen.Slots(host), sqlgen.Slots(donor)
	if c.Slot >= len(hs) || c.Sub >= len(ds) {
		ev.Fatalf("replay: slot/sub index out of range")
	}
	sub := sqlgen.WrapFor(hs[c.Slot], ds[c.Sub].Get())
	hs[c.Slot].Set(sub)
	s, _ := sqlgen.Print(host)
	fmt.Printf("spliced statement: %q\n", s)
	return spliceCheck(col, c, host, hs[c.Slot].Path, nodeSig(sub))
}
