package kslab

import (
	"bytes"
	"errors"
	"fmt"
	"os"
	"path/filepath"
	"sort"
	"strings"
	"syscall"

	"github.com/cossacklabs/acra/keystore/filesystem"
)

// fsOp is one operation instance of the MemFS differential self-test.
type fsOp struct {
	name string
	a, b string // path arguments relative to the root ("" = the root itself)
	perm os.FileMode
	data []byte
}

func (o fsOp) String() string {
	return fmt.Sprintf("%s(%q,%q,%o,%d)", o.name, o.a, o.b, o.perm, len(o.data))
}

type fsSide struct {
	st    filesystem.Storage
	root  string
	temps map[string]string // actual temp path -> alias
	nTemp int
}

func (s *fsSide) abs(rel string) string {
	// aliases of temp files resolve to this side's actual name
	for actual, alias := range s.temps {
		if rel == alias {
			return actual
		}
		if strings.HasPrefix(rel, alias+"/") {
			return actual + rel[len(alias):]
		}
	}
	return filepath.Join(s.root, rel)
}

func errClass(err error) string {
	if err == nil {
		return "ok"
	}
	var en syscall.Errno
	if errors.As(err, &en) {
		return "errno:" + en.Error()
	}
	switch {
	case os.IsNotExist(err):
		return "notexist"
	case os.IsExist(err):
		return "exist"
	}
	return "other:" + err.Error()
}

func (s *fsSide) alias(name string) string {
	rel, err := filepath.Rel(s.root, name)
	if err != nil {
		return name
	}
	for actual, alias := range s.temps {
		ar, _ := filepath.Rel(s.root, actual)
		if rel == ar {
			return alias
		}
	}
	return rel
}

func (s *fsSide) infoStr(fi os.FileInfo, dir string) string {
	name := s.alias(filepath.Join(dir, fi.Name()))
	size := fi.Size()
	if fi.IsDir() {
		size = 0
	}
	return fmt.Sprintf("%s:%v:%o:%d", name, fi.IsDir(), fi.Mode().Perm(), size)
}

// do executes op and renders everything observable about its result.
func (s *fsSide) do(o fsOp) string {
	a, b := s.abs(o.a), s.abs(o.b)
	switch o.name {
	case "Stat":
		fi, err := s.st.Stat(a)
		if err != nil {
			return errClass(err)
		}
		return "ok " + s.infoStr(fi, filepath.Dir(a))
	case "Exists":
		ok, err := s.st.Exists(a)
		return fmt.Sprintf("%s %v", errClass(err), ok)
	case "ReadDir":
		fis, err := s.st.ReadDir(a)
		if err != nil {
			return errClass(err)
		}
		var l []string
		for _, fi := range fis {
			l = append(l, s.infoStr(fi, a))
		}
		sort.Strings(l) // temp names sort differently on the two sides
		return "ok " + strings.Join(l, ",")
	case "MkdirAll":
		return errClass(s.st.MkdirAll(a, o.perm))
	case "Rename":
		err := s.st.Rename(a, b)
		if err == nil && a != b {
			for actual, alias := range s.temps {
				switch {
				case actual == a:
					delete(s.temps, actual) // a temp file renamed to a regular name is no temp any more
				case actual == b || strings.HasPrefix(actual, b+"/"):
					delete(s.temps, actual) // replaced
				case strings.HasPrefix(actual, a+"/"):
					delete(s.temps, actual)
					s.temps[b+actual[len(a):]] = alias
				}
			}
		}
		return errClass(err)
	case "TempFile", "TempDir":
		var name string
		var err error
		if o.name == "TempFile" {
			name, err = s.st.TempFile(a, o.perm)
		} else {
			name, err = s.st.TempDir(a, o.perm)
		}
		if err != nil {
			return errClass(err)
		}
		s.nTemp++
		alias := fmt.Sprintf("%s.tmp%d", o.a, s.nTemp)
		s.temps[name] = alias
		if !strings.HasPrefix(filepath.Base(name), filepath.Base(a)) || filepath.Dir(name) != filepath.Dir(a) {
			return "ok BADNAME " + name
		}
		return "ok " + alias
	case "Link":
		return errClass(s.st.Link(a, b))
	case "Copy":
		return errClass(s.st.Copy(a, b))
	case "ReadFile":
		d, err := s.st.ReadFile(a)
		if err != nil {
			return errClass(err)
		}
		return fmt.Sprintf("ok %x", d)
	case "WriteFile":
		return errClass(s.st.WriteFile(a, o.data, o.perm))
	case "Remove":
		err := s.st.Remove(a)
		if err == nil {
			delete(s.temps, a)
		}
		return errClass(err)
	case "RemoveAll":
		err := s.st.RemoveAll(a)
		if err == nil {
			for actual := range s.temps {
				if actual == a || strings.HasPrefix(actual, a+"/") {
					delete(s.temps, actual)
				}
			}
		}
		return errClass(err)
	}
	return "unknown op"
}

// tree renders the whole content below the root.
func (s *fsSide) tree() string {
	var out []string
	var walk func(dir string)
	walk = func(dir string) {
		fis, err := s.st.ReadDir(dir)
		if err != nil {
			out = append(out, "ERR "+dir+" "+errClass(err))
			return
		}
		for _, fi := range fis {
			p := filepath.Join(dir, fi.Name())
			line := s.infoStr(fi, dir)
			if !fi.IsDir() {
				d, _ := s.st.ReadFile(p)
				line += fmt.Sprintf(":%x", d)
			}
			out = append(out, line)
			if fi.IsDir() {
				walk(p)
			}
		}
	}
	walk(s.root)
	sort.Strings(out)
	return strings.Join(out, "\n")
}

// selfTestPool is the operation-instance pool: the paths mimic a v1 key directory.
func selfTestPool() []fsOp {
	files := []string{"k", "k.pub", "d/k", "k.old/t1", "k.old/t2", "missing/x", "k/under-file"}
	dirs := []string{"", "d", "k.old", "missing", "k"}
	var pool []fsOp
	for _, f := range files {
		pool = append(pool,
			fsOp{name: "Stat", a: f}, fsOp{name: "Exists", a: f}, fsOp{name: "ReadFile", a: f},
			fsOp{name: "WriteFile", a: f, perm: 0o600, data: []byte("one")},
			fsOp{name: "WriteFile", a: f, perm: 0o644, data: []byte("other-content")},
			fsOp{name: "Remove", a: f}, fsOp{name: "TempFile", a: f, perm: 0o600})
	}
	for _, d := range dirs {
		pool = append(pool, fsOp{name: "ReadDir", a: d}, fsOp{name: "MkdirAll", a: d, perm: 0o700},
			fsOp{name: "Stat", a: d}, fsOp{name: "ReadFile", a: d})
		if d != "" {
			pool = append(pool, fsOp{name: "Remove", a: d}, fsOp{name: "RemoveAll", a: d}, fsOp{name: "TempDir", a: d, perm: 0o700})
		}
	}
	pool = append(pool, fsOp{name: "MkdirAll", a: "d/e/f", perm: 0o755}, fsOp{name: "ReadDir", a: "d/e"})
	pairs := [][2]string{{"k", "k.old/t1"}, {"k", "k.old/t2"}, {"k.old/t1", "k"}, {"k", "k.pub"}, {"k.pub", "k"}, {"d/k", "k"},
		{"k", "d"}, {"d", "k"}, {"d", "k.old"}, {"k.old", "d"}, {"missing/x", "k"}, {"k", "missing/x"}, {"k", "k"}, {"d", "d/e"},
		{"k.tmp1", "k"}, {"d/k.tmp1", "d/k"}}
	for _, p := range pairs {
		pool = append(pool, fsOp{name: "Rename", a: p[0], b: p[1]}, fsOp{name: "Link", a: p[0], b: p[1]}, fsOp{name: "Copy", a: p[0], b: p[1]})
	}
	return pool
}

// SelfTestMemFS runs operation sequences on a MemFS and on Acra's real FileStorage (in a
// scratch directory below scratch) and compares every result, error kind and directory
// listing, and the final tree. Sequences: after each of a few preludes, every sequence of
// length <= 2 over the operation pool (full=false: only after the richest prelude), plus
// `long` pseudo-random sequences of length 14 (fixed seed). Returns the number of sequences and operations compared.
func SelfTestMemFS(scratch string, long int, full bool) (seqs, ops int, err error) {
	oldMask := syscall.Umask(0o022)
	defer syscall.Umask(oldMask)
	pool := selfTestPool()
	preludes := [][]fsOp{
		{},
		{{name: "WriteFile", a: "k", perm: 0o600, data: []byte("key1")}, {name: "MkdirAll", a: "d", perm: 0o700}},
		{{name: "WriteFile", a: "k", perm: 0o600, data: []byte("key1")}, {name: "MkdirAll", a: "k.old", perm: 0o700},
			{name: "Link", a: "k", b: "k.old/t1"}, {name: "WriteFile", a: "k.pub", perm: 0o644, data: []byte("pub")},
			{name: "TempFile", a: "k", perm: 0o600}},
	}
	n := 0
	runSeq := func(seq []fsOp) error {
		n++
		dir, e := os.MkdirTemp(scratch, "memfs-selftest-")
		if e != nil {
			return e
		}
		defer os.RemoveAll(dir)
		real := &fsSide{st: &filesystem.FileStorage{}, root: dir, temps: map[string]string{}}
		mfs := NewMemFS()
		mfs.Record(true)
		mem := &fsSide{st: mfs, root: "/root", temps: map[string]string{}}
		if e := mfs.MkdirAll("/root", 0o700); e != nil {
			return e
		}
		for i, o := range seq {
			ops++
			ra, ma := real.do(o), mem.do(o)
			if ra != ma {
				return fmt.Errorf("sequence %v: step %d %v: real %q, memfs %q", seq, i, o, ra, ma)
			}
		}
		logged := len(mfs.Log())
		if rt, mt := real.tree(), mem.tree(); rt != mt {
			return fmt.Errorf("sequence %v: final trees differ:\nreal:\n%s\nmemfs:\n%s", seq, rt, mt)
		}
		if got := logged; got != len(seq)+1 {
			return fmt.Errorf("call log has %d entries for %d calls", got, len(seq)+1)
		}
		// snapshot / clone independence
		snap := mfs.Snapshot()
		before := mem.tree()
		cl := mfs.Clone()
		cl.WriteFile("/root/k", []byte("clobber"), 0o600)
		cl.RemoveAll("/root/d")
		mfs.WriteFile("/root/zz", []byte("x"), 0o600)
		mfs.Restore(snap)
		if after := mem.tree(); after != before {
			return fmt.Errorf("sequence %v: snapshot/restore changed the tree:\n%s\nvs\n%s", seq, before, after)
		}
		return nil
	}
	for pi, pre := range preludes {
		if !full && pi != 2 {
			continue
		}
		if e := runSeq(pre); e != nil {
			return n, ops, e
		}
		for _, a := range pool {
			if e := runSeq(append(append([]fsOp{}, pre...), a)); e != nil {
				return n, ops, e
			}
			for _, b := range pool {
				if e := runSeq(append(append([]fsOp{}, pre...), a, b)); e != nil {
					return n, ops, e
				}
			}
		}
	}
	x := uint64(0x9E3779B97F4A7C15)
	next := func(m int) int {
		x ^= x << 13
		x ^= x >> 7
		x ^= x << 17
		return int(x % uint64(m))
	}
	for i := 0; i < long; i++ {
		seq := append([]fsOp{}, preludes[1+next(2)]...)
		for j := 0; j < 14; j++ {
			seq = append(seq, pool[next(len(pool))])
		}
		if e := runSeq(seq); e != nil {
			return n, ops, e
		}
	}
	// fault hook and crash semantics
	m := NewMemFS()
	m.MkdirAll("/r", 0o700)
	m.ResetLog()
	m.SetHook(FailAt(1, Fault{Action: Fail}))
	if e := m.WriteFile("/r/a", []byte("1"), 0o600); e != nil {
		return n, ops, fmt.Errorf("call 0 must pass: %v", e)
	}
	if e := m.WriteFile("/r/b", []byte("2"), 0o600); !errors.Is(e, ErrInjected) {
		return n, ops, fmt.Errorf("call 1 must fail with ErrInjected: %v", e)
	}
	if ok, _ := m.Raw().Exists("/r/b"); ok {
		return n, ops, fmt.Errorf("failed call took effect")
	}
	m.ResetLog()
	m.SetHook(FailAt(0, Fault{Action: Torn, TornLen: 2}))
	c := Crashable(func() { m.WriteFile("/r/c", []byte("abcdef"), 0o600) })
	if c == nil || !m.Crashed() {
		return n, ops, fmt.Errorf("torn write must crash")
	}
	if e := m.Remove("/r/c"); !errors.Is(e, ErrCrashed) {
		return n, ops, fmt.Errorf("dead seam must refuse calls: %v", e)
	}
	if d, _ := m.Raw().ReadFile("/r/c"); !bytes.Equal(d, []byte("ab")) {
		return n, ops, fmt.Errorf("torn write left %q", d)
	}
	m.Revive()
	m.SetHook(nil)
	if e := m.Remove("/r/c"); e != nil {
		return n, ops, fmt.Errorf("revived seam: %v", e)
	}
	return n, ops, nil
}
