package kslab

import (
	"crypto/rand"
	"crypto/sha256"
	"encoding/binary"
	"sync"
	"sync/atomic"

	"verif/detrand"
)

// Randomness. crypto/rand.Reader is process-wide, while explorations run many key stores
// in parallel goroutines. kslab installs one deterministic multiplexer as rand.Reader:
//
//   - RandShared (default): all stores draw from one shared deterministic stream. Under
//     parallel exploration the interleaving of draws (hence key bytes) varies from run to
//     run; nothing in kslab depends on key bytes (keys are identified by tracking, see
//     Tracker), canonical observations are reproducible.
//   - RandPerStore: every Store draws from its own stream (seeded from configuration and
//     seed) and logs its draws (Store.Rand.Draws(): secret scanning in C07, byte-exact
//     replays). Only one Store call may be in progress at a time in this mode (checked).
//
// Even per-store streams do not make key pairs a pure function of the seed: the Go
// runtime's randutil.MaybeReadByte consumes an extra byte at random.
type RandMode int

const (
	RandShared RandMode = iota
	RandPerStore
)

type randMux struct {
	mu     sync.Mutex
	modeA  atomic.Int32
	active atomic.Pointer[StoreRand] // RandPerStore: the store whose call is in progress
	seed   [32]byte
	ctr    atomic.Uint64 // shared stream: one counter value per Read, no lock (parallel labs)
}

var (
	mux     *randMux
	muxOnce sync.Once
)

// InstallRand makes the multiplexer the process-wide crypto/rand.Reader (idempotent; Open
// calls it).
func InstallRand() {
	muxOnce.Do(func() {
		mux = &randMux{seed: sha256.Sum256([]byte("kslab/shared"))}
		rand.Reader = mux
	})
}

// SetRandMode selects the mode for stores used from now on.
func SetRandMode(m RandMode) {
	InstallRand()
	mux.modeA.Store(int32(m))
}

func (m *randMux) Read(p []byte) (int, error) {
	if sr := m.active.Load(); sr != nil {
		return sr.R.Read(p)
	}
	// shared stream: SHA-256(seed || read number || block number), lock-free
	n := m.ctr.Add(1)
	var in [48]byte
	copy(in[:], m.seed[:])
	binary.LittleEndian.PutUint64(in[32:], n)
	for i, blk := 0, uint64(0); i < len(p); blk++ {
		binary.LittleEndian.PutUint64(in[40:], blk)
		h := sha256.Sum256(in[:])
		i += copy(p[i:], h[:])
	}
	return len(p), nil
}

// StoreRand is the deterministic randomness of one Store with its draw log (RandPerStore).
type StoreRand struct {
	R     *detrand.Reader
	mu    sync.Mutex
	draws [][]byte
}

func newStoreRand(seed string) *StoreRand {
	sr := &StoreRand{R: detrand.New(seed)}
	sr.R.Log = func(p []byte) {
		sr.mu.Lock()
		sr.draws = append(sr.draws, p)
		sr.mu.Unlock()
	}
	return sr
}

// Draws returns a copy of every draw handed out to this store so far (RandPerStore only).
func (sr *StoreRand) Draws() [][]byte {
	sr.mu.Lock()
	defer sr.mu.Unlock()
	return append([][]byte(nil), sr.draws...)
}

// bind routes crypto/rand reads to sr until the returned function is called (RandPerStore);
// in RandShared mode it does nothing.
func (sr *StoreRand) bind() func() {
	InstallRand()
	if RandMode(mux.modeA.Load()) != RandPerStore {
		return noop
	}
	mux.mu.Lock()
	prev := mux.active.Load()
	if prev != nil && prev != sr {
		mux.mu.Unlock()
		panic("kslab: RandPerStore mode allows one Store call at a time (use RandShared for parallel labs)")
	}
	mux.active.Store(sr)
	mux.mu.Unlock()
	return func() { mux.active.Store(prev) }
}

func noop() {}
