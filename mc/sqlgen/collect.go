package sqlgen

import (
	"crypto/sha256"
	"encoding/hex"
	"encoding/json"
	"fmt"
	"os"
	"os/exec"
	"path/filepath"
	"sort"
	"sync"
	"sync/atomic"

	"verif/ev"
)

// Collector is what a dialect worker process gathers; the parent merges all collectors into
// the ev.Run (the dialect is a process-wide global in Acra, CHECK_AUTHORING rule 7, so the
// parent never parses anything itself).
type Collector struct {
	evals, states, transitions, traces atomic.Int64

	mu       sync.Mutex
	classes  map[string]int64
	distinct map[[16]byte]struct{}
	viol     map[string]*Viol
	order    []string
	samples  []interface{}
	caps     []string
	info     map[string]interface{}
}

// Viol is one violation key with its first message and replay payload.
type Viol struct {
	Key    string      `json:"key"`
	Msg    string      `json:"msg"`
	Replay interface{} `json:"replay"`
	Count  int         `json:"count"`
}

func NewCollector() *Collector {
	return &Collector{classes: map[string]int64{}, distinct: map[[16]byte]struct{}{}, viol: map[string]*Viol{}, info: map[string]interface{}{}}
}

func (c *Collector) Eval(n int)        { c.evals.Add(int64(n)) }
func (c *Collector) States(n int)      { c.states.Add(int64(n)) }
func (c *Collector) Transitions(n int) { c.transitions.Add(int64(n)) }
func (c *Collector) Traces(n int)      { c.traces.Add(int64(n)) }

func (c *Collector) Class(name string, n int) {
	c.mu.Lock()
	c.classes[name] += int64(n)
	c.mu.Unlock()
}

func (c *Collector) Distinct(obs string) {
	h := sha256.Sum256([]byte(obs))
	var k [16]byte
	copy(k[:], h[:16])
	c.mu.Lock()
	c.distinct[k] = struct{}{}
	c.mu.Unlock()
}

func (c *Collector) Violation(key, msg string, replay interface{}) {
	c.mu.Lock()
	defer c.mu.Unlock()
	if v, ok := c.viol[key]; ok {
		v.Count++
		return
	}
	c.viol[key] = &Viol{Key: key, Msg: msg, Replay: replay, Count: 1}
	c.order = append(c.order, key)
}

func (c *Collector) NViol() int {
	c.mu.Lock()
	defer c.mu.Unlock()
	return len(c.viol)
}

func (c *Collector) Sample(x interface{}) {
	c.mu.Lock()
	if len(c.samples) < 3 {
		c.samples = append(c.samples, x)
	}
	c.mu.Unlock()
}

func (c *Collector) Capped(what string) {
	c.mu.Lock()
	c.caps = append(c.caps, what)
	c.mu.Unlock()
}

// Info records a per-worker coverage value (merged by the parent under "<worker>.<key>").
func (c *Collector) Info(k string, v interface{}) {
	c.mu.Lock()
	c.info[k] = v
	c.mu.Unlock()
}

type dump struct {
	Evals, States, Transitions, Traces int64
	Classes                            map[string]int64
	Distinct                           []string
	Viol                               []*Viol
	Samples                            []interface{}
	Caps                               []string
	Info                               map[string]interface{}
}

// Dump writes the collector to a file for the parent.
func (c *Collector) Dump(path string) {
	c.mu.Lock()
	defer c.mu.Unlock()
	d := dump{Evals: c.evals.Load(), States: c.states.Load(), Transitions: c.transitions.Load(), Traces: c.traces.Load(),
		Classes: c.classes, Samples: c.samples, Caps: c.caps, Info: c.info}
	for k := range c.distinct {
		d.Distinct = append(d.Distinct, hex.EncodeToString(k[:]))
	}
	sort.Strings(d.Distinct)
	sort.Strings(c.order)
	for _, k := range c.order {
		d.Viol = append(d.Viol, c.viol[k])
	}
	b, err := json.Marshal(d)
	if err != nil {
		ev.Fatalf("worker dump: %v", err)
	}
	if err := os.WriteFile(path, b, 0o600); err != nil {
		ev.Fatalf("worker dump: %v", err)
	}
}

// Merge adds a worker's dump to the run. label prefixes the per-worker info keys.
func Merge(r *ev.Run, path, label string) {
	b, err := os.ReadFile(path)
	if err != nil {
		ev.Fatalf("worker %s produced no result file: %v", label, err)
	}
	var d dump
	if err := json.Unmarshal(b, &d); err != nil {
		ev.Fatalf("worker %s result unreadable: %v", label, err)
	}
	r.Eval(int(d.Evals))
	r.States(int(d.States))
	r.Transitions(int(d.Transitions))
	r.Traces(int(d.Traces))
	for k, n := range d.Classes {
		r.Class(k, int(n))
	}
	for _, h := range d.Distinct {
		r.Distinct(h)
	}
	for _, v := range d.Viol {
		for i := 0; i < v.Count; i++ {
			r.Violation(v.Key, v.Msg, v.Replay)
			if i > 1000 {
				break
			}
		}
	}
	for _, s := range d.Samples {
		r.Sample(s)
	}
	for _, c := range d.Caps {
		r.Capped(label + ": " + c)
	}
	keys := make([]string, 0, len(d.Info))
	for k := range d.Info {
		keys = append(keys, k)
	}
	sort.Strings(keys)
	for _, k := range keys {
		r.Set(label+"."+k, d.Info[k])
	}
}

// Worker describes one worker process to spawn.
type Worker struct {
	Label string   // e.g. "mysql" or "postgresql/3"
	Args  []string // extra arguments after the common ones
}

// RunWorkers re-executes this program once per worker (concurrently), each with
// "-out <file>" appended, forwards the tier and budget, and merges the results in label
// order. Worker stderr is passed through; a worker exiting non-zero is a harness error.
func RunWorkers(r *ev.Run, scratch string, workers []Worker, common []string) {
	type res struct {
		out string
		err error
		log []byte
	}
	results := make([]res, len(workers))
	var wg sync.WaitGroup
	for i, w := range workers {
		wg.Add(1)
		go func(i int, w Worker) {
			defer wg.Done()
			out := filepath.Join(scratch, fmt.Sprintf("worker-%d.json", i))
			args := append([]string{"-tier", r.Tier}, common...)
			args = append(args, w.Args...)
			args = append(args, "-out", out)
			cmd := exec.Command(os.Args[0], args...)
			cmd.Env = os.Environ()
			b, err := cmd.CombinedOutput()
			results[i] = res{out, err, b}
		}(i, w)
	}
	wg.Wait()
	for i, w := range workers {
		if results[i].err != nil {
			os.Stderr.Write(results[i].log)
			ev.Fatalf("worker %s failed: %v", w.Label, results[i].err)
		}
		if len(results[i].log) > 0 && os.Getenv("VERIF_WORKER_LOG") != "" {
			os.Stderr.Write(results[i].log)
		}
		Merge(r, results[i].out, w.Label)
	}
}
