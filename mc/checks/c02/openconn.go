package main

// Identity of open connections (E2 over handshake histories): with identities taken from TLS
// certificates the client id computed at the handshake is kept for the life of the connection (the
// proxies' access context, the gRPC connection info). Every sequence of up to 3 handshakes of 3
// certificate identities through Acra's TLSConnectionWrapper.WrapServer / ServerHandshake with the
// PRODUCTION identifier converter (hex of SHA-512) and both certificate identifier extractors is
// executed; after every handshake the client id held for EVERY connection opened so far must still
// be that connection's own id (computed independently from its certificate): a later handshake of
// another client never changes the identity an open connection runs under.

import (
	"bytes"
	"context"
	"crypto/sha512"
	"crypto/tls"
	"crypto/x509"
	"encoding/hex"
	"fmt"
	"net"
	"sync"

	"github.com/cossacklabs/acra/network"

	"verif/ev"
)

type openConnReplay struct {
	Scenario  string `json:"scenario"` // "open-connections"
	Extractor string `json:"certificate_identifier"`
	Entry     string `json:"entry_point"`
	Seq       []int  `json:"handshakes_of_identity_index"`
}

func (p *pki) handshakeWith(w *network.TLSConnectionWrapper, entry string, id []byte) (clientID []byte, closeFn func(), err error) {
	cEnd, sEnd := net.Pipe()
	var wg sync.WaitGroup
	var cErr error
	wg.Add(1)
	go func() {
		defer wg.Done()
		c := tls.Client(cEnd, p.clientCfg(id))
		cErr = c.Handshake()
		if cErr == nil {
			drain(c)
		}
	}()
	closeFn = func() { cEnd.Close(); sEnd.Close() }
	switch entry {
	case "WrapServer":
		_, clientID, err = w.WrapServer(context.Background(), sEnd)
	default: // ServerHandshake (gRPC transport credentials): the id the gRPC services take from the AuthInfo
		_, auth, herr := w.ServerHandshake(sEnd)
		err = herr
		if err == nil {
			clientID, err = network.GetClientIDFromAuthInfo(auth, p.prodExtractors[p.curExtractor])
		}
	}
	wg.Wait()
	if err == nil && cErr != nil {
		err = cErr
	}
	return
}

func (p *pki) expectedID(extractor string, id []byte) []byte {
	leaf, _ := x509.ParseCertificate(p.clients[string(id)].Certificate[0])
	var ident []byte
	if extractor == "distinguished_name" {
		ident = []byte(leaf.Subject.String())
	} else {
		ident = leaf.SerialNumber.Bytes()
	}
	sum := sha512.Sum512(ident)
	out := make([]byte, hex.EncodedLen(len(sum)))
	hex.Encode(out, sum[:])
	return out
}

func runOpenConn(r *ev.Run, p *pki, rp openConnReplay) {
	conv, err := network.NewDefaultHexIdentifierConverter()
	if err != nil {
		ev.Fatalf("converter: %v", err)
	}
	var idExtractor network.CertificateIdentifierExtractor = network.DistinguishedNameExtractor{}
	if rp.Extractor == "serial_number" {
		idExtractor = network.SerialNumberExtractor{}
	}
	ex, err := network.NewTLSClientIDExtractor(idExtractor, conv)
	if err != nil {
		ev.Fatalf("extractor: %v", err)
	}
	if p.prodExtractors == nil {
		p.prodExtractors = map[string]network.TLSClientIDExtractor{}
	}
	p.prodExtractors[rp.Extractor], p.curExtractor = ex, rp.Extractor
	w, err := network.NewTLSAuthenticationConnectionWrapper(true, nil, p.serverCfg, ex)
	if err != nil {
		ev.Fatalf("wrapper: %v", err)
	}
	type open struct {
		who  int
		held []byte // the slice the connection keeps
	}
	var conns []open
	var closers []func()
	defer func() {
		for _, c := range closers {
			c()
		}
	}()
	for step, who := range rp.Seq {
		held, cl, err := p.handshakeWith(w, rp.Entry, ids[who])
		closers = append(closers, cl)
		r.Transitions(1)
		if err != nil {
			ev.Fatalf("open-connections: handshake of %s failed: %v", ids[who], err)
		}
		conns = append(conns, open{who, held})
		for k, c := range conns {
			r.Eval(1)
			want := p.expectedID(rp.Extractor, ids[c.who])
			if !bytes.Equal(c.held, want) {
				other := "another value"
				for j := range ids {
					if bytes.Equal(c.held, p.expectedID(rp.Extractor, ids[j])) {
						other = "the id of " + string(ids[j])
					}
				}
				key := "own-id-wrong-at-handshake"
				if k < step {
					key = "identity-of-an-open-connection-changed-by-a-later-handshake"
				}
				r.Violation("C02/open-connections/"+rp.Entry+"/"+rp.Extractor+"/"+key,
					fmt.Sprintf("after handshake #%d (%s) the client id held for connection #%d (certificate of %s) is %s", step+1, ids[who], k+1, ids[c.who], other), rp)
				return
			}
		}
	}
	r.Distinct(fmt.Sprintf("open-connections|%s|%s|%v", rp.Entry, rp.Extractor, rp.Seq))
}

func phaseOpenConnections(r *ev.Run) {
	p := newPKI(ids)
	if r.Replay != "" {
		var rp openConnReplay
		r.LoadReplay(&rp)
		runOpenConn(r, p, rp)
		return
	}
	n := 0
	for _, entry := range []string{"WrapServer", "ServerHandshake"} {
		for _, extractor := range []string{"distinguished_name", "serial_number"} {
			var rec func(cur []int)
			rec = func(cur []int) {
				if len(cur) > 0 {
					runOpenConn(r, p, openConnReplay{Scenario: "open-connections", Extractor: extractor, Entry: entry, Seq: append([]int{}, cur...)})
					n++
				}
				if len(cur) == 3 {
					return
				}
				for i := range ids {
					rec(append(cur, i))
				}
			}
			rec(nil)
		}
	}
	r.States(n)
	r.Set("open_connection_histories", n)
}
