package main

// Rule derivation from pool statements and the reference (documented-semantics) matchers.
// Nothing in this file touches Acra.

import (
	"sort"
	"strings"
)

type tri int8

const (
	no tri = iota
	yes
	unk // outside the reference's domain: not compared
)

func (t tri) String() string { return [...]string{"no", "yes", "not-compared"}[t] }

func and3(a, b tri) tri {
	if a == no || b == no {
		return no
	}
	if a == unk || b == unk {
		return unk
	}
	return yes
}

func or3(a, b tri) tri {
	if a == yes || b == yes {
		return yes
	}
	if a == unk || b == unk {
		return unk
	}
	return no
}

// ---- generalisable positions -----------------------------------------------------------------

type posT struct {
	id    int
	end   int    // first preorder id after the subtree
	class string // VALUE COLUMN LIST SUBQUERY WHERE STMT
	ctx   string // clause the position lives in
}

func subtreeEnd(n *N) int {
	e := n.id + 1
	for _, c := range n.C {
		if x := subtreeEnd(c); x > e {
			e = x
		}
	}
	return e
}

// positions lists the generalisable positions of a statement:
//
//	the statement itself (whole-statement placeholder), every WHERE clause of a SELECT that is the
//	statement, a UNION branch or the source of INSERT...SELECT (and of UPDATE/DELETE: generated but
//	outside the reference's domain, see refMatcher), every expression sub-select, every IN list,
//	every literal (also inside sub-selects), every column reference outside sub-selects (select
//	list, WHERE, ON, GROUP BY, HAVING, ORDER BY, INSERT column list, SET targets).
func positions(s *stmtT) []posT {
	var out []posT
	var rec func(n *N, ctx string, inSub bool, inDerived bool)
	rec = func(n *N, ctx string, inSub bool, inDerived bool) {
		switch n.K {
		case "cols", "from", "where", "group", "having", "order", "limit", "icols", "rows", "sets", "ondup":
			if inSub {
				ctx = "subselect"
			} else {
				ctx = n.K
			}
		}
		add := func(class string) {
			out = append(out, posT{id: n.id, end: subtreeEnd(n), class: class, ctx: ctx})
		}
		switch {
		case n.id == 0:
			add("STMT")
		case n.K == "where" && !inSub:
			add("WHERE")
		case n.K == "subq" && !inDerived && !inSub:
			add("SUBQUERY")
		case n.K == "list" && !inSub:
			add("LIST")
		case isLiteral(n.K):
			add("VALUE")
		case n.K == "col" && !inSub:
			add("COLUMN")
		}
		for _, c := range n.C {
			rec(c, ctx, inSub || n.K == "subq", n.K == "dtbl")
		}
	}
	rec(s.Root, "stmt", false, false)
	return out
}

// antichains enumerates every subset of positions in which no position lies inside another.
func antichains(ps []posT) [][]posT {
	var out [][]posT
	var cur []posT
	var rec func(i int)
	rec = func(i int) {
		if i == len(ps) {
			out = append(out, append([]posT(nil), cur...))
			return
		}
		rec(i + 1) // without ps[i]
		for _, c := range cur {
			if ps[i].id >= c.id && ps[i].id < c.end {
				return // inside an already generalised subtree
			}
		}
		cur = append(cur, ps[i])
		rec(i + 1)
		cur = cur[:len(cur)-1]
	}
	rec(0)
	return out
}

// ---- rules -----------------------------------------------------------------------------------

type ruleT struct {
	Kind  string // queries | tables | patterns
	Src   int    // pool statement the rule is derived from (queries, patterns); -1 for tables
	Gen   []posT // generalised positions (patterns)
	Table string // tables
	Core  bool   // member of the core alphabet used for chain enumeration
}

func (r *ruleT) genSet() map[int]bool {
	m := map[int]bool{}
	for _, p := range r.Gen {
		m[p.id] = true
	}
	return m
}

func (r *ruleT) text(pool []*stmtT, dialect string) string {
	switch r.Kind {
	case "tables":
		return r.Table
	case "queries":
		return text(pool[r.Src].Root, nil, dialect, vAsIs)
	}
	return text(pool[r.Src].Root, r.genSet(), dialect, vAsIs)
}

func (r *ruleT) classes() string {
	if len(r.Gen) == 0 {
		return "exact"
	}
	set := map[string]bool{}
	for _, p := range r.Gen {
		set[p.class] = true
	}
	var l []string
	for c := range set {
		l = append(l, c)
	}
	sort.Strings(l)
	return strings.Join(l, "+")
}

// tref is one table reference of a statement: its name and the schema / database qualifier it is
// written with ("" none).
type tref struct{ S, A string }

func (t tref) String() string {
	if t.S != "" {
		return t.S + "." + t.A
	}
	return t.A
}

// statement tables as the reference sees them
type tablesT struct {
	top    []tref // FROM tables incl. joins / INSERT target
	nested []tref // tables of sub-selects, derived tables, INSERT...SELECT source
	other  []tref // UPDATE / DELETE target, UNION branch tables: outside "reads from / inserts into at top level"
}

func collectTables(n *N, into *[]tref) {
	if n.K == "tbl" {
		*into = append(*into, tref{n.S, n.A})
	}
	for _, c := range n.C {
		collectTables(c, into)
	}
}

func stmtTables(s *stmtT) tablesT {
	var t tablesT
	var fromRec func(n *N)
	fromRec = func(n *N) {
		switch n.K {
		case "tbl":
			t.top = append(t.top, tref{n.S, n.A})
		case "join":
			fromRec(n.C[0])
			fromRec(n.C[1])
			collectTables(n.C[2], &t.nested)
		case "dtbl":
			collectTables(n, &t.nested)
		}
	}
	root := s.Root
	switch root.K {
	case "select":
		for _, c := range root.C {
			if c.K == "from" {
				for _, f := range c.C {
					fromRec(f)
				}
			} else {
				collectTables(c, &t.nested)
			}
		}
	case "insert":
		for _, c := range root.C {
			if c.K == "tbl" {
				t.top = append(t.top, tref{c.S, c.A})
			} else {
				collectTables(c, &t.nested)
			}
		}
	default:
		collectTables(root, &t.other)
	}
	return t
}

func deriveRules(pool []*stmtT) []*ruleT {
	var rules []*ruleT
	seen := map[string]bool{}
	add := func(r *ruleT) {
		k := r.Kind + "\x00" + r.text(pool, "mysql")
		if seen[k] {
			return
		}
		seen[k] = true
		rules = append(rules, r)
	}
	for si, s := range pool {
		add(&ruleT{Kind: "queries", Src: si})
		// every table of the statement as a `tables` rule: its bare name (the documented form of the
		// rule) and, when the statement writes it with a schema / database qualifier, that spelling too
		var tb []tref
		collectTables(s.Root, &tb)
		for _, t := range tb {
			add(&ruleT{Kind: "tables", Src: -1, Table: t.A})
			if t.S != "" {
				add(&ruleT{Kind: "tables", Src: -1, Table: t.String()})
			}
		}
		for _, g := range antichains(positions(s)) {
			add(&ruleT{Kind: "patterns", Src: si, Gen: g})
		}
	}
	return rules
}

// ---- reference matcher for patterns -----------------------------------------------------------

// refMatcher decides whether statement q is "equal to the pattern's source statement outside the
// generalised positions", with the documented placeholder semantics at the generalised positions:
//
//	%%VALUE%%          any single literal (string, number, TRUE/FALSE, NULL) or function call; not a
//	                   column, not a sub-select                          (TestAllowValuePattern)
//	%%LIST_OF_VALUES%% any non-empty list of such values; not a sub-select  (TestPatternsInWhereClauses)
//	%%COLUMN%%         any column with the same qualifier; also a literal / function call / sub-select
//	                   standing in the column's place (TestAllowColumnsPattern); `*`, TRUE/FALSE, NULL in
//	                   its place: not compared
//	(%%SUBQUERY%%)     any sub-select (SELECT or UNION); nothing else      (TestPatternsInWhereClauses)
//	%%WHERE%%          any WHERE clause of a SELECT (TestAllowWherePattern). A statement without WHERE
//	                   clause, and %%WHERE%% in UPDATE / DELETE patterns (not covered by the repository's
//	                   documentation and tests): not compared
//	%%SELECT%% ...     any statement of that kind (%%INSERT%% includes REPLACE; %%SELECT%% excludes UNION)
//	                                                                     (TestMatchTopLevelPlaceholders)
//	a select list that is exactly `*` admits any select list             (TestAllowStarPattern)
//
// Identifiers (tables, columns, aliases, function names) compare case-insensitively in patterns
// (sqlparser.ColIdent.Equal / areEqualTableIdent are documented case-insensitive); literals exactly.
type refMatcher struct {
	gen  map[int]bool
	role string // clause being compared (diagnosis only)
	diff string // first definite difference found (diagnosis only)
}

func (m *refMatcher) fail(what string) tri {
	if m.diff == "" {
		m.diff = what
		if m.role != "" && !strings.HasPrefix(what, m.role) {
			m.diff = m.role + ":" + what
		}
	}
	return no
}

func (m *refMatcher) placeholder(q, p *N) tri {
	switch p.K {
	case "select", "union", "insert", "update", "delete":
		if q.K == p.K {
			return yes
		}
		return m.fail("statement-kind")
	case "where":
		if q.K == "where" {
			return yes
		}
		return m.fail("where")
	case "subq":
		if q.K == "subq" {
			return yes
		}
		return m.fail("SUBQUERY-vs-" + q.K)
	case "list":
		switch q.K {
		case "list":
			r := yes
			for _, e := range q.C {
				if !isLiteral(e.K) && e.K != "func" {
					r = unk
				}
			}
			if len(q.C) == 0 {
				r = unk
			}
			return r
		case "subq":
			return m.fail("LIST-vs-subq")
		}
		return unk
	case "col":
		switch {
		case q.K == "col":
			if strings.EqualFold(q.Q, p.Q) {
				return yes
			}
			return m.fail("column-qualifier")
		case (q.K == "int" || q.K == "str" || q.K == "float" || q.K == "func" || q.K == "subq") && p.Q == "":
			return yes
		}
		return unk
	default: // literal generalised to %%VALUE%%
		switch {
		case isLiteral(q.K), q.K == "func":
			return yes
		case q.K == "col", q.K == "subq":
			return m.fail("VALUE-vs-" + q.K)
		}
		return unk
	}
}

func atomEqual(q, p *N) bool {
	switch p.K {
	case "tbl", "col", "func", "dtbl":
		return strings.EqualFold(q.A, p.A) && strings.EqualFold(q.Q, p.Q) && strings.EqualFold(q.S, p.S)
	case "ob":
		d := func(s string) string {
			if s == "" {
				return "asc"
			}
			return s
		}
		return d(q.A) == d(p.A)
	}
	return q.A == p.A && q.Q == p.Q && q.S == p.S
}

func (m *refMatcher) node(q, p *N) tri {
	if m.gen[p.id] {
		return m.placeholder(q, p)
	}
	if p.K == "cols" && len(p.C) == 1 && p.C[0].K == "star" {
		if q.K == "cols" {
			return yes // documented star pattern
		}
		return m.fail("cols")
	}
	if q.K != p.K {
		return m.fail(p.K + "-vs-" + q.K)
	}
	if p.K == "args" && len(p.C) == 1 && p.C[0].K == "star" && !(len(q.C) == 1 && q.C[0].K == "star") {
		return unk // f(*) against f(x): not documented
	}
	if !atomEqual(q, p) {
		return m.fail(p.K)
	}
	switch p.K {
	case "select", "insert", "update", "delete":
		res := yes
		roles := []string{}
		seen := map[string]bool{}
		for _, c := range append(append([]*N{}, p.C...), q.C...) {
			if !seen[c.K] {
				seen[c.K] = true
				roles = append(roles, c.K)
			}
		}
		// %%WHERE%% of a SELECT pattern: the repository documents (TestConfigurationProvider, example
		// configuration) that `... %%WHERE%%` also matches a statement that goes on with ORDER BY after
		// its WHERE clause, i.e. the placeholder stands for the rest of the statement. Clauses after a
		// generalised WHERE are therefore: admitted when the pattern has none; not compared when the
		// pattern has its own and they differ.
		whereGen := false
		if wp := p.child("where"); wp != nil && p.K == "select" && m.gen[wp.id] {
			whereGen = true
		}
		trailing := map[string]bool{"group": true, "having": true, "order": true, "limit": true}
		for _, role := range roles {
			pc, qc := p.child(role), q.child(role)
			m.role = role
			if whereGen && trailing[role] {
				switch {
				case pc == nil:
					// swallowed by %%WHERE%%
				case qc == nil:
					res = and3(res, unk)
				default:
					save := m.diff
					if m.node(qc, pc) != yes {
						m.diff = save
						res = and3(res, unk)
					}
				}
				continue
			}
			switch {
			case pc == nil:
				res = and3(res, m.fail(role+"-extra"))
			case qc == nil:
				if role == "where" && m.gen[pc.id] {
					res = and3(res, unk) // %%WHERE%% against a statement without WHERE: not documented
				} else {
					res = and3(res, m.fail(role+"-missing"))
				}
			default:
				r := m.node(qc, pc)
				if role == "where" && m.gen[pc.id] && p.K != "select" {
					r = and3(r, unk) // %%WHERE%% in UPDATE / DELETE patterns: outside the documented domain
				}
				res = and3(res, r)
			}
		}
		return res
	}
	if len(q.C) != len(p.C) {
		return m.fail(p.K + "-length")
	}
	res := yes
	for i := range p.C {
		res = and3(res, m.node(q.C[i], p.C[i]))
	}
	return res
}

// refPattern: does the pattern (src, gen) match statement q.
func refPattern(pool []*stmtT, r *ruleT, q *stmtT) (tri, string) {
	m := &refMatcher{gen: r.genSet()}
	res := m.node(q.Root, pool[r.Src].Root)
	return res, m.diff
}

// termEqual compares two statement terms exactly; fold reports equality up to identifier case and
// optional identifier quoting.
func termEqual(a, b *N) (exact, fold bool) {
	if a.K != b.K || len(a.C) != len(b.C) {
		return false, false
	}
	exact = a.A == b.A && a.Q == b.Q && a.S == b.S && a.Quoted == b.Quoted
	fold = exact
	if !exact {
		switch a.K {
		case "tbl", "col", "func", "dtbl":
			fold = strings.EqualFold(a.A, b.A) && strings.EqualFold(a.Q, b.Q) && strings.EqualFold(a.S, b.S)
		}
	}
	if !fold {
		return false, false
	}
	for i := range a.C {
		e, f := termEqual(a.C[i], b.C[i])
		if !f {
			return false, false
		}
		exact = exact && e
	}
	return exact, true
}

// refQuery: a `queries` rule matches the same statement up to formatting (literal values are part
// of the statement: TestAllowQueries / TestDenyQueries). Same statement up to identifier case: not
// compared.
func refQuery(pool []*stmtT, r *ruleT, si int) tri {
	if r.Src == si {
		return yes
	}
	exact, fold := termEqual(pool[r.Src].Root, pool[si].Root)
	switch {
	case exact:
		return yes
	case fold:
		return unk
	}
	return no
}

// listed: is table t of a statement named by the `tables` rules of one handler. A rule is a bare
// table name (the documented form) or a name written with a schema / database qualifier.
//
//	bare rule R, table written t           : R == t => yes
//	bare rule R, table written s.t         : R == t => deny: yes - the statement reads from / inserts into a
//	                                         table named R, and a rule that a client could step around by
//	                                         naming the schema the connection works in would deny nothing;
//	                                         allow: not compared (whether the allowed table R and s.R are one
//	                                         table depends on the connection's schema, unknown to the firewall)
//	qualified rule s.R, table written s.t  : s.R == s.t => yes (the table exactly as the rule names it)
//	qualified rule s.R, table written t    : R == t => not compared (same reason)
//	names that agree only up to case       : not compared
func listed(handlerKind string, set []string, t tref) tri {
	res := no
	for _, rule := range set {
		rs, ra := "", rule
		if i := strings.Index(rule, "."); i >= 0 {
			rs, ra = rule[:i], rule[i+1:]
		}
		m := no
		switch {
		case !strings.EqualFold(ra, t.A):
		case rs == "" && t.S == "":
			m = unk
			if ra == t.A {
				m = yes
			}
		case rs == "":
			m = unk
			if ra == t.A && handlerKind == "deny" {
				m = yes
			}
		case t.S == "":
			m = unk
		case strings.EqualFold(rs, t.S):
			m = unk
			if rs == t.S && ra == t.A {
				m = yes
			}
		}
		res = or3(res, m)
	}
	return res
}

// refTables: `tables` rules of one handler taken as a set. deny: some table the statement reads from
// / inserts into (top level, joins included) is listed (TestDenyTables, TestDifferentTablesParsing);
// allow: all of them are listed (TestAllowTables). Tables only reachable through sub-selects, derived
// tables, INSERT...SELECT sources, UNION branches, and UPDATE / DELETE targets are outside the
// reference's domain whenever they could change the answer. Table names that agree only up to case
// and the qualified spellings named at `listed`: not compared.
func refTables(handlerKind string, set []string, t tablesT) tri {
	touch := func(names []tref) (anyYes, anyUnk, anyNo bool) {
		for _, n := range names {
			switch listed(handlerKind, set, n) {
			case yes:
				anyYes = true
			case unk:
				anyUnk = true
			default:
				anyNo = true
			}
		}
		return
	}
	topYes, topUnk, topNo := touch(t.top)
	nestYes, nestUnk, _ := touch(t.nested)
	othYes, othUnk, othNo := touch(t.other)
	if handlerKind == "deny" {
		switch {
		case topYes:
			return yes
		case topUnk || nestYes || nestUnk || othYes || othUnk:
			return unk
		}
		return no
	}
	// allow
	if len(t.other) > 0 {
		if othNo {
			return no
		}
		return unk
	}
	if len(t.top) == 0 {
		return unk // no table at top level (SELECT 1, derived table only)
	}
	if topNo {
		return no // some top-level table is listed under no reading
	}
	if topUnk {
		return unk
	}
	if len(t.nested) > 0 {
		// all top-level tables listed; the nested ones decide under one reading and not under the other
		return unk
	}
	return yes
}
