package kslab

import (
	"os"
	"testing"
)

func TestMemFSAgainstFileStorage(t *testing.T) {
	seqs, ops, err := SelfTestMemFS(selfTestScratch(t), 300, !testing.Short())
	if err != nil {
		t.Fatal(err)
	}
	t.Logf("%d sequences, %d operations compared", seqs, ops)
}

func selfTestScratch(t *testing.T) string {
	if fi, err := os.Stat("/dev/shm"); err == nil && fi.IsDir() {
		d, err := os.MkdirTemp("/dev/shm", "verif-kslab-")
		if err == nil {
			t.Cleanup(func() { os.RemoveAll(d) })
			return d
		}
	}
	return t.TempDir()
}
