package main

// The v2 low-level key ring API under faults: AddKey, SetCurrent, SetState, DestroyKey on a
// long-lived api.MutableKeyRing handle (the objects whose in-memory transaction log must be
// rolled back when the write fails). Space: every history of ring operations of depth <= 2 on
// one ring handle, every enabled operation as the final one, every back-end call of it x every
// fault mode. Oracle: the stored ring (read through an independent handle) is the old or the
// new one; in error mode the SAME ring handle shows exactly what is stored (no phantom key,
// no phantom state) and every follow-up operation on it succeeds and persists exactly itself;
// after a crash the same holds for a ring handle opened after the restart.

import (
	"crypto/rand"
	"crypto/sha256"
	"encoding/hex"
	"fmt"
	"strings"
	"sync/atomic"
	"time"

	apiV2 "github.com/cossacklabs/acra/keystore/v2/keystore/api"

	"verif/ev"
	"verif/kslab"
	"verif/par"
)

const ringPath = "client/alpha_1/storage-sym"

var ringOps = []string{"AddKey", "SetCurrent", "SetState", "DestroyKey"}

type ringReplay struct {
	History  []string `json:"history"`
	Op       string   `json:"op"`
	Call     int      `json:"call_index"`
	Mode     string   `json:"fault_mode"`
	FollowUp string   `json:"follow_up,omitempty"`
}

type mkey struct {
	seq   int
	state apiV2.KeyState
	id    string // first bytes of SHA-256 of the key, "" when destroyed
}

type mring struct {
	keys []mkey
	cur  int // 0 = none
}

func (m mring) String() string {
	var p []string
	for _, k := range m.keys {
		id := k.id
		if id == "" {
			id = "-"
		}
		p = append(p, fmt.Sprintf("%d:%d:%s", k.seq, k.state, id))
	}
	return fmt.Sprintf("cur=%d [%s]", m.cur, strings.Join(p, " "))
}

func (m mring) clone() mring { return mring{keys: append([]mkey(nil), m.keys...), cur: m.cur} }

func keyID(b []byte) string { h := sha256.Sum256(b); return hex.EncodeToString(h[:5]) }

// enabled: which ring operations the model can execute, with the argument they get.
func (m mring) enabled(op string) (arg int, ok bool) {
	switch op {
	case "AddKey":
		return 0, true
	case "SetCurrent":
		if len(m.keys) == 0 {
			return 0, false
		}
		return m.keys[len(m.keys)-1].seq, true
	case "SetState":
		if n := len(m.keys); n > 0 && m.keys[n-1].state == apiV2.KeyPreActive {
			return m.keys[n-1].seq, true
		}
	case "DestroyKey":
		for _, k := range m.keys {
			if k.state == apiV2.KeyPreActive {
				return k.seq, true
			}
		}
	}
	return 0, false
}

// after is the reference model of one ring operation.
func (m mring) after(op string, newID string) mring {
	n := m.clone()
	arg, _ := m.enabled(op)
	switch op {
	case "AddKey":
		seq := 1
		if l := len(n.keys); l > 0 {
			seq = n.keys[l-1].seq + 1
		}
		n.keys = append(n.keys, mkey{seq, apiV2.KeyPreActive, newID})
	case "SetCurrent":
		n.cur = arg
	case "SetState":
		for i := range n.keys {
			if n.keys[i].seq == arg {
				n.keys[i].state = apiV2.KeyActive
			}
		}
	case "DestroyKey":
		for i := range n.keys {
			if n.keys[i].seq == arg {
				n.keys[i].state, n.keys[i].id = apiV2.KeyDestroyed, ""
			}
		}
	}
	return n
}

// viewOf reads a ring through the key ring API (no storage access by itself).
func viewOf(r apiV2.KeyRing) (m mring, err error) {
	defer func() {
		if v := recover(); v != nil {
			err = fmt.Errorf("panic: %v", v)
		}
	}()
	seqs, err := r.AllKeys()
	if err != nil {
		return m, err
	}
	for i := len(seqs) - 1; i >= 0; i-- { // AllKeys is newest first
		s := seqs[i]
		st, err := r.State(s)
		if err != nil {
			return m, err
		}
		k := mkey{seq: s, state: st}
		if st != apiV2.KeyDestroyed {
			b, err := r.SymmetricKey(s, apiV2.ThemisSymmetricKeyFormat)
			if err != nil {
				return m, fmt.Errorf("key %d: %v", s, err)
			}
			k.id = keyID(b)
		}
		m.keys = append(m.keys, k)
	}
	if c, err := r.CurrentKey(); err == nil {
		m.cur = c
	}
	return m, nil
}

type ringSys struct {
	s    *kslab.Store
	ring apiV2.MutableKeyRing
}

func newRingSys() *ringSys {
	s, err := kslab.Open(kslab.Config{Format: "v2", Storage: "mem"}, "c08-ring")
	if err != nil {
		ev.Fatalf("ring space: %v", err)
	}
	rs := &ringSys{s: s}
	rs.open()
	return rs
}

func (rs *ringSys) open() {
	err := guard(func() (err error) { rs.ring, err = rs.s.V2.OpenKeyRingRW(ringPath); return err })
	if err != nil {
		rs.ring = nil
	}
}

// do executes one ring operation on the held handle; returns the id of the key it tried to add.
func (rs *ringSys) do(op string, m mring) (newID string, err error) {
	return rs.doID(op, m, new(string))
}

// doID also stores the id of the key being added in *idOut before any storage access (a
// simulated crash unwinds out of this function).
func (rs *ringSys) doID(op string, m mring, idOut *string) (newID string, err error) {
	arg, _ := m.enabled(op)
	switch op {
	case "AddKey":
		b := make([]byte, 32)
		rand.Read(b)
		newID = keyID(b)
		*idOut = newID
		now := time.Unix(1700000000, 0)
		err = guard(func() error {
			_, err := rs.ring.AddKey(apiV2.KeyDescription{ValidSince: now, ValidUntil: now.Add(time.Hour),
				Data: []apiV2.KeyData{{Format: apiV2.ThemisSymmetricKeyFormat, SymmetricKey: b}}})
			return err
		})
	case "SetCurrent":
		err = guard(func() error { return rs.ring.SetCurrent(arg) })
	case "SetState":
		err = guard(func() error { return rs.ring.SetState(arg, apiV2.KeyActive) })
	case "DestroyKey":
		err = guard(func() error { return rs.ring.DestroyKey(arg) })
	}
	return newID, err
}

func (rs *ringSys) stored() (mring, error) {
	r, err := rs.s.SideV2().OpenKeyRing(ringPath)
	if err != nil {
		return mring{}, err
	}
	return viewOf(r)
}

func ringCallName(c kslab.Call) string {
	w := &world{cfg: kslab.Config{Format: "v2"}}
	return w.callName(c)
}

type ringStats struct{ pairs, faults, followUps atomic.Int64 }

// ringElement runs history + final operation with an optional fault and an optional follow-up.
// follow == "" : judge the post-fault views only and return the list of follow-ups to run.
func ringElement(r *ev.Run, st *ringStats, hist []string, op string, fs *faultSpec, calls []kslab.Call, follow string, trace bool) (log []kslab.Call, follows []string) {
	rs := newRingSys()
	defer rs.s.Close()
	if rs.ring == nil {
		ev.Fatalf("ring space: cannot open the ring")
	}
	m := mring{}
	for _, h := range hist {
		id, err := rs.do(h, m)
		if err != nil {
			ev.Fatalf("ring space: history %v: %s failed without fault: %v", hist, h, err)
		}
		m = m.after(h, id)
	}
	pre := m
	be := rs.s.Backend
	be.ResetLog()
	be.Record(true)
	var target kslab.Call
	if fs != nil {
		target = calls[fs.k]
		be.SetHook(hookFor(rs.s, *fs, target))
	}
	var id string
	var err error
	crash := kslab.Crashable(func() { _, err = rs.doID(op, pre, &id) })
	be.SetHook(nil)
	be.Record(false)
	log = be.Log()
	neu := pre.after(op, id)
	if fs == nil {
		got, serr := rs.stored()
		r.Eval(1)
		if err != nil || serr != nil || got.String() != neu.String() {
			r.Violation(fmt.Sprintf("C08/v2/ring-%s/no-fault/differs-from-model", op), fmt.Sprintf("%s after %v without fault: err=%v, stored %s (%v), model %s", op, hist, err, got, serr, neu), replayT{Call: -1, Ring: &ringReplay{History: hist, Op: op, Call: -1}})
		}
		return log, nil
	}
	if len(log) <= fs.k || log[fs.k].Op != target.Op {
		ev.Fatalf("ring space: faulted run of %s after %v did not repeat the seam calls (call %d)", op, hist, fs.k)
	}
	pl := replayT{Call: fs.k, Ring: &ringReplay{History: hist, Op: op, Call: fs.k, Mode: fs.mode, FollowUp: follow}}
	w := &world{cfg: kslab.Config{Format: "v2"}}
	site := w.siteLabel(log, fs.k, fs.mode, crash != nil || err != nil)
	base := fmt.Sprintf("C08/v2/ring-%s/%s/", op, site)
	what := fmt.Sprintf("%s on a key ring handle after %v, %s at back-end call #%d %s", op, hist, fs.mode, fs.k+1, ringCallName(target))
	if crash != nil {
		if e := rs.s.Reopen(); e != nil {
			r.Violation(base+"key-store-cannot-be-opened", what+": "+e.Error(), pl)
			return log, nil
		}
		rs.open()
	}
	stored, serr := rs.stored()
	if follow == "" {
		st.faults.Add(1)
		r.Transitions(1)
		r.Eval(1)
	}
	var cur mring
	class := ""
	switch {
	case serr != nil:
		class = "stored-ring-unreadable"
	case stored.String() == pre.String():
		cur, class = pre, "old"
	case stored.String() == neu.String():
		cur, class = neu, "new"
	default:
		class = "stored-ring-neither-old-nor-new"
	}
	if trace {
		fmt.Printf("  ring: %s -> err=%v crashed=%v stored=%s (%v) class=%s\n", what, err, crash != nil, stored, serr, class)
	}
	if follow == "" {
		r.Class("ring:"+class, 1)
		r.Distinct("v2|ring-" + op + "|" + ringCallName(target) + "|" + fs.mode + "|" + class)
	}
	if class != "old" && class != "new" {
		if follow == "" {
			r.Violation(fmt.Sprintf("C08/v2/ring-%s/%s", op, class), fmt.Sprintf("%s: stored ring is %s (%v); before %s, complete operation gives %s", what, stored, serr, pre, neu), pl)
		}
		return log, nil
	}
	if rs.ring == nil {
		if follow == "" {
			r.Violation(base+"ring-cannot-be-opened-for-writing", what+": OpenKeyRingRW fails afterwards", pl)
		}
		return log, nil
	}
	if follow == "" {
		// the handle's own view (no storage access): must be what is stored
		hv, herr := viewOf(rs.ring)
		r.Eval(1)
		if herr != nil || hv.String() != cur.String() {
			k := "same-handle-shows-what-is-not-stored"
			if crash != nil {
				k = "reopened-handle-shows-what-is-not-stored"
			}
			r.Violation(base+k, fmt.Sprintf("%s (returned %v): the ring handle now shows %s (%v) but the storage holds %s", what, err, hv, herr, cur), pl)
		}
		for _, f := range ringOps {
			if _, ok := cur.enabled(f); ok {
				follows = append(follows, f)
			}
		}
		return log, follows
	}
	// one follow-up on the same (error mode) / reopened (crash) handle
	st.followUps.Add(1)
	r.Transitions(1)
	r.Eval(1)
	fid, ferr := rs.do(follow, cur)
	want := cur.after(follow, fid)
	got, gerr := rs.stored()
	if trace {
		fmt.Printf("      follow-up %s -> err=%v stored=%s (%v) want=%s\n", follow, ferr, got, gerr, want)
	}
	how := "same-handle"
	if crash != nil {
		how = "reopened-handle"
	}
	switch {
	case ferr != nil:
		if p, ok := kslab.IsPanic(ferr); ok {
			r.Violation(base+how+"/"+follow+"-panics@"+p.Site(), fmt.Sprintf("%s; then %s on the %s panicked: %s", what, follow, how, p.Value), pl)
		} else {
			r.Violation(base+how+"/later-writes-blocked", fmt.Sprintf("%s; then %s on the %s fails: %v (stored ring: %s)", what, follow, how, ferr, stored), pl)
		}
	case gerr != nil || got.String() != want.String():
		r.Violation(base+how+"/later-write-persists-more-than-itself", fmt.Sprintf("%s; then %s on the %s succeeded but the storage holds %s (%v), expected %s: the failed operation was not rolled back in the handle", what, follow, how, got, gerr, want), pl)
	}
	return log, nil
}

func ringHistories(depth int) [][]string {
	out := [][]string{nil}
	frontier := [][]string{nil}
	model := func(h []string) mring {
		m := mring{}
		for i, op := range h {
			m = m.after(op, fmt.Sprint("k", i))
		}
		return m
	}
	for d := 0; d < depth; d++ {
		var next [][]string
		for _, h := range frontier {
			m := model(h)
			for _, op := range ringOps {
				if _, ok := m.enabled(op); ok {
					nh := append(append([]string(nil), h...), op)
					next = append(next, nh)
					out = append(out, nh)
				}
			}
		}
		frontier = next
	}
	return out
}

func ringModel(h []string) mring {
	m := mring{}
	for i, op := range h {
		m = m.after(op, fmt.Sprint("k", i))
	}
	return m
}

// ringSpace enumerates the ring API space.
func ringSpace(r *ev.Run) map[string]int {
	depth := 2
	type rjob struct {
		hist []string
		op   string
	}
	var jobs []rjob
	for _, h := range ringHistories(depth) {
		m := ringModel(h)
		for _, op := range ringOps {
			if _, ok := m.enabled(op); ok {
				jobs = append(jobs, rjob{h, op})
			}
		}
	}
	st := &ringStats{}
	par.Do(len(jobs), r.Expired, func(i int) {
		j := jobs[i]
		st.pairs.Add(1)
		r.States(1)
		calls, _ := ringElement(r, st, j.hist, j.op, nil, nil, "", false)
		for k, c := range calls {
			for _, m := range modesFor(c) {
				fs := &faultSpec{k: k, mode: m}
				_, follows := ringElement(r, st, j.hist, j.op, fs, calls, "", false)
				for _, f := range follows {
					ringElement(r, st, j.hist, j.op, fs, calls, f, false)
				}
			}
		}
	})
	return map[string]int{"history_depth": depth, "history_operation_pairs": int(st.pairs.Load()), "faulted_executions": int(st.faults.Load()), "follow_up_operations": int(st.followUps.Load())}
}
