// Package message: pure-Go stand-in for gothemis/message (encrypt mode only): X25519 shared
// secret + the Seal stand-in, wrapped in an 8-byte header so that a wrapped 32-byte key is
// 84 bytes as with Themis.
package message

import (
	"crypto/ecdh"
	"encoding/binary"

	"github.com/cossacklabs/themis/gothemis/cell"
	"github.com/cossacklabs/themis/gothemis/errors"
	"github.com/cossacklabs/themis/gothemis/keys"
)

var (
	ErrEncryptMessage    = errors.New("failed to encrypt message")
	ErrDecryptMessage    = errors.New("failed to decrypt message")
	ErrSignMessage       = errors.New("failed to sign message")
	ErrVerifyMessage     = errors.New("failed to verify message")
	ErrProcessMessage    = errors.New("failed to process message")
	ErrGetOutputSize     = errors.New("failed to get output size")
	ErrMissingMessage    = errors.NewWithCode(errors.InvalidParameter, "empty message for Secure Cell")
	ErrMissingPublicKey  = errors.NewWithCode(errors.InvalidParameter, "empty peer public key for Secure Message")
	ErrMissingPrivateKey = errors.NewWithCode(errors.InvalidParameter, "empty private key for Secure Message")
	ErrOutOfMemory       = errors.NewWithCode(errors.NoMemory, "Secure Message cannot allocate enough memory")
	ErrOverflow          = ErrOutOfMemory
)

const magic = 0x26040020

type SecureMessage struct {
	private    *keys.PrivateKey
	peerPublic *keys.PublicKey
}

func New(private *keys.PrivateKey, peerPublic *keys.PublicKey) *SecureMessage {
	return &SecureMessage{private, peerPublic}
}

func (sm *SecureMessage) shared() ([]byte, error) {
	if sm.private == nil || len(sm.private.Value) == 0 {
		return nil, ErrMissingPrivateKey
	}
	if sm.peerPublic == nil || len(sm.peerPublic.Value) == 0 {
		return nil, ErrMissingPublicKey
	}
	if len(sm.private.Value) != 45 || string(sm.private.Value[:4]) != "REC2" {
		return nil, ErrProcessMessage
	}
	if len(sm.peerPublic.Value) != 45 || string(sm.peerPublic.Value[:4]) != "UEC2" {
		return nil, ErrProcessMessage
	}
	priv, err := ecdh.X25519().NewPrivateKey(sm.private.Value[13:])
	if err != nil {
		return nil, ErrProcessMessage
	}
	pub, err := ecdh.X25519().NewPublicKey(sm.peerPublic.Value[13:])
	if err != nil {
		return nil, ErrProcessMessage
	}
	s, err := priv.ECDH(pub)
	if err != nil {
		return nil, ErrProcessMessage
	}
	return s, nil
}

func (sm *SecureMessage) Wrap(message []byte) ([]byte, error) {
	if len(message) == 0 {
		return nil, ErrMissingMessage
	}
	s, err := sm.shared()
	if err != nil {
		return nil, err
	}
	c, _ := cell.SealWithKey(&keys.SymmetricKey{Value: s})
	enc, err := c.Encrypt(message, nil)
	if err != nil {
		return nil, ErrEncryptMessage
	}
	out := make([]byte, 8, 8+len(enc))
	binary.LittleEndian.PutUint32(out, magic)
	binary.LittleEndian.PutUint32(out[4:], uint32(8+len(enc)))
	return append(out, enc...), nil
}

func (sm *SecureMessage) Unwrap(message []byte) ([]byte, error) {
	if len(message) == 0 {
		return nil, ErrMissingMessage
	}
	s, err := sm.shared()
	if err != nil {
		return nil, err
	}
	if len(message) < 8 || binary.LittleEndian.Uint32(message) != magic ||
		uint64(binary.LittleEndian.Uint32(message[4:])) != uint64(len(message)) {
		return nil, ErrDecryptMessage
	}
	c, _ := cell.SealWithKey(&keys.SymmetricKey{Value: s})
	pt, err := c.Decrypt(message[8:], nil)
	if err != nil {
		return nil, ErrDecryptMessage
	}
	return pt, nil
}

func (sm *SecureMessage) Sign(message []byte) ([]byte, error)   { return nil, ErrSignMessage }
func (sm *SecureMessage) Verify(message []byte) ([]byte, error) { return nil, ErrVerifyMessage }
