package main

// Verdict phase: enumeration of the configuration space, judgement of every verdict of the real
// AcraCensor against the reference, diagnosis of disagreements into stable finding keys.

import (
	"fmt"
	"os"
	"sort"
	"strings"
	"sync/atomic"
	"time"

	"verif/ev"
	"verif/par"
)

type replayT struct {
	Tier      string  `json:"tier"`
	Dialect   string  `json:"dialect"`
	Config    configT `json:"config"`
	Stmt      int     `json:"statement_index"` // pool index, or -(k+1) for unparsable string k
	Variant   int     `json:"variant"`
	Stack     []int   `json:"stacked_statements,omitempty"` // stacked message: pool indices of its statements (Stmt = the first)
	Spelling  int     `json:"stack_spelling,omitempty"`
	YAML      string  `json:"yaml"`
	Statement string  `json:"statement"`
	Expected  string  `json:"expected"`
	Observed  string  `json:"observed"`
}

// acc collects the counts of one job; flushed once (ev's methods take a lock).
type acc struct {
	evals, transitions, skipped int
	classes                     map[string]int
	distinct                    map[string]struct{}
}

func newAcc() *acc { return &acc{classes: map[string]int{}, distinct: map[string]struct{}{}} }

func (a *acc) flush(r *ev.Run) {
	r.Eval(a.evals)
	r.Transitions(a.transitions)
	for k, n := range a.classes {
		r.Class(k, n)
	}
	for k := range a.distinct {
		r.Distinct(k)
	}
}

var notCompared atomic.Int64

func (w *world) stmtKind(si int) string {
	if si < 0 {
		return "unparsable"
	}
	root := w.pool[si].Root
	if root.K == "insert" {
		k := root.A
		if root.child("select") != nil || root.child("union") != nil {
			k += "-select"
		}
		return k
	}
	return root.K
}

func (w *world) ruleKinds(c configT) string {
	var l []string
	for _, h := range c.Chain {
		s := h.Kind
		set := map[string]bool{}
		for _, ri := range h.Rules {
			set[w.rules[ri].Kind[:1]+":"+w.rules[ri].classes()] = true
		}
		var ks []string
		for k := range set {
			ks = append(ks, k)
		}
		sort.Strings(ks)
		if len(ks) > 0 {
			s += "[" + strings.Join(ks, ";") + "]"
		}
		l = append(l, s)
	}
	return strings.Join(l, ",")
}

func (w *world) stmtText(d string, si, variant int) string {
	if si < 0 {
		return unparsable[-si-1]
	}
	return w.texts[d][si][variant]
}

// probe: does handler h alone match the text (real AcraCensor, real loader).
func (w *world) probe(d string, h handlerT, q string) (matched bool, class string) {
	c := configT{Chain: []handlerT{h}}
	if h.Kind != "deny" {
		c.Chain = append(c.Chain, handlerT{Kind: "denyall"})
	}
	censor, err := load(w.yamlOf(c, d))
	if err != nil {
		return false, "load:" + err.Error()
	}
	defer censor.ReleaseAll()
	class = handle(censor, q)
	if h.Kind == "deny" {
		return class != "accept", class
	}
	return class == "accept", class
}

// units splits an allow / deny handler into its independently judged parts: every queries /
// patterns rule alone, the tables rules together (they act as a set).
func (w *world) units(h handlerT) []handlerT {
	var out []handlerT
	var tb []int
	for _, ri := range h.Rules {
		if w.rules[ri].Kind == "tables" {
			tb = append(tb, ri)
		} else {
			out = append(out, handlerT{Kind: h.Kind, Rules: []int{ri}})
		}
	}
	if len(tb) > 0 {
		out = append(out, handlerT{Kind: h.Kind, Rules: tb})
	}
	return out
}

// activeClasses: what a missed match depended on - the placeholder classes (with clause) of the
// generalised positions at which q really differs from the pattern's source statement, and
// "identifier-case" when q agrees with the pattern outside the placeholders only up to identifier case.
func (w *world) activeClasses(r *ruleT, si int) string {
	src := w.pool[r.Src]
	q := w.pool[si]
	gen := map[int]posT{}
	for _, p := range r.Gen {
		gen[p.id] = p
	}
	set := map[string]bool{}
	var rec func(qn, pn *N)
	rec = func(qn, pn *N) {
		if p, ok := gen[pn.id]; ok {
			if _, fold := termEqual(qn, pn); !fold {
				set[p.class+"@"+p.ctx] = true
			}
			return
		}
		if qn.K == pn.K && (qn.A != pn.A || qn.Q != pn.Q) {
			set["identifier-case"] = true
		}
		switch pn.K {
		case "select", "insert", "update", "delete":
			for _, pc := range pn.C {
				if qc := qn.child(pc.K); qc != nil {
					rec(qc, pc)
				}
			}
			return
		}
		if len(qn.C) != len(pn.C) {
			set["star-select-list"] = true
			return
		}
		for i := range pn.C {
			rec(qn.C[i], pn.C[i])
		}
	}
	rec(q.Root, src.Root)
	if len(set) == 0 {
		return "statement-equals-pattern-source"
	}
	var l []string
	for k := range set {
		l = append(l, k)
	}
	sort.Strings(l)
	return strings.Join(l, "+")
}

func (w *world) exactRule(src int) int {
	for ri, r := range w.rules {
		if r.Kind == "patterns" && r.Src == src && len(r.Gen) == 0 {
			return ri
		}
	}
	// the text of the exact pattern was first derived from another statement: find by text
	want := text(w.pool[src].Root, nil, "mysql", vAsIs)
	for ri, r := range w.rules {
		if r.Kind == "patterns" && w.ruleText["mysql"][ri] == want {
			return ri
		}
	}
	return -1
}

// unitKey names the defect class of one rule unit that disagrees with the reference.
func (w *world) unitKey(d string, u handlerT, si int, ref tri) string {
	dir := "rule-did-not-match"
	if ref == no {
		dir = "rule-matched-but-should-not"
	}
	r := w.rules[u.Rules[0]]
	switch r.Kind {
	case "queries":
		return fmt.Sprintf("C05/verdict/queries/%s/%s/%s", u.Kind, w.stmtKind(si), dir)
	case "tables":
		// the spelling of the statement's tables the disagreement may depend on: written with a schema /
		// database qualifier, written as quoted identifier
		quoted, qualified := false, false
		var rec func(n *N)
		rec = func(n *N) {
			if n.K == "tbl" && (n.Quoted || reserved[strings.ToLower(n.A)]) {
				quoted = true
			}
			if n.K == "tbl" && n.S != "" {
				qualified = true
			}
			for _, c := range n.C {
				rec(c)
			}
		}
		rec(w.pool[si].Root)
		nq := 0
		for _, ri := range u.Rules {
			if strings.Contains(w.rules[ri].Table, ".") {
				nq++
			}
		}
		if qualified || nq > 0 {
			form := "bare-rule"
			switch {
			case nq == len(u.Rules):
				form = "qualified-rule"
			case nq > 0:
				form = "bare-and-qualified-rules"
			}
			tb := "bare-table-name"
			if qualified {
				tb = "qualified-table-name"
			}
			return fmt.Sprintf("C05/verdict/tables/%s/%s/%s/%s", tb, form, w.pool[si].Root.K, dir)
		}
		if ref == yes && quoted {
			return "C05/verdict/tables/quoted-table-name/" + dir
		}
		return fmt.Sprintf("C05/verdict/tables/%s/%s/%s", u.Kind, w.stmtKind(si), dir)
	}
	srcKind := w.pool[r.Src].Root.K
	if ref == yes {
		if len(r.Gen) == 1 && r.Gen[0].class == "STMT" {
			return fmt.Sprintf("C05/verdict/pattern/%s/whole-statement-placeholder-did-not-match/%s", srcKind, w.stmtKind(si))
		}
		if ex := w.exactRule(r.Src); ex >= 0 {
			if m, _ := w.probe(d, handlerT{Kind: "deny", Rules: []int{ex}}, w.texts[d][r.Src][vAsIs]); !m {
				return fmt.Sprintf("C05/verdict/pattern/%s/pattern-without-placeholders-does-not-match-its-own-statement", srcKind)
			}
		}
		return fmt.Sprintf("C05/verdict/pattern/%s/%s/%s", srcKind, dir, w.activeClasses(r, si))
	}
	diff := w.refDiff[u.Rules[0]][si]
	if diff == "" {
		diff = "unknown-difference"
	}
	return fmt.Sprintf("C05/verdict/pattern/%s/%s/%s", srcKind, dir, diff)
}

// diagnose finds the rule unit whose behaviour alone contradicts the reference; when every unit
// agrees the chain evaluation itself is at fault.
func (w *world) diagnose(d string, c configT, si int, ref, obs string) (key, detail string) {
	if si < 0 {
		_, at := w.refChain(c, si)
		by := "parse-verdict"
		if at >= 0 {
			by = c.Chain[at].Kind
		} else if c.IPE {
			by = "end-of-chain"
		}
		return fmt.Sprintf("C05/verdict/unparsable/ignore_parse_error-%v/expected-%s/got-%s", c.IPE, ref, obs), "documented verdict decided by " + by
	}
	q := w.texts[d][si][vAsIs]
	for _, h := range c.Chain {
		switch h.Kind {
		case "allow", "deny":
			for _, u := range w.units(h) {
				rm := w.refHandler(u, si)
				if rm == unk {
					continue
				}
				m, class := w.probe(d, u, q)
				if strings.HasPrefix(class, "load:") {
					return fmt.Sprintf("C05/verdict/loader/%s-rule-rejected/%s", w.rules[u.Rules[0]].Kind, w.rules[u.Rules[0]].classes()),
						"rule " + w.ruleText[d][u.Rules[0]] + ": " + class
				}
				if m != (rm == yes) && w.rules[u.Rules[0]].Kind != "tables" {
					// the same rule under the other handler kind: when it behaves as documented there, the
					// rule matcher is fine and this handler's reaction to a (non-)match is at fault
					other := handlerT{Kind: "allow", Rules: u.Rules}
					if u.Kind == "allow" {
						other.Kind = "deny"
					}
					if mo, _ := w.probe(d, other, q); mo == (rm == yes) {
						what := "matching-rule-does-not-decide"
						if rm == no {
							what = "decides-without-a-matching-rule"
						}
						return fmt.Sprintf("C05/verdict/handler/%s/%s", u.Kind, what), fmt.Sprintf("rule %v matches=%v under %s as documented, but %s reacts as if matches=%v",
							w.unitTexts(d, u), mo, other.Kind, u.Kind, m)
					}
				}
				if m != (rm == yes) {
					return w.unitKey(d, u, si, rm), fmt.Sprintf("rule unit %s %v (%s) alone: reference match=%v, AcraCensor match=%v",
						u.Kind, w.unitTexts(d, u), w.rules[u.Rules[0]].Kind, rm, m)
				}
			}
		case "query_ignore":
			for _, qi := range h.Ignore {
				u := handlerT{Kind: "query_ignore", Ignore: []int{qi}}
				rm := w.refIgnore(u, si)
				if rm == unk {
					continue
				}
				m, _ := w.probe(d, u, q)
				if m != (rm == yes) {
					if rm == yes {
						return "C05/verdict/query_ignore/listed-statement-not-ignored", ""
					}
					return "C05/verdict/query_ignore/unlisted-statement-ignored", ""
				}
			}
		}
	}
	return fmt.Sprintf("C05/verdict/chain/%s/expected-%s/got-%s", c.shape(), ref, obs), "every rule alone agrees with the reference"
}

func (w *world) unitTexts(d string, u handlerT) []string {
	var l []string
	for _, ri := range u.Rules {
		l = append(l, w.ruleText[d][ri])
	}
	return l
}

// diagnoseVariant: which handler sees the variant differently from the as-is spelling.
func (w *world) diagnoseVariant(d string, c configT, si, variant int, obs0, obsV string) string {
	if obsV == "syntax" || obs0 == "syntax" {
		return fmt.Sprintf("C05/verdict/variant/%s/%s/parsed-differently", variantNames[variant], w.stmtKind(si))
	}
	q0, qv := w.texts[d][si][vAsIs], w.texts[d][si][variant]
	for _, h := range c.Chain {
		switch h.Kind {
		case "allow", "deny":
			for _, u := range w.units(h) {
				m0, _ := w.probe(d, u, q0)
				mv, _ := w.probe(d, u, qv)
				if m0 != mv {
					return fmt.Sprintf("C05/verdict/variant/%s-rule/%s/matches-one-spelling-only", w.rules[u.Rules[0]].Kind, w.stmtKind(si))
				}
			}
		case "query_ignore":
			m0, _ := w.probe(d, h, q0)
			mv, _ := w.probe(d, h, qv)
			if m0 != mv {
				return "C05/verdict/variant/query_ignore/ignores-one-spelling-only"
			}
		}
	}
	return fmt.Sprintf("C05/verdict/variant/chain/%s/%s", c.shape(), variantNames[variant])
}

// judge evaluates one (configuration, statement) on the loaded censor: every formatting variant is
// sent through the real HandleQuery; the as-is verdict is compared with the reference (when the
// reference has one), every other variant with the as-is verdict.
func (w *world) judge(r *ev.Run, a *acc, d string, c configT, censor interface{ HandleQuery(string) error }, yamlText []byte, si int) {
	ref, _ := w.refChain(c, si)
	nv := nVariants
	if si < 0 {
		nv = 1
	}
	var obs [nVariants]string
	for v := 0; v < nv; v++ {
		obs[v] = handle(censor, w.stmtText(d, si, v))
	}
	a.transitions += nv
	a.evals += nv
	kind := w.stmtKind(si)
	a.distinct[c.shape()+"|"+w.ruleKinds(c)+"|"+kind+"|"+obs[0]] = struct{}{}
	payload := func(v int, exp string) replayT {
		return replayT{Tier: r.Tier, Dialect: d, Config: c, Stmt: si, Variant: v, YAML: string(yamlText),
			Statement: w.stmtText(d, si, v), Expected: exp, Observed: obs[v]}
	}
	if strings.HasPrefix(obs[0], "panic:") {
		site := obs[0][len("panic:"):]
		if i := strings.Index(site, " "); i > 0 {
			site = site[:i]
		}
		r.Violation("C05/verdict/panic/"+site, fmt.Sprintf("%s dialect, chain [%s]: HandleQuery panicked on %q: %s", d, w.ruleKinds(c), w.stmtText(d, si, 0), obs[0]), payload(0, ref))
		a.classes["panic"]++
		return
	}
	switch {
	case ref == vUnk:
		a.skipped++
		a.classes["not-compared:"+kind+":"+accepted(obs[0])]++
	case accepted(obs[0]) == ref:
		a.classes["agree:"+ref]++
	default:
		a.classes["DISAGREE:"+kind]++
		key, detail := w.diagnose(d, c, si, ref, obs[0])
		r.Violation(key, fmt.Sprintf("%s dialect, chain [%s], ignore_parse_error=%v: statement %q: documented semantics => %s, AcraCensor => %s. %s",
			d, w.ruleKinds(c), c.IPE, w.stmtText(d, si, 0), ref, obs[0], detail), payload(0, ref))
	}
	for v := 1; v < nv; v++ {
		if accepted(obs[v]) != accepted(obs[0]) {
			a.classes["VARIANT-DISAGREE:"+variantNames[v]]++
			key := w.diagnoseVariant(d, c, si, v, obs[0], obs[v])
			r.Violation(key, fmt.Sprintf("%s dialect, chain [%s]: verdict %s for %q but %s for its %s spelling %q",
				d, w.ruleKinds(c), obs[0], w.stmtText(d, si, 0), obs[v], variantNames[v], w.stmtText(d, si, v)), payload(v, accepted(obs[0])))
		}
	}
}

// runConfig loads one configuration through the real loader and judges every statement and every
// stacked message of the layer on it.
func (w *world) runConfig(r *ev.Run, d string, c configT, stacks []stackT) {
	a := newAcc()
	defer a.flush(r)
	y := w.yamlOf(c, d)
	censor, err := load(y)
	r.Traces(1)
	if err != nil {
		// every rule of the space is built from documented placeholders at documented places
		kinds := w.ruleKinds(c)
		r.Violation("C05/verdict/loader/configuration-rejected/"+kinds,
			fmt.Sprintf("%s dialect: LoadConfiguration refused a derived configuration: %v", d, err),
			replayT{Tier: r.Tier, Dialect: d, Config: c, Stmt: 0, YAML: string(y), Statement: w.stmtText(d, 0, 0), Observed: "load:" + err.Error()})
		a.classes["load-error"]++
		return
	}
	defer censor.ReleaseAll()
	for si := range w.pool {
		w.judge(r, a, d, c, censor, y, si)
	}
	for k := range unparsable {
		w.judge(r, a, d, c, censor, y, -(k + 1))
	}
	if len(stacks) > 0 {
		verdicts := make([]string, len(w.pool))
		for _, st := range stacks {
			w.judgeStack(r, a, d, c, censor, y, st, verdicts)
		}
	}
	notCompared.Add(int64(a.skipped))
}

// ---- the configuration space ----------------------------------------------------------------

func (w *world) findRule(kind, stmt, sel string) int {
	want := ""
	switch kind {
	case "tables":
		want = stmt
	case "queries":
		want = text(w.pool[w.stmtIndex(stmt)].Root, nil, "mysql", vAsIs)
	case "patterns":
		s := w.pool[w.stmtIndex(stmt)]
		gen := map[int]bool{}
		ps := positions(s)
		switch sel {
		case "exact":
		case "stmt":
			gen[0] = true
		case "values": // every literal generalised (IN lists as %%LIST_OF_VALUES%%), nothing else
			for _, p := range ps {
				if p.class == "LIST" || p.class == "VALUE" {
					gen[p.id] = true
				}
			}
			for _, p := range ps {
				if p.class == "LIST" {
					for id := p.id + 1; id < p.end; id++ {
						delete(gen, id)
					}
				}
			}
		}
		want = text(s.Root, gen, "mysql", vAsIs)
	}
	for ri, r := range w.rules {
		if r.Kind == kind && w.ruleText["mysql"][ri] == want {
			return ri
		}
	}
	return -1
}

// ruleRef names one rule of the core alphabet: kind, statement (or table) name, selector.
type ruleRef struct{ kind, name, sel string }

func (w *world) ruleSet(refs ...ruleRef) []int {
	var s []int
	for _, rr := range refs {
		ri := w.findRule(rr.kind, rr.name, rr.sel)
		if ri < 0 {
			ev.Fatalf("core rule %v not derivable from the pool", rr)
		}
		s = append(s, ri)
	}
	return s
}

// coreSingles: for every named table its tables rule; for every named statement its queries rule,
// the pattern without placeholders, the pattern with every literal generalised, the whole-statement
// placeholder.
func (w *world) coreSingles(stmts []string, tables []string) [][]int {
	var sets [][]int
	seen := map[int]bool{}
	add := func(rr ruleRef) {
		s := w.ruleSet(rr)
		if !seen[s[0]] {
			seen[s[0]] = true
			sets = append(sets, s)
		}
	}
	for _, t := range tables {
		add(ruleRef{"tables", t, ""})
	}
	for _, s := range stmts {
		add(ruleRef{"queries", s, ""})
		add(ruleRef{"patterns", s, "exact"})
		add(ruleRef{"patterns", s, "values"})
		add(ruleRef{"patterns", s, "stmt"})
	}
	return sets
}

func (w *world) stmtIndex(name string) int {
	for i, s := range w.pool {
		if s.Name == name {
			return i
		}
	}
	ev.Fatalf("no pool statement %q", name)
	return -1
}

func (w *world) alphabet(sets [][]int, ignore []int) []handlerT {
	hs := []handlerT{{Kind: "allowall"}, {Kind: "denyall"}}
	for _, s := range sets {
		hs = append(hs, handlerT{Kind: "allow", Rules: s}, handlerT{Kind: "deny", Rules: s})
	}
	for _, q := range ignore {
		hs = append(hs, handlerT{Kind: "query_ignore", Ignore: []int{q}})
	}
	return hs
}

func chainsUpTo(alpha []handlerT, minLen, maxLen int) [][]handlerT {
	var out [][]handlerT
	var cur []handlerT
	var rec func()
	rec = func() {
		if len(cur) >= minLen {
			out = append(out, append([]handlerT(nil), cur...))
		}
		if len(cur) == maxLen {
			return
		}
		for _, h := range alpha {
			cur = append(cur, h)
			rec()
			cur = cur[:len(cur)-1]
		}
	}
	rec()
	return out
}

type layerT struct {
	name    string
	configs []configT
	stacks  []stackT // stacked messages judged on every configuration of the layer (stack.go)
}

func (w *world) layers() []layerT {
	var ls []layerT
	seen := map[string]bool{}
	add := func(l *layerT, c configT) {
		id := c.id()
		if seen[id] {
			return
		}
		seen[id] = true
		l.configs = append(l.configs, c)
	}
	both := func(l *layerT, chain []handlerT) {
		add(l, configT{IPE: false, Chain: chain})
		add(l, configT{IPE: true, Chain: chain})
	}
	// the two one-rule-set contexts: deny alone (parse errors tolerated: an unparsable statement runs
	// to the end of the chain), allow in front of denyall (parse errors not tolerated)
	contexts := func(l *layerT, rules []int) {
		add(l, configT{IPE: true, Chain: []handlerT{{Kind: "deny", Rules: rules}}})
		add(l, configT{IPE: false, Chain: []handlerT{{Kind: "allow", Rules: rules}, {Kind: "denyall"}}})
	}
	// layer "rules": every derivable rule alone
	l1 := layerT{name: "rules"}
	for ri := range w.rules {
		contexts(&l1, []int{ri})
	}
	ls = append(ls, l1)

	coreStmts := []string{"sel-eq-1", "sel-join", "ins-1", "upd-1"}
	coreTables := []string{"t1", "t2"}
	ignore := []int{w.stmtIndex("sel-eq-1"), w.stmtIndex("ins-1"), -1}
	pairStacks, coreStacks, wideStacks := w.stackSpaces()
	if !w.thorough {
		l2 := layerT{name: "chains<=2", stacks: coreStacks}
		for _, ch := range chainsUpTo(w.alphabet(w.coreSingles(coreStmts, coreTables), ignore), 0, 2) {
			both(&l2, ch)
		}
		ls = append(ls, l2)
		return ls
	}
	coreStmts = append(coreStmts, "sel-in-3", "union", "del-1", "ins-select")
	coreTables = append(coreTables, "T1")
	ignore = append(ignore, w.stmtIndex("upd-1"))
	singles := w.coreSingles(coreStmts, coreTables)
	// layer "rule-pairs": every pair of core rules inside one handler, in the two contexts
	ls[0].stacks = coreStacks
	l1b := layerT{name: "rule-pairs", stacks: wideStacks}
	for i := 0; i < len(singles); i++ {
		for j := i + 1; j < len(singles); j++ {
			contexts(&l1b, []int{singles[i][0], singles[j][0]})
		}
	}
	ls = append(ls, l1b)
	pairs := [][]int{
		w.ruleSet(ruleRef{"tables", "t1", ""}, ruleRef{"tables", "t2", ""}),
		w.ruleSet(ruleRef{"tables", "t1", ""}, ruleRef{"tables", "T1", ""}),
		w.ruleSet(ruleRef{"queries", "sel-eq-1", ""}, ruleRef{"tables", "t2", ""}),
		w.ruleSet(ruleRef{"patterns", "sel-eq-1", "values"}, ruleRef{"patterns", "ins-1", "values"}),
		w.ruleSet(ruleRef{"queries", "ins-1", ""}, ruleRef{"patterns", "upd-1", "exact"}),
		w.ruleSet(ruleRef{"patterns", "sel-join", "exact"}, ruleRef{"tables", "t1", ""}),
		w.ruleSet(ruleRef{"patterns", "union", "stmt"}, ruleRef{"patterns", "sel-in-3", "values"}),
		w.ruleSet(ruleRef{"queries", "del-1", ""}, ruleRef{"queries", "upd-1", ""}),
	}
	l2 := layerT{name: "chains<=2", stacks: coreStacks}
	for _, ch := range chainsUpTo(w.alphabet(append(append([][]int{}, singles...), pairs...), ignore), 0, 2) {
		both(&l2, ch)
	}
	ls = append(ls, l2)
	// layer "chains=3": a smaller alphabet of rule sets of size 1 and 2
	small := [][]int{
		w.ruleSet(ruleRef{"tables", "t1", ""}),
		w.ruleSet(ruleRef{"tables", "t1", ""}, ruleRef{"tables", "t2", ""}),
		w.ruleSet(ruleRef{"queries", "sel-eq-1", ""}),
		w.ruleSet(ruleRef{"patterns", "sel-eq-1", "values"}),
		w.ruleSet(ruleRef{"patterns", "ins-1", "values"}),
		w.ruleSet(ruleRef{"patterns", "ins-1", "stmt"}, ruleRef{"queries", "upd-1", ""}),
	}
	l3 := layerT{name: "chains=3", stacks: pairStacks}
	for _, ch := range chainsUpTo(w.alphabet(small, []int{w.stmtIndex("sel-eq-1"), -1}), 3, 3) {
		both(&l3, ch)
	}
	ls = append(ls, l3)
	return ls
}

// verdictPhase: part (a) of C05.
func verdictPhase(r *ev.Run, w *world) {
	for _, d := range dialects {
		setDialect(d)
		w.selfCheck(d)
	}
	layers := w.layers()
	if os.Getenv("C05_DEBUG") != "" {
		for _, l := range layers {
			per := len(w.pool)*nVariants + len(unparsable) + len(l.stacks)*w.stackSpellings()
			fmt.Fprintf(os.Stderr, "layer %s: %d configurations x (%d statements, %d stacked messages) = %d evaluations per dialect\n", l.name, len(l.configs), len(w.pool)+len(unparsable), len(l.stacks), len(l.configs)*per)
		}
	}
	nConfigs := 0
	layerSizes := map[string]int{}
	stackSizes := map[string]int{}
	for _, d := range dialects {
		setDialect(d)
		for _, l := range layers {
			if r.Expired() {
				r.Capped(fmt.Sprintf("wall budget: layer %s (%s) and later not run", l.name, d))
				break
			}
			cfgs := l.configs
			stacks := l.stacks
			t0 := time.Now()
			done := par.Do(len(cfgs), r.Expired, func(i int) { w.runConfig(r, d, cfgs[i], stacks) })
			if os.Getenv("C05_DEBUG") != "" {
				fmt.Fprintf(os.Stderr, "layer %s/%s: %d/%d configurations, %.1fs, %d evaluations so far\n", d, l.name, done, len(cfgs), time.Since(t0).Seconds(), r.Evals())
			}
			nConfigs += done
			layerSizes[d+"/"+l.name] = done
			r.States(done * (len(w.pool) + len(unparsable) + len(stacks)))
			stackSizes[d+"/"+l.name] = done * len(stacks)
			if done < len(cfgs) {
				r.Capped(fmt.Sprintf("wall budget: layer %s (%s): %d of %d configurations done", l.name, d, done, len(cfgs)))
			}
		}
	}
	setDialect("mysql")
	nPatterns, nQueries, nTables := 0, 0, 0
	for _, rl := range w.rules {
		switch rl.Kind {
		case "patterns":
			nPatterns++
		case "queries":
			nQueries++
		default:
			nTables++
		}
	}
	r.Set("verdict_configurations", nConfigs)
	r.Set("verdict_layers", layerSizes)
	r.Set("pool_statements", len(w.pool))
	r.Set("unparsable_strings", len(unparsable))
	r.Set("formatting_variants", variantNames[:])
	r.Set("stacked_messages_judged", stackSizes)
	r.Set("stacked_message_spellings", stackSpellingNames[:w.stackSpellings()])
	if ps, cs, ws := w.stackSpaces(); true {
		r.Set("stacked_message_spaces", map[string]int{"pairs": len(ps), "core": len(cs), "wide": len(ws)})
		r.Sample(map[string]string{"stacked_message": w.stackText("mysql", cs[len(cs)/3], spSemiSpace), "other_spelling": w.stackText("mysql", cs[len(cs)/3], spTightTrailing)})
	}
	r.Set("derived_rules", map[string]int{"queries": nQueries, "tables": nTables, "patterns": nPatterns})
	r.Set("dialects", dialects)
	r.Set("not_compared_outside_reference_domain", notCompared.Load())
	for i := 0; i < len(w.pool); i += len(w.pool)/3 + 1 {
		r.Sample(map[string]string{"statement": w.texts["mysql"][i][vAsIs], "extra-whitespace": w.texts["mysql"][i][vSpace]})
	}
	for i := 0; i < len(w.rules); i += len(w.rules)/3 + 1 {
		r.Sample(map[string]string{"rule_kind": w.rules[i].Kind, "rule": w.ruleText["mysql"][i]})
	}
}

// selfCheck validates the harness against Acra's parser (harness errors, never verdicts): every
// pool statement parses in every variant... is NOT assumed (that is part of the property); only:
// every unparsable string is refused by the parser, every as-is pool statement is accepted, and
// two derivations of one rule text have one reference meaning (guaranteed by construction of
// deriveRules: first derivation wins; checked here).
func (w *world) selfCheck(d string) {
	censor, err := load(w.yamlOf(configT{Chain: []handlerT{{Kind: "allowall"}}}, d))
	if err != nil {
		ev.Fatalf("cannot load the trivial configuration: %v", err)
	}
	defer censor.ReleaseAll()
	for k, s := range unparsable {
		if c := handle(censor, s); c != "syntax" {
			ev.Fatalf("%s: string %d %q of the unparsable list is accepted by Acra's parser (%s)", d, k, s, c)
		}
	}
	for si := range w.pool {
		if c := handle(censor, w.texts[d][si][vAsIs]); c != "accept" {
			ev.Fatalf("%s: pool statement %s %q is not parsed by Acra (%s)", d, w.pool[si].Name, w.texts[d][si][vAsIs], c)
		}
	}
	seen := map[string]int{}
	for ri, r := range w.rules {
		if r.Kind != "patterns" {
			continue
		}
		seen[w.ruleText[d][ri]] = ri
	}
	for si, s := range w.pool {
		for _, g := range antichains(positions(s)) {
			rr := &ruleT{Kind: "patterns", Src: si, Gen: g}
			ri, ok := seen[rr.text(w.pool, d)]
			if !ok {
				ev.Fatalf("derived pattern %q lost", rr.text(w.pool, d))
			}
			if w.rules[ri].Src == si {
				continue
			}
			for qi, q := range w.pool {
				got, _ := refPattern(w.pool, rr, q)
				if got != w.refRule[ri][qi] && got != unk && w.refRule[ri][qi] != unk {
					ev.Fatalf("reference is ambiguous: pattern %q derived from %s and from %s gives %v / %v on %s",
						rr.text(w.pool, d), s.Name, w.pool[w.rules[ri].Src].Name, got, w.refRule[ri][qi], q.Name)
				}
			}
		}
	}
}
