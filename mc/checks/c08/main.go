// C08 — a crash or I/O failure during a key store write never loses or corrupts keys.
//
// Bounded-exhaustive fault enumeration (E3 on top of E2) on the real key stores, built on
// kslab. For every pre-state (BFS states of the C06 alphabet up to the depth bound, one key
// kind at a time plus a bystander key of another kind) and every write operation enabled there
// (generate / rotate, acra-rotate's SaveDataEncryptionKeys, destroy-current, destroy-rotated(i),
// v2: import of an exported bundle with the default and with an overwriting delegate) the
// operation is first run without fault to number its n storage seam calls; then, for every
// k in 1..n and every mode in {the call returns an error instead of executing, crash before
// the call, crash after the call, torn write (calls with a payload: 0 bytes, half, all but the
// last byte stored, then crash)} the pre-state is restored and the operation re-executed on the
// real code with that single fault. Seams: v1 = filesystem.Storage on kslab.MemFS, v2 =
// api.Backend (real in-memory back end, and the real directory back end where a torn Put
// leaves a real file of that length).
//
// Oracle, on a FRESH handle opened on the surviving storage:
//   - stored keys, read below the API, are classified against the pre-state ("old") and the
//     state the unfaulted operation produces ("new"). Every key that survived before and that
//     the operation is not meant to remove still survives, in the same relative order; no
//     stored key is undecryptable; other slots are untouched; the key under change is entirely
//     old (or absent) or entirely new.
//   - when the surviving state equals old or new, EVERY follow-up operation of the alphabet
//     (reads of both slots, both listings, v1 CacheOnStart, generate, save, destroy-current,
//     destroy-rotated(i), generate on the bystander, retry of an import) must give the same
//     answer and leave the same stored keys as the same operation gives on a key store that
//     reached that state without any fault: an interrupted write leaves no trace that changes
//     behaviour. In particular the retry of the interrupted write behaves like the first try.
//   - error mode: the SAME handle is also asked all reads and then the retry, with the same
//     reference; failures that only the same handle shows get their own keys
//     (".../same-handle/..."). Cached v1 handles (thorough) are as warm as the history makes
//     them when the fault strikes; for them a read that answers from before the write is not
//     counted (what a cache may show after writes is C06's subject), a read that FAILS, or
//     stops offering a surviving key the handle offered before, is.
//   - a key pair counts as the key under change: private and public part must both be old or
//     both be new. A mixed pair is reported as key-pair-half-written (keyed by operation class
//     and the mix, not by the many fault sites that lead to it); when the store then hands
//     out a public key whose private key it no longer holds (data encrypted from now on can
//     never be decrypted) it is public-key-offered-without-private-key.
//
// Finding keys: C08/<format>/<operation class>/<fault site>/<failure class> for consequences
// of what a fault leaves behind, where the fault site is canonical - "<crash|error>-after:
// <last storage-changing seam call that completed>" (crash before call k, after call k-1 and
// around reads in between leave the same storage and share it), "torn:<call>", or
// "<crash|error>-before-first-write"; C08/<format>/<operation class>/<state class>[/<failure
// class>] for surviving states that are themselves wrong.
//
// Deliberately permissive (the statement speaks about loss and corruption, not atomicity of
// every intermediate step):
//   - "absent" = the current-key readers fail and no undecryptable file / ring is left;
//   - a copy of the current key left in the v1 history directory (crash between backup and
//     rename) and a v2 key that was added to the ring but not yet made current are accepted
//     as "old": nothing is lost, the current key is its old self. Follow-ups from such states
//     are judged by invariants (no panic, listings work, generate succeeds and yields a
//     complete new current key keeping every survivor, destroy removes at most one key of
//     the addressed slot) instead of the differential;
//   - an operation that reports an error although its effect is complete is accepted;
//   - v1 durability: a storage call that returned is durable and rename is atomic. thorough
//     additionally runs the weaker model "v1 never fsyncs": at every crash point every subset
//     of the data writes issued so far by the interrupted operation is lost (file left empty /
//     half written) while renames and links are kept; those findings are keyed
//     C08/v1/weak-durability/... .
//
// A separate bounded space drives the v2 low-level key ring API (AddKey, SetCurrent, SetState,
// DestroyKey on a long-lived ring handle, histories of depth <= 2) with the same faults: after
// an error the same ring handle must show what is stored (no phantom key) and its next write
// must persist exactly itself (transaction log rolled back).
//
// Not covered: two faults in one operation or a second fault while an earlier leftover is
// being cleaned up (the follow-ups run fault-free); key stores in Redis; concurrent writers
// (C17); the data files acra-rotate re-encrypts before it saves the new key.
package main

import (
	"bytes"
	"flag"
	"fmt"
	"os"
	"runtime/debug"
	"sort"
	"strings"
	"sync"
	"sync/atomic"
	"syscall"
	"time"

	"github.com/cossacklabs/themis/gothemis/keys"

	"github.com/cossacklabs/acra/keystore"
	apiV2 "github.com/cossacklabs/acra/keystore/v2/keystore/api"
	"github.com/cossacklabs/acra/keystore/v2/keystore/asn1"
	cryptoV2 "github.com/cossacklabs/acra/keystore/v2/keystore/crypto"

	"verif/ev"
	"verif/fx"
	"verif/kslab"
	"verif/par"
)

// ---------------------------------------------------------------- operations outside the kslab alphabet

const (
	opSave       = "save"        // SaveDataEncryptionKeys (what acra-rotate calls to store a rotated pair)
	opImport     = "import"      // v2 ImportKeyRings with the default delegate (acra-keys import)
	opImportOver = "import-over" // v2 ImportKeyRings with a delegate that overwrites
	opCacheStart = "cachestart"  // v1 CacheOnStart
)

// fault modes
const (
	mError       = "error"
	mCrashBefore = "crash-before"
	mCrashAfter  = "crash-after"
	mTornEmpty   = "torn-empty"
	mTornHalf    = "torn-half"
	mTornMost    = "torn-all-but-last-byte"
)

type lostWrite struct {
	Call  int    `json:"call_index"`
	Name  string `json:"call"`
	Shape string `json:"left"` // "empty" | "half"
}

type replayT struct {
	Config     kslab.Config `json:"config"`
	Test       kslab.Slot   `json:"slot_under_test"`
	Bystander  kslab.Slot   `json:"bystander_slot"`
	History    []kslab.Op   `json:"history"` // after the set-up (one key generated for the bystander)
	Op         kslab.Op     `json:"op"`
	Call       int          `json:"call_index"` // 0-based seam call of the final operation, -1 = no fault
	CallName   string       `json:"call,omitempty"`
	Mode       string       `json:"fault_mode,omitempty"`
	Lost       []lostWrite  `json:"lost_writes,omitempty"` // weak v1 durability model
	FollowUp   *kslab.Op    `json:"follow_up,omitempty"`
	SameHandle bool         `json:"same_handle,omitempty"`
	Ring       *ringReplay  `json:"ring,omitempty"`
	Flock      *flockReplay `json:"flock,omitempty"`
}

type finding struct{ key, msg string }

// importSuite is the crypto suite of exported bundles.
func importSuite() *cryptoV2.KeyStoreSuite {
	s, err := cryptoV2.NewSCellSuite(bytes.Repeat([]byte{0x51}, 32), bytes.Repeat([]byte{0x52}, 32))
	if err != nil {
		ev.Fatalf("import suite: %v", err)
	}
	return s
}

type overwriteDelegate struct{}

func (overwriteDelegate) DecideKeyRingOverwrite(cur, neu *asn1.KeyRing) (apiV2.ImportDecision, error) {
	return apiV2.ImportOverwrite, nil
}

// guard runs f, turning panics of the real code into *kslab.PanicError (simulated crashes pass).
func guard(f func() error) (err error) {
	defer func() {
		if v := recover(); v != nil {
			if c, ok := v.(*kslab.Crash); ok {
				panic(c)
			}
			err = &kslab.PanicError{Value: fmt.Sprint(v), Stack: string(debug.Stack())}
		}
	}()
	return f()
}

// ---------------------------------------------------------------- world

type world struct {
	cfg    kslab.Config
	test   kslab.Slot
	by     kslab.Slot
	slots  []kslab.Slot
	prefix []kslab.Op
	bundle []byte // v2: exported ring of the test slot holding two keys
}

func bystanderOf(k kslab.Kind) kslab.Slot {
	switch k {
	case kslab.StoragePair:
		return kslab.SlotOf(kslab.StorageSym, kslab.Alpha)
	case kslab.StorageSym:
		return kslab.SlotOf(kslab.StoragePair, kslab.Alpha)
	case kslab.SearchHMAC:
		return kslab.SlotOf(kslab.StorageSym, kslab.Alpha)
	case kslab.PoisonPair:
		return kslab.SlotOf(kslab.PoisonSym, "")
	case kslab.PoisonSym:
		return kslab.SlotOf(kslab.PoisonPair, "")
	}
	return kslab.SlotOf(kslab.PoisonSym, "")
}

func newWorld(cfg kslab.Config, k kslab.Kind) *world {
	w := &world{cfg: cfg, test: kslab.SlotOf(k, kslab.Alpha), by: bystanderOf(k)}
	w.slots = []kslab.Slot{w.test, w.by}
	w.prefix = []kslab.Op{{Code: kslab.OpGenerate, Kind: w.by.Kind, Client: w.by.Client}}
	if cfg.Format == "v2" {
		w.bundle = makeBundle(w.test)
	}
	return w
}

func (w *world) name() string { return w.cfg.Name() + "[" + w.test.String() + "]" }

// makeBundle exports a ring of the slot holding two keys from a separate v2 key store.
func makeBundle(sl kslab.Slot) []byte {
	src, err := kslab.Open(kslab.Config{Format: "v2", Storage: "mem"}, "c08-import-source")
	if err != nil {
		ev.Fatalf("import source: %v", err)
	}
	defer src.Close()
	for i := 0; i < 2; i++ {
		if err := src.Main.Generate(sl); err != nil {
			ev.Fatalf("import source: generate %s: %v", sl, err)
		}
	}
	b, err := src.V2.ExportKeyRings([]string{kslab.V2RingPath(sl)}, importSuite(), keystore.ExportPrivateKeys)
	if err != nil {
		ev.Fatalf("import source: export %s: %v", sl, err)
	}
	return b
}

func (w *world) newLab() *kslab.Lab {
	lab, err := kslab.NewLab(w.cfg, w.slots)
	if err != nil {
		ev.Fatalf("%s: %v", w.name(), err)
	}
	lab.Replay(w.prefix)
	return lab
}

func opOn(code string, sl kslab.Slot) kslab.Op {
	return kslab.Op{Code: code, Kind: sl.Kind, Client: sl.Client}
}

func isCustom(code string) bool {
	return code == opSave || code == opImport || code == opImportOver || code == opCacheStart
}

func mutating(op kslab.Op) bool {
	return op.Mutating() || op.Code == opSave || op.Code == opImport || op.Code == opImportOver
}

// apply executes one operation (kslab alphabet or one of the extra ones) on the lab's main handle.
func (w *world) apply(lab *kslab.Lab, op kslab.Op) kslab.Result {
	if !isCustom(op.Code) {
		res := lab.Apply(op)
		if op.Code == kslab.OpGenerate {
			lab.Relearn(op.Slot())
		}
		return res
	}
	lab.Note(op)
	res := kslab.Result{Op: op}
	id := []byte(op.Client)
	switch op.Code {
	case opSave:
		kp, err := keys.New(keys.TypeEC)
		if err != nil {
			ev.Fatalf("keys.New: %v", err)
		}
		res.Err = guard(func() error {
			if lab.S.V1 != nil {
				return lab.S.V1.SaveDataEncryptionKeys(id, kp)
			}
			return lab.S.V2.SaveDataEncryptionKeys(id, kp)
		})
		lab.Relearn(op.Slot())
	case opImport, opImportOver:
		var d apiV2.KeyRingImportDelegate
		if op.Code == opImportOver {
			d = overwriteDelegate{}
		}
		res.Err = guard(func() error {
			_, err := lab.S.V2.ImportKeyRings(w.bundle, importSuite(), d)
			return err
		})
		lab.Relearn(op.Slot())
	case opCacheStart:
		res.Err = guard(func() error { return lab.S.V1.CacheOnStart() })
	}
	return res
}

// ---------------------------------------------------------------- observations

func errClass(err error) string {
	if err == nil {
		return "ok"
	}
	if p, ok := kslab.IsPanic(err); ok {
		return "panic@" + p.Site()
	}
	return "error"
}

// stateSig renders the stored keys of all slots without format-specific extras.
func stateSig(st kslab.State) string {
	parts := make([]string, len(st.Slots))
	for i, s := range st.Slots {
		s.Extra = ""
		parts[i] = s.String()
	}
	return strings.Join(parts, "; ")
}

// answerSig normalises the answer of an operation for the differential comparison. Where the
// statement leaves the answer open (read-all with no survivor: error or empty) one token is used.
func answerSig(res kslab.Result) string {
	op := res.Op
	if res.Unsupported {
		return "unsupported"
	}
	switch op.Code {
	case kslab.OpReadCurrent:
		s := fmt.Sprintf("secret=%d/%s", res.CurSecret, errClass(res.CurSecretErr))
		if res.HasPublic {
			s += fmt.Sprintf(" public=%d/%s", res.CurPublic, errClass(res.CurPublicErr))
		}
		return s + foreign(res)
	case kslab.OpReadAll:
		if _, isPanic := kslab.IsPanic(res.Err); !isPanic && (res.Err != nil || len(res.All) == 0) {
			return "all=none"
		}
		return fmt.Sprintf("all=%v/%s", res.All, errClass(res.Err)) + foreign(res)
	case kslab.OpListKeys, kslab.OpListRotated:
		var rows []string
		for _, l := range res.Listed {
			if l.Slot.Kind < 0 {
				rows = append(rows, "unmapped:"+l.Raw)
				continue
			}
			rows = append(rows, fmt.Sprintf("%s%s#%d/rot=%v", l.Slot, l.Part, l.Index, l.Rotated))
		}
		sort.Strings(rows)
		return "rows=[" + strings.Join(rows, ",") + "]/" + errClass(res.Err)
	case kslab.OpGenerate, opSave, opImport, opImportOver:
		return errClass(res.Err)
	}
	return errClass(res.Err)
}

func foreign(res kslab.Result) string {
	if len(res.Foreign) == 0 {
		return ""
	}
	return " foreign=" + strings.Join(res.Foreign, ",")
}

func failed(res kslab.Result) bool {
	switch res.Op.Code {
	case kslab.OpReadCurrent:
		return res.CurSecretErr != nil || (res.HasPublic && res.CurPublicErr != nil)
	}
	return res.Err != nil
}

func panicSite(res kslab.Result) string {
	for _, e := range []error{res.Err, res.CurSecretErr, res.CurPublicErr} {
		if p, ok := kslab.IsPanic(e); ok {
			return p.Site()
		}
	}
	return ""
}

type outcome struct {
	all    []int // read-all: ordinals offered
	answer string
	post   string
	failed bool
	panic  string
	err    string
}

func (w *world) observe(lab *kslab.Lab, f kslab.Op) outcome {
	res := w.apply(lab, f)
	o := outcome{answer: answerSig(res), post: stateSig(lab.State()), failed: failed(res), panic: panicSite(res)}
	if f.Code == kslab.OpReadAll && res.Err == nil {
		o.all = res.All
	}
	for _, e := range []error{res.Err, res.CurSecretErr, res.CurPublicErr} {
		if e != nil {
			o.err = e.Error()
			if len(o.err) > 160 {
				o.err = o.err[:160]
			}
			break
		}
	}
	return o
}

// ---------------------------------------------------------------- alphabets

func drotIndices(s kslab.SlotState) []int {
	m := len(s.Rotated())
	idx := []int{1}
	for i := 2; i <= m+2; i++ {
		idx = append(idx, i)
	}
	return idx
}

// exploreOps: operations used to discover pre-states (everything of the C06 alphabet that can
// change the canonical state of this configuration).
func (w *world) exploreOps(lab *kslab.Lab) []kslab.Op {
	s := lab.State().Slot(w.test)
	ops := []kslab.Op{opOn(kslab.OpGenerate, w.test)}
	if kslab.Supports(kslab.OpDestroyCurrent, w.test.Kind) {
		ops = append(ops, opOn(kslab.OpDestroyCurrent, w.test))
		for _, i := range drotIndices(s) {
			o := opOn(kslab.OpDestroyRotated, w.test)
			o.Index = i
			ops = append(ops, o)
		}
	}
	if w.cfg.Cached() {
		ops = append(ops, opOn(kslab.OpReadCurrent, w.test))
		if kslab.Supports(kslab.OpReadAll, w.test.Kind) {
			ops = append(ops, opOn(kslab.OpReadAll, w.test))
		}
	}
	return ops
}

// writeOps: the final (faulted) operations enabled in a state.
func (w *world) writeOps(s kslab.SlotState) []kslab.Op {
	ops := []kslab.Op{opOn(kslab.OpGenerate, w.test)}
	if w.test.Kind == kslab.StoragePair && !w.cfg.Cached() {
		ops = append(ops, opOn(opSave, w.test))
	}
	if kslab.Supports(kslab.OpDestroyCurrent, w.test.Kind) {
		ops = append(ops, opOn(kslab.OpDestroyCurrent, w.test))
		for _, i := range drotIndices(s) {
			o := opOn(kslab.OpDestroyRotated, w.test)
			o.Index = i
			ops = append(ops, o)
		}
	}
	if w.cfg.Format == "v2" {
		ops = append(ops, opOn(opImport, w.test), opOn(opImportOver, w.test))
	}
	return ops
}

// followUps: one more step of the alphabet from a state (the fresh handle has just been opened,
// so reset / reopen would be no-ops and are left out).
func (w *world) followUps(st kslab.State, final kslab.Op) []kslab.Op {
	s := st.Slot(w.test)
	ops := []kslab.Op{opOn(kslab.OpReadCurrent, w.test)}
	if kslab.Supports(kslab.OpReadAll, w.test.Kind) {
		ops = append(ops, opOn(kslab.OpReadAll, w.test))
	}
	ops = append(ops, opOn(kslab.OpReadCurrent, w.by))
	if kslab.Supports(kslab.OpReadAll, w.by.Kind) {
		ops = append(ops, opOn(kslab.OpReadAll, w.by))
	}
	ops = append(ops, kslab.Op{Code: kslab.OpListKeys}, kslab.Op{Code: kslab.OpListRotated})
	if w.cfg.Format == "v1" {
		ops = append(ops, kslab.Op{Code: opCacheStart})
	}
	ops = append(ops, opOn(kslab.OpGenerate, w.test))
	if w.test.Kind == kslab.StoragePair && !w.cfg.Cached() {
		ops = append(ops, opOn(opSave, w.test))
	}
	if kslab.Supports(kslab.OpDestroyCurrent, w.test.Kind) {
		ops = append(ops, opOn(kslab.OpDestroyCurrent, w.test))
		for _, i := range drotIndices(s) {
			o := opOn(kslab.OpDestroyRotated, w.test)
			o.Index = i
			ops = append(ops, o)
		}
	}
	ops = append(ops, opOn(kslab.OpGenerate, w.by))
	if final.Code == opImport || final.Code == opImportOver {
		ops = append(ops, opOn(opImport, w.test), opOn(opImportOver, w.test))
	}
	return ops
}

func readOnly(op kslab.Op) bool { return !mutating(op) }

// ---------------------------------------------------------------- naming

func (w *world) fmtClass() string { return w.cfg.Format }

func (w *world) kindClass() string {
	if w.test.Kind.IsPair() {
		return "pair"
	}
	return "single"
}

// opClass names the operation class of a final operation in a pre-state.
func (w *world) opClass(op kslab.Op, ps kslab.SlotState) string {
	var c string
	switch op.Code {
	case kslab.OpGenerate:
		c = "generate"
		if ps.Cur != 0 {
			c = "rotate"
		}
	case opSave:
		c = "save-rotated-pair"
	case kslab.OpDestroyCurrent:
		c = "destroy-current"
	case kslab.OpDestroyRotated:
		c = "destroy-rotated"
		if ps.ListedIndexKey(op.Index) == 0 {
			c = "destroy-rotated-unlisted-index"
		}
	case opImport:
		c = "import"
	case opImportOver:
		c = "import-overwrite"
	default:
		c = op.Code
	}
	if w.cfg.Format == "v1" {
		c += "(" + w.kindClass() + ")"
	}
	return c
}

// callName renders a seam call without run-dependent parts.
func (w *world) callName(c kslab.Call) string {
	if w.cfg.Format == "v2" {
		shape := func(p string) string {
			switch {
			case strings.HasSuffix(p, ".keyring.new"):
				return ".new"
			case strings.HasSuffix(p, ".keyring"):
				return "ring"
			}
			return "?"
		}
		switch len(c.Paths) {
		case 0:
			return c.Op
		case 1:
			return c.Op + "(" + shape(c.Paths[0]) + ")"
		}
		return c.Op + "(" + shape(c.Paths[0]) + "->" + shape(c.Paths[1]) + ")"
	}
	shapes := make([]string, len(c.Paths))
	for i, p := range c.Paths {
		shapes[i] = w.v1Shape(p)
	}
	return c.Op + "(" + strings.Join(shapes, "->") + ")"
}

// v1Shape classifies a v1 path relative to the key files of the two slots.
func (w *world) v1Shape(p string) string {
	rel := strings.TrimPrefix(p, kslab.MemRoot+"/")
	if p == kslab.MemRoot || rel == ".poison_key" {
		return "dir"
	}
	type nm struct{ file, label string }
	var names []nm
	add := func(sl kslab.Slot, prefix string) {
		n := v1FileNames(sl)
		if n[1] != "" {
			names = append(names, nm{n[1], prefix + "public"}, nm{n[0], prefix + "private"})
		} else {
			// single-file kinds; destroying an HMAC key also removes "<key>.pub" (which never exists)
			names = append(names, nm{n[0] + ".pub", prefix + "key.pub"}, nm{n[0], prefix + "key"})
		}
	}
	add(w.test, "")
	add(w.by, "other-")
	// longest file name first so that "x_storage_sym" is not taken for a temp file of "x_storage"
	sort.SliceStable(names, func(i, j int) bool { return len(names[i].file) > len(names[j].file) })
	for _, n := range names {
		switch {
		case rel == n.file:
			return n.label
		case rel == n.file+".old":
			return n.label + "-history-dir"
		case strings.HasPrefix(rel, n.file+".old/"):
			return n.label + "-history-file"
		}
	}
	for _, n := range names {
		if strings.HasPrefix(rel, n.file) && digits(rel[len(n.file):]) {
			return n.label + "-tmp"
		}
	}
	return "?"
}

func digits(s string) bool {
	if s == "" {
		return false
	}
	for _, c := range s {
		if c < '0' || c > '9' {
			return false
		}
	}
	return true
}

// v1FileNames returns {private-or-key file, public file or ""} relative to the key directory.
func v1FileNames(sl kslab.Slot) [2]string {
	switch sl.Kind {
	case kslab.StoragePair:
		return [2]string{sl.Client + "_storage", sl.Client + "_storage.pub"}
	case kslab.StorageSym:
		return [2]string{sl.Client + "_storage_sym", ""}
	case kslab.SearchHMAC:
		return [2]string{sl.Client + "_hmac", ""}
	case kslab.PoisonPair:
		return [2]string{".poison_key/poison_key", ".poison_key/poison_key.pub"}
	case kslab.PoisonSym:
		return [2]string{".poison_key/poison_key_sym", ""}
	}
	return [2]string{"secure_log_key", ""}
}

// stateChanging: calls whose completion changes what a later reader of the storage sees
// (creating a directory that already exists or an empty history directory does not).
func stateChanging(c kslab.Call) bool {
	switch c.Op {
	case "TempFile", "WriteFile", "Link", "Copy", "Rename", "RenameNX", "Remove", "RemoveAll", "Put":
		return true
	}
	return false
}

// siteLabel is the canonical fault site of finding keys: what the storage had last been told
// when the operation stopped. "crash before call k", "crash after call k-1" and a crash around
// any read in between leave the same storage and share a label.
func (w *world) siteLabel(flog []kslab.Call, k int, mode string, opFailed bool) string {
	if strings.HasPrefix(mode, "torn") {
		return "torn:" + w.callName(flog[k])
	}
	if mode == mError && !opFailed {
		return "error-ignored:" + w.callName(flog[k])
	}
	last := -1
	for i, c := range flog {
		executed := c.Err == "" && !(i == k && mode != mCrashAfter)
		if mode != mError && i > k {
			break
		}
		if executed && stateChanging(c) {
			last = i
		}
	}
	how := "crash"
	if mode == mError {
		how = "error"
	}
	if last < 0 {
		return how + "-before-first-write"
	}
	return how + "-after:" + w.callName(flog[last])
}

// ---------------------------------------------------------------- state classification

func dedupRuns(l []int) []int {
	var out []int
	seen := map[int]bool{}
	for _, o := range l {
		if o > 0 && seen[o] {
			continue
		}
		seen[o] = true
		out = append(out, o)
	}
	return out
}

func eqInts(a, b []int) bool {
	if len(a) != len(b) {
		return false
	}
	for i := range a {
		if a[i] != b[i] {
			return false
		}
	}
	return true
}

func contains(l []int, x int) bool {
	for _, o := range l {
		if o == x {
			return true
		}
	}
	return false
}

// subsequence reports whether want (restricted to elements present in got) keeps its order in got.
func orderKept(want, got []int) bool {
	pos := map[int]int{}
	for i, o := range got {
		if _, ok := pos[o]; !ok {
			pos[o] = i
		}
	}
	last := -1
	for _, o := range want {
		p, ok := pos[o]
		if !ok {
			continue
		}
		if p < last {
			return false
		}
		last = p
	}
	return true
}

type classification struct {
	class    string // "old" | "new" | "old+<admitted residue>" | "bad:<what>"
	main     string // bad states: the finding that names the state (follow-up failures are keyed under it)
	exact    bool   // equals old or new exactly: follow-ups are judged differentially
	isNew    bool
	findings []string // state-level failure classes ("<class>[:<detail>]")
	msgs     []string
}

func partClass(cur int, surv []int, pCur int, pSurv []int, nCur int, nSurv []int) string {
	d := dedupRuns(surv)
	switch {
	case cur == pCur && eqInts(d, dedupRuns(pSurv)):
		return "old"
	case cur == nCur && eqInts(d, dedupRuns(nSurv)):
		return "new"
	case len(d) == 0 && cur == 0:
		return "absent"
	}
	return "other"
}

// classify judges the surviving stored keys against the pre-state and the state the unfaulted
// operation produces.
func (w *world) classify(pre, post, neu kslab.State, op kslab.Op, notes []string) classification {
	var c classification
	add := func(class, msg string) {
		c.findings = append(c.findings, class)
		c.msgs = append(c.msgs, msg)
	}
	x := op.Slot()
	for _, s := range pre.Slots {
		if s.Slot == x {
			continue
		}
		if q := post.Slot(s.Slot); !q.SameKeys(s) {
			add("key-of-another-slot-changed", fmt.Sprintf("%s changed from [%s] to [%s]", s.Slot, s, q))
		}
	}
	ps, qs, ns := pre.Slot(x), post.Slot(x), neu.Slot(x)
	pair := x.Kind.IsPair()
	corrupt := qs.Anomaly != "" && ps.Anomaly == ""
	if contains(qs.Surv, -1) || contains(qs.PubSurv, -1) || len(notes) > 0 {
		corrupt = true
	}
	if corrupt {
		add("stored-key-corrupt", fmt.Sprintf("the storage holds key data of %s that cannot be read back: [%s] %s", x, qs, strings.Join(notes, "; ")))
	}
	// P1: nothing that survived and is not the operation's target may disappear
	lost := func(p, q, n []int) []int {
		var out []int
		for _, o := range p {
			if contains(n, o) && !contains(q, o) {
				out = append(out, o)
			}
		}
		return out
	}
	if l := lost(ps.Surv, qs.Surv, ns.Surv); len(l) > 0 {
		add("previously-readable-key-lost", fmt.Sprintf("keys %v of %s survived before and are not the target of %s, afterwards the storage holds [%s] (before [%s])", l, x, op, qs, ps))
	} else if !orderKept(ps.Surv, qs.Surv) {
		add("order-of-keys-changed", fmt.Sprintf("the surviving keys of %s changed order: before [%s], after [%s]", x, ps, qs))
	}
	if pair {
		if l := lost(ps.PubSurv, qs.PubSurv, ns.PubSurv); len(l) > 0 {
			add("previously-readable-public-key-lost", fmt.Sprintf("public keys %v of %s survived before, afterwards [%s] (before [%s])", l, x, qs, ps))
		}
	}
	switch {
	case qs.SameKeys(ps):
		c.class, c.exact = "old", !corrupt
	case qs.SameKeys(ns):
		c.class, c.exact, c.isNew = "new", !corrupt, true
	default:
		priv := partClass(qs.Cur, qs.Surv, ps.Cur, ps.Surv, ns.Cur, ns.Surv)
		pub := priv
		if pair {
			pub = partClass(qs.PubCur, qs.PubSurv, ps.PubCur, ps.PubSurv, ns.PubCur, ns.PubSurv)
		}
		addedNotCurrent := qs.N > ps.N && qs.Cur == ps.Cur && eqInts(dedupRuns(withoutAbove(qs.Surv, ps.N)), dedupRuns(ps.Surv)) &&
			(!pair || (qs.PubCur == ps.PubCur && eqInts(dedupRuns(withoutAbove(qs.PubSurv, ps.N)), dedupRuns(ps.PubSurv))))
		switch {
		case priv == "old" && pub == "old":
			c.class = "old+copy-of-current-key-in-history"
		case priv == "new" && pub == "new":
			c.class, c.isNew = "new+copy-of-key-in-history", true
		case addedNotCurrent && w.cfg.Format == "v2":
			c.class = "old+new-key-stored-but-not-current"
		case pair && qs.PubCur != 0 && !contains(qs.Surv, qs.PubCur):
			c.class = "bad:public-without-private"
			c.main = "public-key-offered-without-private-key:private-" + priv + "+public-" + pub
			add(c.main, fmt.Sprintf("%s: the store hands out public key #%d for encryption but its private key is not stored any more: [%s] (before [%s])", x, qs.PubCur, qs, ps))
		case pair && priv != pub:
			c.class = "bad:half-pair"
			c.main = "key-pair-half-written:private-" + priv + "+public-" + pub
			add(c.main, fmt.Sprintf("%s is neither its old self nor the new key: private part is %s, public part is %s: [%s] (before [%s], complete operation gives [%s])", x, priv, pub, qs, ps, ns))
		default:
			c.class = "bad:neither-old-nor-new"
			c.main = "key-neither-old-nor-new"
			add(c.main, fmt.Sprintf("%s is neither its old self nor the new key: [%s] (before [%s], complete operation gives [%s])", x, qs, ps, ns))
		}
	}
	return c
}

func withoutAbove(l []int, n int) []int {
	var out []int
	for _, o := range l {
		if o <= n {
			out = append(out, o)
		}
	}
	return out
}

// ---------------------------------------------------------------- follow-up judgement

// failureClass names a differential mismatch of a follow-up operation.
func (w *world) failureClass(f kslab.Op, ref, got outcome) string {
	if got.panic != "" && ref.panic == "" {
		return fmt.Sprintf("%s-panics@%s", f.Code, got.panic)
	}
	other := !f.Global() && f.Code != opCacheStart && f.Slot() != w.test
	switch f.Code {
	case kslab.OpListKeys, kslab.OpListRotated:
		if got.failed && !ref.failed {
			return "listing-fails"
		}
		return "listing-differs"
	case opCacheStart:
		if got.failed && !ref.failed {
			return "cache-on-start-fails"
		}
		return "cache-on-start-differs"
	case kslab.OpReadCurrent, kslab.OpReadAll:
		what := "read"
		if other {
			what = "read-of-other-key"
		}
		if got.answer == ref.answer {
			return what + "-changes-stored-keys"
		}
		if got.failed && !ref.failed {
			return what + "-fails"
		}
		return what + "-differs"
	}
	what := "later-write"
	if other {
		what = "write-to-other-key"
	}
	switch {
	case got.failed && !ref.failed:
		if other {
			return "writes-to-other-keys-blocked"
		}
		return "later-writes-blocked"
	case !got.failed && ref.failed:
		return what + "-accepted-where-clean-store-rejects"
	}
	return what + "-leaves-different-keys"
}

// invariants judges a follow-up from a surviving state that has no clean twin.
func (w *world) invariants(f kslab.Op, before kslab.State, got outcome, after kslab.State) []string {
	var out []string
	if got.panic != "" {
		out = append(out, fmt.Sprintf("%s-panics@%s", f.Code, got.panic))
	}
	x := f.Slot()
	for _, s := range before.Slots {
		if (f.Global() || f.Code == opCacheStart || s.Slot != x) && !after.Slot(s.Slot).SameKeys(s) {
			out = append(out, f.Code+"-changes-keys-it-does-not-address")
		}
	}
	switch f.Code {
	case kslab.OpListKeys, kslab.OpListRotated:
		if got.failed {
			out = append(out, "listing-fails")
		}
	case opCacheStart:
		if got.failed {
			out = append(out, "cache-on-start-fails")
		}
	case kslab.OpReadCurrent, kslab.OpReadAll:
		if !after.Slot(x).SameKeys(before.Slot(x)) {
			out = append(out, "read-changes-stored-keys")
		}
		if f.Code == kslab.OpReadAll && !got.failed || f.Code == kslab.OpReadAll && len(before.Slot(x).Surv) > 0 {
			// every key that is stored intact must be offered for decryption
			for _, o := range before.Slot(x).Surv {
				if o > 0 && !contains(got.all, o) {
					out = append(out, "surviving-keys-not-offered-for-decryption")
					break
				}
			}
		}
	case kslab.OpGenerate, opSave:
		b, a := before.Slot(x), after.Slot(x)
		switch {
		case got.failed:
			if x == w.test {
				out = append(out, "later-writes-blocked")
			} else {
				out = append(out, "writes-to-other-keys-blocked")
			}
		case a.N != b.N+1 || a.Cur != a.N || (x.Kind.IsPair() && a.PubCur != a.N):
			out = append(out, "later-generate-does-not-install-a-complete-new-key")
		default:
			for _, o := range b.Surv {
				if !contains(a.Surv, o) {
					out = append(out, "later-generate-loses-a-key")
					break
				}
			}
		}
	case kslab.OpDestroyCurrent, kslab.OpDestroyRotated:
		b, a := before.Slot(x), after.Slot(x)
		if len(b.Surv)-len(a.Surv) > 1 || len(b.PubSurv)-len(a.PubSurv) > 1 || a.N != b.N {
			out = append(out, "later-destroy-removes-more-than-one-key")
		}
	}
	return out
}

// ---------------------------------------------------------------- one (pre-state, operation) job

type preState struct {
	hist  []kslab.Op
	canon string
}

type job struct {
	w   *world
	pre preState
	op  kslab.Op
}

type runner struct {
	r       *ev.Run
	weak    bool
	verbose bool
	// statistics
	faults, followUps, seamCalls, jobs atomic.Int64
	maxCalls                           atomic.Int64
	mu                                 sync.Mutex
	callNames                          map[string]bool
	modesSeen                          map[string]bool
	opClasses                          map[string]bool
}

type faultSpec struct {
	k    int
	mode string
	lost []lostWrite // weak durability: applied after a crash-after fault
}

func (fs faultSpec) fault(c kslab.Call) kslab.Fault {
	switch fs.mode {
	case mError:
		if len(c.Paths) > 0 && strings.HasPrefix(c.Paths[0], kslab.MemRoot) {
			// v1: an os-like error value (EIO), which the code under test may inspect with os.IsNotExist
			return kslab.Fault{Action: kslab.Fail, Err: &os.PathError{Op: strings.ToLower(c.Op), Path: c.Paths[0], Err: syscall.EIO}}
		}
		return kslab.Fault{Action: kslab.Fail, Err: kslab.ErrInjected}
	case mCrashBefore:
		return kslab.Fault{Action: kslab.CrashBefore}
	case mCrashAfter:
		return kslab.Fault{Action: kslab.CrashAfter}
	case mTornEmpty:
		return kslab.Fault{Action: kslab.Torn, TornLen: 0}
	case mTornHalf:
		return kslab.Fault{Action: kslab.Torn, TornLen: len(c.Data) / 2}
	case mTornMost:
		return kslab.Fault{Action: kslab.Torn, TornLen: len(c.Data) - 1}
	}
	ev.Fatalf("unknown fault mode %q", fs.mode)
	return kslab.Fault{}
}

// hookFor: the one-shot fault hook. A failing Unlock / RUnlock reports the error while the lock
// itself is released (flock: the poisoned lock is closed; see kslab.RecBackend.FailReleasing).
func (c *jobCtx) hookFor(fs faultSpec, target kslab.Call) kslab.Hook {
	return hookFor(c.lab.S, fs, target)
}

func hookFor(s *kslab.Store, fs faultSpec, target kslab.Call) kslab.Hook {
	f := fs.fault(target)
	if fs.mode == mError && s.Backend != nil && (target.Op == "Unlock" || target.Op == "RUnlock") {
		return s.Backend.FailReleasing(fs.k, f.Err)
	}
	return kslab.FailAt(fs.k, f)
}

func modesFor(c kslab.Call) []string {
	m := []string{mError, mCrashBefore, mCrashAfter}
	if c.Writes() && len(c.Data) >= 2 {
		m = append(m, mTornEmpty, mTornHalf, mTornMost)
	}
	return m
}

type jobCtx struct {
	*runner
	j        job
	lab      *kslab.Lab
	seam     kslab.Seam
	cpOld    *kslab.Checkpoint
	cpNew    *kslab.Checkpoint
	cpErr    *kslab.Checkpoint // error mode: image right after the failed operation
	pre, neu kslab.State
	calls    []kslab.Call
	opClass  string
	refOld   map[string]outcome
	refNew   map[string]outcome
	fuOld    []kslab.Op
	fuNew    []kslab.Op
	only     *replayT // replay: restrict printing
}

func (rn *runner) payload(j job) replayT {
	return replayT{Config: j.w.cfg, Test: j.w.test, Bystander: j.w.by, History: j.pre.hist, Op: j.op, Call: -1}
}

func (c *jobCtx) rollback(cp *kslab.Checkpoint) {
	if err := c.lab.Rollback(cp); err != nil {
		ev.Fatalf("%s: restoring a storage image failed: %v", c.j.w.name(), err)
	}
}

// toPreState puts the lab into the pre-state of the job. Uncached handles keep no memory, so the
// storage image is restored and a fresh handle opened. The content of a key cache is part of the
// pre-state of a cached handle: the history is replayed on a new store so that the handle is as
// warm as the history makes it when the fault strikes.
func (c *jobCtx) toPreState() {
	if !c.j.w.cfg.Cached() {
		c.rollback(c.cpOld)
		return
	}
	c.lab.Close()
	c.lab = c.j.w.newLab()
	c.lab.Replay(c.j.pre.hist)
	c.seam = c.lab.S.Seam()
}

func (c *jobCtx) references(cp *kslab.Checkpoint, fus []kslab.Op) map[string]outcome {
	ref := map[string]outcome{}
	for _, f := range fus {
		c.rollback(cp)
		ref[f.String()] = c.j.w.observe(c.lab, f)
	}
	return ref
}

func (rn *runner) runJob(j job) {
	w := j.w
	lab := w.newLab()
	lab.Replay(j.pre.hist)
	if got := lab.Canon(); j.pre.canon != "" && got != j.pre.canon {
		ev.Fatalf("%s: replaying %s did not reproduce its state:\n got  %s\n want %s", w.name(), kslab.HistoryString(j.pre.hist), got, j.pre.canon)
	}
	c := &jobCtx{runner: rn, j: j, lab: lab, seam: lab.S.Seam()}
	defer func() { c.lab.Close() }()
	if c.seam == nil {
		ev.Fatalf("%s has no instrumented seam", w.name())
	}
	var err error
	if c.cpOld, err = lab.Checkpoint(); err != nil {
		ev.Fatalf("%s: %v", w.name(), err)
	}
	if !w.cfg.Cached() {
		c.rollback(c.cpOld) // fresh handle, as every faulted run will have
	} // cached handle: it is warm from the history, as in every faulted run (see toPreState)
	c.pre = lab.State()
	c.opClass = w.opClass(j.op, c.pre.Slot(w.test))
	rn.note(&rn.opClasses, w.fmtClass()+"/"+c.opClass)

	// unfaulted run: numbers the seam calls, gives the "new" state
	c.seam.ResetLog()
	c.seam.Record(true)
	res0 := w.apply(lab, j.op)
	c.calls = c.seam.Log()
	c.seam.Record(false)
	c.neu = lab.State()
	if c.cpNew, err = lab.Checkpoint(); err != nil {
		ev.Fatalf("%s: %v", w.name(), err)
	}
	rn.jobs.Add(1)
	rn.r.States(1)
	rn.seamCalls.Add(int64(len(c.calls)))
	for {
		m := rn.maxCalls.Load()
		if int64(len(c.calls)) <= m || rn.maxCalls.CompareAndSwap(m, int64(len(c.calls))) {
			break
		}
	}
	c.judgeUnfaulted(res0)

	c.fuOld = w.followUps(c.pre, j.op)
	c.fuNew = w.followUps(c.neu, j.op)
	c.refOld = c.references(c.cpOld, c.fuOld)
	c.refNew = c.references(c.cpNew, c.fuNew)
	rn.r.Traces(2 + len(c.fuOld) + len(c.fuNew))

	for k, call := range c.calls {
		for _, m := range modesFor(call) {
			if rn.r.Expired() {
				rn.r.Capped(fmt.Sprintf("wall budget: %s %s after %s stopped at seam call %d", w.name(), j.op, kslab.HistoryString(j.pre.hist), k))
				return
			}
			c.runFault(faultSpec{k: k, mode: m})
		}
	}
	if rn.weak && w.cfg.Format == "v1" && !w.cfg.Cached() {
		c.weakDurability()
	}
}

func (rn *runner) note(m *map[string]bool, s string) {
	rn.mu.Lock()
	if *m == nil {
		*m = map[string]bool{}
	}
	(*m)[s] = true
	rn.mu.Unlock()
}

// judgeUnfaulted: the unfaulted operation itself must do what the reference model says
// (otherwise "new" would be a wrong yardstick).
func (c *jobCtx) judgeUnfaulted(res kslab.Result) {
	w, op := c.j.w, c.j.op
	ps, qs := c.pre.Slot(w.test), c.neu.Slot(w.test)
	c.r.Eval(1)
	mop := op
	switch op.Code {
	case opSave:
		mop.Code = kslab.OpGenerate
	case opImport, opImportOver:
		return
	}
	exp, can := ps.After(mop)
	if !can {
		exp = ps
	}
	bad := !qs.SameKeys(exp)
	if mop.Code == kslab.OpGenerate && res.Err != nil {
		bad = true
	}
	for _, s := range c.pre.Slots {
		if s.Slot != w.test && !c.neu.Slot(s.Slot).SameKeys(s) {
			bad = true
		}
	}
	if bad {
		c.r.Violation(fmt.Sprintf("C08/%s/%s/no-fault/differs-from-model", w.fmtClass(), c.opClass),
			fmt.Sprintf("%s after %s without any fault: returned %v and left [%s], the reference model expects [%s]", op, kslab.HistoryString(c.j.pre.hist), res.Err, stateSig(c.neu), exp), c.payload(c.j))
	}
}

type faultResult struct {
	site     string
	class    string
	failures []string
}

// runFault executes the final operation with one fault and evaluates the oracle.
func (c *jobCtx) runFault(fs faultSpec) {
	w, op := c.j.w, c.j.op
	c.toPreState()
	c.seam.ResetLog()
	c.seam.Record(true)
	target := c.calls[fs.k]
	mode := fs.mode
	c.seam.SetHook(c.hookFor(fs, target))
	var res kslab.Result
	crash := kslab.Crashable(func() { res = w.apply(c.lab, op) })
	c.seam.SetHook(nil)
	c.seam.Record(false)
	flog := c.seam.Log()
	c.r.Transitions(1)
	c.r.Traces(1)
	c.faults.Add(1)
	if len(flog) <= fs.k || flog[fs.k].Op != target.Op {
		ev.Fatalf("%s: %s after %s: the faulted run did not repeat the seam calls of the unfaulted run (call %d: %v, expected %s)", w.name(), op, kslab.HistoryString(c.j.pre.hist), fs.k, flog, target.Op)
	}
	if (crash == nil) != (mode == mError) {
		ev.Fatalf("%s: fault mode %s at call %d: crash=%v", w.name(), mode, fs.k, crash)
	}
	name := w.callName(target)
	c.note(&c.callNames, w.fmtClass()+"/"+name)
	c.note(&c.modesSeen, mode)
	pl := c.payload(c.j)
	pl.Call, pl.CallName, pl.Mode, pl.Lost = fs.k, name, mode, fs.lost
	trace := c.only != nil
	if trace {
		fmt.Printf("  fault: %s at seam call #%d %s; operation returned %v (crashed: %v)\n", mode, fs.k+1, name, res.Err, crash != nil)
		for i, cl := range flog {
			fmt.Printf("      call #%-2d %-44s err=%q %s\n", i+1, w.callName(cl), cl.Err, cl.Fault)
		}
	}

	opFailed := crash != nil || res.Err != nil
	site := w.siteLabel(flog, fs.k, mode, opFailed)
	weak := false
	keyBase := fmt.Sprintf("C08/%s/%s/%s/", w.fmtClass(), c.opClass, site)
	stateBase := fmt.Sprintf("C08/%s/%s/", w.fmtClass(), c.opClass)
	if len(fs.lost) > 0 {
		var ls []string
		for _, l := range fs.lost {
			ls = append(ls, l.Name+":"+l.Shape)
		}
		// one root cause (v1 never fsyncs): keys carry the kind class and the failure class only,
		// operation, crash point and lost writes are in the message and the replay file
		_ = ls
		keyBase = fmt.Sprintf("C08/v1/weak-durability/%s/", w.kindClass())
		stateBase = keyBase
		weak = true
	}
	what := fmt.Sprintf("%s after %s, %s at seam call #%d %s", op, kslab.HistoryString(c.j.pre.hist), mode, fs.k+1, name)
	if len(fs.lost) > 0 {
		what += fmt.Sprintf(" with unsynced data writes %v lost", fs.lost)
	}

	var sameHandle []string
	var notes []string
	if crash == nil {
		// error mode: first ask the same handle
		_, notes = c.lab.Relearn(w.test)
		post := c.lab.State()
		cl := w.classify(c.pre, post, c.neu, op, notes)
		sameHandle = c.sameHandlePass(cl, post, trace)
	} else {
		if len(fs.lost) > 0 {
			c.applyLosses(flog, fs)
		}
		if err := c.lab.Restart(); err != nil {
			c.r.Violation(keyBase+"key-store-cannot-be-opened", fmt.Sprintf("%s: a fresh handle cannot be opened afterwards: %v", what, err), pl)
			return
		}
		_, notes = c.lab.Relearn(w.test)
	}

	// fresh handle on the surviving storage
	var cpPost *kslab.Checkpoint
	var post kslab.State
	if crash == nil {
		// the same-handle pass may have changed the storage (retry): go back to the post-fault image
		c.rollback(c.cpErr)
		post = c.lab.State()
		cpPost = c.cpErr
	} else {
		post = c.lab.State()
		var err error
		if cpPost, err = c.lab.Checkpoint(); err != nil {
			ev.Fatalf("%s: %v", w.name(), err)
		}
	}
	cl := w.classify(c.pre, post, c.neu, op, notes)
	c.r.Eval(1)
	c.r.Class("state:"+cl.class, 1)
	if trace {
		fmt.Printf("  surviving state: %s  => %s %v\n", stateSig(post), cl.class, cl.findings)
	}
	var failures []string
	for i, f := range cl.findings {
		failures = append(failures, f)
		if weak {
			f = strings.SplitN(f, ":", 2)[0]
		}
		c.r.Violation(stateBase+f, what+": "+cl.msgs[i], pl)
	}
	if mode == mError && res.Err == nil && cl.class == "old" && stateSig(c.neu) != stateSig(c.pre) {
		failures = append(failures, "reports-success-but-nothing-written")
		c.r.Violation(keyBase+"reports-success-but-nothing-written", what+": the operation reported success but the stored keys are unchanged", pl)
	}

	var fus []kslab.Op
	var ref map[string]outcome
	switch {
	case cl.exact && cl.isNew:
		fus, ref = c.fuNew, c.refNew
	case cl.exact:
		fus, ref = c.fuOld, c.refOld
	default:
		fus = w.followUps(post, op)
	}
	if cl.main != "" && !weak {
		// consequences of a surviving state that is itself reported are keyed under that state, not
		// under each of the many fault sites that lead to it
		keyBase = stateBase + cl.main + "/"
	}
	first := true
	seen := map[string]bool{}
	for _, f := range fus {
		if !first {
			c.rollback(cpPost)
		}
		first = false
		before := post
		got := w.observe(c.lab, f)
		c.r.Transitions(1)
		c.r.Eval(1)
		c.followUps.Add(1)
		var fcs []string
		var detail string
		if ref != nil {
			want := ref[f.String()]
			if got.answer != want.answer || got.post != want.post {
				fcs = []string{w.failureClass(f, want, got)}
				detail = fmt.Sprintf("a store that reached the same keys without fault answers [%s] and holds [%s]", want.answer, want.post)
			}
		} else {
			fcs = w.invariants(f, before, got, c.lab.State())
			detail = "judged by invariants (the surviving state has no fault-free twin)"
		}
		if trace {
			fmt.Printf("      follow-up %-28s -> %s | %s %v\n", f, got.answer, got.post, fcs)
		}
		for _, fc := range fcs {
			if !seen[fc] {
				seen[fc] = true
				failures = append(failures, fc)
			}
			p := pl
			ff := f
			p.FollowUp = &ff
			c.r.Violation(keyBase+fc, fmt.Sprintf("%s; surviving keys [%s] (%s). Follow-up %s on a fresh handle: answer [%s] err=%q, keys afterwards [%s]; %s", what, stateSig(post), cl.class, f, got.answer, got.err, got.post, detail), p)
		}
	}
	for _, fc := range sameHandle {
		if seen[fc] {
			continue
		}
		failures = append(failures, "same-handle:"+fc)
		p := pl
		p.SameHandle = true
		c.r.Violation(keyBase+"same-handle/"+fc, fmt.Sprintf("%s: the handle that got the error behaves differently from a fresh one: %s", what, fc), p)
	}
	sort.Strings(failures)
	oc := cl.class
	if len(failures) > 0 {
		oc += "!" + strings.Join(failures, ",")
	}
	c.r.Distinct(strings.Join([]string{w.fmtClass(), c.opClass, name, mode, oc}, "|"))
	if len(failures) == 0 {
		c.r.Class("fault:survived-cleanly", 1)
	} else {
		c.r.Class("fault:violating", 1)
	}
	if (c.jobs.Load()+c.faults.Load())%997 == 0 {
		c.r.Sample(map[string]interface{}{"config": w.cfg.Name(), "history": kslab.HistoryString(c.j.pre.hist), "op": op.String(), "call": fmt.Sprintf("#%d %s", fs.k+1, name), "mode": mode, "surviving": stateSig(post), "class": oc})
	}
}

// sameHandlePass: error mode. The handle that received the error answers every read and then
// retries the write; answers are compared with the fault-free reference of the surviving state.
// It leaves the post-fault image in c.cpErr.
func (c *jobCtx) sameHandlePass(cl classification, post kslab.State, trace bool) (failures []string) {
	w, op := c.j.w, c.j.op
	var err error
	if c.cpErr, err = c.lab.Checkpoint(); err != nil {
		ev.Fatalf("%s: %v", w.name(), err)
	}
	var fus []kslab.Op
	var ref map[string]outcome
	switch {
	case cl.exact && cl.isNew:
		fus, ref = c.fuNew, c.refNew
	case cl.exact:
		fus, ref = c.fuOld, c.refOld
	default:
		fus = w.followUps(post, op)
	}
	var seq []kslab.Op
	for _, f := range fus {
		if readOnly(f) {
			seq = append(seq, f)
		}
	}
	for _, f := range fus {
		if f.String() == op.String() {
			seq = append(seq, f) // the retry, last
		}
	}
	seen := map[string]bool{}
	for _, f := range seq {
		before := c.lab.State()
		got := w.observe(c.lab, f)
		c.r.Transitions(1)
		c.r.Eval(1)
		c.followUps.Add(1)
		var fcs []string
		if ref != nil {
			want := ref[f.String()]
			if got.answer != want.answer || got.post != want.post {
				fcs = []string{w.failureClass(f, want, got)}
			}
			if w.cfg.Cached() && readOnly(f) && got.post == want.post && !(got.failed && !want.failed) && got.panic == "" {
				// a key cache may answer from before the write (what a cached handle may show
				// after writes is C06's subject): only failing reads count here
				fcs = nil
			}
		} else {
			fcs = w.invariants(f, before, got, c.lab.State())
			if w.cfg.Cached() && f.Code == kslab.OpReadAll {
				// same allowance: a cached handle need not offer keys it has not offered so far, but it
				// must keep offering every surviving key it offered before the failed write
				var keep []string
				for _, fc := range fcs {
					if fc == "surviving-keys-not-offered-for-decryption" {
						old := false
						// (what it offered before the fault: kslab tracks it per handle, as C06 does)
						for _, o := range c.pre.OfferedBy(f.Slot()) {
							if o > 0 && contains(before.Slot(f.Slot()).Surv, o) && !contains(got.all, o) {
								old = true
							}
						}
						if !old {
							continue
						}
					}
					keep = append(keep, fc)
				}
				fcs = keep
			}
		}
		if trace {
			fmt.Printf("      same handle %-26s -> %s | %s %v\n", f, got.answer, got.post, fcs)
		}
		for _, fc := range fcs {
			if !seen[fc] {
				seen[fc] = true
				failures = append(failures, fc)
			}
		}
	}
	return failures
}

// ---------------------------------------------------------------- weak v1 durability model

// weakDurability: v1 never fsyncs. At every crash point every non-empty subset of the data
// writes (WriteFile) the operation has issued so far is lost - the file is left empty or half
// written - while the metadata operations (rename, link, remove) are kept.
func (c *jobCtx) weakDurability() {
	var writes []int
	for i, cl := range c.calls {
		if cl.Op == "WriteFile" && len(cl.Data) >= 2 {
			writes = append(writes, i)
		}
	}
	if len(writes) == 0 {
		return
	}
	for k := range c.calls {
		var done []int
		for _, i := range writes {
			if i <= k {
				done = append(done, i)
			}
		}
		for mask := 1; mask < 1<<len(done); mask++ {
			for _, shape := range []string{"empty", "half"} {
				if c.r.Expired() {
					c.r.Capped("wall budget: weak durability model of " + c.j.w.name())
					return
				}
				var lost []lostWrite
				for b, i := range done {
					if mask&(1<<b) != 0 {
						lost = append(lost, lostWrite{Call: i, Name: c.j.w.callName(c.calls[i]), Shape: shape})
					}
				}
				c.runFault(faultSpec{k: k, mode: mCrashAfter, lost: lost})
			}
		}
	}
}

// applyLosses rewrites, below the seam, the files whose data writes are lost: the name the
// written file has at the crash is found by following the renames that completed.
func (c *jobCtx) applyLosses(flog []kslab.Call, fs faultSpec) {
	raw := c.lab.S.Mem.Raw()
	for _, l := range fs.lost {
		wc := flog[l.Call]
		name := wc.Paths[0]
		for i := l.Call + 1; i <= fs.k && i < len(flog); i++ {
			if flog[i].Op == "Rename" && flog[i].Err == "" && flog[i].Paths[0] == name {
				name = flog[i].Paths[1]
			}
		}
		n := 0
		if l.Shape == "half" {
			n = len(wc.Data) / 2
		}
		if ok, _ := raw.Exists(name); !ok {
			continue // removed meanwhile
		}
		if err := raw.WriteFile(name, wc.Data[:n], wc.Perm); err != nil {
			ev.Fatalf("weak durability: %v", err)
		}
	}
}

// ---------------------------------------------------------------- pre-state discovery

type sysT = kslab.System[kslab.Op, kslab.Result]

func (w *world) discover(r *ev.Run, depth int) []preState {
	var mu sync.Mutex
	var out []preState
	ex := kslab.Explorer[kslab.Op, kslab.Result]{
		New:    func() (sysT, error) { return w.newLab(), nil },
		Ops:    func(s sysT) []kslab.Op { return w.exploreOps(s.(*kslab.Lab)) },
		Oracle: func(t kslab.Transition[kslab.Op, kslab.Result]) {},
		OnState: func(s sysT, h []kslab.Op, canon string) {
			mu.Lock()
			out = append(out, preState{hist: append([]kslab.Op(nil), h...), canon: canon})
			mu.Unlock()
		},
		MaxDepth: depth,
		Stop:     r.Expired,
	}
	st, err := ex.Run()
	if err != nil {
		ev.Fatalf("%s: %v", w.name(), err)
	}
	if st.Capped {
		r.Capped("wall budget: pre-state discovery of " + w.name())
	}
	r.Traces(st.Traces)
	sort.Slice(out, func(i, j int) bool {
		if len(out[i].hist) != len(out[j].hist) {
			return len(out[i].hist) < len(out[j].hist)
		}
		return kslab.HistoryString(out[i].hist) < kslab.HistoryString(out[j].hist)
	})
	return out
}

// ---------------------------------------------------------------- main

func main() {
	onlyCfg := flag.String("configs", "", "comma-separated configuration names (default: all of the tier)")
	onlyKind := flag.String("kinds", "", "comma-separated key kinds (default: all)")
	depthFlag := flag.Int("depth", -1, "override the history depth bound")
	noRing := flag.Bool("noring", false, "skip the v2 key ring API space")
	r := ev.New("C08", "fault_enumeration")
	fx.Quiet()
	if os.Getenv("VERIF_SCRATCH") == "" {
		if fi, err := os.Stat("/dev/shm"); err == nil && fi.IsDir() {
			os.Setenv("VERIF_SCRATCH", "/dev/shm") // the v2 directory back end fsyncs every Put
		}
	}
	kslab.InstallRand()
	if r.Replay != "" {
		replay(r)
	}

	depth := 2
	cfgs := []kslab.Config{
		{Format: "v1", Storage: "mem", Cache: keystore.WithoutCache},
		{Format: "v2", Storage: "mem"},
		{Format: "v2", Storage: "dir"},
	}
	if r.Thorough() {
		depth = 4
		cfgs = append(cfgs, kslab.Config{Format: "v1", Storage: "mem", Cache: keystore.InfiniteCacheSize}, kslab.Config{Format: "v1", Storage: "mem", Cache: 1})
	}
	if *depthFlag >= 0 {
		depth = *depthFlag
	}
	want := func(list, name string) bool {
		if list == "" {
			return true
		}
		for _, n := range strings.Split(list, ",") {
			if n == name {
				return true
			}
		}
		return false
	}

	// (sequential, before the parallel parts: its hooks are process-wide)
	if want(*onlyCfg, "v2-dir") {
		flockPart(r)
	}

	rn := &runner{r: r, weak: r.Thorough()}
	t0 := time.Now()
	var jobs []job
	perWorld := map[string]map[string]int{}
	for _, cfg := range cfgs {
		if !want(*onlyCfg, cfg.Name()) {
			continue
		}
		for _, k := range kslab.AllKinds {
			if !want(*onlyKind, k.String()) {
				continue
			}
			w := newWorld(cfg, k)
			pres := w.discover(r, depth)
			n := 0
			for _, p := range pres {
				lab := w.newLab()
				lab.Replay(p.hist)
				s := lab.State().Slot(w.test)
				lab.Close()
				for _, op := range w.writeOps(s) {
					jobs = append(jobs, job{w: w, pre: p, op: op})
					n++
				}
			}
			perWorld[w.name()] = map[string]int{"pre_states": len(pres), "state_operation_pairs": n}
		}
	}
	// large jobs first (better load balance): pairs and v2-dir are the slow ones; keep it simple and interleave
	if os.Getenv("C08_TRACE") != "" {
		fmt.Fprintf(os.Stderr, "%d (pre-state, operation) pairs, discovery took %v\n", len(jobs), time.Since(t0))
	}
	done := par.Do(len(jobs), r.Expired, func(i int) { rn.runJob(jobs[i]) })
	if done < len(jobs) {
		r.Capped(fmt.Sprintf("wall budget: %d of %d (pre-state, operation) pairs evaluated", done, len(jobs)))
	}
	ringStats := map[string]int{}
	if !*noRing && want(*onlyCfg, "v2-mem") {
		ringStats = ringSpace(r)
	}

	names := func(m map[string]bool) []string {
		var l []string
		for k := range m {
			l = append(l, k)
		}
		sort.Strings(l)
		return l
	}
	r.Set("bounds", map[string]interface{}{"history_depth": depth, "configs": len(cfgs), "kinds": len(kslab.AllKinds), "slots_per_world": "key under test + one bystander key of another kind", "weak_v1_durability_model": rn.weak})
	r.Set("per_world", perWorld)
	totalStates := rn.jobs.Load() + int64(ringStats["history_operation_pairs"])
	totalTransitions := rn.faults.Load() + rn.followUps.Load() + int64(ringStats["faulted_executions"]+ringStats["follow_up_operations"])
	r.Set("states", totalStates)
	r.Set("transitions", totalTransitions)
	r.Set("traces_validated_against_impl", totalTransitions)
	r.Set("counts", map[string]int64{"state_operation_pairs": rn.jobs.Load(), "seam_calls_of_unfaulted_operations": rn.seamCalls.Load(), "max_seam_calls_per_operation": rn.maxCalls.Load(), "faulted_executions": rn.faults.Load(), "follow_up_operations": rn.followUps.Load()})
	r.Set("seam_calls", names(rn.callNames))
	r.Set("fault_modes", names(rn.modesSeen))
	r.Set("operation_classes", names(rn.opClasses))
	r.Set("ring_api_space", ringStats)
	r.Rule("pre-states = canonical key store states (kslab: per slot generated count, surviving key ordinals newest first, current marker, public parts; cached v1 handles: plus cache content) reached by histories of the C06 alphabet up to the depth bound, one per canonical state; element = (pre-state, write operation, seam call k of the unfaulted run, fault mode) [thorough, v1: plus (crash point, non-empty subset of unsynced data writes, empty|half)]; every element is executed on the real code from a restored storage image, judged on a fresh handle (error mode: also on the same handle) and followed by every operation of the follow-up alphabet, each from a restored post-fault image; states = (pre-state, operation) pairs, transitions = faulted executions + follow-up operations; distinct_nontrivial = distinct (format, operation class, seam call, fault mode, surviving-state class + failure classes)")
	r.Assume("Themis is replaced by the pure-Go stand-in /verif/shim/gothemis",
		"v1 seam: kslab.MemFS conforms to filesystem.FileStorage (bin/check C06 -selftest)",
		"baseline durability: a seam call that returned is durable, rename is atomic (v2 Put fsyncs; v1 does not - the weaker v1 model is enumerated separately in thorough)",
		"one fault per operation; at the api.Backend seam a failed Unlock/RUnlock reports the error and the lock is released; what the real file lock does when flock(2) itself fails is enumerated separately (flock part, build overlay)",
		"injected errors are generic I/O errors (v1: *os.PathError EIO), never 'not exist'",
		"handles are driven sequentially (concurrent writers: C17)",
		"acra-rotate: only the key store side (SaveDataEncryptionKeys) is faulted; data files re-encrypted before the key is saved are outside the statement",
		"the v2 directory back end runs on tmpfs (/dev/shm) when VERIF_SCRATCH is not set")
	r.Finish()
}
