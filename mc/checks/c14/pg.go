package main

import (
	"bufio"
	"bytes"
	"io"

	"github.com/jackc/pgx/v5/pgproto3"
	"github.com/sirupsen/logrus"

	acracensor "github.com/cossacklabs/acra/acra-censor"
	"github.com/cossacklabs/acra/decryptor/base"
	"github.com/cossacklabs/acra/decryptor/postgresql"
	"github.com/cossacklabs/acra/encryptor/base/config"
	"github.com/cossacklabs/acra/poison"
	"github.com/cossacklabs/acra/pseudonymization"
	tokcommon "github.com/cossacklabs/acra/pseudonymization/common"
	"github.com/cossacklabs/acra/pseudonymization/storage"
	"github.com/cossacklabs/acra/sqlparser"
	pgdialect "github.com/cossacklabs/acra/sqlparser/dialect/postgresql"
	"github.com/cossacklabs/acra/utils"

	"verif/ev"
	"verif/fx"
)

// PostgreSQL: packet readers on a bufio reader, the Parse/Bind/Execute body parsers (fed with
// bodies of any length: the header reader accepts every body length >= 0), and complete
// sessions through the real PgProxy (row description, data row column parsing, parameter
// arrays, protocol state) on scripted connections.

const proxySchemaYAML = `
schemas:
  - table: t
    columns: [id, s, b, ss, bs, ti, tk]
    encrypted:
      - column: s
        crypto_envelope: acrastruct
      - column: b
        crypto_envelope: acrablock
      - column: ss
        crypto_envelope: acrastruct
        searchable: true
      - column: bs
        crypto_envelope: acrablock
        searchable: true
      - column: ti
        crypto_envelope: acrablock
        data_type: int32
        response_on_fail: default_value
        default_data_value: "7"
      - column: tk
        token_type: str
        tokenized: true
`

type pgFx struct {
	factory base.ProxyFactory
	dialect *pgdialect.PostgreSQLDialect
	logger  *logrus.Entry
}

func proxySetting(w *fx.World, mysql bool) (base.ProxySetting, tokcommon.Pseudoanonymizer) {
	schema, err := config.MapTableSchemaStoreFromConfig([]byte(proxySchemaYAML), mysql)
	if err != nil {
		ev.Fatalf("proxy schema: %v", err)
	}
	parser := sqlparser.New(sqlparser.ModeDefault)
	censor := acracensor.NewAcraCensor()
	if err := censor.LoadConfiguration([]byte("version: 0.85.0\nhandlers:\n  - handler: deny\n    tables:\n      - secret\n  - handler: allowall\n")); err != nil {
		ev.Fatalf("proxy censor: %v", err)
	}
	setting := base.NewProxySetting(parser, schema, w.KS, nil, censor, poison.NewCallbackStorage())
	mem, err := storage.NewMemoryTokenStorage()
	if err != nil {
		ev.Fatalf("token storage: %v", err)
	}
	enc, err := storage.NewSCellEncryptor(w.KS)
	if err != nil {
		ev.Fatalf("token encryptor: %v", err)
	}
	tk, err := pseudonymization.NewPseudoanonymizer(storage.WrapStorageWithEncryption(mem, enc))
	if err != nil {
		ev.Fatalf("pseudoanonymizer: %v", err)
	}
	return setting, tk
}

func newPgFx(w *fx.World) *pgFx {
	d := pgdialect.NewPostgreSQLDialect()
	sqlparser.SetDefaultDialect(d)
	setting, tk := proxySetting(w, false)
	f, err := postgresql.NewProxyFactory(setting, w.KS, tk)
	if err != nil {
		ev.Fatalf("pg factory: %v", err)
	}
	return &pgFx{factory: f, dialect: d, logger: logrus.NewEntry(logrus.StandardLogger())}
}

func pgEnc(m interface{ Encode([]byte) ([]byte, error) }) []byte {
	b, err := m.Encode(nil)
	if err != nil {
		ev.Fatalf("pgproto3 encode: %v", err)
	}
	return b
}

// pgMsg writes one general message with recorded type / length fields.
func pgMsg(b *fb, name string, tag byte, body func(b *fb)) {
	b.num(name+".type", 1, uint64(tag))
	lenOff := b.pos()
	b.num(name+".len", 4, 0)
	if body != nil {
		body(b)
	}
	b.patch(name+".len", uint64(b.pos()-lenOff))
}

const (
	pgSimpleQuery   = "select id, s, bs, ti from t"
	pgExtendedQuery = "select id, b, ss, tk from t where id = $1"
)

func pgParse(b *fb) {
	pgMsg(b, "Parse", 'P', func(b *fb) {
		b.cstr("s1").cstr(pgExtendedQuery).num("Parse.nparams", 2, 1).num("Parse.oid0", 4, 23)
	})
}

func pgBind(b *fb) {
	pgMsg(b, "Bind", 'B', func(b *fb) {
		b.cstr("").cstr("s1").num("Bind.nformats", 2, 1).num("Bind.format0", 2, 1).
			num("Bind.nparams", 2, 1).num("Bind.param0.len", 4, 4).raw(0, 0, 0, 1).
			num("Bind.nresults", 2, 4).num("Bind.result0", 2, 1).num("Bind.result1", 2, 1).num("Bind.result2", 2, 1).num("Bind.result3", 2, 0)
	})
}

func pgExecute(b *fb) {
	pgMsg(b, "Execute", 'E', func(b *fb) { b.cstr("").num("Execute.maxrows", 4, 0) })
}

func pgRowDescription(b *fb, cols []string) {
	pgMsg(b, "RowDescription", 'T', func(b *fb) {
		b.num("RowDescription.nfields", 2, uint64(len(cols)))
		for i, c := range cols {
			p := "RowDescription.f" + string(rune('0'+i))
			b.cstr(c).num(p+".tableoid", 4, 16384).num(p+".attr", 2, uint64(i+1)).num(p+".typeoid", 4, 17).
				num(p+".typlen", 2, 0xFFFF).num(p+".typmod", 4, 0xFFFFFFFF).num(p+".format", 2, 0)
		}
	})
}

func pgDataRow(b *fb, cols [][]byte) {
	pgMsg(b, "DataRow", 'D', func(b *fb) {
		b.num("DataRow.ncols", 2, uint64(len(cols)))
		for i, c := range cols {
			p := "DataRow.c" + string(rune('0'+i))
			if c == nil {
				b.num(p+".len", 4, 0xFFFFFFFF)
				continue
			}
			b.num(p+".len", 4, uint64(len(c))).bytes(c)
		}
	})
}

func (e *Env) pgSpaces(thorough bool) []*Space {
	if e.pg == nil {
		e.pg = newPgFx(e.W)
	}
	p := e.pg
	var out []*Space
	be := func() *fb { return &fb{be: true} }

	startup := pgEnc(&pgproto3.StartupMessage{ProtocolVersion: pgproto3.ProtocolVersionNumber, Parameters: map[string]string{"user": "u"}})
	authOk := pgEnc(&pgproto3.AuthenticationOk{})
	readyForQuery := pgEnc(&pgproto3.ReadyForQuery{TxStatus: 'I'})
	simpleQ := pgEnc(&pgproto3.Query{String: pgSimpleQuery})
	extended := be()
	pgParse(extended)
	pgBind(extended)
	pgExecute(extended)
	pgMsg(extended, "Sync", 'S', nil)

	// ---- body parsers ----------------------------------------------------------------
	bodyDecs := []*Decoder{
		e.dec("postgresql.NewParsePacket", func(in []byte) (string, error) {
			pk, err := postgresql.NewParsePacket(in)
			if err != nil {
				return "", err
			}
			_ = pk.Name()
			_ = pk.QueryString()
			_ = pk.Length()
			_ = pk.Marshal()
			pk.ReplaceQuery("select 1")
			_ = pk.Marshal()
			return "", nil
		}),
		e.dec("postgresql.NewBindPacket", func(in []byte) (string, error) {
			bp, err := postgresql.NewBindPacket(in)
			if err != nil {
				return "", err
			}
			_ = bp.PortalName()
			_ = bp.StatementName()
			ps, perr := bp.GetParameters()
			_, ferr := bp.GetResultFormats()
			var buf bytes.Buffer
			if _, err := bp.MarshalInto(&buf); err != nil {
				return "marshal-error", nil
			}
			if perr == nil {
				bp.SetParameters(ps)
				buf.Reset()
				bp.MarshalInto(&buf)
			}
			if perr != nil || ferr != nil {
				return "format-error", nil
			}
			return "", nil
		}),
		e.dec("postgresql.NewExecutePacket", func(in []byte) (string, error) {
			ep, err := postgresql.NewExecutePacket(in)
			if err != nil {
				return "", err
			}
			_ = ep.PortalName()
			return "", nil
		}),
		e.dec("postgresql.FetchQueryFromParse", func(in []byte) (string, error) {
			_, err := postgresql.FetchQueryFromParse(in)
			return "", err
		}),
	}
	bodyA := alphabet{Name: "pg-body", Tok: [][]byte{{0}, {'a'}, {'$', '1'}, {0, 0}, {0, 1}, {0, 2}, {0xFF, 0xFF}, {0, 0, 0, 0}, {0, 0, 0, 1}, {0, 0, 0, 4}, {0xFF, 0xFF, 0xFF, 0xFF}, {0x7F, 0xFF, 0xFF, 0xFF}, {0x80, 0, 0, 0}, {1}, {0xFF}}}
	l := 4
	if thorough {
		l = 6
	}
	out = append(out, e.sigma("postgresql", "pg-bodies", bodyA, l, bodyDecs, nil, nil)...)
	var bodySeeds []seedT
	for _, mk := range []struct {
		n string
		f func(*fb)
	}{{"Parse body", pgParse}, {"Bind body", pgBind}, {"Execute body", pgExecute}} {
		b := be()
		mk.f(b)
		s := b.seed(mk.n)
		// strip the 5-byte header: the parsers get the body
		var fs []fld
		for _, f := range s.Fields {
			if f.Off >= 5 {
				f.Off -= 5
				fs = append(fs, f)
			}
		}
		bodySeeds = append(bodySeeds, seedT{mk.n, s.Data[5:], fs})
	}
	out = append(out, e.fieldSpace("postgresql", "pg-bodies", bodySeeds, true, bodyDecs))

	// ---- packet readers ---------------------------------------------------------------
	useClientPacket := func(h *postgresql.PacketHandler) {
		switch {
		case h.IsSimpleQuery():
			h.GetSimpleQuery()
			h.ReplaceQuery("select 1")
		case h.IsParse():
			if pk, err := h.GetParseData(); err == nil {
				_ = pk.Name()
				_ = pk.QueryString()
				h.ReplaceQuery("select 1")
			}
		case h.IsBind():
			if bp, err := h.GetBindData(); err == nil {
				bp.GetParameters()
				bp.GetResultFormats()
				h.ReplaceBind(bp)
			}
		case h.IsExecute():
			h.GetExecuteData()
		}
		h.Marshal()
	}
	readClient := func(started bool) func(in []byte) (string, error) {
		return func(in []byte) (string, error) {
			h, err := postgresql.NewClientSidePacketHandler(bufio.NewReader(bytes.NewReader(in)), bufio.NewWriter(io.Discard), p.logger)
			if err != nil {
				return "", err
			}
			if started {
				h.SetStarted()
			}
			n := 0
			for ; n < 1000; n++ {
				h.Reset()
				if err := h.ReadClientPacket(); err != nil {
					if n > 0 {
						return "packets", nil
					}
					return "", err
				}
				// the dispatch of PgProxy.handleClientPacket; a startup packet has no type
				if h.IsAlreadyStarted() && n > 0 || started {
					useClientPacket(h)
				} else {
					h.Marshal()
				}
			}
			return "packets", nil
		}
	}
	readDB := func(in []byte) (string, error) {
		h, err := postgresql.NewDbSidePacketHandler(bufio.NewReader(bytes.NewReader(in)), bufio.NewWriter(io.Discard), p.logger)
		if err != nil {
			return "", err
		}
		for n := 0; n < 1000; n++ {
			h.Reset()
			if err := h.ReadPacket(); err != nil {
				if n > 0 {
					return "packets", nil
				}
				return "", err
			}
			switch {
			case h.IsRowDescription():
				h.GetRowDescriptionData()
			case h.IsParameterDescription():
				h.GetParameterDescriptionData()
			}
			h.Marshal()
		}
		return "packets", nil
	}
	pktDecs := []*Decoder{
		e.dec("postgresql.PacketHandler.ReadClientPacket[first]", readClient(false)),
		e.dec("postgresql.PacketHandler.ReadClientPacket[started]", readClient(true)),
		e.dec("postgresql.PacketHandler.ReadPacket", readDB),
	}
	u32 := func(v uint32) []byte { return []byte{byte(v >> 24), byte(v >> 16), byte(v >> 8), byte(v)} }
	// Alphabets of whole packets. A reader that trusts the 32-bit length of a header allocates
	// whatever the four bytes behind a type byte say, and a worker dies (unrecoverably, out of
	// memory) on every input in which a letter lands in a length. So that this costs some
	// workers and not one per input, a token is a complete packet - well-formed or damaged in
	// one specific way - and sequences explore the protocol state machine; the byte-level
	// damage of every length field is the business of the "fields" spaces below.
	mk := func(f func(b *fb)) []byte { b := be(); f(b); return b.buf }
	raw := func(tag byte, n uint32, body ...byte) []byte { return append(append([]byte{tag}, u32(n)...), body...) }
	cstr := func(s string) []byte { return append([]byte(s), 0) }
	cat := func(parts ...[]byte) []byte { return bytes.Join(parts, nil) }
	pkt := func(tag byte, body []byte) []byte { return raw(tag, uint32(4+len(body)), body...) }
	cliA := alphabet{Name: "pg-client-packet", Tok: [][]byte{
		pkt('Q', cstr(pgSimpleQuery)), pkt('Q', cstr("")), pkt('Q', cstr("insert into t (id, b) values (1, 'x')")), raw('Q', 4), raw('Q', 3), raw('Q', 0),
		mk(pgParse), pkt('P', cat(cstr(""), cstr("select 1"), []byte{0, 0})), pkt('P', []byte{0, 0}), pkt('P', cat(cstr("s1"), cstr("select $1"), []byte{0, 2, 0, 0, 0, 23})), pkt('P', []byte{'a'}),
		mk(pgBind), pkt('B', cat(cstr(""), cstr("nope"), []byte{0, 0, 0, 0, 0, 0})), pkt('B', cat(cstr(""), cstr("s1"), []byte{0, 0, 0xFF, 0xFF})),
		pkt('B', cat(cstr(""), cstr("s1"), []byte{0, 1, 0, 1, 0, 1, 0, 0, 0, 9, 1, 0, 0})), pkt('B', cat(cstr(""), cstr("s1"), []byte{0, 2, 0, 1, 0, 7, 0, 1, 0xFF, 0xFF, 0xFF, 0xFF, 0, 1, 0, 5})),
		mk(pgExecute), pkt('E', cat(cstr("nope"), u32(0))), pkt('E', cstr("")), pkt('E', nil),
		raw('S', 4), raw('X', 4), raw('X', 5, 0), raw('H', 4), pkt('D', cat([]byte{'S'}, cstr("s1"))), pkt('C', cat([]byte{'P'}, cstr(""))),
		raw('P', 0x04100000), startup, {0, 0, 0, 8, 4, 210, 22, 47},
	}}
	row := func(cols ...[]byte) []byte { return mk(func(b *fb) { pgDataRow(b, cols) }) }
	dbA := alphabet{Name: "pg-backend-packet", Tok: [][]byte{
		authOk, readyForQuery, raw('1', 4), raw('2', 4), raw('n', 4), raw('s', 4), raw('I', 4), pkt('C', cstr("SELECT 1")), pkt('E', cat([]byte("SERROR"), []byte{0, 0})),
		pkt('t', []byte{0, 1, 0, 0, 0, 23}), pkt('t', []byte{0, 2, 0, 0, 0, 23}), pkt('t', []byte{0xFF}),
		mk(func(b *fb) { pgRowDescription(b, []string{"id", "s", "bs", "ti"}) }), pkt('T', []byte{0xFF, 0xFF}), pkt('T', []byte{0, 1, 'a'}), pkt('T', nil),
		row([]byte("1"), []byte("\\x2525"), nil, []byte("7")), row([]byte{0, 0, 0, 1}, e.seed("env/block-container"), e.seed("env/struct-searchable"), []byte("x")),
		row([]byte("1")), row([]byte("1"), []byte("2"), []byte("3"), []byte("4"), []byte("5"), []byte("6")),
		pkt('D', []byte{0xFF, 0xFF}), pkt('D', []byte{0, 1, 0, 0, 0, 9, 'a'}), pkt('D', []byte{0, 2, 0xFF, 0xFF, 0xFF, 0xFF}), pkt('D', []byte{0, 1, 0x04, 0x10, 0, 0}),
		raw('D', 4), raw('D', 5, 0), raw('D', 3), raw('D', 0), raw('D', 0x04100000),
	}}
	l = 3
	if thorough {
		l = 4
	}
	out = append(out, e.sigma("postgresql", "pg-client-packets", cliA, l, pktDecs[:2], nil, nil)...)
	out = append(out, e.sigma("postgresql", "pg-backend-packets", dbA, l, pktDecs[2:], nil, nil)...)

	// ---- sessions through the real proxy ---------------------------------------------------
	sess := func(steps func(in []byte) []step) func(in []byte) (string, error) {
		return func(in []byte) (string, error) {
			sqlparser.SetDefaultDialect(p.dialect)
			return runSession(p.factory, fx.Alpha, steps(in))
		}
	}
	cliFirst := e.dec("postgresql.PgProxy.ProxyClientConnection[first packet]", sess(func(in []byte) []step {
		return []step{{true, in}}
	}))
	cli := e.dec("postgresql.PgProxy.ProxyClientConnection", sess(func(in []byte) []step {
		return []step{{true, startup}, {true, in}}
	}))
	dbFirst := e.dec("postgresql.PgProxy.ProxyDatabaseConnection[first packet]", sess(func(in []byte) []step {
		// the first backend byte 'N' / 'S' answers an SSLRequest and switches the proxy to TLS
		// (needs a TLS wrapper and a second client goroutine): outside the driven surface
		if len(in) > 0 && (in[0] == 'N' || in[0] == 'S') {
			return nil
		}
		return []step{{true, startup}, {false, in}}
	}))
	dbSimple := e.dec("postgresql.PgProxy.ProxyDatabaseConnection[simple query]", sess(func(in []byte) []step {
		return []step{{true, startup}, {false, authOk}, {false, readyForQuery}, {true, simpleQ}, {false, in}}
	}))
	dbExtended := e.dec("postgresql.PgProxy.ProxyDatabaseConnection[extended query]", sess(func(in []byte) []step {
		return []step{{true, startup}, {false, authOk}, {false, readyForQuery}, {true, extended.buf}, {false, in}}
	}))
	l = 2 // a session costs about a millisecond; quick runs pairs of packets, thorough 4
	if thorough {
		l = 4
	}
	out = append(out, e.sigma("postgresql", "pg-session-client", cliA, l, []*Decoder{cli, cliFirst}, nil, nil)...)
	out = append(out, e.sigma("postgresql", "pg-session-db", dbA, l, []*Decoder{dbSimple, dbExtended, dbFirst}, nil, nil)...)

	// fields: valid client / backend streams
	hexcol := func(seed string) []byte { return utils.PgEncodeToHex(e.seed(seed)) }
	var cliSeeds, dbSimpleSeeds, dbExtSeeds []seedT
	cliSeeds = append(cliSeeds, extended.seed("Parse+Bind+Execute+Sync"))
	{
		b := be()
		pgMsg(b, "Query", 'Q', func(b *fb) { b.cstr(pgSimpleQuery) })
		cliSeeds = append(cliSeeds, b.seed("Query"))
		b = be()
		pgMsg(b, "Query", 'Q', func(b *fb) { b.cstr("insert into t (id, s, b, tk) values (1, 'a', 'b', 'c')") })
		pgMsg(b, "Terminate", 'X', nil)
		cliSeeds = append(cliSeeds, b.seed("Query(insert)+Terminate"))
	}
	{
		b := be()
		pgRowDescription(b, []string{"id", "s", "bs", "ti"})
		pgDataRow(b, [][]byte{[]byte("1"), hexcol("env/struct-container"), hexcol("env/block-searchable"), hexcol("env/block-container")})
		pgDataRow(b, [][]byte{[]byte("2"), nil, []byte("plain"), []byte("12")})
		pgMsg(b, "CommandComplete", 'C', func(b *fb) { b.cstr("SELECT 2") })
		pgMsg(b, "ReadyForQuery", 'Z', func(b *fb) { b.raw('I') })
		dbSimpleSeeds = append(dbSimpleSeeds, b.seed("RowDescription+DataRow*2+CommandComplete+ReadyForQuery"))
	}
	{
		b := be()
		pgMsg(b, "ParseComplete", '1', nil)
		pgMsg(b, "BindComplete", '2', nil)
		pgMsg(b, "ParameterDescription", 't', func(b *fb) { b.num("ParameterDescription.n", 2, 1).num("ParameterDescription.oid0", 4, 23) })
		pgRowDescription(b, []string{"id", "b", "ss", "tk"})
		pgDataRow(b, [][]byte{{0, 0, 0, 1}, e.seed("env/block-container"), e.seed("env/struct-searchable"), []byte("token")})
		pgMsg(b, "CommandComplete", 'C', func(b *fb) { b.cstr("SELECT 1") })
		pgMsg(b, "ReadyForQuery", 'Z', func(b *fb) { b.raw('I') })
		dbExtSeeds = append(dbExtSeeds, b.seed("ParseComplete+BindComplete+ParameterDescription+RowDescription+DataRow+CommandComplete+ReadyForQuery"))
	}
	out = append(out, e.fieldSpace("postgresql", "pg-session-client", cliSeeds, thorough, []*Decoder{cli, e.byName["postgresql.PacketHandler.ReadClientPacket[started]"]}))
	out = append(out, e.fieldSpace("postgresql", "pg-session-db-simple", dbSimpleSeeds, thorough, []*Decoder{dbSimple, e.byName["postgresql.PacketHandler.ReadPacket"]}))
	out = append(out, e.fieldSpace("postgresql", "pg-session-db-extended", dbExtSeeds, thorough, []*Decoder{dbExtended}))
	// the reader at the start of a session and in its steady state x every declared length (modes.go)
	out = append(out, e.pgStartSpaces(thorough, cliFirst, cli)...)
	return out
}
