package sess

import (
	"errors"
	"fmt"
	"os"
	"time"
)

// MyStepResult is what one lock-step exchange produced. All byte slices are the raw wire bytes of
// this step only.
type MyStepResult struct {
	ClientSentRaw []byte     // what the client end wrote
	DBRaw         []byte     // what arrived at the database end
	DB            []MyPacket // ... framed
	DBSentRaw     []byte     // what the database end answered
	DBSent        []MyPacket
	ClientRaw     []byte     // what arrived at the client end
	Client        []MyPacket // ... framed
	Terminated    bool       // the proxy closed the session during this step
}

// readQuiet collects bytes arriving at a harness end until the proxy is quiescent (every pump
// asleep on an empty input buffer) or the connection is closed.
func (ms *MySession) readQuiet(c *Conn) (data []byte, closed bool, err error) {
	c.SetReadDeadline(time.Now().Add(ms.Timeout))
	buf := make([]byte, 64<<10)
	for {
		n, err := c.Read(buf)
		data = append(data, buf[:n]...)
		if err == nil {
			continue
		}
		switch {
		case errors.Is(err, ErrQuiescent):
			return data, false, nil
		case isClosed(err):
			return data, true, nil
		case errors.Is(err, os.ErrDeadlineExceeded):
			return data, false, fmt.Errorf("%w: safety deadline exceeded waiting for quiescence at %s", ErrHarness, c.name)
		default:
			return data, false, fmt.Errorf("%w: read at %s: %v", ErrHarness, c.name, err)
		}
	}
}

// frame splits what arrived at a harness end into packets; a stream that ends inside a packet
// (the proxy is quiescent, so the rest will never come) or that the framer rejects is malformed.
func myFrameArrived(where string, raw []byte) ([]MyPacket, error) {
	pkts, rest, err := MySplit(raw)
	if err != nil {
		return pkts, fmt.Errorf("%w: %s: %v", ErrMalformed, where, err)
	}
	if len(rest) != 0 {
		declared := -1
		if len(rest) >= 3 {
			declared = int(rest[0]) | int(rest[1])<<8 | int(rest[2])<<16
		}
		return pkts, fmt.Errorf("%w: %s: the stream ends inside a packet (after %d complete packets: %d bytes left, header declares %d)", ErrMalformed, where, len(pkts), len(rest), declared)
	}
	return pkts, nil
}

// Startup performs the scripted connection phase without TLS: the database end sends
// HandshakeV10 (ms.ServerCaps), the client end answers with HandshakeResponse41 (ms.ClientCaps),
// the database end sends OK. What each end received is decoded with the independent codec.
func (ms *MySession) Startup() error {
	greeting := (&MyHandshakeV10{ServerVersion: "8.0.33-verif", ConnectionID: 7, AuthData: []byte("12345678abcdefghijkl"),
		Capabilities: ms.ServerCaps, Charset: 0xff, Status: MyStatusAutocommit, AuthPlugin: "mysql_native_password"}).Encode()
	res, err := ms.exchange(nil, MySeq(0, greeting))
	if err != nil {
		return fmt.Errorf("startup (greeting): %w", err)
	}
	if res.Terminated || len(res.Client) != 1 {
		return fmt.Errorf("%w: startup: greeting produced %d packets at the client end (terminated=%v, proxy errors %v)", ErrHarness, len(res.Client), res.Terminated, ms.ProxyErrorList())
	}
	if _, err := DecodeMyHandshakeV10(res.Client[0].Payload); err != nil {
		return fmt.Errorf("%w: startup: relayed greeting: %v", ErrMalformed, err)
	}
	hr := &MyHandshakeResponse41{Capabilities: ms.ClientCaps, MaxPacket: 1 << 24, Charset: 0xff, User: "app",
		AuthResponse: []byte("0123456789abcdefghij"), Database: "appdb", AuthPlugin: "mysql_native_password",
		Attrs: [][2]string{{"_client_name", "verif"}}}
	res, err = ms.Step(MySeq(1, hr.Encode()), func(got []MyPacket) []MyPacket {
		return MySeq(2, (&MyOK{Status: MyStatusAutocommit}).Encode())
	})
	if err != nil {
		return fmt.Errorf("startup (response): %w", err)
	}
	if res.Terminated || len(res.DB) != 1 || len(res.Client) != 1 {
		return fmt.Errorf("%w: startup: handshake response produced %d packets at the database end, %d at the client end (terminated=%v, proxy errors %v)", ErrHarness, len(res.DB), len(res.Client), res.Terminated, ms.ProxyErrorList())
	}
	if _, err := DecodeMyHandshakeResponse41(res.DB[0].Payload); err != nil {
		return fmt.Errorf("%w: startup: relayed handshake response: %v", ErrMalformed, err)
	}
	if _, err := DecodeMyOK(res.Client[0].Payload); err != nil {
		return fmt.Errorf("%w: startup: relayed OK: %v", ErrMalformed, err)
	}
	return nil
}

// MyResponder answers the packets that reached the database end in one step.
type MyResponder func(received []MyPacket) []MyPacket

// Step runs one lock-step exchange: the client end writes clientPackets; everything that arrives
// at the database end until the proxy is quiescent is collected and framed; respond produces the
// scripted backend packets, which the database end writes; everything that arrives at the client
// end until the proxy is quiescent again is collected and framed. No timing is involved:
// quiescence is "both proxy pumps asleep on empty input buffers" (see bufconn.go).
//
// Errors: ErrMalformed (a stream emitted by the proxy cannot be framed - a verdict about the
// proxy) or ErrHarness (safety deadline).
func (ms *MySession) Step(clientPackets []MyPacket, respond MyResponder) (*MyStepResult, error) {
	return ms.step(MyJoin(clientPackets), respond)
}

// StepRaw is Step with arbitrary client bytes.
func (ms *MySession) StepRaw(clientBytes []byte, respond MyResponder) (*MyStepResult, error) {
	return ms.step(clientBytes, respond)
}

func (ms *MySession) step(clientBytes []byte, respond MyResponder) (*MyStepResult, error) {
	res := &MyStepResult{ClientSentRaw: clientBytes}
	if len(clientBytes) > 0 {
		if _, err := ms.ClientEnd.Write(clientBytes); err != nil {
			res.Terminated = true
		}
	}
	var err error
	var closed bool
	if res.DBRaw, closed, err = ms.readQuiet(ms.DBEnd); err != nil {
		return res, err
	}
	res.Terminated = res.Terminated || closed
	if res.DB, err = myFrameArrived("client-to-database stream", res.DBRaw); err != nil {
		return res, err
	}
	var answers []MyPacket
	if respond != nil && !res.Terminated {
		answers = respond(res.DB)
	}
	r2, err := ms.exchange(res, answers)
	return r2, err
}

// exchange writes answers at the database end and collects what reaches the client end.
func (ms *MySession) exchange(res *MyStepResult, answers []MyPacket) (*MyStepResult, error) {
	if res == nil {
		res = &MyStepResult{}
	}
	if len(answers) > 0 {
		res.DBSent = answers
		res.DBSentRaw = MyJoin(answers)
		if _, err := ms.DBEnd.Write(res.DBSentRaw); err != nil {
			res.Terminated = true
		}
	}
	raw, closed, err := ms.readQuiet(ms.ClientEnd)
	res.ClientRaw = raw
	if err != nil {
		return res, err
	}
	res.Terminated = res.Terminated || closed
	if res.Client, err = myFrameArrived("database-to-client stream", raw); err != nil {
		return res, err
	}
	if !res.Terminated {
		// a session the proxy tears down while the harness was not reading shows up here
		select {
		case <-ms.closed:
			res.Terminated = true
		default:
		}
	}
	return res, nil
}
