package main

// C15, session-level phase: poison records delivered through WHOLE proxy sessions.
//
// The chain phase (main.go) hands values to the column-processor chains the proxy factories built.
// Whether a row of a result set is handed to that chain at all is decided by the proxies' response
// handlers (decryptor/mysql/response_proxy.go, decryptor/postgresql/pg_decryptor.go): this phase
// drives the REAL MySQL proxy and the REAL PostgreSQL proxy (factory.New + both pumps, exactly as
// cmd/acra-server/common/listener.go starts them) over in-memory connections (verif/sess); the
// database end is the scripted store of verif/mycheck (MySQL) / the reference database
// sess.PGDB (PostgreSQL) holding ONE row of table t (id INT, plain VARCHAR/text, c, d).
//
// Space (all of it is evaluated, nothing sampled):
//
//	database        {mysql, postgresql}
//	protocol        {text: COM_QUERY / simple Query;
//	                 prepared-binary: COM_STMT_PREPARE+EXECUTE (binary rows) / Parse-Bind-Describe-
//	                 Execute-Sync with binary result format}
//	column config   of the encrypted column c: {plain (no data_type), data_type str, bytes, int32,
//	                int64} x response_on_fail {not given, ciphertext, error, default_value (with a
//	                valid default_data_value)} x crypto_envelope {acrablock, acrastruct}; the real
//	                configuration loader decides which of the 40 candidates exist (rejected ones are
//	                listed in the evidence, they are not C15's business)
//	result shape    {c alone; unconfigured integer column id, c; unconfigured string column plain, c;
//	                d, c where d is a second encrypted column of the same declared type (no policy)
//	                holding an ordinary value of client alpha - only the second column holds the
//	                record}
//	stored value    positives: poison record of the AcraStruct kind / of the AcraBlock kind, each made
//	                under the current poison key and under the rotated one (key store v1-h2 of the
//	                chain phase); negatives: ordinary container of alpha (the owner), ordinary
//	                container of bravo (another client), plain bytes, NULL
//	reader          {alpha (owner), nokeys_9 (client without keys)}
//	(thorough: MySQL additionally with CLIENT_DEPRECATE_EOF negotiated)
//
// Every element is one fresh session with its own proxy (own callback storage: EmptyCallback, then
// the recording callback - the order acra-server uses) and one statement.
//
// Oracle. The recording callback notes, each time it runs, how many bytes the proxy has written to
// the client connection so far. Positives: it ran at least once by the time the proxy is quiescent
// after the statement (poison-missed otherwise), and when it first ran not one byte of the first
// row packet / DataRow / error packet of the statement's response had been written to the client
// (alarm-after-delivery otherwise). Negatives: it never ran (false-alarm otherwise).
//
// Permissive choices: what the client receives after the alarm (rows, policy outcome, error,
// closed session) is not judged (C19 judges the typed answers); column definitions / RowDescription
// may reach the client before the alarm (they carry no stored value); a response that does not
// decode, a panic or a terminated session on a negative is not C15's business (recorded as an
// outcome class only).
// Demanding choice, said openly: a positive for which NOTHING of the response reaches the client
// (session torn down) still has to raise the alarm - the property's title is "poison records always
// raise the alarm", and a silently dropped session is what an intruder probing for records would
// see otherwise.
//
// Finding keys: C15/session/<db>/<protocol>/<column config>/<shape>/<poison-missed|false-alarm|
// alarm-after-delivery>. <column config> is <type>-<envelope>[-<policy>], generalised to <type>
// when every accepted configuration of that declared type fails the same way for that shape;
// <shape> is generalised to any-shape when all four shapes fail for that <column config>;
// <column config> to any-config when every declared type fails like that under any-shape;
// <protocol> to any-protocol when both protocols fail for the same <column config>/<shape>.

import (
	"encoding/binary"
	"errors"
	"fmt"
	"sort"
	"strings"
	"sync"
	"time"

	"github.com/jackc/pgx/v5/pgproto3"

	"github.com/cossacklabs/acra/decryptor/base"
	"github.com/cossacklabs/acra/decryptor/mysql"
	"github.com/cossacklabs/acra/decryptor/postgresql"
	"github.com/cossacklabs/acra/keystore/filesystem"
	"github.com/cossacklabs/acra/poison"
	"github.com/cossacklabs/acra/sqlparser"

	"verif/envl"
	"verif/ev"
	"verif/fx"
	"verif/mycheck"
	"verif/par"
	"verif/sess"
)

const sessionRule = "; SESSION PHASE: state = (database {mysql, postgresql}, protocol {text, prepared-binary}, configuration of the encrypted column {plain, str, bytes, int32, int64} x response_on_fail {-, ciphertext, error, default_value} x {acrablock, acrastruct} as far as the real configuration loader accepts it, result shape {c alone; integer column + c; string column + c; encrypted d + c}, stored value {poison record struct/block under current/rotated key; owner's container; other client's container; plain bytes; NULL}, reader {owner, client without keys}); each state is one fresh session through the real proxy (own factory-built proxy, own recording callback) against a scripted one-row table, transitions = lock-step exchanges of that session; distinct_nontrivial additionally counts distinct (database, protocol, data type, policy, shape, value, reader, alarm outcome, what reached the client)"

var sessionAssumptions = []string{
	"session phase: database ends are scripted (verif/mycheck store for MySQL, sess.PGDB for PostgreSQL), connections are in-memory, no TLS; v1 key store v1-h2 (two poison keys of each kind)",
	"session phase: 'before the row reached the client end' is measured in bytes the proxy had written to the client connection when the callback first ran (the callback runs on the goroutine that writes the response, so the count is exact)",
}

// sessCase is one element of the session space and the replay payload of a session finding.
type sessCase struct {
	Part     string `json:"part"` // "session"
	DB       string `json:"database"`
	Proto    string `json:"protocol"`
	Type     string `json:"data_type"` // "plain" = no data_type
	Envelope string `json:"crypto_envelope"`
	Policy   string `json:"response_on_fail,omitempty"`
	Shape    string `json:"result_shape"`
	Value    string `json:"stored_value"`
	Reader   string `json:"reader"`
	DepEOF   bool   `json:"client_deprecate_eof,omitempty"`
	// Labels are the generalised <protocol>, <column config> and <shape> of the finding key the full run gave
	// the finding this case stands for; the replay of the single case reports under the same key
	Labels *[3]string `json:"key_labels,omitempty"`
}

type sessCfg struct{ Type, Envelope, Policy string }

func (c sessCfg) name() string {
	n := c.Type + "-" + c.Envelope
	if c.Policy != "" {
		n += "-" + c.Policy
	}
	return n
}

var sessDefaults = map[string]string{"plain": "dflt", "str": "dflt", "bytes": "ZGZsdA==", "int32": "7", "int64": "7"}

// col builds the column settings; policy "" = response_on_fail not given (d columns always).
func (c sessCfg) col(policy string) mycheck.Col {
	var def *string
	if policy == "default_value" {
		d := sessDefaults[c.Type]
		def = &d
	}
	if c.Type != "plain" {
		return mycheck.Typed(c.Envelope, c.Type, policy, def)
	}
	col := mycheck.Block()
	if c.Envelope == "acrastruct" {
		col = mycheck.Struct()
	}
	if policy != "" {
		col = col.With("-"+policy, "response_on_fail: "+policy)
	}
	if def != nil {
		col = col.With("", fmt.Sprintf("default_data_value: %q", *def))
	}
	return col
}

func (c sessCfg) yaml() string {
	d := c.col("")
	return mycheck.ConfigYAML(c.col(c.Policy), &d)
}

func sessConfigs() []sessCfg {
	var out []sessCfg
	for _, t := range []string{"plain", "str", "bytes", "int32", "int64"} {
		for _, p := range []string{"", "ciphertext", "error", "default_value"} {
			for _, e := range []string{"acrablock", "acrastruct"} {
				out = append(out, sessCfg{t, e, p})
			}
		}
	}
	return out
}

var (
	sessProtos  = []string{"text", "prepared-binary"}
	sessShapes  = []string{"encrypted-alone", "with-integer-column", "with-string-column", "second-of-two-encrypted"}
	sessValues  = []string{"poison-acrastruct", "poison-acrablock", "poison-acrastruct-rotated-key", "poison-acrablock-rotated-key", "owner-envelope", "other-client-envelope", "plain-bytes", "null"}
	sessReaders = map[string][]byte{"owner": fx.Alpha, "no-keys": fx.NoKeys}
	sessSelect  = map[string]string{"encrypted-alone": "select c from t", "with-integer-column": "select id, c from t",
		"with-string-column": "select plain, c from t", "second-of-two-encrypted": "select d, c from t"}
)

func sessPositive(v string) bool { return strings.HasPrefix(v, "poison-") }

// ordinary plaintext of the declared type (what the owner's and the other client's containers hold)
func sessPlain(typ string) []byte {
	switch typ {
	case "int32":
		return []byte("77")
	case "int64":
		return []byte("9007199254740993")
	case "bytes":
		return []byte{0x00, 0xff, 'a', '\''}
	}
	return []byte("ordinary text")
}

// sessRec is the recording intrusion callback of one session.
type sessRec struct {
	mu   sync.Mutex
	conn *sess.Conn // the client end of the session (set before the first statement)
	at   []int      // bytes the proxy had written to the client connection at each invocation
}

func (c *sessRec) Call() error {
	n := -1
	c.mu.Lock()
	conn := c.conn
	c.mu.Unlock()
	if conn != nil {
		n = len(conn.Received())
	}
	c.mu.Lock()
	c.at = append(c.at, n)
	c.mu.Unlock()
	return nil
}

func (c *sessRec) attach(conn *sess.Conn) { c.mu.Lock(); c.conn = conn; c.mu.Unlock() }
func (c *sessRec) calls() []int {
	c.mu.Lock()
	defer c.mu.Unlock()
	return append([]int(nil), c.at...)
}

// callbackStorage is what acra-server configures with poison detection on: EmptyCallback first,
// the action callbacks after it.
func callbackStorage(rec *sessRec) *poison.CallbackStorage {
	s := poison.NewCallbackStorage()
	s.AddCallback(poison.EmptyCallback{})
	s.AddCallback(rec)
	return s
}

// sessWorld is one (database, column configuration): the per-process environment built by
// sess.NewMyEnv / sess.NewPGEnv plus the stored values of the configuration.
type sessWorld struct {
	r      *ev.Run
	db     string
	cfg    sessCfg
	my     *sess.MyEnv
	pg     *sess.PGEnv
	parser *sqlparser.Parser
	values map[string][]byte // stored value name -> bytes (nil = NULL)
	dCell  []byte            // what column d holds: an ordinary container of alpha
	fails  *sessFails
}

type sessFailure struct {
	Case    sessCase
	Failure string
	Msg     string
}

type sessFails struct {
	mu       sync.Mutex
	list     []sessFailure
	accepted map[string]map[string]map[string]bool // db -> type -> accepted config names
}

func (f *sessFails) add(x sessFailure) { f.mu.Lock(); f.list = append(f.list, x); f.mu.Unlock() }

// emit turns the failures into violations (see "Finding keys" in the header): four passes of
// generalisation, each only when EVERY member of the class failed the same way.
func (f *sessFails) emit(r *ev.Run) {
	sort.SliceStable(f.list, func(i, j int) bool { return fmt.Sprint(f.list[i].Case) < fmt.Sprint(f.list[j].Case) })
	n := len(f.list)
	proto, cfg, shape := make([]string, n), make([]string, n), make([]string, n)
	for i, x := range f.list {
		proto[i], cfg[i], shape[i] = x.Case.Proto, sessCfg{x.Case.Type, x.Case.Envelope, x.Case.Policy}.name(), x.Case.Shape
	}
	// group collects, per class key, the set of member names that failed
	group := func(class func(i int) string, member func(i int) string) map[string]map[string]bool {
		m := map[string]map[string]bool{}
		for i := range f.list {
			k := class(i)
			if m[k] == nil {
				m[k] = map[string]bool{}
			}
			m[k][member(i)] = true
		}
		return m
	}
	key := func(parts ...string) string { return strings.Join(parts, "|") }
	// 1. every accepted configuration of a declared type -> the type
	g := group(func(i int) string { x := f.list[i]; return key(x.Case.DB, proto[i], x.Failure, shape[i], x.Case.Type) }, func(i int) string { return cfg[i] })
	for i, x := range f.list {
		all := f.accepted[x.Case.DB][x.Case.Type]
		if len(all) > 1 && len(g[key(x.Case.DB, proto[i], x.Failure, shape[i], x.Case.Type)]) == len(all) {
			cfg[i] = x.Case.Type
		}
	}
	// 2. all shapes -> any-shape
	g = group(func(i int) string { x := f.list[i]; return key(x.Case.DB, proto[i], x.Failure, cfg[i]) }, func(i int) string { return shape[i] })
	for i, x := range f.list {
		if len(g[key(x.Case.DB, proto[i], x.Failure, cfg[i])]) == len(sessShapes) {
			shape[i] = "any-shape"
		}
	}
	// 3. all declared types (each with all its configurations, under any shape) -> any-config
	g = group(func(i int) string { x := f.list[i]; return key(x.Case.DB, proto[i], x.Failure, shape[i]) }, func(i int) string { return cfg[i] })
	for i, x := range f.list {
		if shape[i] != "any-shape" {
			continue
		}
		types, whole := f.accepted[x.Case.DB], 0
		for t := range types {
			if g[key(x.Case.DB, proto[i], x.Failure, shape[i])][t] {
				whole++
			}
		}
		if len(types) > 1 && whole == len(types) {
			cfg[i] = "any-config"
		}
	}
	// 4. both protocols -> any-protocol
	g = group(func(i int) string { x := f.list[i]; return key(x.Case.DB, x.Failure, cfg[i], shape[i]) }, func(i int) string { return proto[i] })
	for i, x := range f.list {
		if len(g[key(x.Case.DB, x.Failure, cfg[i], shape[i])]) == len(sessProtos) {
			proto[i] = "any-protocol"
		}
	}
	for i, x := range f.list {
		labels := [3]string{proto[i], cfg[i], shape[i]}
		if x.Case.Labels != nil {
			labels = *x.Case.Labels // replay of one case of a finding
		}
		c := x.Case
		c.Labels = &labels
		r.Violation(fmt.Sprintf("C15/session/%s/%s/%s/%s/%s", c.DB, labels[0], labels[1], labels[2], x.Failure), x.Msg, c)
	}
}

// newSessWorld builds the environment of one configuration; nil when the loader rejects it.
func newSessWorld(r *ev.Run, st *store, db string, cfg sessCfg, fails *sessFails) (*sessWorld, error) {
	ks, ok := st.KS.(*filesystem.KeyStore)
	if !ok {
		ev.Fatalf("session phase: store %s is not a v1 key store (%T)", st.Name, st.KS)
	}
	w := &sessWorld{r: r, db: db, cfg: cfg, fails: fails, parser: sqlparser.New(sqlparser.ModeDefault)}
	var err error
	if db == "mysql" {
		w.my, err = sess.NewMyEnv(ks, sess.MyEnvOptions{EncryptorConfigYAML: cfg.yaml()})
	} else {
		w.pg, err = sess.NewPGEnv(ks, sess.PGEnvOptions{EncryptorConfigYAML: cfg.yaml()})
	}
	if err != nil {
		return nil, err
	}
	form := envl.BlockCont
	if cfg.Envelope == "acrastruct" {
		form = envl.StructCont
	}
	w.values = map[string][]byte{
		"owner-envelope":        produce(st.KS, form, fx.Alpha, sessPlain(cfg.Type)),
		"other-client-envelope": produce(st.KS, form, fx.Bravo, sessPlain(cfg.Type)),
		"plain-bytes":           []byte("plain bytes \x00\xff, no envelope in here"),
		"null":                  nil,
	}
	for _, rc := range st.Records {
		if rc.DLen != 100 {
			continue
		}
		n := "poison-acra" + rc.Kind
		if rc.Age > 0 {
			n += "-rotated-key"
		}
		w.values[n] = rc.Data
	}
	for _, v := range sessValues {
		if _, ok := w.values[v]; !ok {
			ev.Fatalf("session phase: store %s has no value %q", st.Name, v)
		}
	}
	w.dCell = produce(st.KS, form, fx.Alpha, sessPlain(cfg.Type))
	return w, nil
}

// observation is what one session showed.
type observation struct {
	calls    []int  // bytes written to the client at each callback invocation, relative to the start of the statement's response
	rowAt    int    // offset of the first row / error packet in the statement's response (-1: none arrived)
	client   string // what reached the client: rows | error | nothing | malformed | panic | terminated
	detail   string
	steps    int
	harness  string // a harness problem (never a verdict)
	respSize int
}

// myRowOffset: offset of the first packet after the column definitions (a row, the final EOF/OK of
// an empty set, or an ERR packet) - or of an ERR packet that comes earlier; -1 when none arrived.
func myRowOffset(raw []byte, deprecateEOF bool) (off int, kind string) {
	pkts, _, _ := sess.MySplit(raw)
	if len(pkts) == 0 {
		return -1, "nothing"
	}
	pos := make([]int, len(pkts)+1)
	for i, p := range pkts {
		pos[i+1] = pos[i] + 4 + len(p.Payload)
	}
	if sess.IsMyERR(pkts[0].Payload) {
		return 0, "error"
	}
	n, _, _, err := sess.MyLenencInt(pkts[0].Payload)
	if err != nil || n == 0 {
		return -1, "nothing" // an OK packet: no result set
	}
	first := 1 + int(n)
	if !deprecateEOF {
		first++
	}
	for i := 1; i < len(pkts) && i < first; i++ {
		if sess.IsMyERR(pkts[i].Payload) {
			return pos[i], "error"
		}
	}
	if first >= len(pkts) {
		return -1, "nothing"
	}
	switch {
	case sess.IsMyERR(pkts[first].Payload):
		return pos[first], "error"
	case first == len(pkts)-1 && (sess.IsMyEOF(pkts[first].Payload)):
		return pos[first], "no-rows"
	}
	// rows followed by an ERR packet count as rows (the row came first)
	return pos[first], "rows"
}

// pgRowOffset: offset of the first DataRow or ErrorResponse in the raw backend stream.
func pgRowOffset(raw []byte) (off int, kind string) {
	for p := 0; p+5 <= len(raw); {
		l := int(binary.BigEndian.Uint32(raw[p+1:]))
		switch raw[p] {
		case 'D':
			return p, "rows"
		case 'E':
			return p, "error"
		}
		if l < 4 {
			break
		}
		p += 1 + l
	}
	return -1, "nothing"
}

func (w *sessWorld) runMySQL(cs sessCase, rec *sessRec) observation {
	var o observation
	setting := base.NewProxySetting(w.parser, w.my.Schema, w.my.KS, nil, w.my.Censor, callbackStorage(rec))
	f, err := mysql.NewProxyFactory(setting, w.my.KS, w.my.Tokenizer)
	if err != nil {
		o.harness = "mysql factory: " + err.Error()
		return o
	}
	env := *w.my
	env.Factory = f
	db := mycheck.NewDB(sess.MyTypeBlob, sess.MyTypeBlob)
	t := db.Tables["t"]
	t.Rows = append(t.Rows, [][]byte{[]byte("1"), []byte("p"), w.values[cs.Value], w.dCell})
	cl, err := mycheck.Open(&env, sessReaders[cs.Reader], db, cs.DepEOF)
	if err != nil {
		o.harness = "mysql session: " + err.Error()
		return o
	}
	defer cl.Close()
	rec.attach(cl.S.ClientEnd)
	sql := sessSelect[cs.Shape]
	var res *mycheck.Result
	start := 0
	if cs.Proto == "text" {
		start = len(cl.S.ClientEnd.Received())
		res, err = cl.Query(sql)
	} else {
		var prep *mycheck.Result
		prep, err = cl.Prepare(sql)
		if err == nil && (prep.Failure != "" || prep.Prep == nil || prep.Prep.OK == nil) {
			// the prepare step itself went wrong: nothing was read from storage yet
			o.steps = cl.Transitions
			if h := prep.HarnessErr(); h != "" {
				o.harness = "scripted database: " + h
				return o
			}
			o.client, o.detail, o.rowAt = "prepare-"+prep.Failure, prep.Detail, -1
			if prep.Failure == "" {
				o.client = "prepare-error"
			}
			o.calls = rec.calls()
			return o
		}
		if err == nil {
			start = len(cl.S.ClientEnd.Received())
			res, err = cl.Execute(prep.Prep.OK.StmtID, nil)
		}
	}
	o.steps = cl.Transitions
	if err != nil {
		o.harness = "mysql statement: " + err.Error()
		return o
	}
	if h := res.HarnessErr(); h != "" {
		o.harness = "scripted database: " + h
		return o
	}
	raw := cl.S.ClientEnd.Received()[start:]
	o.respSize = len(raw)
	o.rowAt, o.client = myRowOffset(raw, cs.DepEOF)
	if res.Failure != "" {
		o.client, o.detail = res.Failure, res.Detail
	}
	for _, n := range rec.calls() {
		o.calls = append(o.calls, n-start)
	}
	return o
}

func (w *sessWorld) runPG(cs sessCase, rec *sessRec) observation {
	var o observation
	setting := base.NewProxySetting(w.parser, w.pg.Schema, w.pg.KS, nil, w.pg.Censor, callbackStorage(rec))
	f, err := postgresql.NewProxyFactory(setting, w.pg.KS, w.pg.Tokenizer)
	if err != nil {
		o.harness = "postgresql factory: " + err.Error()
		return o
	}
	env := *w.pg
	env.Factory = f
	db := sess.NewPGDB()
	t := db.AddTable("t", sess.PGColumn{Name: "id", OID: sess.OIDInt4}, sess.PGColumn{Name: "plain", OID: sess.OIDText},
		sess.PGColumn{Name: "c", OID: sess.OIDBytea}, sess.PGColumn{Name: "d", OID: sess.OIDBytea})
	t.Rows = append(t.Rows, [][]byte{[]byte("1"), []byte("p"), w.values[cs.Value], w.dCell})
	s, err := sess.NewPGSession(&env, sessReaders[cs.Reader], nil)
	if err != nil {
		o.harness = "postgresql session: " + err.Error()
		return o
	}
	defer s.Close()
	if err := s.Startup(); err != nil {
		o.harness = "postgresql startup: " + err.Error()
		return o
	}
	rec.attach(s.ClientEnd)
	msgs := sess.Q(sessSelect[cs.Shape])
	if cs.Proto != "text" {
		msgs = sess.Ext("", sessSelect[cs.Shape], nil, nil, []int16{1}, nil)
	}
	start := len(s.ClientEnd.Received())
	res, err := s.Step(msgs, db.Respond)
	o.steps = 1
	raw := s.ClientEnd.Received()[start:]
	o.respSize = len(raw)
	o.rowAt, o.client = pgRowOffset(raw)
	switch {
	case errors.Is(err, sess.ErrMalformed):
		o.client, o.detail = "malformed", err.Error()
	case err != nil:
		o.harness = "postgresql statement: " + err.Error()
		return o
	}
	if res != nil {
		for _, m := range res.DBSent {
			if e, ok := m.B.(*pgproto3.ErrorResponse); ok && e.Code == "XXVRF" {
				o.harness = "reference database: " + e.Message
				return o
			}
		}
		if res.Terminated {
			o.client, o.detail = "terminated", fmt.Sprint(s.ProxyErrors)
		}
	}
	if len(s.Panics) > 0 {
		o.client, o.detail = "panic", fmt.Sprint(s.Panics)
	}
	for _, n := range rec.calls() {
		o.calls = append(o.calls, n-start)
	}
	return o
}

// run executes one element and applies the oracle.
func (w *sessWorld) run(cs sessCase, verbose bool) {
	r := w.r
	rec := &sessRec{}
	var o observation
	if w.db == "mysql" {
		o = w.runMySQL(cs, rec)
	} else {
		o = w.runPG(cs, rec)
	}
	if o.harness != "" {
		ev.Fatalf("C15 session %+v: %s", cs, o.harness)
	}
	r.Eval(1)
	r.Traces(1)
	r.Transitions(o.steps)
	if verbose {
		cs := cs
		cs.Labels = nil
		fmt.Printf("replay session %+v: callbacks ran %d times (client bytes of the response written before each: %v), first row/error packet at offset %d of %d response bytes, client got %s %s\n",
			cs, len(o.calls), o.calls, o.rowAt, o.respSize, o.client, o.detail)
	}
	alarm := fmt.Sprintf("alarm=%d", len(o.calls))
	what := fmt.Sprintf("%s proxy, %s protocol, column c configured %s, statement %q, c holds %s, reader %s", cs.DB, cs.Proto, w.cfg.name(), sessSelect[cs.Shape], cs.Value, cs.Reader)
	switch {
	case sessPositive(cs.Value) && len(o.calls) == 0:
		alarm = "MISSED"
		w.fails.add(sessFailure{cs, "poison-missed", fmt.Sprintf("%s: the intrusion callbacks never ran (the client end got: %s %s)", what, o.client, o.detail)})
	case sessPositive(cs.Value) && o.rowAt >= 0 && o.calls[0] > o.rowAt:
		alarm = "LATE"
		w.fails.add(sessFailure{cs, "alarm-after-delivery", fmt.Sprintf("%s: when the callbacks first ran the proxy had already written %d bytes of the response to the client, the first row/error packet starts at offset %d",
			what, o.calls[0], o.rowAt)})
	case !sessPositive(cs.Value) && len(o.calls) > 0:
		alarm = "FALSE-ALARM"
		w.fails.add(sessFailure{cs, "false-alarm", fmt.Sprintf("%s: the intrusion callbacks ran %d times although no poison record is stored", what, len(o.calls))})
	}
	cls := "negative"
	if sessPositive(cs.Value) {
		cls = "positive"
	}
	r.Distinct(strings.Join([]string{"session", cs.DB, cs.Proto, cs.Type, cs.Policy, cs.Shape, cs.Value, cs.Reader, alarm, o.client}, "|"))
	r.Class(fmt.Sprintf("session-%s:%s:%s:%s", cs.DB, cls, alarm, o.client), 1)
}

func sessCases(db string, c sessCfg, thorough bool) []sessCase {
	var out []sessCase
	deps := []bool{false}
	if thorough && db == "mysql" {
		deps = []bool{false, true}
	}
	readers := []string{"owner", "no-keys"}
	for _, dep := range deps {
		for _, proto := range sessProtos {
			for _, shape := range sessShapes {
				for _, v := range sessValues {
					for _, rd := range readers {
						out = append(out, sessCase{Part: "session", DB: db, Proto: proto, Type: c.Type, Envelope: c.Envelope, Policy: c.Policy,
							Shape: shape, Value: v, Reader: rd, DepEOF: dep})
					}
				}
			}
		}
	}
	return out
}

func sessStore(stores []*store) *store {
	for _, s := range stores {
		if s.Name == "v1-h2" {
			return s
		}
	}
	ev.Fatalf("session phase: store v1-h2 missing")
	return nil
}

// sessionReplay re-executes a session replay file; false when the file belongs to the chain phase.
func sessionReplay(r *ev.Run, stores []*store) bool {
	var cs sessCase
	r.LoadReplay(&cs)
	if cs.Part != "session" {
		return false
	}
	fails := &sessFails{accepted: map[string]map[string]map[string]bool{}}
	w, err := newSessWorld(r, sessStore(stores), cs.DB, sessCfg{cs.Type, cs.Envelope, cs.Policy}, fails)
	if err != nil {
		ev.Fatalf("replay: the configuration is rejected: %v", err)
	}
	w.run(cs, true)
	fails.emit(r)
	return true
}

// sessionPhase runs the whole session space. It runs after the chain phase: NewPGEnv / NewMyEnv
// re-initialise the process-wide crypto registry and switch the process-wide SQL dialect
// (PostgreSQL first, MySQL last).
func sessionPhase(r *ev.Run, stores []*store) {
	t0 := time.Now()
	st := sessStore(stores)
	fails := &sessFails{accepted: map[string]map[string]map[string]bool{}}
	cfgs := sessConfigs()
	total, sessions := 0, 0
	rejected := map[string][]string{}
	acceptedNames := map[string][]string{}
	sampled := false
	for _, db := range []string{"postgresql", "mysql"} {
		fails.accepted[db] = map[string]map[string]bool{}
		var worlds []*sessWorld
		// all configurations of one database are loaded first (sequentially: the loader touches
		// process-wide state), so that the generalisation of finding keys knows the accepted set
		for _, c := range cfgs {
			w, err := newSessWorld(r, st, db, c, fails)
			r.Distinct(fmt.Sprintf("session-config|%s|%s|%s|accepted=%v", db, c.Type, c.Policy, err == nil))
			if err != nil {
				// which configurations exist is the loader's decision (judged by C19), the space of this
				// phase is what it accepts
				rejected[db] = append(rejected[db], c.name())
				r.Class("session-config-rejected-by-loader", 1)
				continue
			}
			acceptedNames[db] = append(acceptedNames[db], c.name())
			if fails.accepted[db][c.Type] == nil {
				fails.accepted[db][c.Type] = map[string]bool{}
			}
			fails.accepted[db][c.Type][c.name()] = true
			worlds = append(worlds, w)
		}
		if len(worlds) == 0 {
			ev.Fatalf("session phase: the %s configuration loader accepts none of the configurations", db)
		}
		// the environments of one database share the process-wide dialect; sessions of all its
		// configurations run in parallel
		type job struct {
			w  *sessWorld
			cs sessCase
		}
		var jobs []job
		for _, w := range worlds {
			for _, cs := range sessCases(db, w.cfg, r.Thorough()) {
				jobs = append(jobs, job{w, cs})
			}
		}
		if !sampled && len(jobs) > 0 {
			r.Sample(jobs[len(jobs)/3].cs)
			sampled = true
		}
		done := par.Do(len(jobs), r.Expired, func(i int) { jobs[i].w.run(jobs[i].cs, false) })
		total += len(jobs)
		sessions += done
		if done < len(jobs) {
			r.Capped(fmt.Sprintf("session phase, %s: wall budget: %d of %d sessions done", db, done, len(jobs)))
			break
		}
	}
	fails.emit(r)
	r.States(total)
	r.Set("session_phase", map[string]interface{}{
		"sessions":                        sessions,
		"configurations_accepted":         acceptedNames,
		"configurations_rejected_by_load": rejected,
		"protocols":                       sessProtos,
		"result_shapes":                   sessSelect,
		"stored_values":                   sessValues,
		"readers":                         []string{"owner (alpha_1)", "no-keys (nokeys_9)"},
		"key_store":                       st.Name,
		"wall_s":                          float64(int(time.Since(t0).Seconds()*100)) / 100,
	})
}
