package main

// Long identities: two 120-character client ids that are equal except for their last character,
// plus a 43-character id that is a strict prefix of both. Anything in the key binding that looks at
// a bounded part of the identity (a fixed-size context buffer, a truncated file name, a hash of a
// prefix) makes the two long identities interchangeable; the three short fixture identities cannot
// show that. Same oracles as for the fixture identities: the whole reveal matrix and the key
// relocation matrix, on both key-store formats.

import (
	"strings"

	"verif/envl"
	"verif/ev"
	"verif/par"
)

var idSet = ""

func longID(last string) []byte {
	base := "billing-service-production-eu-west-1-reader"
	return []byte(base + "-replica-" + strings.Repeat("0123456789", 7)[:120-len(base)-len("-replica-")-1] + last)
}

var longIDs = [][]byte{longID("1"), longID("2"), []byte("billing-service-production-eu-west-1-reader")}

// caseIDs: identities that differ only in letter case (client ids are case-sensitive byte strings;
// anything that folds case - a normalised path, a case-insensitive comparison - merges them).
var caseIDs = [][]byte{[]byte("billing-service"), []byte("Billing-Service"), []byte("BILLING-SERVICE")}

var idSets = map[string][][]byte{"long": longIDs, "case": caseIDs}

func phaseLongIdentities(r *ev.Run, k *checker, all []envl.Revealer, controls *int, strictPub bool) {
	if len(longIDs[0]) != 120 || len(longIDs[1]) != 120 {
		ev.Fatalf("long identities are %d / %d bytes", len(longIDs[0]), len(longIDs[1]))
	}
	for _, set := range []string{"long", "case"} {
		phaseIdentitySet(r, k, all, controls, strictPub, set)
	}
	r.Set("long_identities", []int{len(longIDs[0]), len(longIDs[1]), len(longIDs[2])})
	r.Set("case_variant_identities", []string{string(caseIDs[0]), string(caseIDs[1]), string(caseIDs[2])})
}

func phaseIdentitySet(r *ev.Run, k *checker, all []envl.Revealer, controls *int, strictPub bool, set string) {
	saved := ids
	ids, idSet = idSets[set], set
	defer func() { ids, idSet = saved, "" }()
	for _, f := range []string{fmtV1, fmtV2Mem} {
		if r.Expired() {
			r.Capped(set + " identities: " + f + " not run")
			return
		}
		w := buildWorld(set+"-ids", f, [3]int{0, 0, 0}, true)
		cases, inputs := k.casesOf(w, all, controls)
		for i := range cases {
			cases[i].IDSet = set
		}
		r.States(inputs)
		done := par.Do(len(cases), r.Expired, func(i int) { k.eval(w, cases[i]) })
		if done < len(cases) {
			r.Capped(set + " identities: reveal matrix partial")
		}
		if f == fmtV1 {
			newV1Relocator(r, w, strictPub).run(nil)
		} else {
			newV2Relocator(r, w, w.v2b).run(nil)
		}
		for _, n := range w.notes {
			r.Capped(n)
		}
		w.Close()
	}
}
