package main

// Own small term representation of SQL statements. The pool statements are built as terms;
// SQL text (in every formatting variant), the derived rules (queries / tables / patterns) and
// the reference matcher all work on these terms - never on Acra's AST.

import (
	"strings"
)

// N is one node of a statement term.
//
//	statement kinds : select, union, insert, update, delete
//	select children : cols, from?, where?, group?, having?, order?, limit?   (by role = kind)
//	cols / group / args / list / row / icols : children are expressions
//	from            : tbl | join | dtbl
//	tbl             : A = table name, Q = alias ("" none), S = schema / database qualifier ("" none)
//	join            : A = "join" | "left join", children = left, right, on-expression
//	dtbl            : A = alias, child = subq
//	where / having  : one expression child
//	expressions     : and, or (2) ; not (1) ; paren (1) ; cmp A=op (2) ; between (3) ;
//	                  in A="in"|"not in" (expr, list|subq) ; isnull A="is null"|"is not null" (1) ;
//	                  exists (subq) ; col A=name Q=qualifier ; int/str/float/bool/null A=text ;
//	                  func A=name child = args ; star ; subq child = select|union
//	order           : children ob (A = ""|"asc"|"desc", one expression child)
//	limit           : children = count  or  offset,count (A="offset")
//	insert          : A = "insert"|"replace", children = tbl, icols?, rows | select | union, ondup?
//	rows            : children row ; ondup / sets : children set (col, expr)
//	update          : tbl, sets, where?, order?, limit?     delete : tbl, where?, order?, limit?
type N struct {
	K      string
	A      string
	Q      string
	S      string // tbl: schema / database qualifier the table is written with ("" none)
	C      []*N
	Quoted bool // tbl: the name is written as a quoted identifier although it needs no quoting
	id     int  // preorder index inside its statement (assigned by number)
}

func nd(k, a string, c ...*N) *N { return &N{K: k, A: a, C: c} }

func number(root *N) []*N {
	var all []*N
	var rec func(n *N)
	rec = func(n *N) {
		n.id = len(all)
		all = append(all, n)
		for _, c := range n.C {
			rec(c)
		}
	}
	rec(root)
	return all
}

func (n *N) child(kind string) *N {
	for _, c := range n.C {
		if c.K == kind {
			return c
		}
	}
	return nil
}

func isLiteral(k string) bool {
	return k == "int" || k == "str" || k == "float" || k == "bool" || k == "null"
}

func isStmt(k string) bool {
	return k == "select" || k == "union" || k == "insert" || k == "update" || k == "delete"
}

// ---- constructors used by the pool ------------------------------------------------------

func col(name string) *N           { return nd("col", name) }
func qcol(q, name string) *N       { return &N{K: "col", A: name, Q: q} }
func ival(s string) *N             { return nd("int", s) }
func sval(s string) *N             { return nd("str", s) }
func fval(s string) *N             { return nd("float", s) }
func bval(s string) *N             { return nd("bool", s) }
func null() *N                     { return nd("null", "null") }
func star() *N                     { return nd("star", "*") }
func fn(name string, a ...*N) *N   { return nd("func", name, nd("args", "", a...)) }
func tbl(name string) *N           { return nd("tbl", name) }
func qtbl(name string) *N          { return &N{K: "tbl", A: name, Quoted: true} }
func stbl(schema, name string) *N  { return &N{K: "tbl", A: name, S: schema} }
func sqtbl(schema, name string) *N { return &N{K: "tbl", A: name, S: schema, Quoted: true} }
func tblAs(name, alias string) *N {
	return &N{K: "tbl", A: name, Q: alias}
}
func cols(c ...*N) *N                  { return nd("cols", "", c...) }
func from(c ...*N) *N                  { return nd("from", "", c...) }
func where(e *N) *N                    { return nd("where", "", e) }
func having(e *N) *N                   { return nd("having", "", e) }
func group(c ...*N) *N                 { return nd("group", "", c...) }
func cmp(op string, l, r *N) *N        { return nd("cmp", op, l, r) }
func and(l, r *N) *N                   { return nd("and", "", l, r) }
func or(l, r *N) *N                    { return nd("or", "", l, r) }
func between(e, a, b *N) *N            { return nd("between", "", e, a, b) }
func in(e *N, vals ...*N) *N           { return nd("in", "in", e, nd("list", "", vals...)) }
func notIn(e *N, vals ...*N) *N        { return nd("in", "not in", e, nd("list", "", vals...)) }
func inSub(e, s *N) *N                 { return nd("in", "in", e, subq(s)) }
func isNull(e *N) *N                   { return nd("isnull", "is null", e) }
func exists(s *N) *N                   { return nd("exists", "", subq(s)) }
func subq(s *N) *N                     { return nd("subq", "", s) }
func join(kind string, l, r, on *N) *N { return nd("join", kind, l, r, on) }
func order(obs ...*N) *N               { return nd("order", "", obs...) }
func ob(e *N, dir string) *N           { return nd("ob", dir, e) }
func limit(n string) *N                { return nd("limit", "", ival(n)) }
func sel(parts ...*N) *N               { return nd("select", "", parts...) }
func union(kind string, l, r *N) *N    { return nd("union", kind, l, r) }
func row(v ...*N) *N                   { return nd("row", "", v...) }
func rows(r ...*N) *N                  { return nd("rows", "", r...) }
func icols(names ...string) *N {
	n := nd("icols", "")
	for _, s := range names {
		n.C = append(n.C, col(s))
	}
	return n
}
func set(c string, e *N) *N  { return nd("set", "", col(c), e) }
func sets(s ...*N) *N        { return nd("sets", "", s...) }
func ondup(s ...*N) *N       { return nd("ondup", "", s...) }
func insert(parts ...*N) *N  { return nd("insert", "insert", parts...) }
func replace(parts ...*N) *N { return nd("insert", "replace", parts...) }
func update(parts ...*N) *N  { return nd("update", "", parts...) }
func del(parts ...*N) *N     { return nd("delete", "", parts...) }

// ---- printing ---------------------------------------------------------------------------

type tokKind int

const (
	tkKw  tokKind = iota // keyword: subject to case variants
	tkId                 // identifier, function name (never case-changed)
	tkLit                // literal text
	tkSym                // punctuation / operator
	tkPh                 // placeholder of a pattern
)

type tok struct {
	s    string
	k    tokKind
	glue bool // no space between the previous token and this one
}

type printer struct {
	toks    []tok
	gen     map[int]bool // generalised node ids (patterns); nil for plain text
	dialect string       // "mysql" | "postgresql" : identifier quoting of reserved names
}

func (p *printer) kw(s string)  { p.toks = append(p.toks, tok{s: s, k: tkKw}) }
func (p *printer) id(s string)  { p.toks = append(p.toks, tok{s: s, k: tkId}) }
func (p *printer) lit(s string) { p.toks = append(p.toks, tok{s: s, k: tkLit}) }
func (p *printer) ph(s string)  { p.toks = append(p.toks, tok{s: s, k: tkPh}) }
func (p *printer) open()        { p.toks = append(p.toks, tok{s: "(", k: tkSym}) }
func (p *printer) openGlued()   { p.toks = append(p.toks, tok{s: "(", k: tkSym, glue: true}) }
func (p *printer) close()       { p.toks = append(p.toks, tok{s: ")", k: tkSym, glue: true}) }
func (p *printer) comma()       { p.toks = append(p.toks, tok{s: ",", k: tkSym, glue: true}) }
func (p *printer) sym(s string) { p.toks = append(p.toks, tok{s: s, k: tkSym}) }

// reserved identifiers of the pool that need quoting
var reserved = map[string]bool{"order": true, "group": true, "key": true}

func (p *printer) ident(s string) string { return p.identQ(s, false) }

func (p *printer) identQ(s string, quoted bool) string {
	if quoted || reserved[strings.ToLower(s)] {
		if p.dialect == "postgresql" {
			return `"` + s + `"`
		}
		return "`" + s + "`"
	}
	return s
}

func (p *printer) list(items []*N) {
	for i, c := range items {
		if i > 0 {
			p.comma()
		}
		p.node(c)
	}
}

// the lower-case words are keywords too (see variants): the "as is" spelling is mixed case
func (p *printer) node(n *N) {
	if p.gen != nil && p.gen[n.id] {
		switch n.K {
		case "select":
			p.ph("%%SELECT%%")
		case "union":
			p.ph("%%UNION%%")
		case "insert":
			p.ph("%%INSERT%%")
		case "update":
			p.ph("%%UPDATE%%")
		case "delete":
			p.ph("%%DELETE%%")
		case "where":
			p.ph("%%WHERE%%")
		case "subq":
			p.open()
			p.ph("%%SUBQUERY%%")
			p.close()
		case "list":
			p.open()
			p.ph("%%LIST_OF_VALUES%%")
			p.close()
		case "col":
			if n.Q != "" {
				p.toks = append(p.toks, tok{s: p.ident(n.Q) + ".%%COLUMN%%", k: tkPh})
			} else {
				p.ph("%%COLUMN%%")
			}
		default: // literals
			p.ph("%%VALUE%%")
		}
		return
	}
	switch n.K {
	case "select":
		p.kw("SELECT")
		for _, c := range n.C {
			p.node(c)
		}
	case "cols", "group", "args", "icols":
		if n.K == "group" {
			p.kw("GROUP")
			p.kw("BY")
		}
		p.list(n.C)
	case "from":
		p.kw("FROM")
		p.list(n.C)
	case "tbl":
		if n.S != "" {
			p.id(p.identQ(n.S, n.Quoted) + "." + p.identQ(n.A, n.Quoted))
		} else {
			p.id(p.identQ(n.A, n.Quoted))
		}
		if n.Q != "" {
			p.kw("as")
			p.id(n.Q)
		}
	case "dtbl":
		p.node(n.C[0])
		p.kw("as")
		p.id(n.A)
	case "join":
		p.node(n.C[0])
		for _, w := range strings.Fields(n.A) {
			p.kw(strings.ToUpper(w))
		}
		p.node(n.C[1])
		p.kw("on")
		p.node(n.C[2])
	case "where":
		p.kw("WHERE")
		p.node(n.C[0])
	case "having":
		p.kw("HAVING")
		p.node(n.C[0])
	case "and", "or":
		p.node(n.C[0])
		p.kw(n.K)
		p.node(n.C[1])
	case "not":
		p.kw("not")
		p.node(n.C[0])
	case "paren":
		p.open()
		p.node(n.C[0])
		p.close()
	case "cmp":
		p.node(n.C[0])
		if n.A == "like" {
			p.kw("like")
		} else {
			p.sym(n.A)
		}
		p.node(n.C[1])
	case "between":
		p.node(n.C[0])
		p.kw("between")
		p.node(n.C[1])
		p.kw("and")
		p.node(n.C[2])
	case "in":
		p.node(n.C[0])
		for _, w := range strings.Fields(n.A) {
			p.kw(w)
		}
		p.node(n.C[1])
	case "list", "row":
		p.open()
		p.list(n.C)
		p.close()
	case "isnull":
		p.node(n.C[0])
		for _, w := range strings.Fields(n.A) {
			p.kw(w)
		}
	case "exists":
		p.kw("exists")
		p.node(n.C[0])
	case "subq":
		p.open()
		p.node(n.C[0])
		p.close()
	case "col":
		if n.Q != "" {
			p.id(p.ident(n.Q) + "." + p.ident(n.A))
		} else {
			p.id(p.ident(n.A))
		}
	case "int", "float":
		p.lit(n.A)
	case "str":
		p.lit("'" + strings.ReplaceAll(n.A, "'", "''") + "'")
	case "bool", "null":
		p.kw(n.A) // true / false / null are keywords
	case "star":
		p.sym("*")
	case "func":
		p.id(n.A)
		p.openGlued()
		p.node(n.C[0])
		p.close()
	case "order":
		p.kw("ORDER")
		p.kw("BY")
		p.list(n.C)
	case "ob":
		p.node(n.C[0])
		if n.A != "" {
			p.kw(n.A)
		}
	case "limit":
		p.kw("LIMIT")
		if n.A == "offset" {
			p.node(n.C[1])
			p.kw("offset")
			p.node(n.C[0])
		} else {
			p.node(n.C[0])
		}
	case "union":
		p.node(n.C[0])
		for _, w := range strings.Fields(n.A) {
			p.kw(strings.ToUpper(w))
		}
		p.node(n.C[1])
	case "insert":
		p.kw(strings.ToUpper(n.A))
		p.kw("INTO")
		for _, c := range n.C {
			switch c.K {
			case "icols":
				p.open()
				p.node(c)
				p.close()
			default:
				p.node(c)
			}
		}
	case "rows":
		p.kw("VALUES")
		p.list(n.C)
	case "ondup":
		p.kw("ON")
		p.kw("DUPLICATE")
		p.kw("KEY")
		p.kw("UPDATE")
		p.list(n.C)
	case "sets":
		p.kw("SET")
		p.list(n.C)
	case "set":
		p.node(n.C[0])
		p.sym("=")
		p.node(n.C[1])
	case "update":
		p.kw("UPDATE")
		for _, c := range n.C {
			p.node(c)
		}
	case "delete":
		p.kw("DELETE")
		p.kw("FROM")
		for _, c := range n.C {
			p.node(c)
		}
	default:
		panic("printer: unknown node kind " + n.K)
	}
}

// Formatting variants of one statement.
const (
	vAsIs = iota
	vUpper
	vLower
	vSpace
	vSemi
	vLeadC
	vTrailC
	vBothC
	vTwoLeadC
	nVariants
)

var variantNames = [nVariants]string{"as-is", "upper-keywords", "lower-keywords", "extra-whitespace", "trailing-semicolon", "leading-comment", "trailing-comment", "leading-and-trailing-comment", "two-leading-comments"}

var spaces = []string{"  ", "\n", "\t", " \n\t ", "\r\n", "   "}

func renderToks(toks []tok, variant int) string {
	var b strings.Builder
	if variant == vSpace {
		b.WriteString(" \n\t")
	}
	if variant == vLeadC || variant == vBothC {
		b.WriteString("/* c05 lead */ ")
	}
	if variant == vTwoLeadC {
		b.WriteString("/* c05 */ /* lead */ ")
	}
	nsp := 0
	for i, t := range toks {
		if i > 0 && !t.glue && !(toks[i-1].k == tkSym && toks[i-1].s == "(") {
			if variant == vSpace {
				b.WriteString(spaces[nsp%len(spaces)])
				nsp++
			} else {
				b.WriteByte(' ')
			}
		}
		s := t.s
		if t.k == tkKw {
			switch variant {
			case vUpper:
				s = strings.ToUpper(s)
			case vLower:
				s = strings.ToLower(s)
			}
		}
		b.WriteString(s)
	}
	switch variant {
	case vSpace:
		b.WriteString("\n \t")
	case vSemi:
		b.WriteString(";")
	case vTrailC, vBothC:
		b.WriteString(" /* c05 trail */")
	}
	return b.String()
}

// text prints the statement (gen == nil) or the pattern obtained by generalising the nodes in gen.
func text(root *N, gen map[int]bool, dialect string, variant int) string {
	p := &printer{gen: gen, dialect: dialect}
	p.node(root)
	return renderToks(p.toks, variant)
}
