package kslab

import "sort"

// Reference model. A slot is modelled by the keys #1..#N generated for it, the set of
// survivors and the current marker; SlotState (read from the real storage) is exactly
// that, so the model is a set of pure functions from a pre-state to the predicted answers
// and the predicted post-state. Judging every transition against the prediction made from
// the *real* pre-state keeps one defective transition from cascading into later verdicts.

// Latest is the ordinal of the most recently generated key (0 when none).
func (s SlotState) Latest() int { return s.N }

// ModelCurrent is the key the property calls current: the most recently generated key if
// it survives, 0 otherwise.
func (s SlotState) ModelCurrent() int {
	if s.N > 0 && s.Survives(s.N) {
		return s.N
	}
	return 0
}

// SurvivorsNewestFirst returns the surviving ordinals in descending order (what read-all
// must return: newest first, which puts the current key first).
func (s SlotState) SurvivorsNewestFirst() []int {
	out := append([]int(nil), s.Surv...)
	sort.Sort(sort.Reverse(sort.IntSlice(out)))
	return out
}

// NewestSurvivor is the newest surviving ordinal (0 when none).
func (s SlotState) NewestSurvivor() int {
	m := 0
	for _, o := range s.Surv {
		if o > m {
			m = o
		}
	}
	return m
}

// Rotated returns the surviving keys other than the most recently generated one, oldest
// first: the rows of the rotated-key listing, which both implementations number 2, 3, ...
// in order of age (v1: history file names ascending, v2: seqnum ascending).
func (s SlotState) Rotated() []int {
	var out []int
	for _, o := range s.Surv {
		if o != s.N {
			out = append(out, o)
		}
	}
	sort.Ints(out)
	return out
}

// ListedIndexKey resolves a listing index to the ordinal it denotes (0: no such row).
func (s SlotState) ListedIndexKey(index int) int {
	r := s.Rotated()
	if index >= 2 && index-2 < len(r) {
		return r[index-2]
	}
	return 0
}

// Feature classifies a pre-state for finding keys: which kind of destruction it has seen.
func (s SlotState) Feature() string {
	switch {
	case s.N == 0:
		return "empty"
	case !s.Survives(s.N):
		return "current-destroyed"
	case len(s.Surv) < s.N:
		return "rotated-destroyed"
	case s.N == 1:
		return "single"
	}
	return "intact"
}

func without(l []int, x int) []int {
	var out []int
	for _, o := range l {
		if o != x {
			out = append(out, o)
		}
	}
	return out
}

// After predicts the post-state of the addressed slot after a *successful* operation of
// the model (other slots never change). ok=false means the model cannot execute the
// operation in this state (nothing to destroy, index not listed): the real store must
// leave the state unchanged then.
func (s SlotState) After(op Op) (post SlotState, ok bool) {
	post = s
	post.Surv = append([]int(nil), s.Surv...)
	post.PubSurv = append([]int(nil), s.PubSurv...)
	pair := s.Slot.Kind.IsPair()
	switch op.Code {
	case OpGenerate:
		post.N = s.N + 1
		post.Surv = append([]int{post.N}, post.Surv...)
		post.Cur = post.N
		if pair {
			post.PubSurv = append([]int{post.N}, post.PubSurv...)
			post.PubCur = post.N
		}
		return post, true
	case OpDestroyCurrent:
		c := s.ModelCurrent()
		if c == 0 {
			return post, false
		}
		post.Surv = without(post.Surv, c)
		post.Cur = 0
		if pair {
			post.PubSurv = without(post.PubSurv, c)
			post.PubCur = 0
		}
		return post, true
	case OpDestroyRotated:
		k := s.ListedIndexKey(op.Index)
		if k == 0 {
			return post, false
		}
		post.Surv = without(post.Surv, k)
		if pair {
			post.PubSurv = without(post.PubSurv, k)
		}
		return post, true
	}
	return post, true // reads, reset, reopen change nothing
}

// SameKeys compares two slot states on what the property speaks about (generated count,
// survivors in order, current marker, for pairs also the public parts), ignoring Extra.
func (s SlotState) SameKeys(o SlotState) bool {
	eq := func(a, b []int) bool {
		if len(a) != len(b) {
			return false
		}
		for i := range a {
			if a[i] != b[i] {
				return false
			}
		}
		return true
	}
	return s.N == o.N && s.Cur == o.Cur && eq(s.Surv, o.Surv) && s.PubCur == o.PubCur && eq(s.PubSurv, o.PubSurv) && s.Anomaly == o.Anomaly
}
