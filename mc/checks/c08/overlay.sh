#!/bin/bash
# the interprocess lock of the directory back end: its in-process mutex becomes visible to the
# harness (a second Lock on a mutex that was left locked is a deadlock, reported without waiting)
# and flock(2) gets an environment seam (every call of a history can be made to fail)
exec "$(dirname "$0")/../../../bin/mkoverlay.py" "$1" --sync keystore/v2/keystore/filesystem/backend/file_lock.go --flock keystore/v2/keystore/filesystem/backend/file_lock.go
