package main

// cli.go: token maintenance through the real acra-tokens subcommands (cmd/acra-tokens/tokens:
// RegisterFlags, Parse, Execute — what main() does below its os.Args handling) with their filter
// options, as operations of the maintenance histories.
//
// Space (stated completely):
//
//	commands   disable | enable | remove --all | remove --only_disabled | remove --all --dry_run | status
//	options    accessed_after, accessed_before, created_after, created_before: every subset of at most
//	           2 options, every option with a limit at one of three positions relative to the times of
//	           the stored records:
//	             before   "2000"              earlier than every record time
//	             between  "2015-06-01"        later than every aged record time, earlier than every fresh one
//	             after    "2100-01-01 00:00"  later than every record time
//	           (three of the date spellings the tool accepts)  => 1 + 12 + 54 = 67 filters, 402 commands.
//	           thorough: every subset of the 4 options (256 filters, 1536 commands) at the depths of the
//	           quick tier, then one more operation from the 402.
//	age        "the records stored so far are old": creation and access time of every stored record
//	           become 2010-01-01 (the store clock is the wall clock; this is the environment's move
//	           "time passes", done with Acra's own EmbedMetadata/ExtractMetadata on the BoltDB file)
//	histories  breadth-first, with state de-duplication, over {tv, tw, rv, dv, dw, age} + commands:
//	           2 operations appended to the empty history, 1 operation appended to each of the two
//	           root histories that hold old and fresh, resp. old and fresh disabled records (phaseCLI);
//	           every history is followed by the owner's probes dv, dw, tv, tw
//	stacks     BoltDB, BoltDB + encrypting wrapper (acra-tokens works on the BoltDB file; the memory
//	           store cannot be reached by a command-line tool)
//
// Oracle. What a command must do follows from its documented options alone: a record is within
// the limits iff every given option admits the record's time AS STORED (read with Stat right
// before the command: the model never predicts access times); disable / enable / remove change
// exactly the records within the limits (remove --only_disabled: the disabled ones of them),
// --dry_run and status change nothing. Every record outside must be untouched, so its token stays
// reversible for the owner and consistent: after every history the owner detokenizes the latest
// tokens of v and w and tokenizes v and w consistently again, and the answers must be the ones of
// the model (original back / same token for tokens the commands did not select; token itself or
// an error for disabled ones; token itself for removed ones). Limits are years away from every
// record time, so no oracle depends on how a limit equal to a record time is treated.

import (
	"fmt"
	"io"
	"os"
	"runtime"
	"sort"
	"strings"
	"sync"
	"sync/atomic"
	"time"

	"github.com/sirupsen/logrus"
	bolt "go.etcd.io/bbolt"

	"github.com/cossacklabs/acra/cmd/acra-tokens/tokens"
	"github.com/cossacklabs/acra/pseudonymization/common"
	"github.com/cossacklabs/acra/pseudonymization/storage"

	"verif/ev"
	"verif/par"
)

// ---- the option space -------------------------------------------------------------------------

var cliCommands = []string{"disable", "enable", "remove-all", "remove-only_disabled", "remove-all-dry_run", "status"}

var cliCommandLine = map[string][]string{
	"disable": nil, "enable": nil, "status": nil,
	"remove-all": {"--all"}, "remove-only_disabled": {"--only_disabled"}, "remove-all-dry_run": {"--all", "--dry_run"},
}

// short option names used in operation strings, in the order they are enumerated
var cliOptNames = []string{"aa", "ab", "ca", "cb"}

var cliOptFlag = map[string]string{"aa": "accessed_after", "ab": "accessed_before", "ca": "created_after", "cb": "created_before"}

var cliPositions = []string{"before", "between", "after"}

// one spelling per position, each in another of the formats acra-tokens accepts
var cliLimitText = map[string]string{"before": "2000", "between": "2015-06-01", "after": "2100-01-01 00:00"}

var (
	agedTime    = time.Date(2010, 1, 1, 0, 0, 0, 0, time.UTC)
	limitBefore = time.Date(2000, 12, 31, 0, 0, 0, 0, time.UTC) // "2000" in any time zone is earlier
	limitMiddle = time.Date(2015, 6, 1, 0, 0, 0, 0, time.UTC)
	limitAfter  = time.Date(2099, 12, 30, 0, 0, 0, 0, time.UTC) // "2100-01-01" in any time zone is later
)

type cliOpt struct {
	Name string // aa | ab | ca | cb
	Pos  string // before | between | after
}

type cliOp struct {
	Cmd  string
	Opts []cliOpt
}

func (c cliOp) String() string {
	var s []string
	for _, o := range c.Opts {
		s = append(s, o.Name+"="+o.Pos)
	}
	return "cli:" + c.Cmd + ":" + strings.Join(s, ",")
}

// class is the run- and date-independent description used in finding keys and Distinct tuples.
func (c cliOp) class() string { return c.Cmd + "[" + c.optNames() + "]" }

func (c cliOp) optNames() string {
	if len(c.Opts) == 0 {
		return "no-limits"
	}
	var s []string
	for _, o := range c.Opts {
		s = append(s, cliOptFlag[o.Name])
	}
	return strings.Join(s, "+")
}

// text is the command line as an operator would type it.
func (c cliOp) text() string {
	s := "acra-tokens " + strings.SplitN(c.Cmd, "-", 2)[0] + " " + strings.Join(cliCommandLine[c.Cmd], " ")
	for _, o := range c.Opts {
		s += fmt.Sprintf(" --%s '%s'", cliOptFlag[o.Name], cliLimitText[o.Pos])
	}
	return strings.Join(strings.Fields(s), " ")
}

func parseCLIOp(op string) cliOp {
	p := strings.SplitN(op, ":", 3)
	if len(p) != 3 || p[0] != "cli" {
		ev.Fatalf("bad command operation %q", op)
	}
	if _, ok := cliCommandLine[p[1]]; !ok {
		ev.Fatalf("unknown acra-tokens command in %q", op)
	}
	c := cliOp{Cmd: p[1]}
	if p[2] != "" {
		for _, o := range strings.Split(p[2], ",") {
			kv := strings.SplitN(o, "=", 2)
			if len(kv) != 2 || cliOptFlag[kv[0]] == "" || cliLimitText[kv[1]] == "" {
				ev.Fatalf("bad option %q in %q", o, op)
			}
			c.Opts = append(c.Opts, cliOpt{kv[0], kv[1]})
		}
	}
	return c
}

// cliFilters: every subset of at most maxOpts options, every chosen option at every position.
func cliFilters(maxOpts int) [][]cliOpt {
	var out [][]cliOpt
	var rec func(from int, cur []cliOpt)
	rec = func(from int, cur []cliOpt) {
		out = append(out, append([]cliOpt{}, cur...))
		if len(cur) == maxOpts {
			return
		}
		for i := from; i < len(cliOptNames); i++ {
			for _, p := range cliPositions {
				rec(i+1, append(cur, cliOpt{cliOptNames[i], p}))
			}
		}
	}
	rec(0, nil)
	sort.SliceStable(out, func(i, j int) bool { return len(out[i]) < len(out[j]) })
	return out
}

func cliOps(maxOpts int) []string {
	var out []string
	for _, f := range cliFilters(maxOpts) {
		for _, c := range cliCommands {
			out = append(out, cliOp{c, f}.String())
		}
	}
	return out
}

// ---- what the options mean (their help texts: "limit action to tokens accessed after / accessed
// before / created after / created before specified date") ---------------------------------------

// era of a stored time: 'o' = aged (2010), 'n' = fresh (the wall clock of this run)
func eraOf(t time.Time) byte {
	switch {
	case t.Before(limitBefore) || t.After(limitAfter):
		ev.Fatalf("a stored record time %v is outside 2001..2099: the wall clock of this machine does not fit the stated limit positions", t)
	case t.Before(limitMiddle):
		if !t.Equal(agedTime) {
			ev.Fatalf("a stored record time %v is before 2015-06-01 but is not the time given to aged records: the wall clock of this machine does not fit the stated limit positions", t)
		}
		return 'o'
	}
	return 'n'
}

// admits: does the option admit a record whose time has this era?
func (o cliOpt) admits(created, accessed byte) bool {
	era := accessed
	if o.Name[0] == 'c' {
		era = created
	}
	after := o.Name[1] == 'a'
	switch o.Pos {
	case "before": // limit earlier than every record
		return after
	case "after": // limit later than every record
		return !after
	}
	// between the aged and the fresh records
	if after {
		return era == 'n'
	}
	return era == 'o'
}

// ---- the store side: a BoltDB storage that can be re-bound to another handle ------------------

// rebindStore forwards to the BoltDB token storage of the execution. acra-tokens opens the
// database file itself, so the execution closes its handle for the time of a command and binds a
// new one afterwards.
type rebindStore struct {
	inner common.TokenStorage
	gran  time.Duration
}

func (s *rebindStore) Save(id []byte, ctx common.TokenContext, data []byte) error {
	return s.inner.Save(id, ctx, data)
}
func (s *rebindStore) Get(id []byte, ctx common.TokenContext) ([]byte, error) {
	return s.inner.Get(id, ctx)
}
func (s *rebindStore) Stat(id []byte, ctx common.TokenContext) (common.TokenMetadata, error) {
	return s.inner.Stat(id, ctx)
}
func (s *rebindStore) VisitMetadata(cb func(int, common.TokenMetadata) (common.TokenAction, error)) error {
	return s.inner.VisitMetadata(cb)
}
func (s *rebindStore) SetAccessTimeGranularity(g time.Duration) error {
	s.gran = g
	return s.inner.SetAccessTimeGranularity(g)
}

// freeze stops access-time updates for reads made by the harness's own inspection (the real API:
// a granularity longer than the age of any record), thaw restores the configured granularity.
func (s *rebindStore) freeze() { s.inner.SetAccessTimeGranularity(250 * 365 * 24 * time.Hour) }
func (s *rebindStore) thaw()   { s.inner.SetAccessTimeGranularity(s.gran) }

var (
	cliStdout sync.Mutex // "status" prints on os.Stdout: one at a time, captured through a pipe
	cliRuns   int64
	cliOnce   sync.Once
)

type cliExit struct{ code int }

func cliSetup() {
	cliOnce.Do(func() {
		// no service configuration file from the working directory
		tokens.DefaultConfigPath = ""
		// log.Fatal of a subcommand must not end the check program: it becomes a failed command
		logrus.StandardLogger().ExitFunc = func(code int) { panic(cliExit{code}) }
	})
}

// cli runs one acra-tokens subcommand on the BoltDB file of the execution.
func (x *exec) cli(c cliOp) (stdout string, err error) {
	cliSetup()
	if x.slot == nil || x.rebind == nil {
		ev.Fatalf("acra-tokens needs a BoltDB store stack, not %q", x.kind)
	}
	var sub tokens.Subcommand
	switch strings.SplitN(c.Cmd, "-", 2)[0] {
	case "disable":
		sub = &tokens.DisableSubcommand{}
	case "enable":
		sub = &tokens.EnableSubcommand{}
	case "remove":
		sub = &tokens.RemoveSubcommand{}
	case "status":
		sub = &tokens.StatusSubcommand{}
	}
	// The command works on a copy of the database file (everything the execution did is committed
	// and written, so the copy is what a process opening the token database now sees). The handle of
	// the execution is not closed but abandoned afterwards, see below.
	x.slot.gen++
	base := strings.SplitN(x.slot.path, ".g", 2)[0]
	work := fmt.Sprintf("%s.g%d.cmd", base, x.slot.gen)
	copyFile(x.slot.path, work)
	args := []string{"--token_db", work}
	args = append(args, cliCommandLine[c.Cmd]...)
	for _, o := range c.Opts {
		args = append(args, "--"+cliOptFlag[o.Name], cliLimitText[o.Pos])
	}
	sub.RegisterFlags()
	if perr := sub.Parse(args); perr != nil {
		os.Remove(work)
		return "", fmt.Errorf("arguments refused: %v", perr)
	}
	run := func() {
		defer func() {
			if p := recover(); p != nil {
				if e, ok := p.(cliExit); ok {
					err = fmt.Errorf("the command ended with a fatal error (exit code %d)", e.code)
				} else {
					err = fmt.Errorf("panic: %v", p)
				}
			}
		}()
		sub.Execute()
	}
	if c.Cmd == "status" {
		cliStdout.Lock()
		rd, wr, perr := os.Pipe()
		if perr != nil {
			ev.Fatalf("pipe: %v", perr)
		}
		saved := os.Stdout
		os.Stdout = wr
		run()
		os.Stdout = saved
		wr.Close()
		b, _ := io.ReadAll(rd)
		rd.Close()
		cliStdout.Unlock()
		stdout = string(b)
	} else {
		run()
	}
	x.steps++
	// The subcommand never closes the database it opened: its handle keeps the file lock until the
	// garbage collector finalizes the file. All it did is committed, so a copy of its file is what
	// the next process opening the token database sees; the execution goes on with such a copy. The
	// execution's previous handle is abandoned the same way instead of being closed (unmapping a
	// database file costs milliseconds on some machines; the worker process is short-lived).
	next := fmt.Sprintf("%s.g%d", base, x.slot.gen)
	copyFile(work, next)
	os.Remove(work)
	os.Remove(x.slot.path)
	db, oerr := bolt.Open(next, 0o600, nil)
	if oerr != nil {
		ev.Fatalf("bolt reopen: %v", oerr)
	}
	db.NoSync = true
	x.slot.db, x.slot.path = db, next
	x.rebind.inner = storage.NewBoltDBTokenStorage(db)
	x.rebind.inner.SetAccessTimeGranularity(x.rebind.gran)
	if atomic.AddInt64(&cliRuns, 1)%256 == 0 {
		runtime.GC() // lets the finalizers close the handles the subcommands left open
	}
	return
}

func copyFile(from, to string) {
	src, err := os.Open(from)
	if err != nil {
		ev.Fatalf("copy: %v", err)
	}
	defer src.Close()
	dst, err := os.OpenFile(to, os.O_CREATE|os.O_TRUNC|os.O_WRONLY, 0o600)
	if err != nil {
		ev.Fatalf("copy: %v", err)
	}
	if _, err := io.Copy(dst, src); err != nil {
		ev.Fatalf("copy: %v", err)
	}
	if err := dst.Close(); err != nil {
		ev.Fatalf("copy: %v", err)
	}
}

// age: every record stored so far becomes old (created and accessed 2010-01-01).
func (x *exec) age() error {
	x.steps++
	return x.slot.db.Update(func(tx *bolt.Tx) error {
		root := tx.Bucket([]byte("tokens"))
		if root == nil {
			return nil
		}
		var ctxs [][]byte
		root.ForEach(func(k, v []byte) error {
			if v == nil {
				ctxs = append(ctxs, append([]byte{}, k...))
			}
			return nil
		})
		for _, c := range ctxs {
			b := root.Bucket(c)
			type kv struct{ k, v []byte }
			var recs []kv
			b.ForEach(func(k, v []byte) error {
				if v != nil {
					recs = append(recs, kv{append([]byte{}, k...), append([]byte{}, v...)})
				}
				return nil
			})
			for _, r := range recs {
				data, md, err := common.ExtractMetadata(r.v)
				if err != nil {
					return err
				}
				md.Created, md.Accessed = agedTime, agedTime
				if err := b.Put(r.k, common.EmbedMetadata(data, md)); err != nil {
					return err
				}
			}
		}
		return nil
	})
}

// countRecords: number of records in all context buckets of the BoltDB file, read-only.
func (x *exec) countRecords() (n int, err error) {
	err = x.slot.db.View(func(tx *bolt.Tx) error {
		root := tx.Bucket([]byte("tokens"))
		if root == nil {
			return nil
		}
		return root.ForEach(func(k, v []byte) error {
			if v != nil {
				return nil
			}
			return root.Bucket(k).ForEach(func(_, rv []byte) error {
				if rv != nil {
					n++
				}
				return nil
			})
		})
	})
	return
}

// recMeta is what Stat says about one record of client context 0.
type recMeta struct {
	Exists   bool
	Disabled bool
	C, A     byte // eras of the creation and the access time
}

func (m recMeta) state() string {
	switch {
	case !m.Exists:
		return "removed"
	case m.Disabled:
		return "disabled"
	}
	return "enabled"
}

func (m recMeta) eras() string {
	if !m.Exists {
		return "--"
	}
	return string([]byte{m.C, m.A})
}

// stat reads the metadata of the consistent record of a value (kind 'h') or the record of a token
// (kind 't'); only records the tokenizer was seen saving are looked at.
func (x *exec) stat(kind byte, payload tval) recMeta {
	id := recID(kind, payload.enc(), clients[0], x.typ)
	if _, ok := x.saved[savedKey{0, id}]; !ok {
		return recMeta{}
	}
	md, err := x.top.inner.Stat([]byte(id), tokenCtx(0))
	if err == common.ErrTokenNotFound {
		return recMeta{}
	}
	if err != nil {
		ev.Fatalf("Stat: %v", err)
	}
	return recMeta{true, md.Disabled, eraOf(md.Created), eraOf(md.Accessed)}
}

// allMeta: kind, state and eras of every stored record the tokenizer ever saved, sorted (part of
// the de-duplication state: records the model does not name count too).
func (x *exec) allMeta() string {
	var s []string
	for _, k := range x.savedOrder {
		md, err := x.top.inner.Stat([]byte(k.id), tokenCtx(k.ctx))
		if err != nil {
			continue
		}
		d := "e"
		if md.Disabled {
			d = "d"
		}
		s = append(s, fmt.Sprintf("%c%d%s%c%c", k.id[0], k.ctx, d, eraOf(md.Created), eraOf(md.Accessed)))
	}
	sort.Strings(s)
	return strings.Join(s, ",")
}

// ---- the model side of one command ------------------------------------------------------------

// cliEffect: what the command does to a record with this metadata. reasons lists why the record
// must stay as it is (options that exclude it, or the command's own condition).
func cliEffect(c cliOp, before recMeta) (after string, reasons []string) {
	for _, o := range c.Opts {
		if !o.admits(before.C, before.A) {
			reasons = append(reasons, cliOptFlag[o.Name])
		}
	}
	after = before.state()
	switch c.Cmd {
	case "disable":
		if before.Disabled {
			reasons = append(reasons, "already-disabled")
		} else if len(reasons) == 0 {
			after = "disabled"
		}
	case "enable":
		if !before.Disabled {
			reasons = append(reasons, "already-enabled")
		} else if len(reasons) == 0 {
			after = "enabled"
		}
	case "remove-all":
		if len(reasons) == 0 {
			after = "removed"
		}
	case "remove-only_disabled":
		if !before.Disabled {
			reasons = append(reasons, "record-is-enabled")
		} else if len(reasons) == 0 {
			after = "removed"
		}
	case "remove-all-dry_run":
		reasons = append(reasons, "dry_run")
	case "status":
		reasons = append(reasons, "status-only-reports")
	}
	return
}

type cliTracked struct {
	kind   byte // 'h' consistent record of value vi, 't' record of token ti
	vi, ti int
	what   string
	before recMeta
	want   string
	why    []string
}

// applyCLI runs the command of op on the store of x and moves the model; the findings are keyed
// by command, by the reasons the touched record had to be left alone for (or the options that
// admitted a record the command skipped), and by what happened to the record.
func applyCLI(x *exec, m *model, vals [2]tval, op, hist string, add func(key, msg string)) (obs string, diverged bool, cause string) {
	c := parseCLIOp(op)
	var tr []cliTracked
	for vi := 0; vi < 2; vi++ {
		if m.cur[vi] < 0 {
			continue
		}
		b := x.stat('h', vals[vi])
		if !b.Exists || b.Disabled != m.hDisabled[vi] {
			return "model-and-store-differ-before-the-command", true, "" // reported by the step that caused it
		}
		tr = append(tr, cliTracked{kind: 'h', vi: vi, what: fmt.Sprintf("consistent record of %s", []string{"v", "w"}[vi]), before: b})
	}
	for i, k := range m.toks {
		if k.status == stRemoved {
			continue
		}
		dup := false
		for j := 0; j < i; j++ {
			dup = dup || (m.toks[j].status != stRemoved && m.toks[j].tok.equal(k.tok))
		}
		if dup {
			continue
		}
		b := x.stat('t', k.tok)
		if !b.Exists || b.Disabled != (k.status == stDisabled) {
			return "model-and-store-differ-before-the-command", true, ""
		}
		tr = append(tr, cliTracked{kind: 't', ti: i, what: fmt.Sprintf("record of token T%d of %s", i, []string{"v", "w"}[k.val]), before: b})
	}
	for i := range tr {
		tr[i].want, tr[i].why = cliEffect(c, tr[i].before)
	}
	stdout, err := x.cli(c)
	if err != nil {
		add("C10/cli-maintenance/"+c.Cmd+"/command-failed", fmt.Sprintf("after %s: '%s' on a well-formed token database: %v", hist, c.text(), err))
		return "failed", true, "C10/cli-maintenance/" + c.Cmd + "/command-failed"
	}
	obs = "done"
	if c.Cmd == "status" {
		obs = statusCounts(stdout)
	}
	kindName := map[byte]string{'h': "consistent-record", 't': "token-record"}
	for _, t := range tr {
		var after recMeta
		if t.kind == 'h' {
			after = x.stat('h', vals[t.vi])
		} else {
			after = x.stat('t', m.toks[t.ti].tok)
		}
		if got := after.state(); got != t.want {
			diverged = true
			var why, msg string
			if t.want == t.before.state() {
				why = fmt.Sprintf("C10/cli-maintenance/%s/record-to-be-left-alone-because:%s", c.Cmd, strings.Join(t.why, "+"))
				msg = fmt.Sprintf("after %s: '%s' changed the %s (created %s, accessed %s, %s) to %s although it must not touch it (%s)",
					hist, c.text(), t.what, eraName(t.before.C), eraName(t.before.A), t.before.state(), got, strings.Join(t.why, ", "))
				add(fmt.Sprintf("%s/%s-%s", why, kindName[t.kind], got), msg)
			} else {
				why = fmt.Sprintf("C10/cli-maintenance/%s/record-within[%s]", c.Cmd, c.optNames())
				msg = fmt.Sprintf("after %s: '%s' left the %s (created %s, accessed %s, %s) %s, the options select it: it must be %s",
					hist, c.text(), t.what, eraName(t.before.C), eraName(t.before.A), t.before.state(), got, t.want)
				add(fmt.Sprintf("%s/%s-%s-instead-of-%s", why, kindName[t.kind], got, t.want), msg)
			}
			if cause == "" {
				cause = why
			}
		}
		// the model follows what the options say
		switch {
		case t.kind == 'h' && t.want == "removed":
			m.cur[t.vi], m.hDisabled[t.vi] = -1, false
		case t.kind == 'h':
			m.hDisabled[t.vi] = t.want == "disabled"
		default:
			st := map[string]int{"enabled": stEnabled, "disabled": stDisabled, "removed": stRemoved}[t.want]
			for j := range m.toks {
				if m.toks[j].status != stRemoved && m.toks[j].tok.equal(m.toks[t.ti].tok) && j != t.ti {
					m.toks[j].status = st
				}
			}
			m.toks[t.ti].status = st
		}
	}
	return
}

func eraName(e byte) string {
	if e == 'o' {
		return "2010"
	}
	return "now"
}

// statusCounts extracts the two counters of "acra-tokens status" (sizes differ between the stacks).
func statusCounts(out string) string {
	var s []string
	for _, l := range strings.Split(out, "\n") {
		if strings.HasPrefix(l, "TokenCount:") || strings.HasPrefix(l, "DisabledTokenCount:") {
			s = append(s, strings.ReplaceAll(l, " ", ""))
		}
	}
	if len(s) != 2 {
		return "status-output-unreadable"
	}
	return strings.Join(s, ",")
}

// cliStateSuffix: the part of the de-duplication state the time filters can tell apart.
func cliStateSuffix(x *exec, m *model, vals [2]tval) string {
	var s []string
	for vi := 0; vi < 2; vi++ {
		if m.cur[vi] >= 0 {
			s = append(s, fmt.Sprintf("h%d@%s", vi, x.stat('h', vals[vi]).eras()))
		}
	}
	var ts []string
	for i, k := range m.toks {
		if k.status == stRemoved {
			continue
		}
		role := ""
		for vi := 0; vi < 2; vi++ {
			if m.cur[vi] == i {
				role += "c"
			}
			if m.latest[vi] == i {
				role += "l"
			}
		}
		ts = append(ts, fmt.Sprintf("t:v%d:st%d:%s@%s", k.val, k.status, role, x.stat('t', k.tok).eras()))
	}
	sort.Strings(ts)
	return strings.Join(append(s, ts...), " ") + " | " + x.allMeta()
}

// ---- the phase -------------------------------------------------------------------------------

var cliBaseOps = []string{"tv", "tw", "rv", "dv", "dw", "age"}

// the probes appended to every history of this phase (after the state was taken)
var cliProbes = []string{"dv", "dw", "tv", "tw"}

var cliStores = []string{"boltdb", "boltdb+enc"}

// cliRoot: a root history, the number of operations appended from the full alphabet of the tier,
// and the number of further operations appended from the alphabet with at most 2 options per command.
type cliRoot struct {
	Prefix []string
	Depth  int
	Extra  int
}

func phaseCLI(r *ev.Run) {
	h := func(s string) string { return ev.Hex([]byte(s)) }
	type conf struct {
		typ   string
		vals  []string
		entry string
	}
	// root histories:
	//   empty     the empty store
	//   mixed     v tokenized long ago, its token read by the owner today, w tokenized today: records
	//             with all three (created, accessed) time patterns side by side
	//   mixedOff  the same with every record disabled (so that enable and remove --only_disabled
	//             have something to select)
	mixed := []string{"tv", "age", "dv", "tw"}
	mixedOff := append(append([]string{}, mixed...), cliOp{Cmd: "disable"}.String())
	confs := []conf{{"str", []string{h("abc"), h("hello")}, "pa"}}
	roots := []cliRoot{{nil, 2, 0}, {mixed, 1, 0}, {mixedOff, 1, 0}}
	maxOpts := 2
	if r.Thorough() {
		// every set of options at the depths of the quick tier, one more operation with at most 2
		// options; two more (type, entry point) pairs at the quick tier's bounds
		maxOpts = 4
		roots = []cliRoot{{nil, 2, 1}, {mixed, 1, 1}, {mixedOff, 1, 1}}
		confs = append(confs,
			conf{"int64", []string{"0", "-9223372036854775808"}, "svc"},
			conf{"email", []string{h("ab@cd.ef"), h("abcd@efg.hij")}, "dt"},
		)
	}
	opsFull := append(append([]string{}, cliBaseOps...), cliOps(maxOpts)...)
	opsSmall := append(append([]string{}, cliBaseOps...), cliOps(2)...)
	r.Set("cli_commands", cliCommands)
	r.Set("cli_filters", len(cliFilters(maxOpts)))
	r.Set("cli_operations", len(opsFull))
	r.Set("cli_operations_at_most_2_options", len(opsSmall))
	r.Set("cli_limit_positions", cliLimitText)
	r.Set("cli_store_stacks", cliStores)
	var rootDesc []string
	for _, rt := range roots {
		rootDesc = append(rootDesc, fmt.Sprintf("[%s]+%d+%d", strings.Join(rt.Prefix, ","), rt.Depth, rt.Extra))
	}
	r.Set("cli_roots", rootDesc)
	workers := &cliWorkers{}
	defer workers.close()
	for ci, cf := range confs {
		base := maintCfg{Phase: "cli", Entry: cf.entry, Type: cf.typ, Vals: cf.vals}
		for ri, rt := range roots {
			full := opsFull
			if ci > 0 {
				full, rt.Extra = opsSmall, 0 // the further types and entry points: the bounds of the quick tier
			}
			frontier := [][]string{append([]string{}, rt.Prefix...)}
			seen := map[string]bool{}
			for d := 0; d <= rt.Depth+rt.Extra && len(frontier) > 0; d++ {
				ops := full
				if d > rt.Depth {
					ops = opsSmall
				}
				var cands [][]string
				if d == 0 {
					cands = frontier // the root history itself
				} else {
					for _, hist := range frontier {
						for _, o := range ops {
							cands = append(cands, append(append([]string{}, hist...), o))
						}
					}
				}
				states := make([]string, len(cands))
				done := par.Do(len(cands), r.Expired, func(i int) {
					var first maintOut
					for k, st := range cliStores {
						c := base
						c.Store, c.Ops = st, cands[i]
						o := workers.run(c) // runMaint(c) in a worker process (cliworker.go)
						r.Eval(1)
						r.Traces(1)
						r.Transitions(o.Steps)
						last := "root"
						if n := len(cands[i]); n > 0 {
							last = cands[i][n-1]
							if strings.HasPrefix(last, "cli:") {
								last = parseCLIOp(last).class()
							}
						}
						r.Distinct(strings.Join([]string{"cli", c.Type, st, c.Entry, last, o.Outcome}, "|"))
						cl := "held"
						if len(o.Findings) > 0 {
							cl = "violated"
						}
						r.Class("cli:"+c.Type+":"+cl, 1)
						report(r, o.Findings, c)
						if k == 0 {
							first = o
							continue
						}
						if a, b := strings.Join(first.Obs, ";")+"#"+first.State, strings.Join(o.Obs, ";")+"#"+o.State; a != b {
							r.Violation(fmt.Sprintf("C10/cli-maintenance/%s/store-divergence/%s-vs-%s", c.Type, st, cliStores[0]),
								fmt.Sprintf("store stacks disagree after %s: %s: %s || %s: %s", strings.Join(cands[i], ","), cliStores[0], a, st, b), c)
						}
					}
					states[i] = first.State
				})
				if done < len(cands) {
					r.Capped(fmt.Sprintf("acra-tokens histories %s/%s root [%s]: depth %d incomplete (%d of %d histories)", cf.typ, cf.entry, strings.Join(rt.Prefix, ","), d, done, len(cands)))
					break
				}
				var next [][]string
				for i, s := range states {
					if !seen[s] && s != "diverged" {
						seen[s] = true
						noteState(r, "cli|"+cf.typ+"|"+s)
						next = append(next, cands[i])
					}
				}
				frontier = next
			}
			r.Set(fmt.Sprintf("cli_states_%s_%s_root%d", cf.typ, cf.entry, ri), len(seen))
		}
	}
	r.Sample(maintCfg{Phase: "cli", Store: "boltdb", Entry: "pa", Type: "str", Vals: confs[0].vals,
		Ops: []string{"tv", "age", "tw", cliOp{"remove-all", []cliOpt{{"cb", "between"}}}.String()}})
}
