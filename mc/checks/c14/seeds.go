package main

import (
	"encoding/json"
	"os"

	"verif/envl"
	"verif/ev"
	"verif/fx"
)

// makeSeeds produces the valid seed inputs once (they contain random nonces, keys and time
// stamps) and writes them to a file shared with the workers.
func makeSeeds(w *fx.World, file, scratch string) {
	seeds := map[string][]byte{}
	makeEnvelopeSeeds(envl.New(w), seeds)
	makeRingSeeds(seeds)
	makeTokenSeeds(w, seeds)
	raw := map[string]string{}
	for k, v := range seeds {
		raw[k] = ev.Hex(v)
	}
	b, _ := json.Marshal(raw)
	if err := os.WriteFile(file, b, 0o600); err != nil {
		ev.Fatalf("seeds: %v", err)
	}
}
