// Package envl ("envelope lab") names every way of producing a protected value and every
// reveal entry point of Acra so that C01/C02/C03/C14/C15 enumerate the same surface.
package envl

import (
	"context"
	"fmt"
	"runtime/debug"
	"strings"

	"github.com/cossacklabs/acra/acrablock"
	"github.com/cossacklabs/acra/acrastruct"
	"github.com/cossacklabs/acra/crypto"
	"github.com/cossacklabs/acra/decryptor/base"
	encryptor "github.com/cossacklabs/acra/encryptor/base"
	"github.com/cossacklabs/acra/encryptor/base/config"
	"github.com/cossacklabs/acra/hmac"
	"github.com/cossacklabs/acra/keystore"

	"verif/ev"
	"verif/fx"
)

// Form is a stored form of a protected value.
type Form string

const (
	StructRaw    Form = "struct-raw"
	BlockRaw     Form = "block-raw"
	StructCont   Form = "struct-container"
	BlockCont    Form = "block-container"
	StructSearch Form = "struct-searchable" // hash || container(struct)
	BlockSearch  Form = "block-searchable"  // hash || container(block)
)

var AllForms = []Form{StructRaw, BlockRaw, StructCont, BlockCont, StructSearch, BlockSearch}

func (f Form) IsStruct() bool     { return strings.HasPrefix(string(f), "struct") }
func (f Form) IsSearchable() bool { return strings.HasSuffix(string(f), "searchable") }
func (f Form) IsRaw() bool        { return strings.HasSuffix(string(f), "raw") }

const schemaYAML = `
schemas:
  - table: t
    columns: [id, s, b, ss, bs, rb]
    encrypted:
      - column: s
        crypto_envelope: acrastruct
      - column: b
        crypto_envelope: acrablock
      - column: ss
        crypto_envelope: acrastruct
        searchable: true
      - column: bs
        crypto_envelope: acrablock
        searchable: true
      - column: rb
        crypto_envelope: acrablock
        reencrypting_to_acrablocks: true
`

// Lab is the set of producers and reveal entry points over one fx.World.
type Lab struct {
	W        *fx.World
	KS       keystore.ServerKeyStore
	Settings map[string]config.ColumnEncryptionSetting
	Chain    *encryptor.ChainDataEncryptor // write-side chain as wired by the proxy factories
	structH  crypto.ContainerHandler
	blockH   crypto.ContainerHandler
}

func New(w *fx.World) *Lab {
	l := &Lab{W: w, KS: w.KS, Settings: map[string]config.ColumnEncryptionSetting{}}
	st, err := config.MapTableSchemaStoreFromConfig([]byte(schemaYAML), false)
	if err != nil {
		ev.Fatalf("schema: %v", err)
	}
	ts := st.GetTableSchema("t")
	for _, c := range []string{"s", "b", "ss", "bs", "rb"} {
		l.Settings[c] = ts.GetColumnEncryptionSettings(c)
		if l.Settings[c] == nil {
			ev.Fatalf("no setting for %s", c)
		}
	}
	l.structH, err = crypto.GetHandlerByEnvelopeID(crypto.AcraStructEnvelopeID)
	if err != nil {
		ev.Fatalf("handler: %v", err)
	}
	l.blockH, err = crypto.GetHandlerByEnvelopeID(crypto.AcraBlockEnvelopeID)
	if err != nil {
		ev.Fatalf("handler: %v", err)
	}
	se, _ := hmac.NewSearchableEncryptor(w.KS, w.Registry, w.Registry)
	l.Chain = encryptor.NewChainDataEncryptor(crypto.NewEncryptHandler(w.Registry), se, crypto.NewReEncryptHandler(w.KS))
	return l
}

// Producer is a named way of protecting a plaintext.
type Producer struct {
	Name string
	Form Form
	Fn   func(l *Lab, id, pt []byte) ([]byte, error)
}

func columnFor(f Form) string {
	switch f {
	case StructCont:
		return "s"
	case BlockCont:
		return "b"
	case StructSearch:
		return "ss"
	case BlockSearch:
		return "bs"
	}
	return ""
}

// Producers lists every protect entry point with the form it yields.
var Producers = []Producer{
	{"acrastruct.CreateAcrastruct", StructRaw, func(l *Lab, id, pt []byte) ([]byte, error) {
		pub, err := l.KS.GetClientIDEncryptionPublicKey(id)
		if err != nil {
			return nil, err
		}
		return acrastruct.CreateAcrastruct(pt, pub, nil)
	}},
	{"acrablock.CreateAcraBlock", BlockRaw, func(l *Lab, id, pt []byte) ([]byte, error) {
		k, err := l.KS.GetClientIDSymmetricKey(id)
		if err != nil {
			return nil, err
		}
		return acrablock.CreateAcraBlock(pt, k, nil)
	}},
	{"Registry.EncryptWithHandler(struct)", StructCont, func(l *Lab, id, pt []byte) ([]byte, error) {
		return l.W.Registry.EncryptWithHandler(l.structH, id, pt)
	}},
	{"Registry.EncryptWithHandler(block)", BlockCont, func(l *Lab, id, pt []byte) ([]byte, error) {
		return l.W.Registry.EncryptWithHandler(l.blockH, id, pt)
	}},
	{"Registry.EncryptWithClientID(struct)", StructCont, func(l *Lab, id, pt []byte) ([]byte, error) {
		return l.W.Registry.EncryptWithClientID(id, pt, l.Settings["s"])
	}},
	{"Registry.EncryptWithClientID(block)", BlockCont, func(l *Lab, id, pt []byte) ([]byte, error) {
		return l.W.Registry.EncryptWithClientID(id, pt, l.Settings["b"])
	}},
	{"Translator.Encrypt", StructCont, func(l *Lab, id, pt []byte) ([]byte, error) {
		return l.W.Service.Encrypt(fx.Ctx(nil), pt, id, nil)
	}},
	{"Translator.EncryptSym", BlockCont, func(l *Lab, id, pt []byte) ([]byte, error) {
		return l.W.Service.EncryptSym(fx.Ctx(nil), pt, id, nil)
	}},
	{"Translator.EncryptSearchable", StructSearch, func(l *Lab, id, pt []byte) ([]byte, error) {
		r, err := l.W.Service.EncryptSearchable(fx.Ctx(nil), pt, id, nil)
		if err != nil {
			return nil, err
		}
		return append(append([]byte{}, r.Hash...), r.EncryptedData...), nil
	}},
	{"Translator.EncryptSymSearchable", BlockSearch, func(l *Lab, id, pt []byte) ([]byte, error) {
		r, err := l.W.Service.EncryptSymSearchable(fx.Ctx(nil), pt, id, nil)
		if err != nil {
			return nil, err
		}
		return append(append([]byte{}, r.Hash...), r.EncryptedData...), nil
	}},
	{"ProxyChain(struct)", StructCont, chainProducer("s")},
	{"ProxyChain(block)", BlockCont, chainProducer("b")},
	{"ProxyChain(struct,searchable)", StructSearch, chainProducer("ss")},
	{"ProxyChain(block,searchable)", BlockSearch, chainProducer("bs")},
}

func chainProducer(col string) func(l *Lab, id, pt []byte) ([]byte, error) {
	return func(l *Lab, id, pt []byte) ([]byte, error) {
		return l.Chain.EncryptWithClientID(id, pt, l.Settings[col])
	}
}

// ProducerFor returns the first (library-level) producer of a form.
func ProducerFor(f Form) Producer {
	for _, p := range Producers {
		if p.Form == f {
			return p
		}
	}
	panic("no producer")
}

// Outcome of a guarded call.
type Outcome struct {
	Out   []byte
	Err   error
	Panic string // non-empty if the call panicked
	Stack string
}

// Guard runs fn and converts a panic into an Outcome.
func Guard(fn func() ([]byte, error)) (o Outcome) {
	defer func() {
		if r := recover(); r != nil {
			o.Panic = fmt.Sprint(r)
			o.Stack = string(debug.Stack())
		}
	}()
	o.Out, o.Err = fn()
	return
}

// PanicSite extracts "pkg.func" of the innermost acra frame from a stack (stable finding key).
func PanicSite(stack string) string {
	lines := strings.Split(stack, "\n")
	for _, ln := range lines {
		if strings.HasPrefix(ln, "github.com/cossacklabs/acra/") {
			s := strings.TrimPrefix(ln, "github.com/cossacklabs/acra/")
			if i := strings.LastIndex(s, "("); i > 0 {
				s = s[:i]
			}
			return s
		}
	}
	return "unknown"
}

// PanicClass normalises a panic message (numbers dropped).
func PanicClass(msg string) string {
	var b strings.Builder
	for _, r := range msg {
		if r >= '0' && r <= '9' {
			continue
		}
		if r == ' ' {
			r = '_'
		}
		b.WriteRune(r)
	}
	s := b.String()
	if len(s) > 60 {
		s = s[:60]
	}
	return s
}

// Revealer is a named reveal entry point. Accepts tells which stored forms it is meant for
// (others may still be thrown at it for robustness). Column reports whether it is a transparent
// column processor (returns data unchanged instead of an error when nothing decrypts).
type Revealer struct {
	Name    string
	Accepts func(Form) bool
	Column  bool
	Fn      func(l *Lab, id, stored []byte) ([]byte, error)
}

func splitHash(stored []byte) (hash, rest []byte) {
	n := hmac.GetDefaultHashSize()
	if len(stored) < n {
		return nil, stored
	}
	return stored[:n], stored[n:]
}

// ColumnChain builds the decryption subscriber chain the proxy factories build
// (without wire-format encode/decode): [hmac] detector [hmac].
func (l *Lab) ColumnChain(old bool, searchable bool, extra ...crypto.EnvelopeCallbackHandler) *base.ColumnDecryptionObserver {
	obs := base.NewColumnDecryptionObserver()
	det := crypto.NewEnvelopeDetector()
	var sub base.DecryptionSubscriber = det
	if old {
		sub = crypto.NewOldContainerDetectorWrapper(det)
	}
	for _, cb := range extra {
		det.AddCallback(cb)
	}
	var hp *hmac.Processor
	if searchable {
		hp = hmac.NewHMACProcessor(l.W.KS)
		obs.SubscribeOnAllColumnsDecryption(hp)
	}
	det.AddCallback(crypto.NewDecryptHandler(l.W.KS, l.W.Registry))
	obs.SubscribeOnAllColumnsDecryption(sub)
	if hp != nil {
		obs.SubscribeOnAllColumnsDecryption(hp)
	}
	return &obs
}

func columnRevealer(name string, old, searchable bool) Revealer {
	return Revealer{Name: name, Column: true,
		Accepts: func(f Form) bool {
			if f.IsSearchable() && !searchable {
				return false
			}
			if f.IsRaw() && !old {
				return false
			}
			return true
		},
		Fn: func(l *Lab, id, stored []byte) ([]byte, error) {
			obs := l.ColumnChain(old, searchable)
			_, out, err := obs.OnColumnDecryption(fx.Ctx(id), 0, stored)
			return out, err
		}}
}

// Revealers lists every reveal entry point.
var Revealers = []Revealer{
	{"acrastruct.DecryptRotatedAcrastruct", func(f Form) bool { return f == StructRaw }, false,
		func(l *Lab, id, stored []byte) ([]byte, error) {
			ks, err := l.KS.GetServerDecryptionPrivateKeys(id)
			if err != nil {
				return nil, err
			}
			return acrastruct.DecryptRotatedAcrastruct(stored, ks, nil)
		}},
	{"acrablock.Decrypt", func(f Form) bool { return f == BlockRaw }, false,
		func(l *Lab, id, stored []byte) ([]byte, error) {
			ks, err := l.KS.GetClientIDSymmetricKeys(id)
			if err != nil {
				return nil, err
			}
			b, err := acrablock.NewAcraBlockFromData(stored)
			if err != nil {
				return nil, err
			}
			return b.Decrypt(ks, nil)
		}},
	{"Registry.DecryptWithHandler(struct)", func(f Form) bool { return f == StructRaw || f == StructCont }, false,
		func(l *Lab, id, stored []byte) ([]byte, error) {
			return l.W.Registry.DecryptWithHandler(l.structH, stored, fx.DPC(l.KS, id))
		}},
	{"Registry.DecryptWithHandler(block)", func(f Form) bool { return f == BlockRaw || f == BlockCont }, false,
		func(l *Lab, id, stored []byte) ([]byte, error) {
			return l.W.Registry.DecryptWithHandler(l.blockH, stored, fx.DPC(l.KS, id))
		}},
	{"Registry.Process", func(f Form) bool { return !f.IsSearchable() }, false,
		func(l *Lab, id, stored []byte) ([]byte, error) {
			return l.W.Registry.Process(stored, fx.DPC(l.KS, id))
		}},
	{"Translator.Decrypt", func(f Form) bool { return f == StructRaw || f == StructCont }, false,
		func(l *Lab, id, stored []byte) ([]byte, error) {
			return l.W.Service.Decrypt(fx.Ctx(nil), stored, id, nil)
		}},
	{"Translator.DecryptSym", func(f Form) bool { return f == BlockRaw || f == BlockCont }, false,
		func(l *Lab, id, stored []byte) ([]byte, error) {
			return l.W.Service.DecryptSym(fx.Ctx(nil), stored, id, nil)
		}},
	{"Translator.DecryptSearchable(joined)", func(f Form) bool { return f == StructSearch }, false,
		func(l *Lab, id, stored []byte) ([]byte, error) {
			return l.W.Service.DecryptSearchable(fx.Ctx(nil), stored, nil, id, nil)
		}},
	{"Translator.DecryptSearchable(split)", func(f Form) bool { return f == StructSearch }, false,
		func(l *Lab, id, stored []byte) ([]byte, error) {
			h, rest := splitHash(stored)
			if h == nil {
				return l.W.Service.DecryptSearchable(fx.Ctx(nil), stored, nil, id, nil)
			}
			return l.W.Service.DecryptSearchable(fx.Ctx(nil), append([]byte{}, rest...), append([]byte{}, h...), id, nil)
		}},
	{"Translator.DecryptSymSearchable(joined)", func(f Form) bool { return f == BlockSearch }, false,
		func(l *Lab, id, stored []byte) ([]byte, error) {
			return l.W.Service.DecryptSymSearchable(fx.Ctx(nil), stored, nil, id, nil)
		}},
	{"Translator.DecryptSymSearchable(split)", func(f Form) bool { return f == BlockSearch }, false,
		func(l *Lab, id, stored []byte) ([]byte, error) {
			h, rest := splitHash(stored)
			if h == nil {
				return l.W.Service.DecryptSymSearchable(fx.Ctx(nil), stored, nil, id, nil)
			}
			return l.W.Service.DecryptSymSearchable(fx.Ctx(nil), append([]byte{}, rest...), append([]byte{}, h...), id, nil)
		}},
	{"hmac.NewHashProcessor(Registry)", func(f Form) bool { return !f.IsRaw() }, false,
		func(l *Lab, id, stored []byte) ([]byte, error) {
			return hmac.NewHashProcessor(l.W.Registry, l.W.KS).Process(stored, fx.DPC(l.KS, id))
		}},
	columnRevealer("Column[EnvelopeDetector]", false, false),
	columnRevealer("Column[OldContainerDetectorWrapper]", true, false),
	columnRevealer("Column[hmac,EnvelopeDetector,hmac]", false, true),
	columnRevealer("Column[hmac,OldContainerDetectorWrapper,hmac]", true, true),
}

// Reveal runs a revealer under Guard.
func (l *Lab) Reveal(r Revealer, id, stored []byte) Outcome {
	in := append([]byte(nil), stored...)
	return Guard(func() ([]byte, error) { return r.Fn(l, id, in) })
}

// Protect runs a producer under Guard.
func (l *Lab) Protect(p Producer, id, pt []byte) Outcome {
	in := append([]byte(nil), pt...)
	return Guard(func() ([]byte, error) { return p.Fn(l, id, in) })
}

var _ = context.Background
