package main

import (
	"context"
	"fmt"
	"net"
	"os"
	"reflect"
	"strings"
	"sync"
	"unsafe"

	"github.com/sirupsen/logrus"

	acracensor "github.com/cossacklabs/acra/acra-censor"
	"github.com/cossacklabs/acra/crypto"
	"github.com/cossacklabs/acra/decryptor/base"
	mysqlproxy "github.com/cossacklabs/acra/decryptor/mysql"
	pgproxy "github.com/cossacklabs/acra/decryptor/postgresql"
	"github.com/cossacklabs/acra/encryptor/base/config"
	myenc "github.com/cossacklabs/acra/encryptor/mysql"
	pgenc "github.com/cossacklabs/acra/encryptor/postgresql"
	"github.com/cossacklabs/acra/keystore/filesystem"
	"github.com/cossacklabs/acra/logging"
	"github.com/cossacklabs/acra/poison"
	"github.com/cossacklabs/acra/pseudonymization"
	"github.com/cossacklabs/acra/pseudonymization/common"
	"github.com/cossacklabs/acra/pseudonymization/storage"
	"github.com/cossacklabs/acra/sqlparser"

	"verif/detrand"
	"verif/ev"
	"verif/fx"
	"verif/sqlgen"
)

// The "observers" phase runs the query observers of the real proxies. They are built by the
// real proxy factories (decryptor/mysql.NewProxyFactory(...).New, decryptor/postgresql
// .NewProxyFactory(...).New: exact wiring and order of acra-server), one proxy object per
// evaluating goroutine (a proxy is per-connection state in Acra); the proxy's
// queryObserverManager - the object response_proxy.go / pg_decryptor.go call OnQuery on - is
// taken out of the proxy by reflection (it is an unexported field). Key store, crypto
// registry, schema store and token storage are shared by all proxies of the process as in
// acra-server.

// column classes of the model (the oracle's own knowledge of the configuration it wrote)
const (
	clsPlain      = "plain"
	clsSearchBlk  = "searchable-acrablock"
	clsSearchStr  = "searchable-acrastruct"
	clsEncrypted  = "encrypted"
	clsTokenStr   = "tokenized-str"
	clsTokenInt   = "tokenized-int32"
	clsMasked     = "masked"
	clsTyped      = "typed"
	clsSearchDflt = "searchable-default-envelope"
)

type obsColumn struct {
	Name  string
	Class string
}

type obsTable struct {
	Name string
	Cols []obsColumn
}

// obsTables is the schema of the phase: two tables with the same kinds of columns; column
// names are unique over both tables except "d", which is searchable in t1 and unprotected in
// t2 (a rewrite of t2.d or a missing rewrite permission for t1.d shows a resolution error).
var obsTables = []obsTable{
	{"t1", []obsColumn{{"id1", clsPlain}, {"sb1", clsSearchBlk}, {"ss1", clsSearchStr}, {"e1", clsEncrypted}, {"k1", clsTokenStr},
		{"m1", clsMasked}, {"y1", clsTyped}, {"p1", clsPlain}, {"d", clsSearchDflt}}},
	{"t2", []obsColumn{{"id2", clsPlain}, {"sb2", clsSearchBlk}, {"ss2", clsSearchStr}, {"e2", clsEncrypted}, {"k2", clsTokenInt},
		{"m2", clsMasked}, {"y2", clsTyped}, {"p2", clsPlain}, {"d", clsPlain}}},
}

func obsClassOf(table, col string) string {
	for _, t := range obsTables {
		if t.Name == table {
			for _, c := range t.Cols {
				if c.Name == col {
					return c.Class
				}
			}
		}
	}
	return ""
}

func isSearchableClass(c string) bool {
	return c == clsSearchBlk || c == clsSearchStr || c == clsSearchDflt
}
func isTokenClass(c string) bool     { return c == clsTokenStr || c == clsTokenInt }
func isProtectedClass(c string) bool { return c != "" && c != clsPlain }

func obsConfigYAML() string {
	var b strings.Builder
	b.WriteString("schemas:\n")
	for _, t := range obsTables {
		fmt.Fprintf(&b, "  - table: %s\n    columns:\n", t.Name)
		for _, c := range t.Cols {
			fmt.Fprintf(&b, "      - %s\n", c.Name)
		}
		b.WriteString("    encrypted:\n")
		for _, c := range t.Cols {
			switch c.Class {
			case clsPlain:
				continue
			case clsSearchBlk:
				fmt.Fprintf(&b, "      - column: %s\n        crypto_envelope: acrablock\n        searchable: true\n", c.Name)
			case clsSearchStr:
				fmt.Fprintf(&b, "      - column: %s\n        crypto_envelope: acrastruct\n        searchable: true\n", c.Name)
			case clsSearchDflt:
				fmt.Fprintf(&b, "      - column: %s\n        searchable: true\n", c.Name)
			case clsEncrypted:
				fmt.Fprintf(&b, "      - column: %s\n        crypto_envelope: acrablock\n", c.Name)
			case clsTokenStr:
				fmt.Fprintf(&b, "      - column: %s\n        token_type: str\n        tokenized: true\n        consistent_tokenization: true\n", c.Name)
			case clsTokenInt:
				fmt.Fprintf(&b, "      - column: %s\n        token_type: int32\n        tokenized: true\n        consistent_tokenization: true\n", c.Name)
			case clsMasked:
				fmt.Fprintf(&b, "      - column: %s\n        crypto_envelope: acrablock\n        masking: \"xxxx\"\n        plaintext_length: 2\n        plaintext_side: left\n", c.Name)
			case clsTyped:
				fmt.Fprintf(&b, "      - column: %s\n        crypto_envelope: acrablock\n        data_type: str\n", c.Name)
			}
		}
	}
	return b.String()
}

// obsSession is a base.ClientSession without connections: OnQuery never touches them.
type obsSession struct {
	ctx  context.Context
	ps   interface{}
	mu   sync.Mutex
	data map[string]interface{}
}

func (s *obsSession) Context() context.Context       { return s.ctx }
func (s *obsSession) ClientConnection() net.Conn     { return nil }
func (s *obsSession) DatabaseConnection() net.Conn   { return nil }
func (s *obsSession) ProtocolState() interface{}     { return s.ps }
func (s *obsSession) SetProtocolState(x interface{}) { s.ps = x }
func (s *obsSession) GetData(k string) (interface{}, bool) {
	s.mu.Lock()
	defer s.mu.Unlock()
	v, ok := s.data[k]
	return v, ok
}
func (s *obsSession) SetData(k string, v interface{}) {
	s.mu.Lock()
	s.data[k] = v
	s.mu.Unlock()
}
func (s *obsSession) DeleteData(k string) {
	s.mu.Lock()
	delete(s.data, k)
	s.mu.Unlock()
}
func (s *obsSession) HasData(k string) bool {
	s.mu.Lock()
	defer s.mu.Unlock()
	_, ok := s.data[k]
	return ok
}

// obsChain is one proxy's observer chain with the context the proxy passes to OnQuery.
type obsChain struct {
	ctx  context.Context
	sess *obsSession
	my   myenc.QueryObserverManager
	pg   pgenc.QueryObserverManager
	n    int // registered observers
}

type obsEnv struct {
	dir       string
	ks        *filesystem.KeyStore
	schema    config.TableSchemaStore
	tokenizer common.Pseudoanonymizer
	factory   base.ProxyFactory
	parser    *sqlparser.Parser
	pool      sync.Pool
}

var (
	obsOnce   sync.Once
	obsShared *obsEnv
)

// getObsEnv builds the process-wide part once: v1 key store with the keys of client alpha_1,
// crypto registry, schema store from the YAML above loaded the way acra-server loads it for
// the database kind, in-memory encrypted token storage, proxy setting, proxy factory.
func getObsEnv() *obsEnv {
	obsOnce.Do(func() {
		e := &obsEnv{dir: fx.Scratch("c13ks")}
		detrand.Install(detrand.New("c13/observers/" + sqlgen.Current))
		e.ks = fx.NewKeyStoreV1(e.dir, 64)
		fx.GenClientKeys(e.ks, fx.Alpha)
		if err := crypto.InitRegistry(e.ks); err != nil {
			ev.Fatalf("observers: crypto registry: %v", err)
		}
		schema, err := config.MapTableSchemaStoreFromConfig([]byte(obsConfigYAML()), sqlgen.IsMySQL())
		if err != nil {
			ev.Fatalf("observers: encryptor config: %v", err)
		}
		e.schema = schema
		ts, err := storage.NewMemoryTokenStorage()
		if err != nil {
			ev.Fatalf("observers: token storage: %v", err)
		}
		te, err := storage.NewSCellEncryptor(e.ks)
		if err != nil {
			ev.Fatalf("observers: token storage encryptor: %v", err)
		}
		e.tokenizer, err = pseudonymization.NewPseudoanonymizer(storage.WrapStorageWithEncryption(ts, te))
		if err != nil {
			ev.Fatalf("observers: tokenizer: %v", err)
		}
		e.parser = sqlparser.New(sqlparser.ModeDefault)
		setting := base.NewProxySetting(e.parser, schema, e.ks, nil, acracensor.NewAcraCensor(), poison.NewCallbackStorage())
		if sqlgen.IsMySQL() {
			e.factory, err = mysqlproxy.NewProxyFactory(setting, e.ks, e.tokenizer)
		} else {
			e.factory, err = pgproxy.NewProxyFactory(setting, e.ks, e.tokenizer)
		}
		if err != nil {
			ev.Fatalf("observers: proxy factory: %v", err)
		}
		obsShared = e
	})
	return obsShared
}

func (e *obsEnv) close() { os.RemoveAll(e.dir) }

// unexportedField returns the value of an unexported field of the struct p points to.
func unexportedField(p interface{}, name string) reflect.Value {
	v := reflect.ValueOf(p)
	for v.Kind() == reflect.Ptr || v.Kind() == reflect.Interface {
		v = v.Elem()
	}
	f := v.FieldByName(name)
	if !f.IsValid() {
		ev.Fatalf("observers: %s has no field %q any more (adapt obs_env.go)", v.Type(), name)
	}
	return reflect.NewAt(f.Type(), unsafe.Pointer(f.UnsafeAddr())).Elem()
}

// newChain asks the real factory for a proxy of client alpha_1 and takes its observer manager.
func (e *obsEnv) newChain() *obsChain {
	s := &obsSession{data: map[string]interface{}{}}
	ctx := logging.SetLoggerToContext(context.Background(), logrus.NewEntry(logrus.StandardLogger()))
	ctx = base.SetClientSessionToContext(ctx, s)
	s.ctx = ctx
	proxy, err := e.factory.New(fx.Alpha, s)
	if err != nil {
		ev.Fatalf("observers: proxy factory New: %v", err)
	}
	ac := base.NewAccessContext(base.WithClientID(fx.Alpha))
	proxy.AddClientIDObserver(ac)
	ctx = base.SetAccessContextToContext(ctx, ac)
	s.ctx = ctx
	c := &obsChain{ctx: ctx, sess: s}
	f := unexportedField(proxy, "queryObserverManager")
	if sqlgen.IsMySQL() {
		m, ok := f.Interface().(myenc.QueryObserverManager)
		if !ok || m == nil {
			ev.Fatalf("observers: MySQL proxy's queryObserverManager is %T", f.Interface())
		}
		c.my, c.n = m, m.RegisteredObserversCount()
	} else {
		m, ok := f.Interface().(pgenc.QueryObserverManager)
		if !ok || m == nil {
			ev.Fatalf("observers: PostgreSQL proxy's queryObserverManager is %T", f.Interface())
		}
		c.pg, c.n = m, m.RegisteredObserversCount()
	}
	return c
}

func (e *obsEnv) get() *obsChain {
	if c, ok := e.pool.Get().(*obsChain); ok && c != nil {
		return c
	}
	return e.newChain()
}

func (e *obsEnv) put(c *obsChain) { e.pool.Put(c) }

// observerNames lists the observers registered on a manager (IDs), for the evidence.
func observerNames(mgr interface{}) []string {
	subs := unexportedField(mgr, "subscribers")
	var out []string
	for i := 0; i < subs.Len(); i++ {
		if o, ok := subs.Index(i).Interface().(interface{ ID() string }); ok {
			id := o.ID()
			if id == "ArrayQueryObservableManager" {
				id += "[" + strings.Join(observerNames(subs.Index(i).Interface()), ",") + "]"
			}
			out = append(out, id)
		}
	}
	return out
}

// send runs the chain the way the proxy does (response_proxy.go / pg_decryptor.go
// handleQueryPacket): OnQuery on an object made from the query text; the text that goes to
// the database is the received text unless the chain reports a change without error.
type sendResult struct {
	Sent     string
	Changed  bool
	Err      string // OnQuery error (the proxy logs it and forwards the received text)
	QueryErr string // PostgreSQL: deparse error of the changed statement (the proxy fails the packet)
	Panic    string
}

func (c *obsChain) send(received string) (res sendResult) {
	defer func() {
		if p := recover(); p != nil {
			res = sendResult{Sent: received, Panic: fmt.Sprint(p)}
		}
	}()
	res.Sent = received
	if c.my != nil {
		obj, changed, err := c.my.OnQuery(c.ctx, myenc.NewOnQueryObjectFromQuery(received, getObsEnv().parser))
		if err != nil {
			res.Err = err.Error()
			return res
		}
		if changed {
			res.Changed = true
			res.Sent = obj.Query()
		}
		return res
	}
	obj, changed, err := c.pg.OnQuery(c.ctx, pgenc.NewOnQueryObjectFromQuery(received))
	if err != nil {
		res.Err = err.Error()
	}
	if changed {
		res.Changed = true
		q, err := obj.Query()
		if err != nil {
			res.QueryErr = err.Error()
			return res
		}
		res.Sent = q
	}
	return res
}
