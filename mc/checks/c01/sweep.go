package main

// sweep.go (part L): complete sweep of a contiguous range of lengths.
//
// Parts A and B take their lengths from the menu of header sizes +-1. Every envelope format
// carries little-endian length fields (AcraBlock: rest length; AcraStruct: data length;
// serialized container: total length; every Secure Cell: message length) whose bytes lie next to
// tags, type bytes and key material. A particular VALUE of such a byte (equal to a tag symbol, to
// an envelope id, zero, 0xFF ...) occurs once per 256 lengths and not at the header sizes. This
// part runs EVERY length 0..N (one fill, "count": no tag sequence, so class "plain") so that every
// value of the low byte of every length field occurs at least N/256 times and the second byte
// takes every value up to N/256:
//
//	L1  plaintext of every length 0..N x every protect entry point x every accepting reveal entry
//	    point (= part A on these plaintexts; lengths that part A has already are not repeated)
//	L2  plaintext of every length 1..N x the library-level protect entry point of each of the 6
//	    stored forms x every ordered (prefix, suffix) pair of a two-item sub-menu of part B's
//	    surrounding-bytes menu: {none, symbols of the outer tag of the stored form, one fewer than
//	    the tag has: `"""` for raw envelopes, `%%` for containers and searchable values}
//	    x every accepting column-processor chain (the prefix shifts the value and makes the run
//	    of tag symbols that ends at the length field longer than the tag)
//	L3  the plaintext IS one whole protected value of the owner whose inner plaintext has every
//	    length 1..M (4 kinds: raw AcraStruct, raw AcraBlock, container of each) x every protect
//	    entry point: clause (c) pass-through (searchable: hash || value; re-encrypting column:
//	    AcraBlock container revealing the inner bytes), and the two primitives wrap it and must
//	    give it back
//
// The oracles are those of parts A and B (jobA / jobB), finding keys likewise (they name entry
// point, stored form, plaintext class, framing class and failure class, never the length).
// quick: N = 767 (three whole periods of the low byte), M = 299; thorough: N = M = 4352 and L3
// also with envelopes of the other client.

import (
	"fmt"

	"verif/envl"
	"verif/ev"
	"verif/fx"
)

const sweepFill = "count"

// sweepFrame: the non-empty item of L2's framing sub-menu.
func sweepFrame(f envl.Form) string {
	if f.IsRaw() {
		return "quote3"
	}
	return "pct2"
}

type sweepJob struct {
	part string // "A" (jobA) or "B" (jobB)
	prod int
	pt   *plaintext
	menu []item
	pre  int
}

type sweepSpace struct {
	N, M         int
	plain        []plaintext // L1 (lengths not in part A) - also used by L2
	plainAll     []*plaintext
	exact        []plaintext // L3
	jobs         []sweepJob
	n1, n2, n3   int
	newStates    int
	skippedExact int
}

// sweepInner is the inner plaintext of the L3 envelopes.
func sweepInner(n int) []byte { return fill(sweepFill, n) }

// buildSwept produces the whole envelope of an L3 plaintext (spec.InnerLen > 0). Called
// sequentially in a fixed order (and once in -replay).
func (s *setup) buildSwept(spec ptSpec) (embedded, bool) {
	id := fx.Alpha
	if spec.Owner == "other" {
		id = fx.Bravo
	}
	k := envl.Form(spec.Embed)
	inner := sweepInner(spec.InnerLen)
	o := s.l.Protect(envl.ProducerFor(k), id, inner)
	if o.Err != nil || o.Panic != "" {
		// not a harness error: the same producer runs on the same plaintext in L1 and the
		// round-trip oracle reports it there; without any violation the run ends as layout drift
		if s.layoutSuspect == "" {
			s.layoutSuspect = fmt.Sprintf("%s cannot protect the %d-byte plaintext of the length sweep: %v %s", envl.ProducerFor(k).Name, spec.InnerLen, o.Err, o.Panic)
		}
		return embedded{}, false
	}
	if got, ok := envl.RefRecognise(o.Out); !ok || got != k {
		if s.layoutSuspect == "" {
			s.layoutSuspect = fmt.Sprintf("reference recogniser does not recognise an Acra-produced %s envelope with a %d-byte plaintext (got %q, %v)", k, spec.InnerLen, got, ok)
		}
		return embedded{}, false
	}
	return embedded{o.Out, inner}, true
}

// newSweep enumerates part L. inA: lengths whose (fill "count", no embedding) plaintext is an
// element of part A already; ptsA: part A's plaintexts (to reuse those elements in L2).
func (s *setup) newSweep(r *ev.Run, inA []int, ptsA []plaintext, menus map[envl.Form][]item) *sweepSpace {
	sw := &sweepSpace{N: 767, M: 299}
	owners := []string{"own"}
	if r.Thorough() {
		sw.N, sw.M = 4352, 4352
		owners = []string{"own", "other"}
	}
	have := map[int]*plaintext{}
	isA := map[int]bool{}
	for _, n := range inA {
		isA[n] = true
	}
	for i := range ptsA {
		if sp := ptsA[i].spec; sp.Embed == "" && sp.Fill == sweepFill && isA[sp.Len] {
			have[sp.Len] = &ptsA[i]
		}
	}
	sw.plain = make([]plaintext, 0, sw.N+1)
	for n := 0; n <= sw.N; n++ {
		if have[n] != nil {
			continue
		}
		sw.plain = append(sw.plain, s.build(ptSpec{Len: n, Fill: sweepFill}))
	}
	sw.newStates = len(sw.plain)
	k := 0
	for n := 0; n <= sw.N; n++ {
		if have[n] != nil {
			sw.plainAll = append(sw.plainAll, have[n])
			continue
		}
		sw.plainAll = append(sw.plainAll, &sw.plain[k])
		k++
	}
	// L1
	for i := range sw.plain {
		for pi := range s.prods {
			sw.jobs = append(sw.jobs, sweepJob{part: "A", prod: pi, pt: &sw.plain[i]})
		}
	}
	sw.n1 = len(sw.jobs)
	// L2
	sub := map[envl.Form][]item{}
	for _, f := range envl.AllForms {
		for _, it := range menus[f] {
			if it.Name == "none" || it.Name == sweepFrame(f) {
				sub[f] = append(sub[f], it)
			}
		}
		if len(sub[f]) != 2 {
			ev.Fatalf("length sweep: the framing sub-menu is not part of the menu of %s", f)
		}
	}
	for _, pt := range sw.plainAll[1:] {
		for _, f := range envl.AllForms {
			lib := envl.ProducerFor(f)
			for pi := range s.prods {
				if s.prods[pi].Name != lib.Name {
					continue
				}
				for pre := range sub[f] {
					sw.jobs = append(sw.jobs, sweepJob{part: "B", prod: pi, pt: pt, menu: sub[f], pre: pre})
				}
			}
		}
	}
	sw.n2 = len(sw.jobs) - sw.n1
	// L3
	sw.exact = make([]plaintext, 0, sw.M*len(embedKinds)*len(owners))
	for n := 1; n <= sw.M; n++ {
		for _, kind := range embedKinds {
			for _, owner := range owners {
				spec := ptSpec{Len: 0, Fill: sweepFill, Embed: string(kind), Owner: owner, At: "start", InnerLen: n}
				p, ok := s.buildOK(spec)
				if !ok {
					sw.skippedExact++ // see buildSwept: reported by L1 or as layout drift
					continue
				}
				sw.exact = append(sw.exact, p)
			}
		}
	}
	sw.newStates += len(sw.exact)
	for i := range sw.exact {
		for pi := range s.prods {
			sw.jobs = append(sw.jobs, sweepJob{part: "A", prod: pi, pt: &sw.exact[i]})
		}
	}
	sw.n3 = len(sw.jobs) - sw.n1 - sw.n2
	return sw
}

func (sw *sweepSpace) record(r *ev.Run) {
	r.Set("length_sweep_fill", sweepFill)
	r.Set("length_sweep_plaintext_lengths", fmt.Sprintf("every length 0..%d", sw.N))
	r.Set("length_sweep_framing_menu", "all ordered pairs of {none, quote3} for raw envelopes, of {none, pct2} for containers and searchable values")
	r.Set("length_sweep_whole_envelope_inner_lengths", fmt.Sprintf("every length 1..%d x {struct-raw, block-raw, struct-container, block-container}", sw.M))
	r.Set("jobs_length_sweep_L1_plain", sw.n1)
	r.Set("jobs_length_sweep_L2_framed", sw.n2)
	r.Set("jobs_length_sweep_L3_whole_envelope", sw.n3)
	r.Set("length_sweep_whole_envelopes_not_producible", sw.skippedExact)
}
