// C20 — the audit-log chain verifies when intact and fails when altered.
//
// Bounded-exhaustive enumeration (E2 histories + E4 edits) on the real implementation:
// every history of the stated product (entries from a menu built over the 21-element content
// alphabet x chain restarts none/ResetChain/FinalizeChain at every position x format
// plaintext/JSON/CEF) is written through the REAL AcraCryptoFormatter + crypto hook +
// AuditLogHandler (wired as in Acra's own tests: logrus output and formatter = handler) into
// a buffer with a fixed key; then EVERY single edit of the produced log (delete each line,
// swap each adjacent pair, duplicate each line, truncate after each line, change every
// character of every line, replace each tag by every other line's tag, replace each line by
// a copy of every other line) and every wrong-key variant is handed to the REAL
// IntegrityCheckVerifier (lines fed as logging.ReadLogEntries would; the unmodified log is
// also verified through ReadLogEntries on a scratch file).
//
// Oracle (no more than the statement):
//   - stage 0, implied by the two next items: every entry is written as one physical line and
//     the real parser of the format finds its integrity part (an entry the verifier skips
//     either makes the next entry of the chain fail or can itself be altered freely);
//   - the unmodified log verifies with the writing key, whatever the entries contain;
//   - changing / swapping / duplicating / replacing a protected entry, or deleting one that is
//     followed by another entry of its chain, makes verification fail, and the failure is
//     reported no later than at the next protected entry after the change (for a duplicate:
//     the copy or the entry after it);
//   - a key differing in one bit fails at the first entry;
//   - never a panic.
//
// Left open by the statement and therefore accepted with either outcome: deleting the final
// entry of the log, deleting the last entry of a chain that is followed by another chain,
// truncation (removal of trailing entries / of a whole trailing chain), and edits of the
// FINAL line that destroy its integrity token (the line then looks like an ordinary
// unprotected line, which is the same as removing the final entry and appending garbage).
// Edits that leave the log byte-identical are not evaluated. A history whose unmodified log
// is already rejected (or has an unrecognised entry) is reported once; its edits say nothing.
//
// Finding keys: C20/<format>/<entries of the 1-minimal failing history that are not the
// harmless entry, or any-entry(+restart kinds)>/<failure class>; the minimal history is found
// by re-executing reduced histories (restarts dropped, entries removed or replaced by harmless
// ones). One class is keyed by mechanism instead (final entry replaced by a replayed entry).
//
// Process-wide state: AuditLogHandler.ResetChain/FinalizeChain and the verifier's warnings go
// through the logrus standard logger, so logs are PRODUCED sequentially (one handler, hook,
// formatter and buffer per log, installed on the standard logger for the duration of the
// production) and only VERIFIED in parallel (standard logger silenced, verifier objects per
// run). A logrus hook pins entry.Time to a constant: timestamps are not part of the oracle,
// the produced bytes become deterministic, and equal timestamps are the harder case (two
// equal messages in a chain then differ in their tag only). The timestamp text
// (2020-09-13T12:26:40Z, 1600000000.000) shares no token with the alphabet.
package main

import (
	"bytes"
	"encoding/hex"
	"errors"
	"flag"
	"fmt"
	"hash/maphash"
	"io"
	"os"
	"path/filepath"
	"regexp"
	"sort"
	"strconv"
	"strings"
	"sync"
	"time"

	"github.com/cossacklabs/acra/logging"
	"github.com/sirupsen/logrus"

	"verif/ev"
	"verif/fx"
	"verif/par"
)

// ---------------------------------------------------------------------------------------
// alphabet, menu, scripts

type elem struct{ Name, S string }

var alphabet = []elem{
	{"m", "m"},
	{"empty", ""},
	{"space", "a b"},
	{"dquote", `a"b`},
	{"backslash", `a\b`},
	{"newline", "a\nb"},
	{"equals", "a=b"},
	{"integrity-token", " integrity=00"},
	{"chain-new", "chain=new"},
	{"chain-end", "chain=end"},
	{"end-msg", logging.EndOfAuditLogChainMessage},
	{"pipe", "|"},
	{"esc-pipe", `\|`},
	{"integrity-word", "integrity"},
	{"unicode", "żółw-亀-\u00e9\u2028"},
	{"hex40", "0123456789abcdef0123456789abcdef01234567"},
	// bytes a formatter may pass through unescaped and a later stage may rewrite
	{"cr", "a\rb"},
	{"tab", "a\tb"},
	{"esc", "a\x1bb"},
	{"nul", "a\x00b"},
	{"bad-utf8", "a\xffb"},
}

type entrySpec struct {
	Msg    string      `json:"msg"`
	Fields [][2]string `json:"fields,omitempty"` // (name, value) pairs
	// Kinds, when set, gives the Go type the value of the field is logged with (parallel to Fields):
	// "" string, "int", "uint", "float", "bool", "error" (what Acra's own log calls pass: ports,
	// counters, session ids, durations, log.WithError)
	Kinds []string `json:"kinds,omitempty"`
	Desc  string   `json:"desc"`
}

// typed converts the textual value of a field to the Go value that is logged.
func typed(kind, v string) interface{} {
	switch kind {
	case "int":
		n, err := strconv.ParseInt(v, 10, 64)
		if err != nil {
			ev.Fatalf("menu: %q is no int64", v)
		}
		return n
	case "uint":
		n, err := strconv.ParseUint(v, 10, 64)
		if err != nil {
			ev.Fatalf("menu: %q is no uint64", v)
		}
		return n
	case "float":
		f, err := strconv.ParseFloat(v, 64)
		if err != nil {
			ev.Fatalf("menu: %q is no float64", v)
		}
		return f
	case "bool":
		return v == "true"
	case "error":
		return errors.New(v)
	}
	return v
}

var benign = entrySpec{Msg: "m", Desc: "m"}

// benign2 is used only when a finding is reduced to a minimal history: a second harmless entry
// that differs from the first (some findings need two different entries, whatever they contain).
var benign2 = entrySpec{Msg: "n", Desc: "n"}

// menu: 21 messages without field, 21 field names (value "v"), 21 field values (name "f"), two
// word-like values, a last-sorting field with empty / blank value,
// the two look-alike pairs chain=new / chain=end, and one entry with two fields (a, integrity):
// and six values of other Go types: 72 entries (message "m" without field is the benign entry).
func buildMenu() []entrySpec {
	var m []entrySpec
	for _, a := range alphabet {
		if a.Name == "m" {
			m = append(m, benign)
			continue
		}
		m = append(m, entrySpec{Msg: a.S, Desc: "msg:" + a.Name})
	}
	for _, a := range alphabet {
		m = append(m, entrySpec{Msg: "m", Fields: [][2]string{{a.S, "v"}}, Desc: "fname:" + a.Name})
	}
	for _, a := range alphabet {
		m = append(m, entrySpec{Msg: "m", Fields: [][2]string{{"f", a.S}}, Desc: "fvalue:" + a.Name})
	}
	m = append(m, entrySpec{Msg: "m", Fields: [][2]string{{"chain", "new"}}, Desc: "field:chain=new"})
	m = append(m, entrySpec{Msg: "m", Fields: [][2]string{{"chain", "end"}}, Desc: "field:chain=end"})
	m = append(m, entrySpec{Msg: "m", Fields: [][2]string{{"a", "v"}, {"integrity", "v"}}, Desc: "fields:a+integrity"})
	// string values that read as another JSON type once their quotes are removed (edit "unquote")
	m = append(m, entrySpec{Msg: "m", Fields: [][2]string{{"f", "false"}}, Desc: "fvalue:false-word"})
	m = append(m, entrySpec{Msg: "m", Fields: [][2]string{{"f", "12"}}, Desc: "fvalue:number-word"})
	// a field that sorts after every field the formatters add themselves (the authenticated part
	// then ends with this field), with an empty and with a blank value
	m = append(m, entrySpec{Msg: "m", Fields: [][2]string{{"zz", ""}}, Desc: "lastfield:empty"})
	m = append(m, entrySpec{Msg: "m", Fields: [][2]string{{"zz", " "}}, Desc: "lastfield:blank"})
	// values that are not strings
	for _, t := range []struct{ desc, name, kind, v string }{
		{"typed:int", "f", "int", "12"},
		{"typed:int-beyond-2^53", "f", "int", "9007199254740993"},
		{"typed:uint-max", "f", "uint", "18446744073709551615"},
		{"typed:float", "f", "float", "0.25"},
		{"typed:bool", "f", "bool", "true"},
		{"typed:error-two-lines", "error", "error", "syntax error\nLINE 1: x"},
	} {
		m = append(m, entrySpec{Msg: "m", Fields: [][2]string{{t.name, t.v}}, Kinds: []string{t.kind}, Desc: t.desc})
	}
	return m
}

func pick(menu []entrySpec, descs ...string) []entrySpec {
	var out []entrySpec
	for _, d := range descs {
		found := false
		for _, e := range menu {
			if e.Desc == d {
				out = append(out, e)
				found = true
			}
		}
		if !found {
			ev.Fatalf("menu has no entry %q", d)
		}
	}
	return out
}

var formats = []string{logging.PlaintextFormatString, logging.JSONFormatString, logging.CefFormatString}
var restartKinds = []string{"", "reset", "finalize"}

type script struct {
	Format   string      `json:"format"`
	Entries  []entrySpec `json:"entries"`
	Restarts []string    `json:"restarts"` // len(Entries)+1: "", "reset" or "finalize" before entry i / after the last
}

func (s script) String() string {
	var b strings.Builder
	b.WriteString(s.Format + ":")
	for i := 0; i <= len(s.Entries); i++ {
		switch s.Restarts[i] {
		case "reset":
			b.WriteString("R ")
		case "finalize":
			b.WriteString("F ")
		}
		if i < len(s.Entries) {
			b.WriteString("[" + s.Entries[i].Desc + "] ")
		}
	}
	return strings.TrimSpace(b.String())
}

type editT struct {
	Kind   string `json:"kind"` // intact wrongkey delete swap dup truncate flip tagswap subst
	Line   int    `json:"line"`
	Pos    int    `json:"pos"`
	Other  int    `json:"other"`
	KeyBit int    `json:"key_bit"`
}

type caseT struct {
	script
	Edit editT `json:"edit"`
}

// ---------------------------------------------------------------------------------------
// production through the real formatter / hook / handler

var auditKey = func() []byte {
	k, _ := hex.DecodeString("f1f6ff1960b3321d890eef6b26a64ecbf828b78a0b889349170ed2ca1a5812d1")
	return k
}()

var fixedTime = time.Unix(1600000000, 0).UTC()

type clockHook struct{}

func (clockHook) Levels() []logrus.Level { return logrus.AllLevels }
func (clockHook) Fire(e *logrus.Entry) error {
	e.Time = fixedTime
	return nil
}

type lineInfo struct {
	Op         int    // index of the producing operation
	Role       string // entry:<desc> | service
	Chain      int    // model chain id (changes after every ResetChain)
	ChainStart bool   // first physical line of a chain
}

type produced struct {
	s     script
	raw   []byte
	lines []string
	info  []lineInfo
	spans string // description of the first entry written as more than one physical line, "" if none
	panic string

	anat  []anatomy               // per line, computed once
	feed  []*logging.LogEntryInfo // per line of the unmodified log (reused for unchanged lines of edited logs)
	ready bool
}

func (p *produced) prepare() {
	if p.ready {
		return
	}
	for i, l := range p.lines {
		p.anat = append(p.anat, dissect(p.s.Format, l, p.info[i].ChainStart))
		p.feed = append(p.feed, &logging.LogEntryInfo{RawLogEntry: l, LineNumber: i})
	}
	p.ready = true
}

var prodMu sync.Mutex

func wipe(b []byte) {
	for i := range b {
		b[i] = 0
	}
}

func silence() {
	logrus.SetOutput(io.Discard)
	logrus.SetFormatter(&logrus.TextFormatter{DisableColors: true})
	logrus.SetLevel(logrus.PanicLevel)
}

func produce(s script) (p *produced) {
	prodMu.Lock()
	defer prodMu.Unlock()
	p = &produced{s: s}
	// the services wipe the key buffer they handed over right after the call (utils.ZeroizeSymmetricKey):
	// so does the harness, here and after every ResetChain
	k0 := append([]byte(nil), auditKey...)
	hooks, err := logging.NewHooks(k0, s.Format)
	if err != nil {
		ev.Fatalf("NewHooks: %v", err)
	}
	wipe(k0)
	f := logging.CreateCryptoFormatter(s.Format)
	f.SetServiceName("c20-service")
	f.SetHooks(hooks)
	buf := &bytes.Buffer{}
	h, err := logging.NewAuditLogHandler(f, buf)
	if err != nil {
		ev.Fatalf("NewAuditLogHandler: %v", err)
	}
	logrus.SetOutput(h)
	logrus.SetFormatter(h)
	logrus.SetLevel(logrus.InfoLevel)
	type mark struct {
		end   int
		role  string
		reset bool
	}
	var marks []mark
	func() {
		defer func() {
			if x := recover(); x != nil {
				p.panic = fmt.Sprint(x)
			}
			silence()
		}()
		for i := 0; i <= len(s.Entries); i++ {
			switch s.Restarts[i] {
			case "reset":
				kr := append([]byte(nil), auditKey...)
				h.ResetChain(kr)
				wipe(kr)
				marks = append(marks, mark{buf.Len(), "service", true})
			case "finalize":
				h.FinalizeChain()
				marks = append(marks, mark{buf.Len(), "service", false})
			case "":
			default:
				ev.Fatalf("bad restart %q", s.Restarts[i])
			}
			if i < len(s.Entries) {
				e := s.Entries[i]
				if len(e.Fields) > 0 {
					fl := logrus.Fields{}
					for fi, kv := range e.Fields {
						if fi < len(e.Kinds) {
							fl[kv[0]] = typed(e.Kinds[fi], kv[1])
						} else {
							fl[kv[0]] = kv[1]
						}
					}
					logrus.WithFields(fl).Info(e.Msg)
				} else {
					logrus.Info(e.Msg)
				}
				marks = append(marks, mark{buf.Len(), "entry:" + e.Desc, false})
			}
		}
	}()
	p.raw = append([]byte(nil), buf.Bytes()...)
	prev := 0
	for _, m := range marks {
		if m.role != "service" && m.end <= len(p.raw) && bytes.Count(p.raw[prev:m.end], []byte("\n")) != 1 && p.spans == "" {
			p.spans = fmt.Sprintf("%s written as %d physical lines", m.role, bytes.Count(p.raw[prev:m.end], []byte("\n")))
		}
		prev = m.end
	}
	// physical lines as bufio.Scanner(ScanLines) of logging.ReadLogEntries would deliver them
	off, chain, start, mi := 0, 0, true, 0
	for off < len(p.raw) {
		nl := bytes.IndexByte(p.raw[off:], '\n')
		end := len(p.raw)
		next := end
		if nl >= 0 {
			end = off + nl
			next = end + 1
		}
		line := string(p.raw[off:end])
		line = strings.TrimSuffix(line, "\r")
		for mi < len(marks)-1 && marks[mi].end <= off {
			if marks[mi].reset {
				chain++
				start = true
			}
			mi++
		}
		role := "service"
		if mi < len(marks) {
			role = marks[mi].role
		}
		p.lines = append(p.lines, line)
		p.info = append(p.info, lineInfo{Op: mi, Role: role, Chain: chain, ChainStart: start})
		start = false
		off = next
	}
	return p
}

// ---------------------------------------------------------------------------------------
// verification with the real verifier

type outcome struct {
	Line  int // failing line number reported by the verifier, -1 when none
	Err   error
	Panic string
}

func (o outcome) failed() bool { return o.Err != nil }

func (o outcome) class() string {
	switch {
	case o.Panic != "":
		return "panic"
	case o.Err == nil:
		return "ok"
	case errors.Is(o.Err, logging.ErrIntegrityNotMatch):
		return "mismatch"
	case errors.Is(o.Err, logging.ErrMissingEndOfChain):
		return "missing-end"
	}
	var ib hex.InvalidByteError
	if errors.As(o.Err, &ib) || errors.Is(o.Err, hex.ErrLength) {
		return "bad-hex"
	}
	if strings.HasPrefix(o.Err.Error(), "[json]") {
		return "bad-json"
	}
	return "other-error"
}

func verify(format string, key []byte, lines []string) (o outcome) {
	return verifyFeed(format, key, lines, nil)
}

// verifyFeed: base (optional) holds ready-made entries of the unmodified log; an entry is reused
// where the edited log has the same text at the same line number.
func verifyFeed(format string, key []byte, lines []string, base []*logging.LogEntryInfo) (o outcome) {
	o.Line = -1
	defer func() {
		if x := recover(); x != nil {
			o.Panic = fmt.Sprint(x)
		}
	}()
	parser, err := logging.NewLogParser(format)
	if err != nil {
		ev.Fatalf("NewLogParser: %v", err)
	}
	v, err := logging.NewIntegrityCheckVerifier(key, parser)
	if err != nil {
		ev.Fatalf("NewIntegrityCheckVerifier: %v", err)
	}
	ch := make(chan *logging.LogEntryInfo, len(lines))
	for i, l := range lines {
		if i < len(base) && base[i].RawLogEntry == l {
			ch <- base[i]
		} else {
			ch <- &logging.LogEntryInfo{RawLogEntry: l, LineNumber: i}
		}
	}
	close(ch)
	entry, err := v.VerifyIntegrityCheck(&logging.LogEntrySource{Entries: ch})
	o.Err = err
	if entry != nil {
		o.Line = entry.LineNumber
	}
	return o
}

// verifyFile drives the verifier the way a log-verifier tool does: logging.ReadLogEntries over
// a file. Used on every produced (unmodified) log to validate the in-memory line feeding.
func verifyFile(format string, key []byte, path string) (o outcome) {
	o.Line = -1
	defer func() {
		if x := recover(); x != nil {
			o.Panic = fmt.Sprint(x)
		}
	}()
	parser, _ := logging.NewLogParser(format)
	v, _ := logging.NewIntegrityCheckVerifier(key, parser)
	entry, err := v.VerifyIntegrityCheck(logging.ReadLogEntries([]string{path}, false, false))
	o.Err = err
	if entry != nil {
		o.Line = entry.LineNumber
	}
	return o
}

// fileReaderPhase: verifier tools read log FILES (logging.ReadLogEntries); what they decide must not
// depend on whether the file ends with a line break. For a log that verifies: (a) the same log
// without its final line break verifies as well and reports the same entry; (b) the log with one
// character of the authenticated part of its FINAL entry changed (first position where the statement
// requires a failure, i.e. the integrity token stays in place) is rejected, written with and
// without the final line break.
func fileReaderPhase(r *ev.Run, p *produced, path string) {
	if p.panic != "" || p.spans != "" || len(p.lines) == 0 {
		return
	}
	fm := p.s.Format
	om := verify(fm, auditKey, p.lines)
	if om.failed() || om.Panic != "" {
		return // reported by evalLog; edits of such a log say nothing
	}
	write := func(lines []string, finalBreak bool) {
		data := strings.Join(lines, "\n")
		if finalBreak {
			data += "\n"
		}
		if err := os.WriteFile(path, []byte(data), 0o600); err != nil {
			ev.Fatalf("scratch write: %v", err)
		}
	}
	defer os.Remove(path)
	report := func(class, msg string, e editT) {
		fileMu.Lock()
		defer fileMu.Unlock()
		r.Violation("C20/"+fm+"/file-reader/"+class, msg+" ("+p.s.String()+")", caseT{p.s, e})
	}
	write(p.lines, false)
	of := verifyFile(fm, auditKey, path)
	r.Eval(1)
	r.Transitions(1)
	r.Class("file-reader:intact-without-final-line-break:"+of.class(), 1)
	if of.Panic != "" {
		report("panic", "verifier panicked on a log file without final line break: "+of.Panic, editT{Kind: "intact"})
	} else if of.failed() {
		report("honest-log-without-final-line-break-rejected", fmt.Sprintf("unmodified %s log verifies, the same file without its final line break does not: %v", fm, of.Err), editT{Kind: "intact"})
	}
	L := len(p.lines)
	for pos := 0; pos < len(p.lines[L-1]); pos++ {
		e := editT{Kind: "flip", Line: L - 1, Pos: pos}
		ed, ok := applyEdit(p, e)
		if !ok || ed.open != "" || ed.region != "auth" {
			continue
		}
		if !verify(fm, auditKey, ed.lines).failed() {
			return // the memory-fed verdict is evalLog's business
		}
		for _, fb := range []bool{true, false} {
			write(ed.lines, fb)
			o := verifyFile(fm, auditKey, path)
			r.Eval(1)
			r.Transitions(1)
			r.Class(fmt.Sprintf("file-reader:final-entry-altered(final-line-break=%v):%s", fb, o.class()), 1)
			r.Distinct(fmt.Sprintf("%s|file-reader|final-entry-altered|break=%v|%s", fm, fb, o.class()))
			if o.Panic != "" {
				report("panic", "verifier panicked on an altered log file: "+o.Panic, e)
			} else if !o.failed() {
				class := "altered-final-entry-accepted"
				if !fb {
					class = "altered-final-entry-of-a-file-without-final-line-break-accepted"
				}
				report(class, fmt.Sprintf("%s log file whose final entry was altered (%s) passes verification (final line break: %v)", fm, describe(e), fb), e)
			}
		}
		return
	}
}

var fileMu sync.Mutex

// ---------------------------------------------------------------------------------------
// harness-side anatomy of a produced line (independent of Acra's parsers): where the hook
// put the integrity token, the tag and the chain-start marker.

type region struct{ from, to int } // [from,to)

type anatomy struct {
	ok     bool
	token  region // ` integrity=` / `"integrity":`
	tag    region // 64 hex characters
	marker region // ` chain=new` / `"chain":"new"` (empty when not a chain start)
}

var hexTag = regexp.MustCompile(`^[0-9a-f]{64}$`)
var jsonTag = regexp.MustCompile(`"integrity":"([0-9a-f]{64})"`)

// a string value that is a JSON number / literal when unquoted
var jsonWordValue = regexp.MustCompile(`:"(-?[0-9]+|true|false|null)"`)

const textToken = " integrity="
const textMarker = " chain=new"

func dissect(format, line string, chainStart bool) (a anatomy) {
	if format == logging.JSONFormatString {
		m := jsonTag.FindAllStringSubmatchIndex(line, -1)
		if len(m) != 1 {
			return a
		}
		a.token = region{m[0][0], m[0][2] - 1}
		a.tag = region{m[0][2], m[0][3]}
		if chainStart {
			i := strings.Index(line, `"chain":"new"`)
			if i < 0 || strings.Count(line, `"chain":"new"`) != 1 {
				return anatomy{}
			}
			a.marker = region{i, i + len(`"chain":"new"`)}
		}
		a.ok = true
		return a
	}
	end := len(line)
	if chainStart {
		if !strings.HasSuffix(line, textMarker) {
			return a
		}
		a.marker = region{end - len(textMarker), end}
		end -= len(textMarker)
	}
	if end < 64+len(textToken) || !hexTag.MatchString(line[end-64:end]) {
		return a
	}
	a.tag = region{end - 64, end}
	if line[end-64-len(textToken):end-64] != textToken {
		return a
	}
	a.token = region{end - 64 - len(textToken), end - 64}
	a.ok = true
	return a
}

func (r region) has(i int) bool { return i >= r.from && i < r.to }

func (a anatomy) regionOf(pos int) string {
	switch {
	case a.token.has(pos):
		return "token"
	case a.tag.has(pos):
		return "tag"
	case a.marker.has(pos):
		return "marker"
	}
	return "auth"
}

// looksProtected: does the (edited) line still carry something a reader would take for an
// integrity token? Used only for the final line of a log.
func looksProtected(format, line string) bool {
	if format == logging.JSONFormatString {
		return strings.Contains(line, `"integrity":`)
	}
	return strings.Contains(line, textToken)
}

func flipChar(c byte, reg string) byte {
	if reg == "tag" { // stay hexadecimal, change the value
		if c == '0' {
			return '1'
		}
		return '0'
	}
	if c == 'x' {
		return 'y'
	}
	return 'x'
}

// ---------------------------------------------------------------------------------------
// edits

type evalEdit struct {
	e        editT
	lines    []string
	deadline int    // verification must fail and report a line <= deadline; -1: statement leaves it open
	open     string // why it is open
	region   string
}

func cloneLines(l []string) []string { return append([]string(nil), l...) }

func applyEdit(p *produced, e editT) (out evalEdit, ok bool) {
	p.prepare()
	L := len(p.lines)
	out.e = e
	out.deadline = -1
	last := func(n int, lim int) int {
		if n > lim {
			return lim
		}
		return n
	}
	switch e.Kind {
	case "delete":
		if e.Line < 0 || e.Line >= L {
			return out, false
		}
		out.lines = append(cloneLines(p.lines[:e.Line]), p.lines[e.Line+1:]...)
		switch {
		case e.Line == L-1:
			out.open = "final-entry"
		case p.info[e.Line].Chain != p.info[e.Line+1].Chain:
			out.open = "last-of-chain"
		default:
			out.deadline = e.Line // the entry that followed it
		}
	case "swap":
		if e.Line < 0 || e.Line+1 >= L {
			return out, false
		}
		out.lines = cloneLines(p.lines)
		out.lines[e.Line], out.lines[e.Line+1] = out.lines[e.Line+1], out.lines[e.Line]
		out.deadline = last(e.Line+2, L-1)
	case "dup":
		if e.Line < 0 || e.Line >= L {
			return out, false
		}
		out.lines = append(cloneLines(p.lines[:e.Line+1]), p.lines[e.Line:]...)
		// permissive reading: the copy itself or the entry after it
		out.deadline = last(e.Line+2, L)
	case "truncate": // keep the first e.Line lines
		if e.Line < 0 || e.Line >= L {
			return out, false
		}
		out.lines = cloneLines(p.lines[:e.Line])
		out.open = "truncation"
	case "flip":
		if e.Line < 0 || e.Line >= L || e.Pos < 0 || e.Pos >= len(p.lines[e.Line]) {
			return out, false
		}
		a := p.anat[e.Line]
		if !a.ok {
			return out, false
		}
		out.region = a.regionOf(e.Pos)
		b := []byte(p.lines[e.Line])
		b[e.Pos] = flipChar(b[e.Pos], out.region)
		out.lines = cloneLines(p.lines)
		out.lines[e.Line] = string(b)
		if e.Line == L-1 && !looksProtected(p.s.Format, out.lines[e.Line]) {
			out.open = "final-entry-token-destroyed"
		} else {
			out.deadline = last(e.Line+1, L-1)
		}
	case "unquote": // JSON: the e.Pos-th string value that reads as a number / true / false / null loses its quotes
		if e.Line < 0 || e.Line >= L || p.s.Format != logging.JSONFormatString {
			return out, false
		}
		m := jsonWordValue.FindAllStringSubmatchIndex(p.lines[e.Line], -1)
		if e.Pos < 0 || e.Pos >= len(m) {
			return out, false
		}
		l := p.lines[e.Line]
		out.lines = cloneLines(p.lines)
		out.lines[e.Line] = l[:m[e.Pos][2]-1] + l[m[e.Pos][2]:m[e.Pos][3]] + l[m[e.Pos][3]+1:]
		out.region = "auth"
		out.deadline = last(e.Line+1, L-1)
	case "subst": // the whole line replaced by another line of the log
		if e.Line < 0 || e.Line >= L || e.Other < 0 || e.Other >= L || e.Other == e.Line {
			return out, false
		}
		out.lines = cloneLines(p.lines)
		out.lines[e.Line] = p.lines[e.Other]
		out.deadline = last(e.Line+1, L-1)
	case "tagswap":
		if e.Line < 0 || e.Line >= L || e.Other < 0 || e.Other >= L || e.Other == e.Line {
			return out, false
		}
		a, o := p.anat[e.Line], p.anat[e.Other]
		if !a.ok || !o.ok {
			return out, false
		}
		l := p.lines[e.Line]
		out.lines = cloneLines(p.lines)
		out.lines[e.Line] = l[:a.tag.from] + p.lines[e.Other][o.tag.from:o.tag.to] + l[a.tag.to:]
		out.region = "tag"
		out.deadline = last(e.Line+1, L-1)
	default:
		return out, false
	}
	return out, true
}

func allEdits(p *produced) []editT {
	var es []editT
	L := len(p.lines)
	for k := 0; k < L; k++ {
		es = append(es, editT{Kind: "delete", Line: k})
	}
	for k := 0; k+1 < L; k++ {
		es = append(es, editT{Kind: "swap", Line: k})
	}
	for k := 0; k < L; k++ {
		es = append(es, editT{Kind: "dup", Line: k})
	}
	for k := 0; k < L; k++ {
		es = append(es, editT{Kind: "truncate", Line: k})
	}
	for k := 0; k < L; k++ {
		for j := 0; j < L; j++ {
			if j != k {
				es = append(es, editT{Kind: "tagswap", Line: k, Other: j})
			}
		}
	}
	for k := 0; k < L; k++ {
		for j := 0; j < L; j++ {
			if j != k {
				es = append(es, editT{Kind: "subst", Line: k, Other: j})
			}
		}
	}
	for k := 0; k < L; k++ {
		for i := 0; i < len(p.lines[k]); i++ {
			es = append(es, editT{Kind: "flip", Line: k, Pos: i})
		}
	}
	if p.s.Format == logging.JSONFormatString {
		for k := 0; k < L; k++ {
			for i := range jsonWordValue.FindAllStringIndex(p.lines[k], -1) {
				es = append(es, editT{Kind: "unquote", Line: k, Pos: i})
			}
		}
	}
	return es
}

func flipKey(bit int) []byte {
	k := append([]byte(nil), auditKey...)
	k[bit/8] ^= 1 << uint(bit%8)
	return k
}

// ---------------------------------------------------------------------------------------
// evaluation of one produced log

// replayCoarse is classified by mechanism (see evalLog); its key does not name entries.
const replayCoarse = "alteration-undetected:final-entry-replaced-by-replayed-entry"

type finding struct {
	coarse string // honest-log-rejected | alteration-undetected | alteration-detected-late | wrong-key-accepted | panic
	edit   editT
	msg    string
}

// sink aggregates the counters of one log locally (flushed once: no lock contention).
type sink struct {
	evals, runs, edited int
	classes             map[string]int
	distincts           map[string]struct{}
}

func newSink() *sink { return &sink{classes: map[string]int{}, distincts: map[string]struct{}{}} }

func (s *sink) eval(n int)            { s.evals += n }
func (s *sink) run(n int)             { s.runs += n }
func (s *sink) distinct(x string)     { s.distincts[x] = struct{}{} }
func (s *sink) class(x string, n int) { s.classes[x] += n }
func (s *sink) flush(r *ev.Run) {
	r.Eval(s.evals)
	r.Transitions(s.runs)
	r.States(s.edited)
	for k, v := range s.classes {
		r.Class(k, v)
	}
	for k := range s.distincts {
		r.Distinct(k)
	}
}

var hashSeed = maphash.MakeSeed()

func hashLines(l []string) uint64 {
	var h maphash.Hash
	h.SetSeed(hashSeed)
	for _, s := range l {
		h.WriteString(s)
		h.WriteByte('\n')
	}
	return h.Sum64()
}

// evalLog evaluates the oracle on the unmodified log, the wrong keys and every edit
// (or only the kinds in only, when non-nil). Returns the first finding per coarse class.
func evalLog(p *produced, keyBits []int, only map[string]bool, sk *sink, stop func() bool) (finds []finding, complete bool) {
	seen := map[string]bool{}
	add := func(coarse string, e editT, msg string) {
		sk.class("VIOLATING:"+coarse, 1)
		if !seen[coarse] {
			seen[coarse] = true
			finds = append(finds, finding{coarse, e, msg})
		}
	}
	fm := p.s.Format
	want := func(k string) bool { return only == nil || only[k] }
	if p.panic != "" {
		add("panic", editT{Kind: "intact"}, fmt.Sprintf("writing the log panicked: %s", p.panic))
		return finds, true
	}
	// stage 0 (implied by the statement: an entry the verifier does not recognise as protected
	// either makes the next entry fail or can itself be altered freely): every entry is
	// written as one physical line and the matching real parser finds its integrity part.
	if p.spans != "" {
		sk.eval(1)
		sk.class("intact:entry-spans-lines", 1)
		add("entry-spans-lines", editT{Kind: "intact"}, fmt.Sprintf("%s log: %s, the verifier reads lines (%s)", fm, p.spans, p.s))
		return finds, true
	}
	if i, err, pan := firstUnrecognised(fm, p.lines); pan != "" {
		add("panic", editT{Kind: "intact"}, fmt.Sprintf("parser panicked on line %d of an unmodified %s log: %s (%s)", i, fm, pan, p.s))
		return finds, true
	} else if err != nil {
		sk.eval(1)
		sk.class("intact:protected-entry-not-recognised", 1)
		sk.distinct(fm + "|intact|protected-entry-not-recognised")
		add("protected-entry-not-recognised", editT{Kind: "intact", Line: i},
			fmt.Sprintf("%s parser does not find the integrity part of line %d written by the crypto hook (%v): the verifier skips the entry with a warning, so it is unprotected and the next entry of the chain fails (%s): %q", fm, i, err, p.s, p.lines[i]))
		return finds, true
	}
	// unmodified log, right key
	o := verify(fm, auditKey, p.lines)
	sk.eval(1)
	sk.run(1)
	sk.class("intact:"+o.class(), 1)
	sk.distinct(fm + "|intact|" + o.class())
	if len(p.s.Entries) == 1 {
		sk.distinct(fm + "|element|" + p.s.Entries[0].Desc + "|" + strings.Join(p.s.Restarts, "/") + "|" + o.class())
	}
	if o.Panic != "" {
		add("panic", editT{Kind: "intact"}, fmt.Sprintf("verifier panicked on the unmodified log: %s", o.Panic))
		return finds, true
	}
	if o.failed() {
		add("honest-log-rejected", editT{Kind: "intact"},
			fmt.Sprintf("unmodified %s log does not verify with its own key: %v at line %d of %d (%s)", fm, o.Err, o.Line, len(p.lines), p.s))
		// edits of a log that does not verify say nothing
		sk.class("edits-skipped:honest-log-rejected", 1)
		return finds, true
	}
	// wrong key: must fail at the first entry (every produced line is a protected entry)
	if want("wrongkey") {
		for _, bit := range keyBits {
			e := editT{Kind: "wrongkey", KeyBit: bit}
			o := verify(fm, flipKey(bit), p.lines)
			sk.eval(1)
			sk.run(1)
			cl := o.class()
			switch {
			case o.Panic != "":
				add("panic", e, fmt.Sprintf("verifier panicked with a wrong key: %s", o.Panic))
			case !o.failed():
				cl = "ACCEPTED"
				add("wrong-key-accepted", e, fmt.Sprintf("%s log verifies with a key differing in bit %d (%s)", fm, bit, p.s))
			case o.Line != 0:
				cl = "LATE"
				add("wrong-key-accepted", e, fmt.Sprintf("%s log checked with a key differing in bit %d fails only at line %d, not at the first entry (%s)", fm, bit, o.Line, p.s))
			}
			sk.class("wrongkey:"+cl, 1)
			sk.distinct(fm + "|wrongkey|" + cl)
		}
	}
	// edits
	base := hashLines(p.lines)
	seenEdited := map[uint64]outcome{}
	for i, e := range allEdits(p) {
		if !want(e.Kind) {
			continue
		}
		if i%256 == 0 && stop != nil && stop() {
			sk.edited += len(seenEdited)
			return finds, false
		}
		ed, ok := applyEdit(p, e)
		if !ok {
			sk.class(e.Kind+":not-applicable(line-anatomy)", 1)
			continue
		}
		h := hashLines(ed.lines)
		if h == base {
			sk.class(e.Kind+":no-op(byte-identical)", 1)
			continue
		}
		o, dup := seenEdited[h]
		if !dup { // (the same bytes reached by another edit: verifier outcome reused, oracle re-evaluated)
			o = verifyFeed(fm, auditKey, ed.lines, p.feed)
			seenEdited[h] = o
			sk.run(1)
		}
		sk.eval(1)
		kind := e.Kind
		if ed.region != "" {
			kind += "/" + ed.region
		}
		role := p.info[minInt(e.Line, len(p.info)-1)].Role
		if strings.HasPrefix(role, "entry:") {
			role = "entry"
		}
		cl := o.class()
		rel := "-"
		if o.failed() {
			rel = fmt.Sprint(o.Line - e.Line)
		}
		switch {
		case o.Panic != "":
			add("panic", e, fmt.Sprintf("verifier panicked on %s log after %s: %s (%s)", fm, describe(e), o.Panic, p.s))
		case ed.deadline < 0:
			cl = "open(" + ed.open + "):" + cl
		case !o.failed() && e.Kind == "subst" && e.Line == len(p.lines)-1:
			// one mechanism, whatever the entries: all chains start from the same key, so the
			// first entries of a chain (and every entry of a chain whose predecessors are byte-
			// identical) verify again wherever a chain may start or has the same prefix; with
			// no entry after it, such a replayed entry can stand in for the final entry
			cl = "UNDETECTED(final-entry-replaced-by-replayed-entry)"
			add(replayCoarse, e, fmt.Sprintf("%s log still verifies after %s: an entry replayed from the same position of a chain with the same beginning is accepted in place of the final entry (%s)", fm, describe(e), p.s))
		case !o.failed():
			cl = "UNDETECTED"
			add("alteration-undetected:"+e.Kind, e, fmt.Sprintf("%s log still verifies after %s (%s)", fm, describe(e), p.s))
		case o.Line > ed.deadline:
			cl = "LATE"
			add("alteration-detected-late:"+e.Kind, e, fmt.Sprintf("%s log after %s fails only at line %d, later than the next protected entry (line %d) (%s)", fm, describe(e), o.Line, ed.deadline, p.s))
		}
		sk.class(kind+":"+cl, 1)
		sk.distinct(fm + "|" + kind + "|" + role + "|" + cl + "|" + rel)
	}
	sk.edited += len(seenEdited)
	return finds, true
}

// firstUnrecognised runs the real parser of the format over the produced lines.
func firstUnrecognised(format string, lines []string) (idx int, err error, pan string) {
	defer func() {
		if x := recover(); x != nil {
			pan = fmt.Sprint(x)
		}
	}()
	parser, perr := logging.NewLogParser(format)
	if perr != nil {
		ev.Fatalf("NewLogParser: %v", perr)
	}
	for i, l := range lines {
		idx = i
		_, e := parser.ParseEntry(l)
		if e == logging.ErrPlaintextIntegrityExtract || e == logging.ErrCefIntegrityExtract || e == logging.ErrJSONIntegrityExtract {
			return i, e, ""
		}
	}
	return -1, nil, ""
}

func minInt(a, b int) int {
	if a < b {
		return a
	}
	return b
}

func describe(e editT) string {
	switch e.Kind {
	case "delete":
		return fmt.Sprintf("deleting line %d", e.Line)
	case "swap":
		return fmt.Sprintf("swapping lines %d and %d", e.Line, e.Line+1)
	case "dup":
		return fmt.Sprintf("duplicating line %d", e.Line)
	case "truncate":
		return fmt.Sprintf("truncating to %d lines", e.Line)
	case "flip":
		return fmt.Sprintf("changing character %d of line %d", e.Pos, e.Line)
	case "tagswap":
		return fmt.Sprintf("replacing the tag of line %d by the tag of line %d", e.Line, e.Other)
	case "subst":
		return fmt.Sprintf("replacing line %d by a copy of line %d", e.Line, e.Other)
	case "unquote":
		return fmt.Sprintf("removing the quotes of string value %d of line %d (it becomes a JSON number / literal)", e.Pos, e.Line)
	case "wrongkey":
		return fmt.Sprintf("flipping key bit %d", e.KeyBit)
	}
	return e.Kind
}

// ---------------------------------------------------------------------------------------
// attribution of a finding to a minimal history (stable finding keys)

type culprit struct {
	format, coarse string
	descs          []string // non-benign entry descriptors (sorted)
	restarts       []string // restart kinds needed (sorted, distinct)
	key            string
	minimal        script
	edit           editT
	msg            string
}

func kindsFor(coarse string, e editT) map[string]bool {
	if e.Kind == "intact" {
		return map[string]bool{}
	}
	return map[string]bool{e.Kind: true}
}

func has(finds []finding, coarse string) (finding, bool) {
	for _, f := range finds {
		if f.coarse == coarse {
			return f, true
		}
	}
	return finding{}, false
}

func nonBenign(s script) []string {
	var d []string
	for _, e := range s.Entries {
		if e.Desc != benign.Desc && e.Desc != benign2.Desc {
			d = append(d, e.Desc)
		}
	}
	sort.Strings(d)
	return d
}

func restartSet(s script) []string {
	m := map[string]bool{}
	for _, r := range s.Restarts {
		if r != "" {
			m[r] = true
		}
	}
	var d []string
	for k := range m {
		d = append(d, k)
	}
	sort.Strings(d)
	return d
}

func subMultiset(need, have []string) bool {
	cnt := map[string]int{}
	for _, h := range have {
		cnt[h]++
	}
	for _, n := range need {
		if cnt[n] == 0 {
			return false
		}
		cnt[n]--
	}
	return true
}

func copyScript(s script) script {
	return script{Format: s.Format, Entries: append([]entrySpec(nil), s.Entries...), Restarts: append([]string(nil), s.Restarts...)}
}

// minimise: 1-minimal history (restarts dropped, entries removed or replaced by the benign
// entry) that still shows a finding of the same coarse class with the same edit kind.
func minimise(s script, f finding) (script, finding) {
	only := kindsFor(f.coarse, f.edit)
	bits := []int{0, 255}
	if f.edit.Kind == "wrongkey" {
		bits = []int{f.edit.KeyBit}
	}
	test := func(c script) (finding, bool) {
		finds, _ := evalLog(produce(c), bits, only, newSink(), nil)
		return has(finds, f.coarse)
	}
	cur, curF := copyScript(s), f
	try := func(c script) bool {
		if g, ok := test(c); ok {
			cur, curF = c, g
			return true
		}
		return false
	}
	// restarts
	c := copyScript(cur)
	for i := range c.Restarts {
		c.Restarts[i] = ""
	}
	if !try(c) {
		for i := range cur.Restarts {
			if cur.Restarts[i] != "" {
				c := copyScript(cur)
				c.Restarts[i] = ""
				try(c)
			}
		}
	}
	// remove entries
	for i := len(cur.Entries) - 1; i >= 0; i-- {
		if len(cur.Entries) == 1 {
			break
		}
		c := copyScript(cur)
		c.Entries = append(c.Entries[:i], c.Entries[i+1:]...)
		merged := cur.Restarts[i]
		if merged == "" {
			merged = cur.Restarts[i+1]
		}
		c.Restarts = append(append(append([]string(nil), cur.Restarts[:i]...), merged), cur.Restarts[i+2:]...)
		try(c)
	}
	// replace by the benign entry
	for i := range cur.Entries {
		if cur.Entries[i].Desc != benign.Desc {
			c := copyScript(cur)
			c.Entries[i] = benign
			if !try(c) && cur.Entries[i].Desc != benign2.Desc {
				c := copyScript(cur)
				c.Entries[i] = benign2
				try(c)
			}
		}
	}
	return cur, curF
}

type attributor struct {
	known []*culprit
}

func (a *attributor) attribute(s script, f finding) *culprit {
	if f.coarse == replayCoarse {
		return &culprit{format: s.Format, coarse: f.coarse, minimal: s, edit: f.edit, msg: f.msg,
			key: fmt.Sprintf("C20/%s/final-entry/%s", s.Format, f.coarse)}
	}
	nb, rs := nonBenign(s), restartSet(s)
	for _, c := range a.known {
		if c.format == s.Format && c.coarse == f.coarse && subMultiset(c.descs, nb) && subMultiset(c.restarts, rs) {
			return c
		}
	}
	m, mf := minimise(s, f)
	c := &culprit{format: s.Format, coarse: f.coarse, descs: nonBenign(m), restarts: restartSet(m), minimal: m, edit: mf.edit, msg: mf.msg}
	// key: format / the entries of the minimal history that are not the benign entry (or, when
	// the benign entries alone fail, "any-entry" and the restart kinds needed) / failure class
	what := strings.Join(c.descs, "+")
	if what == "" {
		what = strings.Join(append([]string{"any-entry"}, c.restarts...), "+")
	}
	c.msg += " [minimal history: " + m.String() + "]"
	c.key = fmt.Sprintf("C20/%s/%s/%s", s.Format, what, f.coarse)
	a.known = append(a.known, c)
	return c
}

// ---------------------------------------------------------------------------------------
// the enumerated space

func enumerate(thorough bool, menu []entrySpec) (scripts []script, rule string) {
	// reduced menus for the longer histories: entries whose formatting differs in kind
	menu12 := pick(menu, "m", "msg:empty", "msg:dquote", "msg:newline", "msg:integrity-token", "msg:end-msg",
		"msg:chain-new", "msg:pipe", "fname:integrity-word", "fvalue:integrity-token", "fvalue:newline", "field:chain=new")
	// the longer histories explore chain dynamics; their entries are mostly ones that verify on
	// their own (a history containing an entry the verifier cannot handle is reported and its
	// edits say nothing), plus the end-of-chain look-alike
	menu4 := pick(menu, "m", "msg:dquote", "msg:end-msg", "msg:integrity-token")
	menu3 := pick(menu, "m", "msg:dquote", "msg:end-msg") // used by earlier tiers; kept for the rule text
	_ = menu3
	menu2 := pick(menu, "m", "msg:end-msg")
	type level struct {
		n        int
		menu     []entrySpec
		restarts [][]string // options per position (n+1 positions)
	}
	all := func(n int) [][]string {
		var o [][]string
		for i := 0; i <= n; i++ {
			o = append(o, restartKinds)
		}
		return o
	}
	none := func(n int) [][]string {
		var o [][]string
		for i := 0; i <= n; i++ {
			o = append(o, []string{""})
		}
		return o
	}
	var levels []level
	if !thorough {
		// (pairs from the full menu without restarts and triples over menu3 are left to the thorough tier:
		// the quick tier has to fit the per-change budget)
		levels = []level{{1, menu, all(1)}, {2, menu12, all(2)}, {3, menu2, all(3)}}
		rule = fmt.Sprintf("quick: histories = {1 entry from the full menu(%d)} x restarts^2 + {2 entries from menu12} x restarts^3 + {3 entries from menu2} x restarts^4", len(menu))
	} else {
		levels = []level{{1, menu, all(1)}, {2, menu12, all(2)}, {2, menu, [][]string{{""}, restartKinds, restartKinds}},
			{3, menu4, all(3)}, {3, menu12, none(3)}, {4, menu2, all(4)}}
		rule = fmt.Sprintf("thorough: histories = {1 entry from the full menu(%d)} x restarts^2 + {2 entries from menu12} x restarts^3 + {2 entries from the full menu} x restarts between and after (none before) + {3 entries from menu4} x restarts^4 + {3 entries from menu12, no restart} + {4 entries from menu2} x restarts^5", len(menu))
	}
	seen := map[string]bool{}
	for _, lv := range levels {
		ne := len(lv.menu)
		eTotal, rTotal := 1, 1
		for i := 0; i < lv.n; i++ {
			eTotal *= ne
		}
		for i := 0; i <= lv.n; i++ {
			rTotal *= len(lv.restarts[i])
		}
		for ei := 0; ei < eTotal; ei++ {
			for ri := 0; ri < rTotal; ri++ {
				for _, f := range formats {
					s := script{Format: f}
					x := ei
					for i := 0; i < lv.n; i++ {
						s.Entries = append(s.Entries, lv.menu[x%ne])
						x /= ne
					}
					x = ri
					for i := 0; i <= lv.n; i++ {
						s.Restarts = append(s.Restarts, lv.restarts[i][x%len(lv.restarts[i])])
						x /= len(lv.restarts[i])
					}
					k := s.String()
					if seen[k] {
						continue
					}
					seen[k] = true
					scripts = append(scripts, s)
				}
			}
		}
	}
	rule += "; restarts = {none, ResetChain, FinalizeChain} before every entry and after the last; x format {plaintext, json, cef}; menu12 = {m, msg:empty, msg:dquote, msg:newline, msg:integrity-token, msg:end-msg, msg:chain-new, msg:pipe, fname:integrity-word, fvalue:integrity-token, fvalue:newline, field:chain=new}; menu4 = {m, msg:dquote, msg:end-msg, msg:integrity-token}; menu3 = {m, msg:dquote, msg:end-msg}; menu2 = {m, msg:end-msg}"
	return scripts, rule
}

// ---------------------------------------------------------------------------------------

var dump = flag.Bool("dump", false, "print every single-entry log and its verification outcome, then exit")
var limit = flag.Int("limit", 0, "harness tuning only: evaluate just the first N histories (evidence says capped)")

func main() {
	r := ev.New("C20", "model_checking")
	silence()
	logrus.AddHook(clockHook{})
	menu := buildMenu()

	if r.Replay != "" {
		var c caseT
		r.LoadReplay(&c)
		p := produce(c.script)
		fmt.Printf("replay %s\n", c.script)
		for i, l := range p.lines {
			fmt.Printf("  %2d [%s chain %d] %s\n", i, p.info[i].Role, p.info[i].Chain, l)
		}
		o := verify(c.Format, auditKey, p.lines)
		fmt.Printf("unmodified: %s err=%v line=%d panic=%q\n", o.class(), o.Err, o.Line, o.Panic)
		switch c.Edit.Kind {
		case "intact":
		case "wrongkey":
			o := verify(c.Format, flipKey(c.Edit.KeyBit), p.lines)
			fmt.Printf("key bit %d flipped: %s err=%v line=%d panic=%q\n", c.Edit.KeyBit, o.class(), o.Err, o.Line, o.Panic)
		default:
			if ed, ok := applyEdit(p, c.Edit); ok {
				fmt.Printf("after %s:\n", describe(c.Edit))
				for i, l := range ed.lines {
					fmt.Printf("  %2d %s\n", i, l)
				}
				o := verify(c.Format, auditKey, ed.lines)
				fmt.Printf("edited: %s err=%v line=%d deadline=%d open=%q panic=%q\n", o.class(), o.Err, o.Line, ed.deadline, ed.open, o.Panic)
			} else {
				fmt.Printf("edit %+v not applicable\n", c.Edit)
			}
		}
		only := kindsFor("", c.Edit)
		bits := []int{c.Edit.KeyBit}
		sk := newSink()
		finds, _ := evalLog(p, bits, only, sk, nil)
		sk.flush(r)
		r.Traces(1)
		r.States(1)
		at := &attributor{}
		for _, f := range finds {
			if f.edit.Kind != c.Edit.Kind {
				continue
			}
			cu := at.attribute(c.script, f)
			r.Violation(cu.key, cu.msg, caseT{cu.minimal, cu.edit})
		}
		r.Finish()
	}

	if *dump {
		for _, f := range formats {
			for _, e := range menu {
				p := produce(script{Format: f, Entries: []entrySpec{e, benign}, Restarts: []string{"", "", "finalize"}})
				o := verify(f, auditKey, p.lines)
				fmt.Printf("== %s %s: %s err=%v line=%d\n", f, e.Desc, o.class(), o.Err, o.Line)
				for i, l := range p.lines {
					fmt.Printf("   %d %s\n", i, l)
				}
			}
		}
		os.Exit(0)
	}

	scripts, rule := enumerate(r.Thorough(), menu)
	if *limit > 0 && *limit < len(scripts) {
		r.Capped(fmt.Sprintf("-limit: only the first %d of %d histories", *limit, len(scripts)))
		scripts = scripts[:*limit]
	}
	scratch := fx.Scratch("c20") // removed before r.Finish (which exits)

	allBits := make([]int, 256)
	for i := range allBits {
		allBits[i] = i
	}
	type pending struct {
		idx   int
		finds []finding
	}
	at := &attributor{}
	producedSeen := map[[2]uint64]bool{}
	const chunk = 4096
	doneScripts := 0
	capped := false
	for base := 0; base < len(scripts) && !capped; base += chunk {
		end := minInt(base+chunk, len(scripts))
		t0 := time.Now()
		// phase 1: sequential production on the process-wide logrus logger
		var logs []*produced
		var idxs []int
		for i := base; i < end; i++ {
			p := produce(scripts[i])
			r.Traces(1)
			var h maphash.Hash
			h.SetSeed(hashSeed)
			h.WriteString(p.s.Format)
			hk := [2]uint64{hashLines(p.lines), h.Sum64()}
			r.Class("produced-lines:"+fmt.Sprint(len(p.lines)), 1)
			if producedSeen[hk] && p.panic == "" {
				// byte-identical to an already evaluated log (e.g. CEF turns a line break into a space)
				r.Class("produced:same-bytes-as-earlier-history", 1)
				continue
			}
			producedSeen[hk] = true
			r.States(1)
			logs = append(logs, p)
			idxs = append(idxs, i)
		}
		t1 := time.Now()
		// phase 2: parallel verification of the unmodified and of every edited log
		var mu sync.Mutex
		var pend []pending
		done := par.Do(len(logs), r.Expired, func(j int) {
			p := logs[j]
			bits := []int{0, 255}
			if len(p.s.Entries) <= 1 {
				bits = allBits
			}
			// the unmodified log once more through the file reader used by verifier tools
			if p.panic == "" {
				path := filepath.Join(scratch, fmt.Sprintf("log-%d", idxs[j]))
				if err := os.WriteFile(path, p.raw, 0o600); err != nil {
					ev.Fatalf("scratch write: %v", err)
				}
				of, om := verifyFile(p.s.Format, auditKey, path), verify(p.s.Format, auditKey, p.lines)
				os.Remove(path)
				r.Transitions(1)
				if of.class() != om.class() || of.Line != om.Line {
					ev.Fatalf("file-fed and memory-fed verification disagree on %s: %s/%d vs %s/%d", p.s, of.class(), of.Line, om.class(), om.Line)
				}
			}
			fileReaderPhase(r, p, filepath.Join(scratch, fmt.Sprintf("logf-%d", idxs[j])))
			sk := newSink()
			finds, complete := evalLog(p, bits, nil, sk, r.Expired)
			sk.flush(r)
			if !complete {
				r.Capped("wall budget: edits of a log not finished")
			}
			if len(finds) > 0 {
				mu.Lock()
				pend = append(pend, pending{idxs[j], finds})
				mu.Unlock()
			}
		})
		if done < len(logs) {
			capped = true
			r.Capped(fmt.Sprintf("wall budget: %d of %d histories evaluated", doneScripts+done, len(scripts)))
		}
		doneScripts += done
		t2 := time.Now()
		// phase 3: sequential attribution (re-executes reduced histories)
		sort.Slice(pend, func(a, b int) bool { return pend[a].idx < pend[b].idx })
		for _, pd := range pend {
			for _, f := range pd.finds {
				cu := at.attribute(scripts[pd.idx], f)
				r.Violation(cu.key, cu.msg, caseT{cu.minimal, cu.edit})
			}
		}
		if os.Getenv("C20_TIMING") != "" {
			fmt.Fprintf(os.Stderr, "chunk %d: produce %.2fs verify %.2fs attribute %.2fs (%d logs, %d with findings)\n", base/chunk, t1.Sub(t0).Seconds(), t2.Sub(t1).Seconds(), time.Since(t2).Seconds(), len(logs), len(pend))
		}
	}
	for i := 0; i < len(scripts); i += len(scripts)/5 + 1 {
		r.Sample(caseT{script: scripts[i], Edit: editT{Kind: "all"}})
	}
	r.Rule("state = one produced log (distinct bytes) or one edited log (distinct bytes within its log); transition = one run of IntegrityCheckVerifier.VerifyIntegrityCheck; " + rule +
		"; entry menu = 16 alphabet elements as message, as field name (value v), as field value (name f), plus fields chain=new and chain=end; edits of every produced log = delete each line, swap each adjacent pair, duplicate each line, truncate before each line, replace each tag by each other line's tag, replace each line by a copy of each other line, change every character of every line (auth part / token / tag / chain marker), JSON: remove the quotes of every string value that reads as a number / true / false / null; wrong keys = every single-bit flip of the 256-bit key for histories of <= 1 entry, bits 0 and 255 otherwise; distinct_nontrivial = distinct (format, edit kind/region, line role, outcome class, failing line relative to the edit) and (format, single menu entry, restarts, outcome)")
	r.Set("histories", len(scripts))
	r.Set("menu_entries", len(menu))
	r.Set("alphabet", func() []string {
		var a []string
		for _, e := range alphabet {
			a = append(a, e.Name)
		}
		return a
	}())
	r.Set("max_entries", map[bool]int{false: 3, true: 4}[r.Thorough()])
	r.Assume("log timestamps are pinned to 2020-09-13T12:26:40Z by a logrus hook (not part of the oracle; equal timestamps are the harder case; the timestamp text shares no token with the alphabet)",
		"handler wired as in logging/integrity_verifier_test.go (logrus output and formatter = AuditLogHandler); acra-server itself sets only the formatter, so there ResetChain behaves like FinalizeChain, which is part of the enumerated space",
		"lines are fed to the verifier as bufio.Scanner would split a file; every unmodified log is additionally verified through logging.ReadLogEntries on a scratch file and must agree",
		"one replacement character per position (x, or y for x; inside the tag another hexadecimal digit)",
		"HMAC-SHA256 and SHA-256 are from the Go standard library (no Themis involved)")
	os.RemoveAll(scratch)
	r.Finish()
}
