package main

// Wide result sets and wide parameter lists: the number of fields of a row / of a bound statement
// and the positions of the NULLs among them (both proxies).
//
// The property quantifies over all statement shapes and all values. The main phases read at most 5
// result columns and bind at most 6 parameters, and a NULL only ever sits in the protected column.
// On the wire the position of a field matters: MySQL's binary protocol carries a NULL bitmap (offset
// 2 in result rows, offset 0 in COM_STMT_EXECUTE) whose bytes change at fields 6, 14, 22 (rows) and
// 8, 16, 24 (parameters); text rows and PostgreSQL DataRow / Bind mark NULL per field. This
// phase enumerates, for every column configuration of the main phase of the tier,
//
//	rows     table t holds 4 rows: (value, plain), (value, plain NULL), (c NULL, plain), (both NULL);
//	         SELECT lists of width W = 1..17 (PostgreSQL: 1..9; thorough: 1..25, PostgreSQL 1..13) made of a base
//	         column everywhere and a "hot" column at one position p = 0..W-1, (base, hot) in {(id, c),
//	         (plain, c)} (thorough: also (c, plain), (c, id)) - so that every position holds the only
//	         NULL of a row, the only non-NULL of a row, a protected value among unprotected ones (thorough:
//	         and the reverse, and the only NULL in an unprotected column); plus every word over {id, plain, c} up to
//	         width 3 (thorough: 5). Each list is read in the binary protocol and (quick: up to width
//	         9) in the text protocol (PostgreSQL: simple protocol and extended protocol with alternating per-column result
//	         formats; thorough: also all-text and all-binary) by the owner and by the two readers that
//	         cannot reveal;
//	params   prepared multi-row INSERT of R = 1..6 (PostgreSQL: 1..3; thorough: 1..9, PostgreSQL 1..4) rows with
//	         3R, 3R-1 or 3R-2 parameters (the id, or the id and plain, of the first row written as
//	         literals - every parameter count from 1 to 3R; PostgreSQL quick: 3R only; PostgreSQL: once
//	         with text and once with binary values of c), where among the nullable parameters (plain and
//	         c of every row) exactly one is NULL, or none, or (3R parameters) all but one; and
//	         ("update") a one-row INSERT followed by an UPDATE of that row with 0, 1 or 2 literal SET
//	         clauses (id = 1, plain = 'u0'; PostgreSQL quick: 0) before c = <parameter, NULL or not>; followed by the audits of the main phase (MySQL quick: the owner's audits).
//
// Oracles: those of the main phases (owner = reference database, message for message / value for
// value; readers without keys = the stored or masked form; nothing protected reaches the database in
// clear; no panic, no closed session, nothing undecodable).
// Finding keys: C04/wide-result/<statement kind>/<role>/<failure>,
// C04/wide-params/literals-<0|1|2>/nulls-<none|one|all-but-one>/<text|binary>-params/<statement
// kind>/<role>/<failure> (the first violation of a run only: what follows echoes it), and the same
// under C04/mysql/ (without the parameter format: the MySQL binary protocol has one); configuration,
// width, position and NULL pattern are in the message and the replay file.

import (
	"fmt"
	"regexp"
	"strings"

	"github.com/cossacklabs/acra/keystore/filesystem"

	"verif/ev"
	"verif/mycheck"
	"verif/par"
	"verif/pgcheck"
	"verif/sess"
)

type wideReplay struct {
	Part     string   `json:"part"` // "pg-wide" / "mysql-wide"
	Config   string   `json:"config"`
	Scenario string   `json:"scenario"` // "rows" / "params" / "update"
	Lists    []string `json:"select_lists,omitempty"`
	Rows     int      `json:"insert_rows,omitempty"`
	Lit      int      `json:"leading_literals,omitempty"` // id (1) / id and plain (2) of row 0 are literals, not parameters
	Nulls    []bool   `json:"null_parameters,omitempty"`  // one per nullable parameter: plain, c of row 0, plain, c of row 1, ...
	Detail   string   `json:"detail,omitempty"`
}

// wideGroup is the set of select lists one run reads
type wideGroup struct {
	Name  string
	Lists []string
}

// wideBounds: the quick tier reads widths up to 17 through MySQL (two bytes of the NULL bitmap of
// binary rows and the first field of the third) and up to 9 through PostgreSQL, with the pairs
// (id, c) and (plain, c) (every field of a row costs the proxy one pass through its column
// subscribers, a protected one a key load and a decryption on top); the thorough tier widths up to 25
// (PostgreSQL 13) with all four pairs.
func wideBounds(thorough, pg bool) (maxW, words int, pairs [][2]string) {
	pairs = [][2]string{{"id", "c"}, {"plain", "c"}}
	maxW, words = 17, 3
	if pg {
		maxW = 9
	}
	if thorough {
		maxW, words = maxW+maxW/2, 5 // MySQL 25 (the fourth byte of the NULL bitmap of a binary row), PostgreSQL 13
		pairs = append(pairs, [2]string{"c", "plain"}, [2]string{"c", "id"})
	}
	return
}

func wideGroups(thorough, pg bool) []wideGroup {
	maxW, words, pairs := wideBounds(thorough, pg)
	var out []wideGroup
	for w := 1; w <= maxW; w++ {
		for _, bh := range pairs {
			g := wideGroup{Name: fmt.Sprintf("w=%d,base=%s,hot=%s", w, bh[0], bh[1])}
			for p := 0; p < w; p++ {
				cols := make([]string, w)
				for i := range cols {
					cols[i] = bh[0]
				}
				cols[p] = bh[1]
				g.Lists = append(g.Lists, strings.Join(cols, ", "))
			}
			out = append(out, g)
		}
	}
	for w := 1; w <= words; w++ {
		g := wideGroup{Name: fmt.Sprintf("all-words,w=%d", w)}
		n := 1
		for i := 0; i < w; i++ {
			n *= 3
		}
		for x := 0; x < n; x++ {
			cols := make([]string, w)
			for i, y := 0, x; i < w; i, y = i+1, y/3 {
				cols[i] = []string{"id", "plain", "c"}[y%3]
			}
			g.Lists = append(g.Lists, strings.Join(cols, ", "))
		}
		out = append(out, g)
	}
	return out
}

// wideNulls enumerates the NULL patterns of the 2R nullable parameters (plain, c of every row): none,
// exactly one, and - when every column is a parameter - all but one. With lit == 2 the plain of row
// 0 is a literal: no pattern makes it NULL.
func wideNulls(rows, lit int) [][]bool {
	n := 2 * rows
	out := [][]bool{make([]bool, n)}
	for p := 0; p < n; p++ {
		if p == 0 && lit == 2 {
			continue
		}
		one, allBut := make([]bool, n), make([]bool, n)
		for i := range allBut {
			allBut[i] = i != p
		}
		one[p] = true
		out = append(out, one)
		if lit == 0 {
			out = append(out, allBut)
		}
	}
	return out
}

func wideMaxRows(thorough, pg bool) int {
	switch {
	case thorough && pg:
		return 4
	case thorough:
		return 9
	case pg:
		return 3
	}
	return 6
}

var wideDetail = regexp.MustCompile(`\{[^}]*\}`)

// nullsClass names a NULL pattern of the params scenario in finding keys
func nullsClass(nulls []bool) string {
	n := 0
	for _, x := range nulls {
		if x {
			n++
		}
	}
	switch n {
	case 0:
		return "nulls-none"
	case 1:
		return "nulls-one"
	}
	return "nulls-all-but-one"
}

// wideParamsKey is the scenario part of the finding keys of the params scenario: the input class
// (number of literal values next to the parameters, NULL pattern class) comes first
func wideParamsKey(rp wideReplay) string {
	return fmt.Sprintf("wide-params/literals-%d/%s", rp.Lit, nullsClass(rp.Nulls))
}

func nullsString(nulls []bool) string {
	var b strings.Builder
	for _, x := range nulls {
		if x {
			b.WriteByte('N')
		} else {
			b.WriteByte('v')
		}
	}
	return b.String()
}

// ---- PostgreSQL -------------------------------------------------------------------------------------

func pgWideSetup(c pgcheck.ColCfg, vals [][]byte) []pgcheck.Stmt {
	v, v2 := vals[1%len(vals)], vals[2%len(vals)]
	l1, l2 := pgcheck.Literals(c.Shadow, v)[0], pgcheck.Literals(c.Shadow, v2)[0]
	var out []pgcheck.Stmt
	for _, row := range []string{"1, 'p1', " + l1, "2, NULL, " + l2, "3, 'p3', NULL", "4, NULL, NULL"} {
		out = append(out, pgcheck.Mk("wide-setup-insert", "", true, true, sess.Q("insert into t (id, plain, c) values ("+row+")"), v, v2))
	}
	return out
}

func pgWideReads(lists []string, thorough bool) []pgcheck.Stmt {
	var out []pgcheck.Stmt
	for _, l := range lists {
		sql := "select " + l + " from t"
		w := strings.Count(l, ",") + 1
		mixed := make([]int16, w)
		for i := range mixed {
			mixed[i] = int16(i % 2)
		}
		d := "{" + l + "}"
		out = append(out,
			pgcheck.Mk("wide-select-simple"+d, "", false, true, sess.Q(sql)),
			pgcheck.Mk("wide-select-ext-alternating-formats"+d, "", false, true, sess.Ext("", sql, nil, nil, mixed, nil)))
		if thorough {
			out = append(out,
				pgcheck.Mk("wide-select-ext-text"+d, "", false, true, sess.Ext("", sql, nil, nil, nil, nil)),
				pgcheck.Mk("wide-select-ext-binary"+d, "", false, true, sess.Ext("", sql, nil, nil, []int16{1}, nil)))
		}
	}
	return out
}

func pgWideInsert(c pgcheck.ColCfg, vals [][]byte, rows, lit int, nulls []bool, binary bool) pgcheck.Stmt {
	v, v2 := vals[1%len(vals)], vals[2%len(vals)]
	var tuples []string
	var params [][]byte
	var formats []int16
	for i := 0; i < rows; i++ {
		val := v
		if i%2 == 1 {
			val = v2
		}
		plain, cv := []byte(fmt.Sprintf("r%d", i)), pgcheck.TextParams(c.Shadow, val)[0]
		f := int16(0)
		if binary {
			cv, f = pgcheck.BinParam(c.Shadow, val), 1
		}
		if nulls[2*i] {
			plain = nil
		}
		if nulls[2*i+1] {
			cv = nil
		}
		var tuple []string
		for k, prm := range [][]byte{pgcheck.I4(i + 1), plain, cv} {
			if i == 0 && k < lit {
				tuple = append(tuple, []string{"1", "'r0'"}[k])
				continue
			}
			params = append(params, prm)
			formats = append(formats, []int16{0, 0, f}[k])
			tuple = append(tuple, fmt.Sprintf("$%d", len(params)))
		}
		tuples = append(tuples, "("+strings.Join(tuple, ", ")+")")
	}
	return pgcheck.Mk(fmt.Sprintf("ext-insert-n-rows{rows=%d,literals=%d,nulls=%s,binary=%v}", rows, lit, nullsString(nulls), binary), "", true, true,
		sess.Ext("", "insert into t (id, plain, c) values "+strings.Join(tuples, ", "), params, formats, nil, nil), v, v2)
}

// pgWideUpdate: UPDATE of row 1 with lit literal SET clauses (id, plain) before the bound value of c
func pgWideUpdate(c pgcheck.ColCfg, vals [][]byte, lit int, null, binary bool) pgcheck.Stmt {
	v2 := vals[2%len(vals)]
	cv, f := pgcheck.TextParams(c.Shadow, v2)[0], int16(0)
	if binary {
		cv, f = pgcheck.BinParam(c.Shadow, v2), 1
	}
	if null {
		cv = nil
	}
	set := append([]string{"id = 1", "plain = 'u0'"}[:lit:lit], "c = $1")
	return pgcheck.Mk(fmt.Sprintf("ext-update-n-literals{literals=%d,null=%v,binary=%v}", lit, null, binary), "", true, true,
		sess.Ext("", "update t set "+strings.Join(set, ", ")+" where id = 1", [][]byte{cv}, []int16{f}, nil, nil), v2)
}

type wideJob struct {
	rp    wideReplay
	group wideGroup // rows scenario
}

func wideJobs(part, config string, thorough bool) []wideJob {
	var jobs []wideJob
	pg := part == "pg-wide"
	for _, g := range wideGroups(thorough, pg) {
		jobs = append(jobs, wideJob{rp: wideReplay{Part: part, Config: config, Scenario: "rows", Lists: g.Lists}, group: g})
	}
	for rows := 1; rows <= wideMaxRows(thorough, pg); rows++ {
		for lit := 0; lit <= 2; lit++ {
			if lit > 0 && pg && !thorough {
				break // PostgreSQL marks NULL per parameter: the parameter counts 3R are enough for the quick tier
			}
			for _, nulls := range wideNulls(rows, lit) {
				jobs = append(jobs, wideJob{rp: wideReplay{Part: part, Config: config, Scenario: "params", Rows: rows, Lit: lit, Nulls: nulls}})
			}
			if rows == 1 {
				// INSERT of one row (parameters only), then UPDATE of it with lit literal SET clauses
				for _, null := range []bool{false, true} {
					jobs = append(jobs, wideJob{rp: wideReplay{Part: part, Config: config, Scenario: "update", Rows: 1, Lit: lit, Nulls: []bool{null}}})
				}
			}
		}
	}
	return jobs
}

// pgWideFirst keeps the first violation of a run of the params scenario (a value that went to the
// database in clear is also stored in clear and read back by everyone: what follows the first
// violation echoes it) and puts the parameter format in front of its key.
func pgWideFirst(v []pgcheck.Violation, config, format string) []pgcheck.Violation {
	if len(v) == 0 {
		return nil
	}
	first := v[0]
	if len(v) > 1 {
		first.Msg += fmt.Sprintf(" (and %d violations that follow from it)", len(v)-1)
	}
	first.Key = "C04/" + config + "/" + format + "/" + strings.TrimPrefix(first.Key, "C04/"+config+"/")
	return []pgcheck.Violation{first}
}

func pgWidePhase(r *ev.Run, ks *filesystem.KeyStore, thorough bool, only *wideReplay) {
	defer phaseTime("wide (PostgreSQL)")()
	lists, inserts := 0, 0
	for _, c := range configs(true) {
		if only != nil && only.Config != c.Name {
			continue
		}
		if only == nil && !thorough {
			listed := false
			for _, q := range configs(false) {
				listed = listed || q.Name == c.Name
			}
			if !listed {
				continue
			}
		}
		env, err := sess.NewPGEnv(ks, sess.PGEnvOptions{EncryptorConfigYAML: c.ConfigYAML()})
		if err != nil {
			continue // counted by the main phase
		}
		vals := values(c, false)
		jobs := wideJobs("pg-wide", c.Name, thorough)
		if only != nil {
			jobs = []wideJob{{rp: *only}}
		}
		type outT struct {
			viol    []pgcheck.Violation
			harness string
			done    bool
		}
		outs := make([]outT, len(jobs))
		done := par.Do(len(jobs), r.Expired, func(i int) {
			j := jobs[i]
			rn := &pgcheck.Runner{Property: "C04", R: r, Env: env, Cfg: c}
			var stmts []pgcheck.Stmt
			if j.rp.Scenario == "rows" {
				stmts = pgWideSetup(c, vals)
				rn.Audits = pgWideReads(j.rp.Lists, thorough || only != nil)
			} else {
				// the same NULL pattern with text and with binary parameters
				build := func(binary bool) []pgcheck.Stmt {
					if j.rp.Scenario == "update" {
						return []pgcheck.Stmt{pgWideInsert(c, vals, 1, 0, []bool{false, false}, binary), pgWideUpdate(c, vals, j.rp.Lit, j.rp.Nulls[0], binary)}
					}
					return []pgcheck.Stmt{pgWideInsert(c, vals, j.rp.Rows, j.rp.Lit, j.rp.Nulls, binary)}
				}
				stmts = build(false)
				v, _, hn := rn.Run(stmts)
				outs[i].viol, outs[i].harness = pgWideFirst(v, c.Name, "text-params"), hn
				r.Eval(1)
				r.Traces(1)
				stmts = build(true)
			}
			v, _, hn := rn.Run(stmts)
			if j.rp.Scenario != "rows" {
				v = pgWideFirst(v, c.Name, "binary-params")
			}
			outs[i].viol = append(outs[i].viol, v...)
			if outs[i].harness == "" {
				outs[i].harness = hn
			}
			outs[i].done = true
			r.Eval(1)
			r.Traces(1)
		})
		if done < len(jobs) {
			r.Capped(fmt.Sprintf("wide rows / parameters (PostgreSQL): configuration %s: %d of %d runs", c.Name, done, len(jobs)))
		}
		for i, o := range outs {
			if !o.done {
				continue
			}
			if o.harness != "" {
				ev.Fatalf("C04 wide (PostgreSQL): configuration %s run %+v: %s", c.Name, jobs[i].rp, o.harness)
			}
			scn := "wide-result"
			if jobs[i].rp.Scenario != "rows" {
				scn = wideParamsKey(jobs[i].rp)
				inserts += 2
			} else {
				lists += len(jobs[i].rp.Lists)
			}
			for _, v := range o.viol {
				rp := jobs[i].rp
				rp.Detail = v.Msg
				detail := strings.Join(wideDetail.FindAllString(v.Key, -1), " ")
				if only != nil {
					fmt.Println("replayed:", v.Key, "::", v.Msg)
				}
				r.Violation("C04/"+scn+"/"+wideDetail.ReplaceAllString(strings.TrimPrefix(v.Key, "C04/"+c.Name+"/"), ""), v.Msg+" [configuration "+c.Name+" "+detail+"]", rp)
			}
			name := jobs[i].group.Name
			if jobs[i].rp.Scenario != "rows" {
				name = fmt.Sprintf("rows=%d,literals=%d,nulls=%s", jobs[i].rp.Rows, jobs[i].rp.Lit, nullsString(jobs[i].rp.Nulls))
			}
			r.Distinct("pg-wide|" + c.Name + "|" + jobs[i].rp.Scenario + "|" + name + fmt.Sprint(len(o.viol) > 0))
			r.Class(map[bool]string{true: "wide-run-violating", false: "wide-run-ok"}[len(o.viol) > 0], 1)
		}
		if r.Expired() {
			break
		}
	}
	if only != nil {
		return
	}
	r.States(lists + inserts)
	r.Set("wide_pg_select_lists_read", lists)
	r.Set("wide_pg_multi_row_inserts", inserts)
}

// ---- MySQL ------------------------------------------------------------------------------------------

func myMainParamType(c mycheck.Col) byte {
	switch c.App {
	case "int32":
		return sess.MyTypeLong
	case "int64":
		return sess.MyTypeLongLong
	}
	return sess.MyTypeBlob
}

func myWideSetup(c mycheck.Col, vals []myVal) []mycheck.Op {
	v, v2 := vals[1], vals[2]
	l1, l2 := literals(c, v)[0], literals(c, v2)[0]
	var out []mycheck.Op
	for _, row := range []string{"1, 'p1', " + l1, "2, NULL, " + l2, "3, 'p3', NULL", "4, NULL, NULL"} {
		out = append(out, mycheck.Op{Kind: "wide-setup-insert", SQL: "insert into t (id, plain, c) values (" + row + ")", Write: true, Protected: true, Secrets: secretsOf(c, v, v2)})
	}
	return out
}

// myWideReads: every list in the binary protocol; in the text protocol too when it is not wider
// than textMaxW
func myWideReads(lists []string, textMaxW int) []mycheck.Op {
	var out []mycheck.Op
	for _, l := range lists {
		sql := "select " + l + " from t"
		if strings.Count(l, ",")+1 <= textMaxW {
			out = append(out, mycheck.Op{Kind: "wide-select{" + l + "}", SQL: sql, Protected: true})
		}
		out = append(out, mycheck.Op{Kind: "ps-wide-select{" + l + "}", SQL: sql, Prepared: true, Protected: true})
	}
	return out
}

func myWideInsert(c mycheck.Col, vals []myVal, rows, lit int, nulls []bool) mycheck.Op {
	v, v2 := vals[1], vals[2]
	var tuples []string
	var params []sess.MyParam
	for i := 0; i < rows; i++ {
		val := v
		if i%2 == 1 {
			val = v2
		}
		plain, cv := vstr(fmt.Sprintf("r%d", i)), param(myMainParamType(c), val)
		if nulls[2*i] {
			plain = sess.MyParam{Type: sess.MyTypeVarString}
		}
		if nulls[2*i+1] {
			cv = sess.MyParam{Type: myMainParamType(c)}
		}
		var tuple []string
		for k, prm := range []sess.MyParam{long(i + 1), plain, cv} {
			if i == 0 && k < lit {
				tuple = append(tuple, []string{"1", "'r0'"}[k])
				continue
			}
			params = append(params, prm)
			tuple = append(tuple, "?")
		}
		tuples = append(tuples, "("+strings.Join(tuple, ", ")+")")
	}
	return mycheck.Op{Kind: fmt.Sprintf("ps-insert-n-rows{rows=%d,literals=%d,nulls=%s}", rows, lit, nullsString(nulls)), SQL: "insert into t (id, plain, c) values " + strings.Join(tuples, ", "),
		Params: params, Prepared: true, Write: true, Protected: true, Secrets: secretsOf(c, v, v2)}
}

// myWideUpdate: UPDATE of row 1 with lit literal SET clauses (id, plain) before the bound value of c
func myWideUpdate(c mycheck.Col, vals []myVal, lit int, null bool) mycheck.Op {
	v2 := vals[2]
	cv := param(myMainParamType(c), v2)
	if null {
		cv = sess.MyParam{Type: myMainParamType(c)}
	}
	set := append([]string{"id = 1", "plain = 'u0'"}[:lit:lit], "c = ?")
	return mycheck.Op{Kind: fmt.Sprintf("ps-update-n-literals{literals=%d,null=%v}", lit, null), SQL: "update t set " + strings.Join(set, ", ") + " where id = 1",
		Params: []sess.MyParam{cv}, Prepared: true, Write: true, Protected: true, Secrets: secretsOf(c, v2)}
}

func myWidePhase(r *ev.Run, ks *filesystem.KeyStore, thorough bool, only *wideReplay) {
	defer phaseTime("wide (MySQL)")()
	lists, inserts := 0, 0
	for _, c := range myConfigs(true) {
		if only != nil && only.Config != c.Name {
			continue
		}
		if only == nil && !thorough {
			listed := false
			for _, q := range myConfigs(false) {
				listed = listed || q.Name == c.Name
			}
			if !listed {
				continue
			}
		}
		env, err := myEnvFor(ks, c)
		if err != nil {
			continue // reported by the main phase
		}
		vals := myValues(c, false)
		jobs := wideJobs("mysql-wide", c.Name, thorough)
		if only != nil {
			jobs = []wideJob{{rp: *only}}
		}
		type outT struct {
			viol    []mycheck.Violation
			harness string
			done    bool
		}
		outs := make([]outT, len(jobs))
		done := par.Do(len(jobs), r.Expired, func(i int) {
			j := jobs[i]
			rn := &mycheck.Runner{Property: "C04", R: r, Env: env, Col: c}
			var ops []mycheck.Op
			if j.rp.Scenario == "rows" {
				ops = myWideSetup(c, vals)
				textMaxW := 9
				if thorough || only != nil {
					textMaxW = 1 << 30
				}
				rn.Audits = myWideReads(j.rp.Lists, textMaxW)
			} else {
				if j.rp.Scenario == "update" {
					ops = []mycheck.Op{myWideInsert(c, vals, 1, 0, []bool{false, false}), myWideUpdate(c, vals, j.rp.Lit, j.rp.Nulls[0])}
				} else {
					ops = []mycheck.Op{myWideInsert(c, vals, j.rp.Rows, j.rp.Lit, j.rp.Nulls)}
				}
				// quick: the owner's audits only (what was stored for every parameter and what the owner
				// reads back); the readers without keys are audited in the thorough tier
				rn.SkipNonOwners = !thorough && only == nil
			}
			v, _, hn := rn.Run(ops)
			if j.rp.Scenario != "rows" && len(v) > 1 {
				v[0].Msg += fmt.Sprintf(" (and %d violations that follow from it)", len(v)-1)
				v = v[:1] // what follows the first violation echoes it
			}
			outs[i] = outT{v, hn, true}
			r.Eval(1)
			r.Traces(1)
		})
		if done < len(jobs) {
			r.Capped(fmt.Sprintf("wide rows / parameters (MySQL): configuration %s: %d of %d runs", c.Name, done, len(jobs)))
		}
		for i, o := range outs {
			if !o.done {
				continue
			}
			if o.harness != "" {
				ev.Fatalf("C04 wide (MySQL): configuration %s run %+v: %s", c.Name, jobs[i].rp, o.harness)
			}
			scn := "wide-result"
			if jobs[i].rp.Scenario != "rows" {
				scn = wideParamsKey(jobs[i].rp)
				inserts++
			} else {
				lists += len(jobs[i].rp.Lists)
			}
			for _, v := range o.viol {
				rp := jobs[i].rp
				rp.Detail = v.Msg
				detail := strings.Join(wideDetail.FindAllString(v.Key, -1), " ")
				if only != nil {
					fmt.Println("replayed:", v.Key, "::", v.Msg)
				}
				r.Violation("C04/mysql/"+scn+"/"+wideDetail.ReplaceAllString(strings.TrimPrefix(v.Key, "C04/mysql/"+c.Name+"/"), ""), v.Msg+" [configuration "+c.Name+" "+detail+"]", rp)
			}
			name := jobs[i].group.Name
			if jobs[i].rp.Scenario != "rows" {
				name = fmt.Sprintf("rows=%d,literals=%d,nulls=%s", jobs[i].rp.Rows, jobs[i].rp.Lit, nullsString(jobs[i].rp.Nulls))
			}
			r.Distinct("mysql-wide|" + c.Name + "|" + jobs[i].rp.Scenario + "|" + name + fmt.Sprint(len(o.viol) > 0))
			r.Class(map[bool]string{true: "mysql-wide-run-violating", false: "mysql-wide-run-ok"}[len(o.viol) > 0], 1)
		}
		if r.Expired() {
			break
		}
	}
	if only != nil {
		return
	}
	r.States(lists + inserts)
	r.Set("wide_mysql_select_lists_read", lists)
	r.Set("wide_mysql_multi_row_inserts", inserts)
}
