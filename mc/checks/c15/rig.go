package main

// Worlds, spies and delivery paths of the C15 check.

import (
	"bytes"
	"context"
	"fmt"
	"net"
	"reflect"
	"strings"
	"sync"
	"sync/atomic"
	"unsafe"

	"github.com/cossacklabs/themis/gothemis/keys"
	"github.com/sirupsen/logrus"

	acracensor "github.com/cossacklabs/acra/acra-censor"
	"github.com/cossacklabs/acra/acrablock"
	"github.com/cossacklabs/acra/acrastruct"
	translator "github.com/cossacklabs/acra/cmd/acra-translator/common"
	"github.com/cossacklabs/acra/crypto"
	"github.com/cossacklabs/acra/decryptor/base"
	"github.com/cossacklabs/acra/decryptor/mysql"
	"github.com/cossacklabs/acra/decryptor/postgresql"
	"github.com/cossacklabs/acra/encryptor/base/config"
	"github.com/cossacklabs/acra/hmac"
	"github.com/cossacklabs/acra/keystore"
	keystoreV2 "github.com/cossacklabs/acra/keystore/v2/keystore"
	cryptoV2 "github.com/cossacklabs/acra/keystore/v2/keystore/crypto"
	filesystemV2 "github.com/cossacklabs/acra/keystore/v2/keystore/filesystem"
	"github.com/cossacklabs/acra/logging"
	"github.com/cossacklabs/acra/poison"
	"github.com/cossacklabs/acra/sqlparser"

	"verif/detrand"
	"verif/envl"
	"verif/ev"
	"verif/fx"
)

// seq is the global sequence counter: callbacks, key reads and the harness' return points
// all draw from it, so "ran before" is a comparison of two numbers.
var seq atomic.Int64

// rec records what happened during one delivery.
type rec struct {
	mu          sync.Mutex
	calls       []int64 // sequence numbers of callback invocations
	poisonReads int     // reads of the poison decryption keys so far
	clientReads int     // reads of client decryption keys so far
	pAtCall     int     // poisonReads when the first callback ran
	cAtCall     int     // clientReads when the first callback ran
}

// recCallback is the recording intrusion callback (stands for the script / shutdown callback).
type recCallback struct{ r *rec }

func (c recCallback) Call() error {
	n := seq.Add(1)
	c.r.mu.Lock()
	if len(c.r.calls) == 0 {
		c.r.pAtCall, c.r.cAtCall = c.r.poisonReads, c.r.clientReads
	}
	c.r.calls = append(c.r.calls, n)
	c.r.mu.Unlock()
	return nil
}

// spyKS counts reads of decryption keys (poison vs client) on the way to the real key store.
type spyKS struct {
	keystore.ServerKeyStore
	r *rec
}

func (s *spyKS) note(p *int) {
	s.r.mu.Lock()
	*p++
	s.r.mu.Unlock()
}
func (s *spyKS) GetPoisonPrivateKeys() ([]*keys.PrivateKey, error) {
	s.note(&s.r.poisonReads)
	return s.ServerKeyStore.GetPoisonPrivateKeys()
}
func (s *spyKS) GetPoisonSymmetricKeys() ([][]byte, error) {
	s.note(&s.r.poisonReads)
	return s.ServerKeyStore.GetPoisonSymmetricKeys()
}
func (s *spyKS) GetServerDecryptionPrivateKeys(id []byte) ([]*keys.PrivateKey, error) {
	s.note(&s.r.clientReads)
	return s.ServerKeyStore.GetServerDecryptionPrivateKeys(id)
}
func (s *spyKS) GetClientIDSymmetricKeys(id []byte) ([][]byte, error) {
	s.note(&s.r.clientReads)
	return s.ServerKeyStore.GetClientIDSymmetricKeys(id)
}

// record is one poison record with the facts the oracle needs.
type record struct {
	Kind string // struct | block
	Age  int    // 0 = made under the current poison key, k = under the key rotated k times since
	DLen int
	Data []byte
}

// store is one key store (format x poison-key history).
type store struct {
	Broken  string // set when the key history itself went wrong (reported as a violation by main)
	Name    string
	Format  string // v1 | v2
	Hist    int    // number of poison keys of each kind (1 = generate, 2 = generate+rotate, 3 = rotate twice)
	KS      keystore.ServerKeyStore
	Gen     keystore.PoisonKeyStorageAndGenerator
	Lab     *envl.Lab // v1 only
	Records []record
	Hash    []byte            // a genuine search hash of client Alpha (33 bytes)
	Env     map[string][]byte // ordinary envelopes used as fills: other-struct, other-block, own-struct, own-block
	close   func()
	// pool holds identical replicas of a v2 store (same seed, same construction, same keys), one
	// per worker: the v2 key store is not safe for concurrent readers (its SignSha256 shares one
	// hash state), and the deliveries of this check are meant to be independent of each other.
	pool chan keystore.ServerKeyStore
}

var dataLens = []int{1, 100}

// makeRecords creates poison records of both kinds and both data lengths under the current keys.
func makeRecords(st *store, keyIndex int) {
	for _, n := range dataLens {
		s, err := poison.CreatePoisonRecord(st.Gen, n)
		if err != nil {
			ev.Fatalf("%s: CreatePoisonRecord: %v", st.Name, err)
		}
		b, err := poison.CreateSymmetricPoisonRecord(st.Gen, n)
		if err != nil {
			ev.Fatalf("%s: CreateSymmetricPoisonRecord: %v", st.Name, err)
		}
		st.Records = append(st.Records, record{"struct", keyIndex, n, s}, record{"block", keyIndex, n, b})
	}
}

// runHistory generates hist poison keys of each kind; records are made under every key while it
// is the current one. Afterwards Age is turned from key index into "rotations since".
func runHistory(st *store) {
	// history 4 = three generations, then the middle generation of both poison keys is destroyed
	// (records made under it are dropped: nothing can recognise them any more); records of the
	// oldest generation must still be recognised
	destroyMiddle := st.Hist == 4
	if destroyMiddle {
		st.Hist = 3
	}
	defer func() {
		if !destroyMiddle {
			return
		}
		d, ok := st.Gen.(interface {
			DestroyRotatedPoisonKeyPair(index int) error
			DestroyRotatedPoisonSymmetricKey(index int) error
		})
		if !ok {
			ev.Fatalf("%s: key store cannot destroy rotated poison keys", st.Name)
		}
		// rotated keys are addressed by their listing index (the current key is 1, the rotated keys
		// follow oldest first): 3 is the middle one of three generations
		if err := d.DestroyRotatedPoisonKeyPair(3); err != nil {
			ev.Fatalf("%s: DestroyRotatedPoisonKeyPair: %v", st.Name, err)
		}
		if err := d.DestroyRotatedPoisonSymmetricKey(3); err != nil {
			ev.Fatalf("%s: DestroyRotatedPoisonSymmetricKey: %v", st.Name, err)
		}
		// the records that can no longer be opened with the poison keys the store offers are dropped:
		// that must be the records of the middle generation and of no other
		reg := crypto.NewRegistryHandler(st.KS)
		gone := map[int]bool{}
		var kept []record
		for _, rc := range st.Records {
			ctx := base.SetAccessContextToContext(context.Background(), base.NewAccessContext())
			_, err := reg.Process(append([]byte{}, rc.Data...), &base.DataProcessorContext{Keystore: crypto.NewPoisonRecordKeyStoreWrapper(st.KS), Context: ctx})
			if err != nil {
				gone[rc.Age] = true
				continue
			}
			kept = append(kept, rc)
		}
		if len(gone) != 1 || !gone[1] {
			st.Broken = fmt.Sprintf("destroying the middle generation of the poison keys made the records of these generations unreadable (rotations since: %v)", gone)
		}
		st.Records = kept
	}()
	for k := 0; k < st.Hist; k++ {
		if k > 0 || st.Format == "v2" { // v1 worlds come with the first pair/key generated
			if err := st.Gen.GeneratePoisonKeyPair(); err != nil {
				ev.Fatalf("%s: GeneratePoisonKeyPair: %v", st.Name, err)
			}
			if err := st.Gen.GeneratePoisonSymmetricKey(); err != nil {
				ev.Fatalf("%s: GeneratePoisonSymmetricKey: %v", st.Name, err)
			}
		}
		makeRecords(st, k)
	}
	for i := range st.Records {
		st.Records[i].Age = st.Hist - 1 - st.Records[i].Age
	}
	// (how many keys the store offers afterwards is not asserted here: a store that forgets rotated
	// keys must surface as missed records, not as a harness error)
}

var (
	structH crypto.ContainerHandler
	blockH  crypto.ContainerHandler
)

func handlers() {
	var err error
	if structH, err = crypto.GetHandlerByEnvelopeID(crypto.AcraStructEnvelopeID); err != nil {
		ev.Fatalf("handler: %v", err)
	}
	if blockH, err = crypto.GetHandlerByEnvelopeID(crypto.AcraBlockEnvelopeID); err != nil {
		ev.Fatalf("handler: %v", err)
	}
}

// produce makes an ordinary protected value of the given stored form with library calls only
// (works on both key-store formats).
func produce(ks keystore.ServerKeyStore, f envl.Form, id, pt []byte) []byte {
	if structH == nil {
		handlers() // the registry exists once the first world has been built
	}
	reg := crypto.NewRegistryHandler(ks)
	var out []byte
	var err error
	switch f {
	case envl.StructRaw:
		var pub *keys.PublicKey
		if pub, err = ks.GetClientIDEncryptionPublicKey(id); err == nil {
			out, err = acrastruct.CreateAcrastruct(pt, pub, nil)
		}
	case envl.BlockRaw:
		var k []byte
		if k, err = ks.GetClientIDSymmetricKey(id); err == nil {
			out, err = acrablock.CreateAcraBlock(pt, k, nil)
		}
	case envl.StructCont:
		out, err = reg.EncryptWithHandler(structH, id, pt)
	case envl.BlockCont:
		out, err = reg.EncryptWithHandler(blockH, id, pt)
	case envl.StructSearch, envl.BlockSearch:
		var k []byte
		if k, err = ks.GetHMACSecretKey(id); err == nil {
			h := blockH
			if f == envl.StructSearch {
				h = structH
			}
			var c []byte
			if c, err = reg.EncryptWithHandler(h, id, pt); err == nil {
				out = append(hmac.GenerateHMAC(k, pt), c...)
			}
		}
	}
	if err != nil || len(out) == 0 {
		ev.Fatalf("produce %s for %s: %v", f, id, err)
	}
	return out
}

func finishStore(st *store) {
	runHistory(st)
	ss := produce(st.KS, envl.StructSearch, fx.Alpha, []byte("searchable plaintext of alpha"))
	st.Hash = ss[:hmac.GetDefaultHashSize()]
	st.Env = map[string][]byte{
		"other-struct": produce(st.KS, envl.StructCont, fx.Bravo, []byte("bravo's secret, struct")),
		"other-block":  produce(st.KS, envl.BlockCont, fx.Bravo, []byte("bravo's secret, block")),
		"own-struct":   produce(st.KS, envl.StructCont, fx.Alpha, []byte("alpha's secret, struct")),
		"own-block":    produce(st.KS, envl.BlockCont, fx.Alpha, []byte("alpha's secret, block")),
	}
}

// stableRand is the deterministic reader of this check. crypto/ecdh.GenerateKey (used by the
// Themis stand-in for key pairs) calls randutil.MaybeReadByte, which at random does or does not
// draw one extra byte: on a plain counter stream that shifts every later draw, so keys would
// differ from run to run and recorded inputs could not be replayed. One-byte draws are therefore
// answered with a constant and do not advance the stream.
type stableRand struct{ r *detrand.Reader }

func (s stableRand) Read(p []byte) (int, error) {
	if len(p) == 1 {
		p[0] = 0x5A
		return 1, nil
	}
	return s.r.Read(p)
}

func installRand(seed string) { detrand.Install(stableRand{detrand.New("world/c15/" + seed)}) }

// newStoreV1 builds a v1 (filesystem, no key cache) store the way fx.NewWorld does: clients
// alpha_1, bravo_2, alpha_1x, first poison pair/key generated; rotation = generating again.
func newStoreV1(name string, hist int) *store {
	installRand(name)
	dir := fx.Scratch("ks")
	ks := fx.NewKeyStoreV1(dir, keystore.WithoutCache)
	for _, id := range [][]byte{fx.Alpha, fx.Bravo, fx.AlphaX} {
		fx.GenClientKeys(ks, id)
	}
	for _, e := range []error{ks.GeneratePoisonKeyPair(), ks.GeneratePoisonSymmetricKey(), crypto.InitRegistry(ks)} {
		if e != nil {
			ev.Fatalf("v1 world: %v", e)
		}
	}
	w := &fx.World{Dir: dir, KS: ks, Registry: crypto.NewRegistryHandler(ks)}
	svc, err := translator.NewTranslatorService(&translator.TranslatorData{Keystorage: ks})
	if err != nil {
		ev.Fatalf("v1 world: %v", err)
	}
	w.Service = svc
	st := &store{Name: name, Format: "v1", Hist: hist, KS: ks, Gen: ks, Lab: envl.New(w), close: w.Close}
	finishStore(st)
	return st
}

// newStoreV2 builds a v2 store on the in-memory backend, with one replica per worker.
func newStoreV2(name string, hist int, replicas int) *store {
	st := buildStoreV2(name, hist)
	st.pool = make(chan keystore.ServerKeyStore, replicas)
	st.pool <- st.KS
	closers := []func(){st.close}
	for i := 1; i < replicas; i++ {
		rp := buildStoreV2(name, hist)
		for j, rc := range st.Records { // same seed, same construction order: must be the same keys
			if !bytes.Equal(rc.Data, rp.Records[j].Data) {
				ev.Fatalf("%s: replica %d differs from the primary store (record %d, %s)", name, i, j, rc.Kind)
			}
		}
		st.pool <- rp.KS
		closers = append(closers, rp.close)
	}
	st.close = func() {
		for _, c := range closers {
			c()
		}
	}
	return st
}

func buildStoreV2(name string, hist int) *store {
	installRand(name)
	suite, err := cryptoV2.NewSCellSuite(bytes.Repeat([]byte{9}, 32), bytes.Repeat([]byte{8}, 32))
	if err != nil {
		ev.Fatalf("v2 suite: %v", err)
	}
	mem, err := filesystemV2.NewInMemory(suite)
	if err != nil {
		ev.Fatalf("v2 store: %v", err)
	}
	ks := keystoreV2.NewServerKeyStore(mem)
	for _, id := range [][]byte{fx.Alpha, fx.Bravo} {
		for _, e := range []error{ks.GenerateDataEncryptionKeys(id), ks.GenerateClientIDSymmetricKey(id), ks.GenerateHmacKey(id)} {
			if e != nil {
				ev.Fatalf("v2 client keys: %v", e)
			}
		}
	}
	st := &store{Name: name, Format: "v2", Hist: hist, KS: ks, Gen: ks, close: func() { mem.Close() }}
	finishStore(st)
	return st
}

// ---------------------------------------------------------------------------------------------
// delivery paths

// stubSession is a base.ClientSession without connections: enough for the proxy factories.
type stubSession struct {
	ctx  context.Context
	ps   interface{}
	mu   sync.Mutex
	data map[string]interface{}
}

func (s *stubSession) Context() context.Context       { return s.ctx }
func (s *stubSession) ClientConnection() net.Conn     { return nil }
func (s *stubSession) DatabaseConnection() net.Conn   { return nil }
func (s *stubSession) ProtocolState() interface{}     { return s.ps }
func (s *stubSession) SetProtocolState(x interface{}) { s.ps = x }
func (s *stubSession) GetData(k string) (interface{}, bool) {
	s.mu.Lock()
	defer s.mu.Unlock()
	v, ok := s.data[k]
	return v, ok
}
func (s *stubSession) SetData(k string, v interface{}) {
	s.mu.Lock()
	defer s.mu.Unlock()
	s.data[k] = v
}
func (s *stubSession) DeleteData(k string) {
	s.mu.Lock()
	defer s.mu.Unlock()
	delete(s.data, k)
}
func (s *stubSession) HasData(k string) bool {
	s.mu.Lock()
	defer s.mu.Unlock()
	_, ok := s.data[k]
	return ok
}

const schemaPlain = `
schemas:
  - table: t
    columns: [id, s, b]
    encrypted:
      - column: s
        crypto_envelope: acrastruct
      - column: b
        crypto_envelope: acrablock
`

const schemaSearch = `
schemas:
  - table: t
    columns: [id, s, b, ss, bs]
    encrypted:
      - column: s
        crypto_envelope: acrastruct
      - column: b
        crypto_envelope: acrablock
      - column: ss
        crypto_envelope: acrastruct
        searchable: true
      - column: bs
        crypto_envelope: acrablock
        searchable: true
`

var (
	schemaStores = map[bool]config.TableSchemaStore{}
	sqlParser    *sqlparser.Parser
)

func initSchemas() {
	for search, y := range map[bool]string{false: schemaPlain, true: schemaSearch} {
		s, err := config.MapTableSchemaStoreFromConfig([]byte(y), false)
		if err != nil {
			ev.Fatalf("schema: %v", err)
		}
		schemaStores[search] = s
	}
	sqlParser = sqlparser.New(sqlparser.ModeDefault)
}

// delivery is the per-delivery environment: own recorder, own callback storage, own spy.
type delivery struct {
	st      *store
	real    keystore.ServerKeyStore
	cb      bool
	r       *rec
	ks      *spyKS
	storage *poison.CallbackStorage
}

func newDelivery(st *store, cb bool) *delivery {
	d := &delivery{st: st, cb: cb, r: &rec{}, real: st.KS}
	if st.pool != nil {
		d.real = <-st.pool
	}
	d.ks = &spyKS{ServerKeyStore: d.real, r: d.r}
	// exactly what acra-server / acra-translator do: an empty storage when detection is off;
	// EmptyCallback first and the action callbacks after it when it is on
	d.storage = poison.NewCallbackStorage()
	if cb {
		d.storage.AddCallback(poison.EmptyCallback{})
		d.storage.AddCallback(recCallback{d.r})
	}
	return d
}

// release hands a v2 replica back.
func (d *delivery) release() {
	if d.st.pool != nil {
		d.st.pool <- d.real
	}
}

func sessionCtx(s *stubSession, id []byte) context.Context {
	ctx := logging.SetLoggerToContext(context.Background(), logrus.NewEntry(logrus.StandardLogger()))
	ctx = base.SetClientSessionToContext(ctx, s)
	return base.SetAccessContextToContext(ctx, base.NewAccessContext(base.WithClientID(id)))
}

// factoryObserver builds the real proxy with the real factory and returns the column
// decryption observer the factory filled (unexported field, read through reflection: the
// subscribers and the callback order inside the envelope detector are the factory's, not ours).
func factoryObserver(d *delivery, db string, search bool, id []byte) *base.ColumnDecryptionObserver {
	setting := base.NewProxySetting(sqlParser, schemaStores[search], d.ks, nil, acracensor.NewAcraCensor(), d.storage)
	var f base.ProxyFactory
	var err error
	if db == "pg" {
		f, err = postgresql.NewProxyFactory(setting, d.ks, nil)
	} else {
		f, err = mysql.NewProxyFactory(setting, d.ks, nil)
	}
	if err != nil {
		ev.Fatalf("%s factory: %v", db, err)
	}
	s := &stubSession{data: map[string]interface{}{}}
	s.ctx = sessionCtx(s, id)
	p, err := f.New(id, s)
	if err != nil {
		ev.Fatalf("%s factory.New: %v", db, err)
	}
	v := reflect.ValueOf(p)
	if v.Kind() != reflect.Ptr || v.Elem().Kind() != reflect.Struct {
		ev.Fatalf("%s proxy is %T", db, p)
	}
	fld := v.Elem().FieldByName("decryptionObserver")
	if !fld.IsValid() || fld.Type() != reflect.TypeOf(base.ColumnDecryptionObserver{}) {
		ev.Fatalf("%s proxy %T has no decryptionObserver field of the expected type", db, p)
	}
	return (*base.ColumnDecryptionObserver)(unsafe.Pointer(fld.UnsafeAddr()))
}

// chainShape names the subscribers of an observer and the callbacks of the envelope detector in
// it, in order (evidence: this is the wiring the factory produced).
func chainShape(obs *base.ColumnDecryptionObserver) string {
	subs := reflect.ValueOf(obs).Elem().FieldByName("allColumns")
	out := ""
	for i := 0; i < subs.Len(); i++ {
		e := subs.Index(i)
		sub := *(*base.DecryptionSubscriber)(unsafe.Pointer(e.UnsafeAddr()))
		if i > 0 {
			out += " > "
		}
		out += sub.ID()
		var det *crypto.EnvelopeDetector
		switch x := sub.(type) {
		case *crypto.EnvelopeDetector:
			det = x
		case *crypto.OldContainerDetectorWrapper:
			dv := reflect.ValueOf(x).Elem().FieldByName("detector")
			det = *(**crypto.EnvelopeDetector)(unsafe.Pointer(dv.UnsafeAddr()))
		}
		if det != nil {
			cbs := reflect.ValueOf(det).Elem().FieldByName("callbacks")
			out += "["
			for j := 0; j < cbs.Len(); j++ {
				h := *(*crypto.EnvelopeCallbackHandler)(unsafe.Pointer(cbs.Index(j).UnsafeAddr()))
				if j > 0 {
					out += ","
				}
				out += h.ID()
			}
			out += "]"
		}
	}
	return out
}

// path is one way a value travels from storage to the caller.
type path struct {
	Name   string
	Family string // lab | pg | mysql | translator
	Column bool   // transparent column processor (hands the value on) vs translator operation
	Spy    bool   // key reads are observable (ordering sub-oracle applies)
	V1Only bool
	Op     string // translator: which operation accepts which envelope kind ("struct", "block")
	Key    string // name used in finding keys (both call styles of one translator operation share it)
	Run    func(d *delivery, id, in []byte) ([]byte, error)
}

func factoryPath(db string, search bool) path {
	return path{Name: fmt.Sprintf("%s-factory[search=%v]", db, search), Family: db, Column: true, Spy: true,
		Run: func(d *delivery, id, in []byte) ([]byte, error) {
			obs := factoryObserver(d, db, search, id)
			s := &stubSession{data: map[string]interface{}{}}
			_, out, err := obs.OnColumnDecryption(sessionCtx(s, id), 0, in)
			return out, err
		}}
}

func labPath(old, search bool) path {
	return path{Name: fmt.Sprintf("lab-chain[old=%v,hmac=%v]", old, search), Family: "lab", Column: true, V1Only: true,
		Run: func(d *delivery, id, in []byte) ([]byte, error) {
			var extra []crypto.EnvelopeCallbackHandler
			if d.cb { // the factories add the detector only when callbacks are configured
				pd := crypto.NewPoisonRecordsRecognizer(d.st.Lab.W.KS, d.st.Lab.W.Registry)
				pd.SetPoisonRecordCallbacks(d.storage)
				extra = append(extra, pd)
			}
			obs := d.st.Lab.ColumnChain(old, search, extra...)
			_, out, err := obs.OnColumnDecryption(fx.Ctx(id), 0, in)
			return out, err
		}}
}

func service(d *delivery) *translator.TranslatorService {
	svc, err := translator.NewTranslatorService(&translator.TranslatorData{Keystorage: d.ks, PoisonRecordCallbacks: d.storage})
	if err != nil {
		ev.Fatalf("translator: %v", err)
	}
	return svc
}

func split(in []byte) (hash, rest []byte) {
	n := hmac.GetDefaultHashSize()
	if len(in) < n {
		return nil, in
	}
	return append([]byte{}, in[:n]...), append([]byte{}, in[n:]...)
}

func translatorPaths() []path {
	tp := func(name, op string, fn func(s *translator.TranslatorService, id, in []byte) ([]byte, error)) path {
		return path{Name: "Translator." + name, Family: "translator", Spy: true, Op: op,
			Run: func(d *delivery, id, in []byte) ([]byte, error) { return fn(service(d), id, in) }}
	}
	return []path{
		tp("Decrypt", "struct", func(s *translator.TranslatorService, id, in []byte) ([]byte, error) {
			return s.Decrypt(fx.Ctx(nil), in, id, nil)
		}),
		tp("DecryptSym", "block", func(s *translator.TranslatorService, id, in []byte) ([]byte, error) {
			return s.DecryptSym(fx.Ctx(nil), in, id, nil)
		}),
		tp("DecryptSearchable(joined)", "struct", func(s *translator.TranslatorService, id, in []byte) ([]byte, error) {
			return s.DecryptSearchable(fx.Ctx(nil), in, nil, id, nil)
		}),
		tp("DecryptSearchable(split)", "struct", func(s *translator.TranslatorService, id, in []byte) ([]byte, error) {
			h, rest := split(in)
			return s.DecryptSearchable(fx.Ctx(nil), rest, h, id, nil)
		}),
		tp("DecryptSymSearchable(joined)", "block", func(s *translator.TranslatorService, id, in []byte) ([]byte, error) {
			return s.DecryptSymSearchable(fx.Ctx(nil), in, nil, id, nil)
		}),
		tp("DecryptSymSearchable(split)", "block", func(s *translator.TranslatorService, id, in []byte) ([]byte, error) {
			h, rest := split(in)
			return s.DecryptSymSearchable(fx.Ctx(nil), rest, h, id, nil)
		}),
	}
}

func allPaths() []path {
	ps := []path{
		factoryPath("pg", false), factoryPath("pg", true), factoryPath("mysql", false), factoryPath("mysql", true),
		labPath(false, false), labPath(true, false), labPath(false, true), labPath(true, true),
	}
	ps = append(ps, translatorPaths()...)
	for i := range ps {
		ps[i].Key = ps[i].Name
		if j := strings.Index(ps[i].Name, "("); j > 0 && ps[i].Family == "translator" {
			ps[i].Key = ps[i].Name[:j]
		}
	}
	return ps
}

// openRecord opens a (possibly damaged) poison record with the poison keys of st at library
// level (no registry, no detector): the inner envelope behind the 12-byte container header.
// nil when it does not open.
func openRecord(st *store, kind string, rec []byte) []byte {
	if len(rec) <= crypto.SerializedContainerMinSize {
		return nil
	}
	inner := append([]byte(nil), rec[crypto.SerializedContainerMinSize:]...)
	store := st.KS
	if st.pool != nil {
		store = <-st.pool
		defer func() { st.pool <- store }()
	}
	o := envl.Guard(func() ([]byte, error) {
		if kind == "struct" {
			ks, err := store.GetPoisonPrivateKeys()
			if err != nil {
				return nil, err
			}
			return acrastruct.DecryptRotatedAcrastruct(inner, ks, nil)
		}
		ks, err := store.GetPoisonSymmetricKeys()
		if err != nil {
			return nil, err
		}
		b, err := acrablock.NewAcraBlockFromData(inner)
		if err != nil {
			return nil, err
		}
		return b.Decrypt(ks, nil)
	})
	if o.Err != nil || o.Panic != "" {
		return nil
	}
	return o.Out
}

// stillValid: the damaged record still opens under the poison keys to exactly the payload of
// the original record.
func stillValid(st *store, in *input) bool {
	p := openRecord(st, in.Kind, in.Data)
	return p != nil && in.Payload != nil && bytes.Equal(p, in.Payload)
}
