package main

import (
	"fmt"
	"strings"
	"time"

	"github.com/cossacklabs/acra/encryptor/base/config"
	"github.com/cossacklabs/acra/pseudonymization"
	"github.com/cossacklabs/acra/pseudonymization/common"
	"github.com/cossacklabs/acra/pseudonymization/storage"

	"verif/envl"
	"verif/ev"
	"verif/fx"
)

// Tokens: the stored-record decoders (TokenValueFromData, ExtractMetadata), the production
// detokenization stack reading a damaged stored record (encrypted storage wrapper ->
// TokenValueFromData -> typed decode), and the token generators reached the way the proxies
// reach them (DataTokenizer.Tokenize) for every token type and every value length 0..16.

const tokenSchemaYAML = `
schemas:
  - table: tk
    columns: [i32, i64, str, bytes, email, ci32, ci64, cstr, cbytes, cemail]
    encrypted:
      - column: i32
        token_type: int32
        tokenized: true
      - column: i64
        token_type: int64
        tokenized: true
      - column: str
        token_type: str
        tokenized: true
      - column: bytes
        token_type: bytes
        tokenized: true
      - column: email
        token_type: email
        tokenized: true
      - column: ci32
        token_type: int32
        tokenized: true
        consistent_tokenization: true
      - column: ci64
        token_type: int64
        tokenized: true
        consistent_tokenization: true
      - column: cstr
        token_type: str
        tokenized: true
        consistent_tokenization: true
      - column: cbytes
        token_type: bytes
        tokenized: true
        consistent_tokenization: true
      - column: cemail
        token_type: email
        tokenized: true
        consistent_tokenization: true
`

var tokenCols = []string{"i32", "i64", "str", "bytes", "email"}

type tokFx struct {
	settings map[string]config.ColumnEncryptionSetting
	enc      storage.TokenEncryptor
	ctx      common.TokenContext
}

func newTokFx(w *fx.World) *tokFx {
	st, err := config.MapTableSchemaStoreFromConfig([]byte(tokenSchemaYAML), false)
	if err != nil {
		ev.Fatalf("token schema: %v", err)
	}
	t := &tokFx{settings: map[string]config.ColumnEncryptionSetting{}, ctx: common.TokenContext{ClientID: fx.Alpha}}
	ts := st.GetTableSchema("tk")
	for _, c := range tokenCols {
		for _, p := range []string{"", "c"} {
			s := ts.GetColumnEncryptionSettings(p + c)
			if s == nil {
				ev.Fatalf("no token setting %s", p+c)
			}
			t.settings[p+c] = s
		}
	}
	t.enc, err = storage.NewSCellEncryptor(w.KS)
	if err != nil {
		ev.Fatalf("token encryptor: %v", err)
	}
	return t
}

// fixedStorage: the untrusted storage backend; Get returns the bytes under test, Save records.
type fixedStorage struct {
	record []byte
	saved  [][]byte
}

func (s *fixedStorage) Save(id []byte, ctx common.TokenContext, data []byte) error {
	s.saved = append(s.saved, append([]byte(nil), data...))
	return nil
}
func (s *fixedStorage) Get(id []byte, ctx common.TokenContext) ([]byte, error) {
	if s.record == nil {
		return nil, common.ErrTokenNotFound
	}
	return s.record, nil
}
func (s *fixedStorage) Stat(id []byte, ctx common.TokenContext) (common.TokenMetadata, error) {
	return common.TokenMetadata{}, common.ErrTokenNotFound
}
func (s *fixedStorage) SetAccessTimeGranularity(time.Duration) error { return nil }
func (s *fixedStorage) VisitMetadata(cb func(dataLength int, metadata common.TokenMetadata) (common.TokenAction, error)) error {
	return nil
}

func (t *tokFx) tokenizer(st common.TokenStorage) *pseudonymization.DataTokenizer {
	p, err := pseudonymization.NewPseudoanonymizer(storage.WrapStorageWithEncryption(st, t.enc))
	if err != nil {
		ev.Fatalf("pseudoanonymizer: %v", err)
	}
	dt, err := pseudonymization.NewDataTokenizer(p)
	if err != nil {
		ev.Fatalf("tokenizer: %v", err)
	}
	return dt
}

var tokenPlain = map[string][]byte{"i32": []byte("12345"), "i64": []byte("1234567890123"), "str": []byte("hello world"), "bytes": []byte("\x00\x01binary\xff"), "email": []byte("someone@example.com")}

// makeTokenSeeds: tokenises one value per type through the production stack and keeps the
// stored (encrypted) record and the token handed out.
func makeTokenSeeds(w *fx.World, seeds map[string][]byte) {
	t := newTokFx(w)
	for _, c := range tokenCols {
		st := &fixedStorage{}
		tok, err := t.tokenizer(st).Tokenize(tokenPlain[c], t.ctx, t.settings[c])
		if err != nil || len(st.saved) == 0 {
			ev.Fatalf("token seed %s: %v", c, err)
		}
		seeds["tok/token/"+c] = tok
		seeds["tok/record/"+c] = st.saved[0]
	}
	seeds["tok/value"], _ = common.EncodeTokenValue(&common.TokenValue{Value: []byte("12345678"), Type: common.TokenType_Int64})
	seeds["tok/meta"] = common.EmbedMetadata([]byte("0123456789abcdef"), common.TokenMetadata{Created: time.Unix(1600000000, 0), Accessed: time.Unix(1700000000, 0), Disabled: true})
}

func (e *Env) tokenSpaces(thorough bool) []*Space {
	if e.tok == nil {
		e.tok = newTokFx(e.W)
	}
	t := e.tok
	var out []*Space

	// 1. record decoders
	recDecs := []*Decoder{
		e.dec("common.TokenValueFromData", func(in []byte) (string, error) {
			v, err := common.TokenValueFromData(in)
			if err == nil {
				_ = v.GetValue()
				_ = common.ValidateTokenType(v.GetType())
			}
			return "", err
		}),
		e.dec("common.ExtractMetadata", func(in []byte) (string, error) {
			d, m, err := common.ExtractMetadata(in)
			if err == nil {
				_ = m.AccessedBefore(time.Unix(0, 0), time.Hour)
				_ = common.EmbedMetadata(d, m)
			}
			return "", err
		}),
	}
	pbA := alphabet{Name: "protobuf", Tok: [][]byte{{0x08}, {0x0A}, {0x10}, {0x12}, {0x18}, {0x20}, {0x0D}, {0x09}, {0x0B}, {0x0C}, {0x00}, {0x01}, {0x04}, {0x7F}, {0x80}, {0xFF}, {0xFF, 0xFF, 0xFF, 0xFF, 0x0F}, {0xFF, 0xFF, 0xFF, 0xFF, 0xFF, 0xFF, 0xFF, 0xFF, 0xFF, 0x01}, {'a'}}}
	l := 4
	if thorough {
		l = 5
	}
	out = append(out, e.sigma("tokens", "token-records", pbA, l, recDecs, nil, nil)...)
	// protobuf has no fixed layout: "fields" = every byte of a valid record set to every
	// boundary octet, times every truncation
	var items []editT
	for _, sn := range []string{"tok/value", "tok/meta"} {
		s := e.seed(sn)
		for i := range s {
			for _, v := range []byte{0x00, 0x01, 0x7F, 0x80, 0xFF, s[i] + 1, s[i] - 1} {
				d := append([]byte(nil), s...)
				d[i] = v
				for tr := 0; tr <= len(d); tr++ {
					items = append(items, editT{fmt.Sprintf("%s byte %d=%#x cut to %d", sn, i, v, tr), d[:tr]})
				}
			}
		}
	}
	out = append(out, listSpace("tokens", "token-records/fields", items, recDecs))

	// 2. production detokenization stack on a damaged stored record
	detok := e.dec("pseudonymization.Detokenize[stored record]", func(in []byte) (string, error) {
		if len(in) == 0 {
			return "noop", nil
		}
		c := tokenCols[int(in[0])%len(tokenCols)]
		st := &fixedStorage{record: in[1:]}
		_, err := t.tokenizer(st).Detokenize(e.seed("tok/token/"+c), t.ctx, t.settings[c])
		return c, err
	})
	var recSeeds []seedT
	for ci, c := range tokenCols {
		rec := e.seed("tok/record/" + c)
		data := append([]byte{byte(ci)}, rec...)
		var fs []fld
		for _, f := range envl.Fields(envl.BlockRaw, rec) {
			if f.Numeric {
				fs = append(fs, fld{f.Name, f.Off + 1, f.Len, false})
			}
		}
		recSeeds = append(recSeeds, seedT{"stored " + c + " token record", data, fs})
		// the record of one type served for a token of every other type
		for cj := range tokenCols {
			if cj != ci {
				recSeeds = append(recSeeds, seedT{fmt.Sprintf("stored %s token record read as %s", c, tokenCols[cj]), append([]byte{byte(cj)}, rec...), nil})
			}
		}
	}
	out = append(out, e.fieldSpace("tokens", "token-storage", recSeeds, thorough, []*Decoder{detok}))

	// 3. generators: every token type x (consistent?) x every value length 0..16
	gen := e.dec("pseudonymization.Tokenize", func(in []byte) (string, error) {
		if len(in) < 2 {
			return "noop", nil
		}
		c := tokenCols[int(in[0])%len(tokenCols)]
		if in[1]&1 == 1 {
			c = "c" + c
		}
		st := &fixedStorage{}
		dt := t.tokenizer(st)
		tok, err := dt.Tokenize(in[2:], t.ctx, t.settings[c])
		if err != nil {
			return c, err
		}
		// and back: the token is looked up (storage answers with the record just saved)
		if len(st.saved) > 0 {
			st.record = st.saved[0]
			if _, err := dt.Detokenize(tok, t.ctx, t.settings[c]); err != nil {
				return c + ":detokenize-error", nil
			}
		}
		if len(tok) != len(in[2:]) && (strings.HasSuffix(c, "str") || strings.HasSuffix(c, "bytes") || strings.HasSuffix(c, "email")) {
			return c + ":length-changed", nil
		}
		return c, nil
	})
	var gitems []editT
	for ci, c := range tokenCols {
		for cons := 0; cons < 2; cons++ {
			var vals [][]byte
			for n := 0; n <= 16; n++ {
				switch c {
				case "i32", "i64":
					vals = append(vals, []byte(strings.Repeat("7", n)))
					if n > 0 {
						vals = append(vals, []byte("-"+strings.Repeat("7", n-1)))
					}
				case "email":
					vals = append(vals, []byte(strings.Repeat("a", n)))
					if n >= 3 {
						v := []byte(strings.Repeat("a", n))
						v[n/2] = '@'
						vals = append(vals, v)
					}
				default:
					vals = append(vals, []byte(strings.Repeat("a", n)), []byte(strings.Repeat("\xff", n)))
				}
			}
			if c == "i32" || c == "i64" {
				for _, s := range []string{"0", "-0", "+1", "2147483647", "2147483648", "-2147483648", "-2147483649", "4294967295", "4294967296",
					"9223372036854775807", "9223372036854775808", "-9223372036854775808", "-9223372036854775809", "18446744073709551615", "1e3", "0x10", " 1", "1 "} {
					vals = append(vals, []byte(s))
				}
			}
			for _, v := range vals {
				d := append([]byte{byte(ci), byte(cons)}, v...)
				gitems = append(gitems, editT{fmt.Sprintf("token type %s consistent=%d value %q (%d bytes)", c, cons, v, len(v)), d})
			}
		}
	}
	e.boundInfo["token-generators"] = "5 token types x {random, consistent} x value lengths 0..16 (+ integer boundary literals)"
	out = append(out, listSpace("tokens", "token-generators", gitems, []*Decoder{gen}))
	return out
}
