package main

import (
	"bytes"
	"fmt"
	"os"
	"path/filepath"
	"regexp"
	"sort"
	"strings"
	"sync"
	"time"

	"github.com/sirupsen/logrus"

	acracensor "github.com/cossacklabs/acra/acra-censor"
	"github.com/cossacklabs/acra/sqlparser"

	"verif/ev"
	"verif/fx"
	"verif/sqlgen"
)

// capture records everything logrus emits: through a hook (level, message, every field
// formatted with %v - errors give their message) and through the output writer (the line as
// the formatter renders it).
type capture struct {
	mu      sync.Mutex
	entries []string
	out     bytes.Buffer
}

func (c *capture) Levels() []logrus.Level { return logrus.AllLevels }

func (c *capture) Fire(e *logrus.Entry) error {
	var sb strings.Builder
	sb.WriteString(e.Level.String())
	sb.WriteString("|")
	sb.WriteString(e.Message)
	keys := make([]string, 0, len(e.Data))
	for k := range e.Data {
		keys = append(keys, k)
	}
	sort.Strings(keys)
	for _, k := range keys {
		fmt.Fprintf(&sb, "|%s=%v", k, e.Data[k])
	}
	c.mu.Lock()
	c.entries = append(c.entries, sb.String())
	c.mu.Unlock()
	return nil
}

func (c *capture) Write(p []byte) (int, error) {
	c.mu.Lock()
	c.out.Write(p)
	c.mu.Unlock()
	return len(p), nil
}

// take returns and clears what was captured since the last call.
func (c *capture) take() (entries []string, formatted string) {
	c.mu.Lock()
	defer c.mu.Unlock()
	entries, c.entries = c.entries, nil
	formatted = c.out.String()
	c.out.Reset()
	return
}

// censorConfig is one firewall configuration, written as the YAML an operator would write.
type censorConfig struct {
	Name        string
	YAML        string // %DIR% is replaced by the scratch directory
	CaptureFile string // query_capture file to inspect when the censor is released ("" = none)
}

func censorConfigs() []censorConfig {
	marker := "'" + sqlgen.MarkerLetters + "aa'"
	return []censorConfig{
		{Name: "no-handlers", YAML: "version: 0.85.0\nignore_parse_error: false\n"},
		{Name: "allow", YAML: "version: 0.85.0\nignore_parse_error: false\nhandlers:\n  - handler: allow\n    queries:\n      - select a from t where a = " + marker + "\n    tables:\n      - t\n    patterns:\n      - select %%VALUE%% from u\n      - insert into t (a, b) values (%%VALUE%%, %%VALUE%%)\n"},
		{Name: "deny", YAML: "version: 0.85.0\nignore_parse_error: false\nhandlers:\n  - handler: deny\n    queries:\n      - select a from t where a = " + marker + "\n    tables:\n      - u\n    patterns:\n      - select a from t where a = %%VALUE%%\n      - select %%COLUMN%% from t %%WHERE%%\n      - update t set a = %%VALUE%%\n"},
		{Name: "query_capture", YAML: "version: 0.85.0\nignore_parse_error: false\nhandlers:\n  - handler: query_capture\n    filepath: %DIR%/captured.log\n", CaptureFile: "captured.log"},
		{Name: "query_ignore", YAML: "version: 0.85.0\nignore_parse_error: false\nhandlers:\n  - handler: query_ignore\n    queries:\n      - select a from t where a = " + marker + "\n      - select a from t limit 987650001\n  - handler: denyall\n"},
		{Name: "allowall", YAML: "version: 0.85.0\nignore_parse_error: false\nhandlers:\n  - handler: allowall\n"},
		{Name: "denyall", YAML: "version: 0.85.0\nignore_parse_error: false\nhandlers:\n  - handler: denyall\n"},
		{Name: "deny+ignore_parse_error+parse_errors_log", YAML: "version: 0.85.0\nignore_parse_error: true\nparse_errors_log: %DIR%/unparsed1.log\nhandlers:\n  - handler: deny\n    tables:\n      - u\n  - handler: allowall\n"},
		{Name: "capture+allow+deny+parse_errors_log", YAML: "version: 0.85.0\nignore_parse_error: false\nparse_errors_log: %DIR%/unparsed2.log\nhandlers:\n  - handler: query_capture\n    filepath: %DIR%/captured2.log\n  - handler: query_ignore\n    queries:\n      - commit\n  - handler: allow\n    tables:\n      - t\n  - handler: deny\n    tables:\n      - u\n", CaptureFile: "captured2.log"},
	}
}

func configNames() []string {
	var n []string
	for _, c := range censorConfigs() {
		n = append(n, c.Name)
	}
	return n
}

type liveCensor struct {
	cfg    censorConfig
	censor *acracensor.AcraCensor
	dir    string
}

// env is the per-process world: log capture, parsers, censors.
type env struct {
	cap      *capture
	strict   *sqlparser.Parser
	deflt    *sqlparser.Parser
	censors  []*liveCensor
	root     string
	gen      int
	handled  int
	typeLeak map[string]bool // spellings that leak in the simplest statement (cause = literal kind)
}

var levels = []logrus.Level{logrus.DebugLevel, logrus.InfoLevel}

func newEnv() *env {
	e := &env{cap: &capture{}, strict: sqlparser.New(sqlparser.ModeStrict), deflt: sqlparser.New(sqlparser.ModeDefault),
		root: fx.Scratch("c16w"), typeLeak: map[string]bool{}}
	logrus.SetOutput(e.cap)
	logrus.SetFormatter(&logrus.TextFormatter{DisableColors: true, DisableTimestamp: true})
	logrus.AddHook(e.cap)
	logrus.SetLevel(logrus.DebugLevel)
	e.buildCensors()
	return e
}

// buildCensors loads every configuration through the real YAML loader.
func (e *env) buildCensors() {
	e.gen++
	for _, cfg := range censorConfigs() {
		dir := filepath.Join(e.root, fmt.Sprintf("g%d-%s", e.gen, strings.NewReplacer("+", "_", "/", "_").Replace(cfg.Name)))
		if err := os.MkdirAll(dir, 0o700); err != nil {
			ev.Fatalf("scratch: %v", err)
		}
		c := acracensor.NewAcraCensor()
		if err := c.LoadConfiguration([]byte(strings.ReplaceAll(cfg.YAML, "%DIR%", dir))); err != nil {
			ev.Fatalf("censor configuration %s does not load: %v", cfg.Name, err)
		}
		e.censors = append(e.censors, &liveCensor{cfg: cfg, censor: c, dir: dir})
	}
}

// recycle releases all censors (the query writers dump their files), inspects the query
// capture files for markers and builds fresh censors. Bounds the writers' quadratic
// duplicate search.
func (e *env) recycle(col *sqlgen.Collector, rebuild bool) {
	for _, lc := range e.censors {
		lc.censor.ReleaseAll()
	}
	for _, lc := range e.censors {
		if lc.cfg.CaptureFile == "" {
			continue
		}
		p := filepath.Join(lc.dir, lc.cfg.CaptureFile)
		// the writer goroutine dumps asynchronously after ReleaseAll: wait (bounded) until the
		// file stops growing; this only drains, it decides nothing
		var last int64 = -1
		stable := 0
		for i := 0; i < 150 && stable < 3; i++ {
			time.Sleep(10 * time.Millisecond)
			st, err := os.Stat(p)
			if err == nil && st.Size() == last {
				stable++
			} else {
				stable = 0
			}
			if err == nil {
				last = st.Size()
			}
		}
		b, _ := os.ReadFile(p)
		col.Eval(1)
		if core := sqlgen.ContainsMarker(string(b)); core != "" {
			line := ""
			for _, l := range strings.Split(string(b), "\n") {
				if sqlgen.ContainsMarker(l) != "" {
					line = l
					break
				}
			}
			col.Violation("C16/query-capture-file/literal-in-captured-query"+captureClass(string(b)),
				fmt.Sprintf("[%s] the query_capture file of configuration %s contains a marker literal: %s", sqlgen.Current, lc.cfg.Name, trunc(line, 300)), nil)
		}
		col.Class("capture-file-checked", 1)
	}
	for _, lc := range e.censors {
		os.RemoveAll(lc.dir)
	}
	e.censors = nil
	if rebuild {
		e.buildCensors()
	}
}

func (e *env) close(col *sqlgen.Collector) {
	e.recycle(col, false)
	os.RemoveAll(e.root)
}

func trunc(s string, n int) string {
	if len(s) > n {
		return s[:n] + "…"
	}
	return s
}

func setLevel(l logrus.Level) { logrus.SetLevel(l) }

var (
	hexNumberMarker  = regexp.MustCompile(`(?i)0x` + sqlgen.MarkerDigits)
	longIntMarker    = regexp.MustCompile(sqlgen.MarkerDigits + `[0-9]{20,}`)
	markerWithPrefix = regexp.MustCompile(`(?i)(0x)?(` + sqlgen.MarkerLetters + `|` + sqlgen.MarkerDigits + `[0-9]*|` + regexp.QuoteMeta(sqlgen.MarkerExp) + `|` + sqlgen.MarkerBits + `)`)
)

// captureClass narrows the finding key when EVERY marker left in the capture file is of one of
// the two literal kinds that Acra's own parser tests require to stay as they are (0x.. numbers
// and integers beyond int64); any other marker keeps the plain key.
func captureClass(content string) string {
	kinds := map[string]bool{}
	for _, m := range markerWithPrefix.FindAllString(content, -1) {
		switch {
		case hexNumberMarker.MatchString(m):
			kinds["hex-number"] = true
		case longIntMarker.MatchString(m):
			kinds["integer-beyond-int64"] = true
		default:
			return ""
		}
	}
	if len(kinds) == 0 {
		return ""
	}
	return "/only-hex-numbers-and-integers-beyond-int64"
}
