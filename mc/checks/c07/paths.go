package main

import (
	"bytes"
	"crypto/sha256"
	"encoding/hex"
	"fmt"
	"os"
	"path/filepath"
	"runtime/debug"
	"sort"
	"strings"
	"sync"
	"syscall"
	"time"

	"github.com/cossacklabs/themis/gothemis/keys"

	"github.com/cossacklabs/acra/keystore"
	"github.com/cossacklabs/acra/keystore/filesystem"
	keystoreV2 "github.com/cossacklabs/acra/keystore/v2/keystore"
	apiV2 "github.com/cossacklabs/acra/keystore/v2/keystore/api"
	cryptoV2 "github.com/cossacklabs/acra/keystore/v2/keystore/crypto"
	filesystemV2 "github.com/cossacklabs/acra/keystore/v2/keystore/filesystem"
	backendV2 "github.com/cossacklabs/acra/keystore/v2/keystore/filesystem/backend"

	"verif/ev"
	"verif/kslab"
	"verif/par"
)

// ---------------------------------------------------------------- hostile paths

// "root.old": the name of a sibling of the key store root that has the root's own name as a
// string prefix ("../root.old/x" leaves the root although the joined path still starts with it)
var hostileComponents = []string{"a", "..", ".", "", "a/b", "/abs", "a\\..\\b", "..\\..", "a\x00b", "root.old"}

// hostilePaths: every distinct string made of 1..n components joined with "/".
func hostilePaths(n int) []string {
	seen := map[string]bool{}
	var out []string
	var rec func(prefix string, depth int)
	rec = func(prefix string, depth int) {
		for _, c := range hostileComponents {
			p := c
			if depth > 0 {
				p = prefix + "/" + c
			}
			if !seen[p] {
				seen[p] = true
				out = append(out, p)
			}
			if depth+1 < n {
				rec(p, depth+1)
			}
		}
	}
	rec("", 0)
	sort.Strings(out)
	return out
}

// pathClass classifies the effective relative path an operation derives from its argument.
func pathClass(effective string, backslashIsSeparator bool) string {
	q := effective
	if backslashIsSeparator {
		q = strings.ReplaceAll(q, "\\", "/")
	}
	j := filepath.Clean(filepath.Join("r", q))
	switch {
	case j != "r" && !strings.HasPrefix(j, "r/"):
		return "dotdot-escape" // also when a later component holds a NUL: the directories before it are created
	case strings.Contains(effective, "\x00"):
		return "nul-byte"
	case j == "r":
		return "root-itself"
	case strings.Contains("/"+q+"/", "/../"):
		return "dotdot-inside"
	}
	return "plain"
}

func worstClass(a, b string) string {
	rank := map[string]int{"plain": 0, "dotdot-inside": 1, "root-itself": 2, "nul-byte": 3, "dotdot-escape": 4}
	if rank[b] > rank[a] {
		return b
	}
	return a
}

// ---------------------------------------------------------------- sandbox

const marker = "C07-CANARY-MARKER"

var t0 = time.Unix(1_000_000_000, 0)

const sandboxLevels = 7 // root is <base>/l1/.../l7/root: paths with up to 6 ".." stay inside <base>

type entry struct {
	Dir   bool
	Size  int64
	Hash  string
	Mtime int64
	Atime int64
	Mode  os.FileMode
}

type sandbox struct {
	target   string
	base     string // private scratch directory
	root     string
	pristine map[string]entry // path relative to base -> entry (outside and inside the root)
	rootRel  string
	atimeOK  bool

	be   *backendV2.DirectoryBackend
	v2ll apiV2.MutableKeyStore
	ks   kslab.KS
	keyA map[string]bool // key values of the legitimate client "a" inside the root
}

func levelDir(base string, i int) string {
	p := base
	for l := 1; l <= i; l++ {
		p = filepath.Join(p, fmt.Sprintf("l%d", l))
	}
	return p
}

func canaryNames() []string {
	n := []string{"storage.keyring", "storage-sym.keyring", "hmac-sym.keyring"}
	for _, stem := range []string{"a", "b", "", "..", "."} {
		for _, suf := range []string{"_storage", "_storage.pub", "_storage_sym", "_hmac"} {
			n = append(n, stem+suf)
		}
	}
	return n
}

func mustWrite(path, label string) {
	if err := os.WriteFile(path, []byte(marker+":"+label), 0o600); err != nil {
		ev.Fatalf("sandbox: %v", err)
	}
}

func mustMkdir(path string) {
	if err := os.MkdirAll(path, 0o700); err != nil {
		ev.Fatalf("sandbox: %v", err)
	}
}

// build (re)creates the whole sandbox: canary levels outside, a fresh key store root inside.
func (sb *sandbox) build() {
	sb.closeHandles()
	top := filepath.Join(sb.base, "l1")
	if err := os.RemoveAll(top); err != nil {
		ev.Fatalf("sandbox: %v", err)
	}
	for i := 1; i <= sandboxLevels; i++ {
		d := levelDir(sb.base, i)
		mustMkdir(d)
		mustWrite(filepath.Join(d, "canary.txt"), fmt.Sprintf("l%d", i))
		// level 7 (the parent of the root) = directory "a" full of canaries; level 6 = file "a";
		// levels 5..1 = nothing else (names an escaping write can create)
		switch i {
		case 7:
			for _, n := range canaryNames() {
				mustWrite(filepath.Join(d, n), fmt.Sprintf("l%d/%s", i, n))
			}
			mustMkdir(filepath.Join(d, "a"))
			for _, n := range append([]string{"a", "b"}, canaryNames()...) {
				mustWrite(filepath.Join(d, "a", n), fmt.Sprintf("l%d/a/%s", i, n))
			}
		case 6:
			for _, n := range append([]string{"a"}, canaryNames()...) {
				mustWrite(filepath.Join(d, n), fmt.Sprintf("l%d/%s", i, n))
			}
		}
	}
	sb.root = filepath.Join(levelDir(sb.base, sandboxLevels), "root")
	sb.rootRel, _ = filepath.Rel(sb.base, sb.root)
	sb.openTarget(true)
	sb.resetTimes()
	sb.pristine = sb.walk(true) // reads every file: reset the access times once more
	sb.resetTimes()
}

// rebuildInside recreates only the key store root (the outside is known to be untouched).
func (sb *sandbox) rebuildInside() {
	sb.closeHandles()
	if err := os.RemoveAll(sb.root); err != nil {
		ev.Fatalf("sandbox: %v", err)
	}
	sb.openTarget(true)
	for rel := range sb.pristine {
		if sb.inside(rel) {
			delete(sb.pristine, rel)
		}
	}
	for rel, e := range sb.walk(false) {
		if sb.inside(rel) {
			sb.pristine[rel] = e
		}
	}
	// removing and creating the root changed the times of its parent directory
	parent := filepath.Dir(sb.root)
	if err := os.Chtimes(parent, t0, t0); err != nil {
		ev.Fatalf("sandbox: chtimes: %v", err)
	}
}

func (sb *sandbox) closeHandles() {
	defer func() { recover() }()
	if sb.v2ll != nil {
		sb.v2ll.Close()
		sb.v2ll = nil
	} else if sb.be != nil {
		sb.be.Close()
	}
	sb.be, sb.ks = nil, nil
}

// openTarget opens the real object under test on sb.root; populate creates the legitimate
// content (backend: key path a/b; key stores: keys of client "a").
func (sb *sandbox) openTarget(populate bool) {
	var err error
	switch sb.target {
	case "v2-directory-backend":
		if sb.be, err = backendV2.CreateDirectoryBackend(sb.root); err != nil {
			ev.Fatalf("sandbox: directory back end: %v", err)
		}
		if populate {
			if err = sb.be.Put("a/b", []byte("legitimate ring data")); err != nil {
				ev.Fatalf("sandbox: %v", err)
			}
		}
	case "v2-server-keystore-dir":
		if sb.be, err = backendV2.CreateDirectoryBackend(sb.root); err != nil {
			ev.Fatalf("sandbox: directory back end: %v", err)
		}
		suite, err := cryptoV2.NewSCellSuite(append([]byte(nil), kslab.MasterKeyV2Enc...), append([]byte(nil), kslab.MasterKeyV2Sig...))
		if err != nil {
			ev.Fatalf("sandbox: %v", err)
		}
		if sb.v2ll, err = filesystemV2.CustomKeyStore(sb.be, suite); err != nil {
			ev.Fatalf("sandbox: %v", err)
		}
		sb.ks = keystoreV2.NewServerKeyStore(sb.v2ll)
	case "v1-keystore-dir":
		mustMkdir(sb.root)
		enc, _ := keystore.NewSCellKeyEncryptor(append([]byte(nil), kslab.MasterKeyV1...))
		v1, err := filesystem.NewCustomFilesystemKeyStore().KeyDirectory(sb.root).Storage(&filesystem.FileStorage{}).Encryptor(enc).CacheSize(keystore.WithoutCache).Build()
		if err != nil {
			ev.Fatalf("sandbox: v1 key store: %v", err)
		}
		sb.ks = v1
		if populate {
			kp, err := keys.New(keys.TypeEC)
			if err != nil {
				ev.Fatalf("sandbox: %v", err)
			}
			if err = v1.SaveDataEncryptionKeys([]byte("a"), kp); err != nil { // GenerateDataEncryptionKeys insists on ids of 5+ characters
				ev.Fatalf("sandbox: %v", err)
			}
		}
	default:
		ev.Fatalf("sandbox: unknown target %q", sb.target)
	}
	if sb.ks != nil && populate {
		a := []byte("a")
		if sb.target != "v1-keystore-dir" {
			if err := sb.ks.GenerateDataEncryptionKeys(a); err != nil {
				ev.Fatalf("sandbox: %v", err)
			}
		}
		if err := sb.ks.GenerateClientIDSymmetricKey(a); err != nil {
			ev.Fatalf("sandbox: %v", err)
		}
		if err := sb.ks.GenerateHmacKey(a); err != nil {
			ev.Fatalf("sandbox: %v", err)
		}
		sb.keyA = map[string]bool{}
		if k, err := sb.ks.GetServerDecryptionPrivateKey(a); err == nil {
			sb.keyA[string(k.Value)] = true
		}
		if k, err := sb.ks.GetClientIDEncryptionPublicKey(a); err == nil {
			sb.keyA[string(k.Value)] = true
		}
		if k, err := sb.ks.GetClientIDSymmetricKey(a); err == nil {
			sb.keyA[string(k)] = true
		}
		if k, err := sb.ks.GetHMACSecretKey(a); err == nil {
			sb.keyA[string(k)] = true
		}
		if len(sb.keyA) != 4 {
			ev.Fatalf("sandbox: keys of the legitimate client do not load on %s", sb.target)
		}
	}
}

func (sb *sandbox) inside(rel string) bool {
	return rel == sb.rootRel || strings.HasPrefix(rel, sb.rootRel+string(os.PathSeparator))
}

// walk lists the whole sandbox. Files outside the root are hashed (this touches their access
// times: call resetTimes afterwards); with outside=false only the root subtree is walked.
func (sb *sandbox) walk(outside bool) map[string]entry {
	out := map[string]entry{}
	top := filepath.Join(sb.base, "l1")
	if !outside {
		top = sb.root
	}
	err := filepath.Walk(top, func(p string, fi os.FileInfo, err error) error {
		if err != nil {
			return err
		}
		rel, _ := filepath.Rel(sb.base, p)
		e := entry{Dir: fi.IsDir(), Mode: fi.Mode(), Mtime: fi.ModTime().UnixNano()}
		if st, ok := fi.Sys().(*syscall.Stat_t); ok {
			e.Atime = st.Atim.Sec*1e9 + st.Atim.Nsec
		}
		if fi.Mode().IsRegular() {
			e.Size = fi.Size()
			if !sb.inside(rel) {
				data, err := os.ReadFile(p)
				if err != nil {
					return err
				}
				h := sha256.Sum256(data)
				e.Hash = hex.EncodeToString(h[:8])
			}
		}
		out[rel] = e
		return nil
	})
	if err != nil {
		ev.Fatalf("sandbox walk: %v", err)
	}
	return out
}

// glance is the cheap per-operation check (lstat of every known path, nothing is read):
// which outside entries were accessed, whether anything outside changed (size, mtime, mode,
// existence; a created or removed entry changes the mtime of its directory) and whether
// anything inside changed.
func (sb *sandbox) glance() (accessed []string, outsideChanged, insideChanged bool) {
	for rel, p := range sb.pristine {
		in := sb.inside(rel)
		fi, err := os.Lstat(filepath.Join(sb.base, rel))
		if err != nil {
			if in {
				insideChanged = true
			} else {
				outsideChanged = true
			}
			continue
		}
		changed := fi.IsDir() != p.Dir || fi.Mode() != p.Mode || fi.ModTime().UnixNano() != p.Mtime || (!p.Dir && fi.Size() != p.Size)
		if in {
			insideChanged = insideChanged || changed
			continue
		}
		outsideChanged = outsideChanged || changed
		if st, ok := fi.Sys().(*syscall.Stat_t); ok && sb.atimeOK {
			if at := st.Atim.Sec*1e9 + st.Atim.Nsec; at != t0.UnixNano() {
				accessed = append(accessed, rel)
			}
		}
	}
	sort.Strings(accessed)
	return
}

// resetTimes gives every outside entry the fixed old access and modification time (the
// change time becomes "now", so with relatime the next read updates the access time).
func (sb *sandbox) resetTimes() {
	top := filepath.Join(sb.base, "l1")
	filepath.Walk(top, func(p string, fi os.FileInfo, err error) error {
		if err != nil {
			return nil
		}
		rel, _ := filepath.Rel(sb.base, p)
		if sb.inside(rel) {
			if fi.IsDir() && rel == sb.rootRel {
				return filepath.SkipDir
			}
			return nil
		}
		if err := os.Chtimes(p, t0, t0); err != nil {
			ev.Fatalf("sandbox: chtimes: %v", err)
		}
		return nil
	})
}

// diff compares the current tree with the pristine one: changes outside the root, and
// whether anything inside changed (the sandbox is rebuilt then).
func (sb *sandbox) diff(now map[string]entry) (outside []string, insideChanged bool) {
	note := func(rel, what string) {
		if sb.inside(rel) {
			insideChanged = true
			return
		}
		outside = append(outside, what+" "+rel)
	}
	for rel, e := range now {
		p, ok := sb.pristine[rel]
		switch {
		case !ok:
			note(rel, "created")
		case p.Dir != e.Dir || p.Size != e.Size || p.Hash != e.Hash || p.Mode != e.Mode:
			note(rel, "modified")
		case !sb.inside(rel) && p.Mtime != e.Mtime:
			note(rel, "modified(mtime)")
		}
	}
	for rel := range sb.pristine {
		if _, ok := now[rel]; !ok {
			note(rel, "removed")
		}
	}
	sort.Strings(outside)
	return outside, insideChanged
}

var (
	sbMu      sync.Mutex
	sbFree    = map[string][]*sandbox{}
	sbAll     []*sandbox
	atimeWork = false
)

func atimeSelfTest(dir string) bool {
	p := filepath.Join(dir, "atime-probe")
	if os.WriteFile(p, []byte("x"), 0o600) != nil {
		return false
	}
	defer os.Remove(p)
	if os.Chtimes(p, t0, t0) != nil {
		return false
	}
	if _, err := os.ReadFile(p); err != nil {
		return false
	}
	fi, err := os.Lstat(p)
	if err != nil {
		return false
	}
	st, ok := fi.Sys().(*syscall.Stat_t)
	return ok && st.Atim.Sec*1e9+st.Atim.Nsec != t0.UnixNano()
}

func getSandbox(target string) *sandbox {
	sbMu.Lock()
	if l := sbFree[target]; len(l) > 0 {
		sb := l[len(l)-1]
		sbFree[target] = l[:len(l)-1]
		sbMu.Unlock()
		return sb
	}
	sbMu.Unlock()
	base, err := kslab.Scratch("c07-path")
	if err != nil {
		ev.Fatalf("scratch: %v", err)
	}
	sb := &sandbox{target: target, base: base, atimeOK: atimeWork}
	sbMu.Lock()
	sbAll = append(sbAll, sb)
	sbMu.Unlock()
	sb.build()
	return sb
}

func putSandbox(sb *sandbox) {
	sbMu.Lock()
	sbFree[sb.target] = append(sbFree[sb.target], sb)
	sbMu.Unlock()
}

func removeSandboxes() {
	sbMu.Lock()
	defer sbMu.Unlock()
	for _, sb := range sbAll {
		sb.closeHandles()
		// backstop for the cheap per-operation look: the content hashes of everything outside
		// the root still equal the pristine ones
		if outside, _ := sb.diff(sb.walk(true)); len(outside) > 0 {
			real := outside[:0]
			for _, d := range outside {
				if !strings.HasPrefix(d, "modified(mtime) ") {
					real = append(real, d)
				}
			}
			if len(real) > 0 {
				run.Violation("C07/path/"+sb.target+"/unattributed/outside-content-changed", "files outside the key store root changed without a change of size, mode or modification time that the per-operation check could attribute: "+strings.Join(real, "; "), replayT{Part: "path", Target: sb.target})
			}
		}
		os.RemoveAll(sb.base)
	}
	sbAll, sbFree = nil, map[string][]*sandbox{}
}

// ---------------------------------------------------------------- operations

type pathCase struct {
	target string
	op     string
	args   []string
}

var ksOps = []string{
	"GenerateDataEncryptionKeys", "GenerateClientIDSymmetricKey", "GenerateHmacKey",
	"GetServerDecryptionPrivateKey", "GetServerDecryptionPrivateKeys", "GetClientIDEncryptionPublicKey",
	"GetClientIDSymmetricKey", "GetClientIDSymmetricKeys", "GetHMACSecretKey",
	"DestroyClientIDEncryptionKeyPair", "DestroyClientIDSymmetricKey", "DestroyHmacSecretKey",
	"DestroyRotatedClientIDEncryptionKeyPair", "DestroyRotatedClientIDSymmetricKey", "DestroyRotatedHmacSecretKey",
}

func opClass(target, op string) string {
	if target == "v2-directory-backend" {
		return op
	}
	switch {
	case strings.HasPrefix(op, "Generate"):
		return "generate"
	case strings.HasPrefix(op, "Get"):
		return "get"
	}
	return "destroy"
}

// effective path (relative to the root) an operation derives from its argument, for classification.
func effectiveClass(c pathCase) string {
	switch c.target {
	case "v2-directory-backend":
		cl := pathClass(c.args[0], true)
		if len(c.args) > 1 {
			cl = worstClass(cl, pathClass(c.args[1], true))
		}
		return cl
	case "v2-server-keystore-dir":
		return pathClass(filepath.Join("client", c.args[0], "storage"), true)
	}
	return pathClass(c.args[0]+"_storage", false)
}

// execute runs one operation; returned: everything the caller gets back (data and error text).
func (sb *sandbox) execute(c pathCase) (result [][]byte, err error, panicked string) {
	defer func() {
		if v := recover(); v != nil {
			panicked = fmt.Sprintf("%v\n%s", v, debug.Stack())
		}
	}()
	if c.target == "v2-directory-backend" {
		switch c.op {
		case "Get":
			var d []byte
			d, err = sb.be.Get(c.args[0])
			result = append(result, d)
		case "Put":
			err = sb.be.Put(c.args[0], []byte("hostile put"))
		case "Rename":
			err = sb.be.Rename(c.args[0], c.args[1])
		case "RenameNX":
			err = sb.be.RenameNX(c.args[0], c.args[1])
		}
		return
	}
	id := []byte(c.args[0])
	ks := sb.ks
	priv := func(k *keys.PrivateKey, e error) {
		err = e
		if k != nil {
			result = append(result, k.Value)
		}
	}
	switch c.op {
	case "GenerateDataEncryptionKeys":
		err = ks.GenerateDataEncryptionKeys(id)
	case "GenerateClientIDSymmetricKey":
		err = ks.GenerateClientIDSymmetricKey(id)
	case "GenerateHmacKey":
		err = ks.GenerateHmacKey(id)
	case "GetServerDecryptionPrivateKey":
		priv(ks.GetServerDecryptionPrivateKey(id))
	case "GetServerDecryptionPrivateKeys":
		var l []*keys.PrivateKey
		l, err = ks.GetServerDecryptionPrivateKeys(id)
		for _, k := range l {
			result = append(result, k.Value)
		}
	case "GetClientIDEncryptionPublicKey":
		var k *keys.PublicKey
		k, err = ks.GetClientIDEncryptionPublicKey(id)
		if k != nil {
			result = append(result, k.Value)
		}
	case "GetClientIDSymmetricKey":
		var k []byte
		k, err = ks.GetClientIDSymmetricKey(id)
		result = append(result, k)
	case "GetClientIDSymmetricKeys":
		result, err = ks.GetClientIDSymmetricKeys(id)
	case "GetHMACSecretKey":
		var k []byte
		k, err = ks.GetHMACSecretKey(id)
		result = append(result, k)
	case "DestroyClientIDEncryptionKeyPair":
		err = ks.DestroyClientIDEncryptionKeyPair(id)
	case "DestroyClientIDSymmetricKey":
		err = ks.DestroyClientIDSymmetricKey(id)
	case "DestroyHmacSecretKey":
		err = ks.DestroyHmacSecretKey(id)
	case "DestroyRotatedClientIDEncryptionKeyPair":
		err = ks.DestroyRotatedClientIDEncryptionKeyPair(id, 2)
	case "DestroyRotatedClientIDSymmetricKey":
		err = ks.DestroyRotatedClientIDSymmetricKey(id, 2)
	case "DestroyRotatedHmacSecretKey":
		err = ks.DestroyRotatedHmacSecretKey(id, 2)
	default:
		ev.Fatalf("path: unknown operation %q", c.op)
	}
	return
}

func hexArgs(a []string) []string {
	out := make([]string, len(a))
	for i, s := range a {
		out[i] = hex.EncodeToString([]byte(s))
	}
	return out
}

// pathOracle runs one case on a pristine sandbox and judges it. Demanded: nothing outside
// the root is created, removed or changed; nothing outside is read (access times, marker in
// any returned data or error text); no panic. Left open: whether the call succeeds or which
// error it returns, what happens inside the root (a hostile id that resolves to another
// client's ring inside the root is counted as an observation, not judged here).
func pathOracle(c pathCase, verbose bool) {
	sb := getSandbox(c.target)
	defer putSandbox(sb)
	result, err, panicked := sb.execute(c)
	cl := effectiveClass(c)
	base := fmt.Sprintf("C07/path/%s/%s/%s/", c.target, opClass(c.target, c.op), cl)
	payload := replayT{Part: "path", Target: c.target, PathOp: c.op, Args: hexArgs(c.args)}
	argText := fmt.Sprintf("%s(%q)", c.op, c.args)
	// cheap look first (lstat only); the full comparison with content hashes only when
	// something outside moved
	accessed, outsideChanged, insideChanged := sb.glance()
	var outside []string
	if outsideChanged {
		outside, _ = sb.diff(sb.walk(true))
		if len(outside) == 0 {
			ev.Fatalf("sandbox: lstat saw a change outside the root that the full comparison does not show (%s)", argText)
		}
	}
	if len(outside) > 0 {
		// an entry that was replaced or created carries new times: that is the write, not a read
		kept := accessed[:0]
		for _, rel := range accessed {
			touched := false
			for _, d := range outside {
				if strings.HasSuffix(d, " "+rel) {
					touched = true
				}
			}
			if !touched {
				kept = append(kept, rel)
			}
		}
		accessed = kept
	}
	leaked := false
	for _, d := range result {
		if bytes.Contains(d, []byte(marker)) {
			leaked = true
		}
	}
	if err != nil && strings.Contains(err.Error(), marker) {
		leaked = true
	}
	outcome := errClass(err)
	if panicked != "" {
		outcome = "panic"
		payload.Seen = panicked
		run.Violation(base+"panic", fmt.Sprintf("%s on %s panicked: %s", argText, c.target, strings.SplitN(panicked, "\n", 2)[0]), payload)
	}
	if len(outside) > 0 {
		outcome += "+wrote-outside"
		payload.Seen = strings.Join(outside, "; ")
		run.Violation(base+"wrote-outside-root", fmt.Sprintf("%s on %s (root %s) returned %v and changed files outside the key store root: %s", argText, c.target, sb.rootRel, err, strings.Join(outside, "; ")), payload)
	}
	if leaked {
		outcome += "+returned-outside-content"
		payload.Seen = "canary content returned"
		run.Violation(base+"read-outside-root", fmt.Sprintf("%s on %s (root %s) returned the content of a canary file that lies outside the key store root (err=%v)", argText, c.target, sb.rootRel, err), payload)
	} else if len(accessed) > 0 {
		outcome += "+read-outside"
		payload.Seen = "access time moved: " + strings.Join(accessed, "; ")
		run.Violation(base+"read-outside-root", fmt.Sprintf("%s on %s (root %s) returned %v and read outside the key store root (access time moved): %s", argText, c.target, sb.rootRel, err, strings.Join(accessed, "; ")), payload)
	}
	if sb.keyA != nil && c.args[0] != "a" {
		for _, d := range result {
			if sb.keyA[string(d)] {
				outcome += "+alias-of-client-a"
				run.Class("path:"+c.target+":hostile-id-resolves-to-keys-of-client-a", 1)
				break
			}
		}
	}
	run.Class("path:"+c.target+":"+opClass(c.target, c.op)+":"+cl+":"+outcome, 1)
	run.Distinct("path|" + c.target + "|" + opClass(c.target, c.op) + "|" + cl + "|" + outcome)
	run.Eval(1)
	run.States(1)
	run.Transitions(1)
	run.Traces(1)
	if verbose {
		fmt.Printf("  %s on %s: class %s, err=%v, outside changes %v, accessed %v, marker returned %v\n", argText, c.target, cl, err, outside, accessed, leaked)
	}
	switch {
	case len(outside) > 0 || panicked != "":
		sb.build()
	case insideChanged:
		sb.rebuildInside()
		if len(accessed) > 0 {
			sb.resetTimes()
		}
	case len(accessed) > 0:
		sb.resetTimes()
	}
}

func partPath() {
	base, err := kslab.Scratch("c07-atime")
	if err != nil {
		ev.Fatalf("scratch: %v", err)
	}
	atimeWork = atimeSelfTest(base)
	os.RemoveAll(base)
	defer removeSandboxes()

	all := hostilePaths(3)
	var cases []pathCase
	for _, p := range all {
		cases = append(cases, pathCase{"v2-directory-backend", "Get", []string{p}}, pathCase{"v2-directory-backend", "Put", []string{p}})
	}
	// two-path operations: every hostile path against a small set of partner paths, both
	// directions (thorough: partners up to 2 components)
	partners := append(hostilePaths(1), "a/b/a")
	if run.Thorough() {
		partners = append(hostilePaths(2), "a/b/a")
	}
	seenPair := map[string]bool{}
	for _, p := range all {
		for _, q := range partners {
			for _, pr := range [][2]string{{p, q}, {q, p}} {
				k := pr[0] + "\x01" + pr[1]
				if seenPair[k] {
					continue
				}
				seenPair[k] = true
				cases = append(cases, pathCase{"v2-directory-backend", "Rename", []string{pr[0], pr[1]}}, pathCase{"v2-directory-backend", "RenameNX", []string{pr[0], pr[1]}})
			}
		}
	}
	nBackend := len(cases)
	for _, target := range []string{"v2-server-keystore-dir", "v1-keystore-dir"} {
		for _, p := range all {
			for _, op := range ksOps {
				cases = append(cases, pathCase{target, op, []string{p}})
			}
		}
	}
	n := par.Do(len(cases), run.Expired, func(i int) { pathOracle(cases[i], false) })
	if n < len(cases) {
		run.Capped(fmt.Sprintf("path: %d of %d cases", n, len(cases)))
	}
	detect := "canary marker in results and error texts + access time of every outside file and directory"
	if !atimeWork {
		detect = "canary marker in results and error texts only (the scratch file system does not maintain access times)"
	}
	run.Set("path", map[string]interface{}{
		"components": []string{"a", "..", ".", "(empty)", "a/b", "/abs", "a\\..\\b", "..\\..", "a<NUL>b", "root.old"}, "max_components": 3,
		"distinct_paths": len(all), "backend_cases": nBackend, "keystore_cases": len(cases) - nBackend, "cases_run": n,
		"rename_partners": len(partners), "read_detection": detect, "sandbox_depth": sandboxLevels,
		"keystore_operations": ksOps,
	})
}

func replayPath(c replayT) {
	base, err := kslab.Scratch("c07-atime")
	if err != nil {
		ev.Fatalf("scratch: %v", err)
	}
	atimeWork = atimeSelfTest(base)
	os.RemoveAll(base)
	defer removeSandboxes()
	args := make([]string, len(c.Args))
	for i, a := range c.Args {
		args[i] = string(ev.Unhex(a))
	}
	pathOracle(pathCase{c.Target, c.PathOp, args}, true)
	removeSandboxes()
}

// ---------------------------------------------------------------- file modes

var modeConfigs = []kslab.Config{
	{Format: "v1", Storage: "dir", Cache: keystore.WithoutCache},
	{Format: "v2", Storage: "dir"},
}

// modeHistories: every sequence of length 1..n over {gen, dcur, drot(2)} for one slot.
func modeHistories(sl kslab.Slot, n int) (out [][]kslab.Op) {
	alphabet := []kslab.Op{{Code: kslab.OpGenerate, Kind: sl.Kind, Client: sl.Client}}
	if kslab.Supports(kslab.OpDestroyCurrent, sl.Kind) {
		alphabet = append(alphabet, kslab.Op{Code: kslab.OpDestroyCurrent, Kind: sl.Kind, Client: sl.Client}, kslab.Op{Code: kslab.OpDestroyRotated, Kind: sl.Kind, Client: sl.Client, Index: 2})
	}
	var rec func(h []kslab.Op)
	rec = func(h []kslab.Op) {
		if len(h) > 0 {
			out = append(out, append([]kslab.Op(nil), h...))
		}
		if len(h) == n {
			return
		}
		for _, op := range alphabet {
			rec(append(h, op))
		}
	}
	rec(nil)
	return out
}

// judgeModes: private / symmetric key files and key rings exactly 0600, directories exactly
// 0700. v1 public key files hold no secret: 0644 (what v1 writes) or anything stricter is
// accepted. Bookkeeping files of the v2 directory back end (version, .lock) are not key files.
func judgeModes(cfg kslab.Config, h []kslab.Op, verbose bool) {
	sl := h[0].Slot()
	s, err := kslab.Open(cfg, "modes")
	if err != nil {
		ev.Fatalf("modes: %v", err)
	}
	defer s.Close()
	for _, op := range h {
		switch op.Code {
		case kslab.OpGenerate:
			s.Main.Generate(sl)
		case kslab.OpDestroyCurrent:
			s.Main.DestroyCurrent(sl)
		case kslab.OpDestroyRotated:
			s.Main.DestroyRotated(sl, op.Index)
		}
		run.Transitions(1)
	}
	payload := replayT{Part: "modes", Config: cfg, History: h}
	filepath.Walk(s.Dir, func(p string, fi os.FileInfo, err error) error {
		if err != nil {
			return nil
		}
		rel, _ := filepath.Rel(s.Dir, p)
		perm := fi.Mode().Perm()
		class, ok := "", true
		switch {
		case fi.IsDir():
			class, ok = "directory", perm == 0o700
		case cfg.Format == "v2" && (rel == "version" || rel == ".lock"):
			class = "bookkeeping-file"
		case cfg.Format == "v1" && (strings.HasSuffix(rel, ".pub") || strings.Contains(rel, ".pub.old"+string(os.PathSeparator))):
			class, ok = "public-key-file", perm&^0o644 == 0
		default:
			class, ok = "private-key-file", perm == 0o600
		}
		run.Eval(1)
		run.Class(fmt.Sprintf("modes:%s:%s:%04o", cfg.Format, class, perm), 1)
		run.Distinct(fmt.Sprintf("modes|%s|%s|%s|%04o", cfg.Format, sl.Kind, class, perm))
		if verbose {
			fmt.Printf("  %-50s %s %04o\n", rel, class, perm)
		}
		if !ok {
			payload.Seen = fmt.Sprintf("%s has mode %04o", rel, perm)
			run.Violation(fmt.Sprintf("C07/modes/%s-dir/%s/%s/mode-%04o", cfg.Format, sl.Kind.Class(), class, perm),
				fmt.Sprintf("%s: after %s the %s %s has mode %04o", cfg.Name(), kslab.HistoryString(h), class, rel, perm), payload)
		}
		return nil
	})
	run.States(1)
	run.Traces(1)
}

func partModes() {
	type job struct {
		cfg kslab.Config
		h   []kslab.Op
	}
	var jobs []job
	for _, cfg := range modeConfigs {
		for _, k := range kslab.AllKinds {
			for _, h := range modeHistories(kslab.SlotOf(k, kslab.Alpha), 3) {
				jobs = append(jobs, job{cfg, h})
			}
		}
	}
	n := par.Do(len(jobs), run.Expired, func(i int) { judgeModes(jobs[i].cfg, jobs[i].h, false) })
	if n < len(jobs) {
		run.Capped(fmt.Sprintf("modes: %d of %d histories", n, len(jobs)))
	}
	run.Set("modes", map[string]int{"histories": n, "depth": 3})
}

func replayModes(c replayT) { judgeModes(c.Config, c.History, true) }
