package kslab

import (
	"errors"
	"fmt"
	"os"
	"sync"
)

// Call describes one call through an instrumented storage seam (v1 filesystem.Storage or v2
// backend api.Backend). It is what the call log records and what a fault hook is shown.
type Call struct {
	Index int         `json:"i"`               // 0-based position of the call in the seam's log
	Op    string      `json:"op"`              // method name: "WriteFile", "Rename", "Put", "Lock", ...
	Paths []string    `json:"paths,omitempty"` // path arguments in declaration order
	Data  []byte      `json:"data,omitempty"`  // byte payload (WriteFile / Put); for Copy/Link the source content
	Perm  os.FileMode `json:"perm,omitempty"`  // mode argument where the method has one
	Err   string      `json:"err,omitempty"`   // result, filled in after the call returned ("" = nil)
	Fault string      `json:"fault,omitempty"` // fault applied to this call, if any
}

// Writes reports whether the call carries a data payload that is written (torn writes apply).
func (c Call) Writes() bool { return c.Op == "WriteFile" || c.Op == "Put" || c.Op == "Copy" }

// Mutates reports whether the call changes stored state when it succeeds.
func (c Call) Mutates() bool {
	switch c.Op {
	case "WriteFile", "Put", "Copy", "Link", "Rename", "RenameNX", "Remove", "RemoveAll", "MkdirAll", "TempFile", "TempDir":
		return true
	}
	return false
}

// Action is what a fault hook asks the seam to do with a call.
type Action int

const (
	// Pass executes the call normally.
	Pass Action = iota
	// Fail does not execute the call and returns Fault.Err (ErrInjected when nil).
	Fail
	// CrashBefore aborts the running operation before the call takes effect.
	CrashBefore
	// CrashAfter executes the call, then aborts the running operation.
	CrashAfter
	// Torn writes only the first Fault.TornLen bytes of the payload of a writing call and then
	// aborts the running operation (for a non-writing call it is CrashBefore).
	Torn
)

func (a Action) String() string {
	return [...]string{"pass", "fail", "crash-before", "crash-after", "torn"}[a]
}

// Fault is a hook's verdict about one call.
type Fault struct {
	Action  Action
	Err     error // for Fail
	TornLen int   // for Torn
}

// Hook decides per call; nil hook = Pass always. The hook sees the call before it executes.
type Hook func(c Call) Fault

// ErrInjected is the default error of a Fail fault.
var ErrInjected = errors.New("kslab: injected I/O error")

// ErrCrashed is returned by data calls on a seam after a crash (deferred clean-up code of the
// interrupted operation must not reach the storage any more).
var ErrCrashed = errors.New("kslab: storage seam is dead (crashed)")

// Crash is the panic value a seam raises for crash faults. Use Crashable to catch it.
type Crash struct {
	Call  Call
	After bool
}

func (c *Crash) Error() string {
	return fmt.Sprintf("kslab: simulated crash at call #%d %s%v", c.Call.Index, c.Call.Op, c.Call.Paths)
}

// Crashable runs f and returns the *Crash that aborted it (nil when f returned normally).
// Other panics propagate.
func Crashable(f func()) (crash *Crash) {
	defer func() {
		if v := recover(); v != nil {
			if c, ok := v.(*Crash); ok {
				crash = c
				return
			}
			panic(v)
		}
	}()
	f()
	return nil
}

// FailAt returns a hook that applies fault to the call with index k and passes all others.
func FailAt(k int, fault Fault) Hook {
	return func(c Call) Fault {
		if c.Index == k {
			return fault
		}
		return Fault{}
	}
}

// seam is the bookkeeping shared by MemFS and RecBackend: call log, hook, crashed flag.
type seam struct {
	mu      sync.Mutex
	log     []Call
	n       int // calls seen (== len(log) when recording)
	record  bool
	hook    Hook
	crashed bool
}

// SetHook installs (or with nil removes) the fault hook.
func (s *seam) SetHook(h Hook) { s.mu.Lock(); s.hook = h; s.mu.Unlock() }

// Record switches call logging on or off (off by default; counting continues either way).
func (s *seam) Record(on bool) { s.mu.Lock(); s.record = on; s.mu.Unlock() }

// Log returns a copy of the recorded calls.
func (s *seam) Log() []Call {
	s.mu.Lock()
	defer s.mu.Unlock()
	return append([]Call(nil), s.log...)
}

// Calls returns the number of calls made through the seam so far (next Call.Index).
func (s *seam) Calls() int { s.mu.Lock(); defer s.mu.Unlock(); return s.n }

// ResetLog forgets the recorded calls and restarts call numbering at 0.
func (s *seam) ResetLog() { s.mu.Lock(); s.log = nil; s.n = 0; s.mu.Unlock() }

// Crashed reports whether a crash fault has fired and Revive has not been called since.
func (s *seam) Crashed() bool { s.mu.Lock(); defer s.mu.Unlock(); return s.crashed }

// Revive makes the seam usable again after a crash ("the machine has rebooted").
func (s *seam) Revive() { s.mu.Lock(); s.crashed = false; s.mu.Unlock() }

// begin registers a call; it returns the fault to apply and the index of the log slot (-1
// when not recording). Must be called with s.mu held.
func (s *seam) begin(c *Call) (Fault, int) {
	c.Index = s.n
	s.n++
	var f Fault
	if s.hook != nil {
		f = s.hook(*c)
	}
	slot := -1
	if s.record {
		if f.Action != Pass {
			c.Fault = f.Action.String()
		}
		s.log = append(s.log, *c)
		slot = len(s.log) - 1
	}
	return f, slot
}

func (s *seam) end(slot int, err error) {
	if slot >= 0 && err != nil {
		s.log[slot].Err = err.Error()
	}
}

// run wraps one seam call: do executes the real effect; tornDo (may be nil) executes it
// with a shortened payload.
func (s *seam) run(c Call, do func() error, tornDo func(n int) error) error {
	s.mu.Lock()
	if s.crashed {
		s.mu.Unlock()
		return ErrCrashed
	}
	f, slot := s.begin(&c)
	switch f.Action {
	case Fail:
		err := f.Err
		if err == nil {
			err = ErrInjected
		}
		s.end(slot, err)
		s.mu.Unlock()
		return err
	case CrashBefore:
		s.crashed = true
		s.mu.Unlock()
		panic(&Crash{Call: c})
	case Torn:
		if tornDo != nil && c.Writes() {
			n := f.TornLen
			if n < 0 {
				n = 0
			}
			if n > len(c.Data) {
				n = len(c.Data)
			}
			tornDo(n)
		}
		s.crashed = true
		s.mu.Unlock()
		panic(&Crash{Call: c})
	}
	err := do()
	s.end(slot, err)
	if f.Action == CrashAfter {
		s.crashed = true
		s.mu.Unlock()
		panic(&Crash{Call: c, After: true})
	}
	s.mu.Unlock()
	return err
}
