// C03 — any modification of a protected value is detected, never mis-decrypted.
// Bounded-exhaustive enumeration (E4 "fields"): every single-bit flip, every truncation, a
// suffix menu, every header field set to every boundary value, every splice of two valid
// values at field boundaries, swapped search hashes — each altered value presented to every
// reveal entry point of Acra (owner identity). Oracle: error, or exactly the original
// plaintext; transparent column processors hand the value back unchanged (or with the intact
// envelope replaced by the original plaintext); never a panic.
// rows.go: row histories through one shared subscriber chain. session.go: the altered values behind
// the real MySQL and PostgreSQL proxies in whole sessions (what the client receives, decoded according
// to the announced type, for a value that failed to reveal).
package main

import (
	"bytes"
	"fmt"

	"verif/envl"
	"verif/ev"
	"verif/fx"
	"verif/par"
)

type caseT struct {
	Form     string `json:"form"`
	PtLen    int    `json:"plaintext_len"`
	Kind     string `json:"kind"`
	Desc     string `json:"alteration"`
	Revealer string `json:"revealer"`
	Input    string `json:"input_hex"`
	Pt1      string `json:"plaintext_hex"`
	Pt2      string `json:"other_plaintext_hex,omitempty"`
	Key      string `json:"-"`
}

func plaintext(n int, salt byte) []byte {
	b := make([]byte, n)
	for i := range b {
		b[i] = 'A' + salt + byte(i%23)
	}
	return b
}

// columnOK: out equals in, or is obtained from in by replacing one or more disjoint regions
// (each at least minEnvelope bytes long - no envelope is shorter) by one of the original
// plaintexts. Memoised search over (position in in, position in out).
const minEnvelope = 44

func columnOK(in, out []byte, pts [][]byte) bool {
	if bytes.Equal(in, out) {
		return true
	}
	type key struct{ i, j int }
	memo := map[key]bool{}
	var rec func(i, j int) bool
	rec = func(i, j int) bool {
		for i < len(in) && j < len(out) && in[i] == out[j] {
			// greedy copy is not complete on its own, so branch below before consuming
			k := key{i, j}
			if v, ok := memo[k]; ok {
				return v
			}
			memo[k] = false
			for _, pt := range pts {
				if j+len(pt) <= len(out) && bytes.Equal(out[j:j+len(pt)], pt) {
					for skip := minEnvelope; i+skip <= len(in); skip++ {
						if rec(i+skip, j+len(pt)) {
							memo[k] = true
							return true
						}
					}
				}
			}
			i++
			j++
		}
		if i == len(in) && j == len(out) {
			return true
		}
		k := key{i, j}
		if v, ok := memo[k]; ok {
			return v
		}
		memo[k] = false
		for _, pt := range pts {
			if j+len(pt) <= len(out) && bytes.Equal(out[j:j+len(pt)], pt) {
				for skip := minEnvelope; i+skip <= len(in); skip++ {
					if rec(i+skip, j+len(pt)) {
						memo[k] = true
						return true
					}
				}
			}
		}
		return false
	}
	return rec(0, 0)
}

func evalCase(l *envl.Lab, r *ev.Run, rv envl.Revealer, c caseT, in []byte, pts [][]byte) {
	o := l.Reveal(rv, fx.Alpha, in)
	r.Eval(1)
	r.Transitions(1)
	r.Traces(1)
	class := ""
	switch {
	case o.Panic != "":
		class = "panic"
		r.Violation(fmt.Sprintf("C03/%s/%s/panic:%s:%s", rv.Name, c.Key, envl.PanicSite(o.Stack), envl.PanicClass(o.Panic)),
			fmt.Sprintf("%s panicked on %s value altered by %s (%s): %s", rv.Name, c.Form, c.Kind, c.Desc, o.Panic), c)
	case rv.Column:
		if o.Err != nil {
			class = "column-error"
			r.Violation(fmt.Sprintf("C03/%s/%s/column-error", rv.Name, c.Key),
				fmt.Sprintf("%s returned error %v instead of handing the damaged value on unchanged (%s, %s)", rv.Name, o.Err, c.Form, c.Desc), c)
		} else if bytes.Equal(o.Out, in) {
			class = "unchanged"
		} else if columnOK(in, o.Out, pts) {
			class = "revealed"
		} else {
			class = "column-garbage"
			r.Violation(fmt.Sprintf("C03/%s/%s/column-other-bytes", rv.Name, c.Key),
				fmt.Sprintf("%s turned the altered value into bytes that are neither the input nor the input with the envelope replaced by the original plaintext (%s, %s): out=%x", rv.Name, c.Form, c.Desc, trunc(o.Out)), c)
		}
	default:
		if o.Err != nil {
			class = "error"
		} else {
			okPt := false
			for _, pt := range pts {
				if bytes.Equal(o.Out, pt) {
					okPt = true
				}
			}
			if okPt {
				class = "original"
			} else {
				class = "other-plaintext"
				r.Violation(fmt.Sprintf("C03/%s/%s/other-plaintext", rv.Name, c.Key),
					fmt.Sprintf("%s returned bytes different from the original plaintext without an error (%s, %s): out=%x", rv.Name, c.Form, c.Desc, trunc(o.Out)), c)
			}
		}
	}
	r.Distinct(rv.Name + "|" + c.Form + "|" + c.Key + "|" + class)
	r.Class(c.Kind+":"+class, 1)
}

func trunc(b []byte) []byte {
	if len(b) > 48 {
		return b[:48]
	}
	return b
}

func main() {
	r := ev.New("C03", "model_checking")
	fx.Quiet()
	w := fx.NewWorld(fx.Options{Seed: "c03", Rotations: 1})
	l := envl.New(w)

	if r.Replay != "" {
		var rr rowReplay
		r.LoadReplay(&rr)
		if rr.Part == "rows" {
			rowPart(r, l)
			w.Close()
			r.Finish()
		}
		if sessionReplay(r, l) { // replay files of the session part (session.go)
			w.Close()
			r.Finish()
		}
		var c caseT
		r.LoadReplay(&c)
		for _, rv := range envl.Revealers {
			if rv.Name == c.Revealer {
				pts := [][]byte{ev.Unhex(c.Pt1)}
				if c.Pt2 != "" {
					pts = append(pts, ev.Unhex(c.Pt2))
				}
				c.Key = c.Kind
				o := l.Reveal(rv, fx.Alpha, ev.Unhex(c.Input))
				fmt.Printf("replay %s: out=%x err=%v panic=%q\n", rv.Name, o.Out, o.Err, o.Panic)
				evalCase(l, r, rv, c, ev.Unhex(c.Input), pts)
			}
		}
		w.Close()
		r.Finish()
	}

	rowPart(r, l)

	sizes := []int{13}
	if r.Thorough() {
		sizes = []int{1, 13, 100}
	}
	type job struct {
		c   caseT
		in  []byte
		pts [][]byte
	}
	var jobs []job
	inputs := 0
	for _, n := range sizes {
		pt1, pt2 := plaintext(n, 0), plaintext(n, 1)
		for _, f := range envl.AllForms {
			p := envl.ProducerFor(f)
			o1, o2 := l.Protect(p, fx.Alpha, pt1), l.Protect(p, fx.Alpha, pt2)
			o3 := l.Protect(p, fx.Bravo, pt1)
			if o1.Err != nil || o2.Err != nil || o3.Err != nil || o1.Panic != "" {
				ev.Fatalf("cannot produce %s: %v %v %v %s", f, o1.Err, o2.Err, o3.Err, o1.Panic)
			}
			v1, v2, v3 := o1.Out, o2.Out, o3.Out
			var alts []envl.Alt
			alts = append(alts, envl.Alt{Kind: "intact", Desc: "unaltered", Key: "intact", Data: v1})
			alts = append(alts, envl.BitFlips(v1)...)
			alts = append(alts, envl.Truncations(v1)...)
			alts = append(alts, envl.Appends(v1, v2)...)
			alts = append(alts, envl.FieldEdits(f, v1)...)
			alts = append(alts, envl.Splices(f, v1, v2)...)
			for _, a := range envl.Splices(f, v1, v3) {
				a.Kind, a.Key = "splice-other-client", "splice-other-client"
				alts = append(alts, a)
			}
			if f.IsSearchable() {
				d := append(append([]byte{}, v2[:33]...), v1[33:]...)
				alts = append(alts, envl.Alt{Kind: "hashswap", Desc: "hash of other value, same client", Key: "hashswap", Data: d})
				d = append(append([]byte{}, v3[:33]...), v1[33:]...)
				alts = append(alts, envl.Alt{Kind: "hashswap", Desc: "hash of other client's value", Key: "hashswap-other-client", Data: d})
			}
			if r.Thorough() {
				alts = append(alts, envl.FieldEditPairs(f, v1)...)
			}
			inputs += len(alts)
			for _, a := range alts {
				for _, rv := range envl.Revealers {
					c := caseT{Form: string(f), PtLen: n, Kind: a.Kind, Desc: a.Desc, Revealer: rv.Name,
						Input: ev.Hex(a.Data), Pt1: ev.Hex(pt1), Pt2: ev.Hex(pt2), Key: a.Key}
					jobs = append(jobs, job{c, a.Data, [][]byte{pt1, pt2}})
				}
			}
		}
	}
	r.States(inputs)
	for i := 0; i < len(jobs); i += len(jobs)/5 + 1 {
		r.Sample(jobs[i].c)
	}
	revByName := map[string]envl.Revealer{}
	for _, rv := range envl.Revealers {
		revByName[rv.Name] = rv
	}
	done := par.Do(len(jobs), r.Expired, func(i int) {
		j := jobs[i]
		evalCase(l, r, revByName[j.c.Revealer], j.c, j.in, j.pts)
	})
	if done < len(jobs) {
		r.Capped(fmt.Sprintf("wall budget: %d of %d evaluations done", done, len(jobs)))
	}
	sessionPart(r, l) // whole sessions through the real proxies (session.go); last: it switches the process-wide SQL dialect
	r.Rule("state = one altered stored value (6 stored forms x plaintext sizes x {every bit flip, every truncation, suffix menu, every header field x boundary values, splices at all field boundaries within and across clients, hash swaps}); transition = that value presented to one of the reveal entry points under the owner identity; distinct_nontrivial counts distinct (entry point, form, alteration kind/field, outcome class) tuples; session part: state = (database MySQL / PostgreSQL, protocol text / prepared+binary, column configuration (encrypted, searchable, data_type str / bytes / int32 / int64 x every accepted failure policy), envelope, alteration of the stored value from the menu {intact, one bit flipped in every field of the stored form, cut by 1 byte, cut to half, cut to 4 / 8 bytes, 1 byte appended, payload of another row, hash of another value}); transition = one lock-step exchange of a fresh owner session through the real proxy against a scripted table holding the altered value; the field received is decoded with the independent codec according to the announced type and format; distinct (database, protocol, configuration, alteration class, outcome class)")
	r.Set("entry_points", len(envl.Revealers))
	r.Set("plaintext_sizes", sizes)
	r.Assume("Themis is replaced by the pure-Go stand-in /verif/shim/gothemis (AEAD assumption: any change to ciphertext, tag, nonce, context or key makes decryption fail)",
		"alterations are single edits (thorough: pairs of numeric field edits) of values produced for plaintext sizes listed in plaintext_sizes",
		"session part: the database end is the scripted database of verif/mycheck (MySQL) / the reference database verif/sess/pgdb.go (PostgreSQL), the client end the independent codecs verif/sess/mycodec.go and pgproto3; the valid stored values are written by the proxy itself, one row per result set (a result set mixing revealed and unrevealed rows of one column is the subject of C19)",
		"session part: stored bytes delivered under an integer announcement that no client can decode as an integer (message still well-formed) count as a failure on the client's side, not as other plaintext; stored bytes in the database's own text encoding (PostgreSQL \\x hex) count as the stored bytes; which policy outcome is delivered is not judged here (C19)")
	w.Close()
	r.Finish()
}
