package main

// Migration of a v1 key store that holds an unreadable key file: complete or failed, never
// silently partial.
//
// The statement: "the v1-to-v2 migration ... makes exactly those keys available there with
// identical values". A migration that reports success therefore promises that the new key store
// answers for every (current) key of the old one with identical values. MigrateV1toV2
// deliberately goes on after a key that cannot be transferred; what tells the operator that the
// new store is not the old one is the result of the operation as a whole. The good-import part
// (main.go, runMigration) migrates intact stores only; this part enumerates sources with key
// files the real export code cannot read.
//
// Space (every element executed on the real code, real key directory, real v2 target):
//
//	sources   = every explored canonical v1 state without history files (a store with rotated
//	            keys fails to migrate anyway: known finding) of depth <= damageDepth (quick 2,
//	            thorough 3) that holds at least one exported key, plus the "full" store (every
//	            slot of the universe generated once: 11 exported keys)
//	damage    = the encrypted file of one exported key (the private file of a pair, the file of
//	            a symmetric key) is replaced by: the same key re-encrypted under another master
//	            key (well-formed, not decryptable), its first half (truncated), nothing (empty),
//	            itself with the last byte xor 0x01; for key pairs also: unchanged content with
//	            mode 0644 (utils.LoadPrivateKey refuses it)
//	A "file"  = each exported key of the source in turn is damaged BEFORE the migration, one
//	            migration per (source, key, damage); the processing order (a Go map iteration in
//	            filesystem.EnumerateExportedKeysByClass) is whatever it is and is recorded as an
//	            outcome class (damaged key processed last / not last / only key)
//	B "order" = the processing order is made an enumerated dimension: for every position p of
//	            the order (0 .. k-1; thorough and the full store: also every pair of positions)
//	            the file of the key that the migration asks for at its p-th export call is
//	            damaged right before that call is passed on to the real key store (the
//	            migration reads every key file exactly once, at that call, so this is the store
//	            damaged beforehand under an order in which that key is the p-th); mode 0644 is
//	            left to part A (it does not apply to symmetric keys)
//	targets   = empty, same, other (as in the good-import part)
//
// Oracle: MigrateV1toV2 returns an error (accepted: the operator is told; nothing more is
// demanded of the target then, the statement leaves the state after a failed migration open),
// or it returns nil and then every slot of the source that has a current key must have arrived
// in the target exactly as after the migration of the intact store (judgeMigrated: one new key
// in the ring, identical secret and public values, current marker on it, older keys of the
// target untouched). A panic is a violation. Public key files are not damaged: they are stored
// in clear and unauthenticated, an altered public file IS the value the source answers with.

import (
	"context"
	"fmt"
	"os"
	"sort"
	"strings"

	"github.com/cossacklabs/acra/cmd/acra-keys/keys"
	"github.com/cossacklabs/acra/keystore"
	"github.com/cossacklabs/acra/keystore/filesystem"
	themiskeys "github.com/cossacklabs/themis/gothemis/keys"

	"verif/ev"
	"verif/kslab"
	"verif/par"
)

const (
	DmgOtherMaster = "other-master-key"
	DmgTruncated   = "truncated"
	DmgEmpty       = "empty"
	DmgFlipped     = "last-byte-flipped"
	DmgLaxMode     = "mode-0644"
)

var contentDamages = []string{DmgOtherMaster, DmgTruncated, DmgEmpty, DmgFlipped}

// DamageTuple is one element of this part (and its replay payload).
type DamageTuple struct {
	Part    string     `json:"part"` // "migrate-damaged"
	Sub     string     `json:"sub"`  // "file" (A) | "order" (B)
	History []kslab.Op `json:"history"`
	Target  string     `json:"target"`
	Damage  string     `json:"damage"`
	// A: index of the damaged key in the list of exported keys sorted by file path
	KeyIndex int    `json:"key_index,omitempty"`
	KeyFile  string `json:"key_file,omitempty"` // base name (information)
	// B: positions of the processing order whose keys are damaged
	Positions []int `json:"positions,omitempty"`
}

func (d DamageTuple) String() string {
	s := fmt.Sprintf("v1-to-v2 damaged/%s [%s] target=%s damage=%s", d.Sub, kslab.HistoryString(d.History), d.Target, d.Damage)
	if d.Sub == "file" {
		return s + fmt.Sprintf(" key#%d(%s)", d.KeyIndex, d.KeyFile)
	}
	return s + fmt.Sprintf(" positions=%v", d.Positions)
}

// secretPath: the encrypted file of an exported key.
func secretPath(k filesystem.ExportedKey) string {
	if k.SymmetricPath != "" {
		return k.SymmetricPath
	}
	return k.PrivatePath
}

// exportedKeysOf lists the exported keys of a v1 store (the real enumeration), sorted by path.
func exportedKeysOf(s *kslab.Store) []filesystem.ExportedKey {
	l, err := filesystem.EnumerateExportedKeys(s.V1)
	if err != nil {
		ev.Fatalf("enumerating exported keys: %v", err)
	}
	sort.Slice(l, func(i, j int) bool {
		return secretPath(l[i])+"|"+l[i].PublicPath < secretPath(l[j])+"|"+l[j].PublicPath
	})
	return l
}

var otherMaster = func() keystore.KeyEncryptor {
	k := make([]byte, 32)
	for i := range k {
		k[i] = 0x7e
	}
	enc, err := keystore.NewSCellKeyEncryptor(k)
	if err != nil {
		panic(err)
	}
	return enc
}()

type savedFile struct {
	path string
	data []byte
	mode os.FileMode
}

func (f savedFile) restore() {
	if err := os.WriteFile(f.path, f.data, 0o600); err != nil {
		ev.Fatalf("restoring %s: %v", f.path, err)
	}
	if err := os.Chmod(f.path, f.mode); err != nil {
		ev.Fatalf("restoring %s: %v", f.path, err)
	}
}

// damageFile damages the encrypted file of an exported key on disk; the returned value restores it.
func damageFile(real *filesystem.KeyStore, k filesystem.ExportedKey, damage string) savedFile {
	path := secretPath(k)
	fi, err := os.Stat(path)
	if err != nil {
		ev.Fatalf("damage: %v", err)
	}
	orig, err := os.ReadFile(path)
	if err != nil {
		ev.Fatalf("damage: %v", err)
	}
	saved := savedFile{path, orig, fi.Mode().Perm()}
	var data []byte
	switch damage {
	case DmgOtherMaster:
		var plain []byte
		if k.SymmetricPath != "" {
			plain, err = real.ExportSymmetricKey(k)
		} else {
			var pk *themiskeys.PrivateKey
			if pk, err = real.ExportPrivateKey(k); err == nil {
				plain = pk.Value
			}
		}
		if err != nil {
			ev.Fatalf("damage: reading %s of the intact source: %v", path, err)
		}
		if data, err = otherMaster.Encrypt(context.Background(), plain, k.KeyContext); err != nil {
			ev.Fatalf("damage: re-encrypting: %v", err)
		}
	case DmgTruncated:
		data = append([]byte(nil), orig[:len(orig)/2]...)
	case DmgEmpty:
		data = []byte{}
	case DmgFlipped:
		data = append([]byte(nil), orig...)
		data[len(data)-1] ^= 0x01
	case DmgLaxMode:
		if err := os.Chmod(path, 0o644); err != nil {
			ev.Fatalf("damage: %v", err)
		}
		return saved
	default:
		ev.Fatalf("unknown damage %q", damage)
	}
	if err := os.WriteFile(path, data, 0o600); err != nil {
		ev.Fatalf("damage: %v", err)
	}
	return saved
}

// orderedSrc is the source as MigrateV1toV2 sees it: the real v1 key store, with the sequence of
// export calls recorded and (part B) the file of the key asked for at chosen positions of that
// sequence damaged right before the call goes to the real store.
type orderedSrc struct {
	*filesystem.KeyStore
	damage   string
	at       map[int]bool
	order    []string // secret file path per export call
	restores []savedFile
}

func (o *orderedSrc) before(k filesystem.ExportedKey) {
	p := len(o.order)
	o.order = append(o.order, secretPath(k))
	if o.at[p] {
		o.restores = append(o.restores, damageFile(o.KeyStore, k, o.damage))
	}
}

func (o *orderedSrc) ExportKeyPair(k filesystem.ExportedKey) (*themiskeys.Keypair, error) {
	o.before(k)
	return o.KeyStore.ExportKeyPair(k)
}

func (o *orderedSrc) ExportSymmetricKey(k filesystem.ExportedKey) ([]byte, error) {
	o.before(k)
	return o.KeyStore.ExportSymmetricKey(k)
}

func (o *orderedSrc) ExportPrivateKey(k filesystem.ExportedKey) (*themiskeys.PrivateKey, error) {
	o.before(k)
	return o.KeyStore.ExportPrivateKey(k)
}

func (o *orderedSrc) ExportPlaintextSymmetricKey(k filesystem.ExportedKey) ([]byte, error) {
	o.before(k)
	return o.KeyStore.ExportPlaintextSymmetricKey(k)
}

func doMigrateVia(src filesystem.KeyExport, tgt *kslab.Store) (err error) {
	defer tgt.Bind()()
	defer guard(&err)
	return keys.MigrateV1toV2(src, tgt.V2)
}

const damagedKeyBase = "C18/v1-to-v2/migrate/source-with-unreadable-key-file/"

// runDamaged executes one element.
func runDamaged(r *ev.Run, out *sink, src *source, d DamageTuple, pop []kslab.Slot, exported []filesystem.ExportedKey) (findings int) {
	t := Tuple{Path: PathMigrate, History: d.History, Sel: Selection{All: true}, Mode: ModeAll, Target: d.Target}
	tgt, err := buildTarget(PathMigrate, d.Target, t.Sel, pop)
	if err != nil {
		ev.Fatalf("%v", err)
	}
	defer tgt.Close()
	r.States(1)
	r.Traces(1)
	before := physViews(tgt.S)

	o := &orderedSrc{KeyStore: src.lab.S.V1, damage: d.Damage, at: map[int]bool{}}
	var damagedPaths []string
	if d.Sub == "file" {
		k := exported[d.KeyIndex]
		o.restores = append(o.restores, damageFile(src.lab.S.V1, k, d.Damage))
		damagedPaths = []string{secretPath(k)}
	} else {
		for _, p := range d.Positions {
			o.at[p] = true
		}
	}
	merr := doMigrateVia(o, tgt.S)
	r.Transitions(1 + len(o.order))
	if d.Sub == "order" {
		for _, f := range o.restores {
			damagedPaths = append(damagedPaths, f.path)
		}
	}
	for i := len(o.restores) - 1; i >= 0; i-- {
		o.restores[i].restore()
	}
	after := afterViews(r, src, t, tgt.S)

	// where in the processing order the damaged keys were
	where := "not-reached"
	last := len(o.order) - 1
	for i, p := range o.order {
		for _, dp := range damagedPaths {
			if p != dp {
				continue
			}
			switch {
			case len(o.order) == 1:
				where = "only-key"
			case i == last:
				where = "last"
			case where != "last":
				where = "not-last"
			}
		}
	}
	if len(damagedPaths) > 1 {
		where = fmt.Sprintf("%d-damaged:", len(damagedPaths)) + where
	}
	if d.Sub == "order" && len(damagedPaths) != len(d.Positions) {
		ev.Fatalf("%s: %d export calls, %d files damaged (order %v)", d, len(o.order), len(damagedPaths), o.order)
	}

	var fs []finding
	add := func(key, msg string) { fs = append(fs, finding{key: damagedKeyBase + key, msg: msg}) }
	outcome := "failure-reported"
	if p, ok := kslab.IsPanic(merr); ok {
		add("migration-panics", "MigrateV1toV2 panicked: "+p.Value)
		outcome = "PANIC"
	} else if merr == nil {
		// success reported: the target must answer for every current key of the source
		var missing []string
		for _, sl := range universe {
			s := src.views[sl]
			if src.state.Slot(sl).N == 0 || s.Phys.Cur < 0 {
				continue
			}
			sec, pub := carried(PathMigrate, ModeAll, sl, false)
			n := 0
			judgeMigrated(func(key, msg string) {
				if n == 0 {
					missing = append(missing, msg)
				}
				n++
			}, t, sl, s, before[sl], after[sl])
			if n == 0 && after[sl].asked {
				judgeAnswers(func(key, msg string) {
					if n == 0 {
						missing = append(missing, msg)
					}
					n++
				}, t, sl, s, before[sl], after[sl], sec, pub, false)
			}
		}
		outcome = "success-and-complete"
		if len(missing) > 0 {
			outcome = "SUCCESS-BUT-INCOMPLETE"
			var names []string
			for _, p := range damagedPaths {
				names = append(names, p[strings.LastIndex(p, "/")+1:])
			}
			add("migration-reports-success-but-target-incomplete/damaged-key-"+strings.TrimPrefix(where, fmt.Sprintf("%d-damaged:", len(damagedPaths))),
				fmt.Sprintf("MigrateV1toV2 returned nil although the key file(s) %v of the source were unreadable (%s; processed %s of %d keys): %s", names, d.Damage, where, len(o.order), strings.Join(missing, "; ")))
		} else {
			// cannot happen with an unreadable file unless the damage is not one: say so loudly
			add("damaged-key-file-migrated/"+d.Damage, fmt.Sprintf("the migration succeeded and the target holds the original value of a key whose file was damaged (%s)", d.Damage))
		}
	}
	// the migration must not change the source (compared after the damaged files were put back)
	for _, sl := range universe {
		if v := physOf(src.lab.S, sl); v.fp() != src.views[sl].fp() {
			fs = append(fs, finding{key: "C18/v1-to-v2/migration-changed-the-source", msg: fmt.Sprintf("slot %s of the source differs after the migration", sl)})
		}
	}
	r.Eval(1)
	for _, f := range fs {
		r.Violation(f.key, f.msg+" :: "+d.String(), d)
		if opt.trace {
			fmt.Printf("    !! %s :: %s\n", f.key, f.msg)
		}
	}
	r.Class(fmt.Sprintf("v1-to-v2/damaged-%s/%s/%s", d.Sub, where, outcome), 1)
	r.Distinct(strings.Join([]string{"v1-to-v2-damaged", d.Sub, d.Damage, d.Target, where, outcome}, "|"))
	if opt.trace {
		fmt.Printf("  %s -> %s (err=%v; %s; %d export calls)\n", d, outcome, merr, where, len(o.order))
	}
	return len(fs)
}

// damagedElements enumerates the elements of one source.
func damagedElements(hist []kslab.Op, exported []filesystem.ExportedKey, pairs bool, targets []string) []DamageTuple {
	var out []DamageTuple
	for _, target := range targets {
		for i, k := range exported {
			p := secretPath(k)
			dmg := contentDamages
			if k.PrivatePath != "" {
				dmg = append(append([]string(nil), contentDamages...), DmgLaxMode)
			}
			for _, d := range dmg {
				out = append(out, DamageTuple{Part: "migrate-damaged", Sub: "file", History: hist, Target: target, Damage: d, KeyIndex: i, KeyFile: p[strings.LastIndex(p, "/")+1:]})
			}
		}
		for _, d := range contentDamages {
			for p := range exported {
				out = append(out, DamageTuple{Part: "migrate-damaged", Sub: "order", History: hist, Target: target, Damage: d, Positions: []int{p}})
			}
			if pairs {
				for p := range exported {
					for q := p + 1; q < len(exported); q++ {
						out = append(out, DamageTuple{Part: "migrate-damaged", Sub: "order", History: hist, Target: target, Damage: d, Positions: []int{p, q}})
					}
				}
			}
		}
	}
	return out
}

func hasHistory(src *source) bool {
	for _, sl := range universe {
		v := src.views[sl]
		n := len(v.Phys.Secrets)
		if v.Phys.Cur >= 0 {
			n--
		}
		if n > 0 {
			return true
		}
	}
	return false
}

func fullHistory() []kslab.Op {
	var h []kslab.Op
	for _, sl := range universe {
		h = append(h, gen(sl))
	}
	return h
}

// runDamagedSource runs every element of one source (only: restrict to one element, replay).
func runDamagedSource(r *ev.Run, out *sink, st srcState, pairs bool, targets []string, only *DamageTuple) (elements int) {
	src, err := buildSource(PathMigrate, st)
	if err != nil {
		ev.Fatalf("source: %v", err)
	}
	defer src.lab.Close()
	if hasHistory(src) {
		return 0
	}
	exported := exportedKeysOf(src.lab.S)
	if len(exported) == 0 {
		return 0
	}
	pop := populated(src.state)
	if only != nil {
		// replay. An element of part A leaves the processing order to the Go map iteration: a
		// defect that depends on the order may need several executions to show again (part B
		// elements are deterministic).
		for i := 0; i < 16; i++ {
			elements++
			if runDamaged(r, out, src, *only, pop, exported) > 0 || only.Sub != "file" {
				break
			}
		}
		return elements
	}
	for _, d := range damagedElements(st.Hist, exported, pairs, targets) {
		if r.Expired() {
			break
		}
		runDamaged(r, out, src, d, pop, exported)
		elements++
	}
	return elements
}

// damagedPart: the whole part.
func damagedPart(r *ev.Run, out *sink, v1States []srcState, damageDepth int) {
	var ss []srcState
	for _, st := range v1States {
		if len(st.Hist) <= damageDepth && len(st.Hist) > 0 {
			ss = append(ss, st)
		}
	}
	full := srcState{Hist: fullHistory()}
	ss = append(ss, full)
	// one unit of work per (source, target); the full store (the largest) first
	ss = append([]srcState{full}, ss[:len(ss)-1]...)
	targets := targetsOf(PathMigrate)
	counts := make([]int, len(ss)*len(targets))
	done := par.Do(len(counts), r.Expired, func(u int) {
		i := u / len(targets)
		counts[u] = runDamagedSource(r, out, ss[i], i == 0 || r.Thorough(), targets[u%len(targets):u%len(targets)+1], nil)
	})
	if done < len(counts) {
		r.Capped(fmt.Sprintf("v1-to-v2 damaged sources: wall budget hit after %d of %d (source state, target) units", done, len(counts)))
	}
	total, used := 0, 0
	for u, c := range counts {
		total += c
		if c > 0 && u%len(targets) == 0 {
			used++
		}
	}
	r.Set("migrate_damaged", map[string]interface{}{
		"source_states_considered": len(ss), "source_states_without_history_with_keys": used, "history_depth": damageDepth,
		"full_store_keys": len(universe), "damages": append(append([]string(nil), contentDamages...), DmgLaxMode),
		"elements": total, "position_pairs": "full store; thorough: every source",
	})
}
