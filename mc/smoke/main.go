package main

import (
	"fmt"

	"github.com/cossacklabs/acra/acrastruct"
	"github.com/cossacklabs/themis/gothemis/keys"
)

func main() {
	kp, _ := keys.New(keys.TypeEC)
	as, err := acrastruct.CreateAcrastruct([]byte("hello"), kp.Public, nil)
	fmt.Println(len(as), err)
	d, err := acrastruct.DecryptAcrastruct(as, kp.Private, nil)
	fmt.Println(string(d), err)
}
