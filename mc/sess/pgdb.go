package sess

import (
	"bytes"
	"encoding/binary"
	"encoding/hex"
	"fmt"
	"strconv"
	"strings"

	pg_query "github.com/cossacklabs/pg_query_go/v5"
	"github.com/jackc/pgx/v5/pgproto3"
)

// PGDB is the reference database at the database end of a PostgreSQL session: it parses the
// forwarded statements with pg_query (Acra's own sqlparser is not used here), keeps tables of
// byte-string rows, evaluates the statement shapes of the checks' alphabets literally and
// answers with protocol messages. Anything outside the shapes it understands is reported as an
// ErrorResponse with code "XXVRF" (the checks treat that as a harness problem, never a verdict).
type PGDB struct {
	Tables  map[string]*PGTable
	stmts   map[string]*pgPrepared
	portals map[string]*pgPortal
	failed  bool // extended-protocol error state: skip until Sync
	// Log of every statement text that reached the database (Query and Parse), in order.
	Statements []string
	// Params logs every Bind's parameters as they reached the database.
	Binds [][][]byte
}

// PG type OIDs used.
const (
	OIDBytea = 17
	OIDInt8  = 20
	OIDInt4  = 23
	OIDText  = 25
)

type PGColumn struct {
	Name string
	OID  uint32
}

type PGTable struct {
	Name string
	Cols []PGColumn
	Rows [][][]byte // nil = NULL
}

type pgPrepared struct {
	query     string
	stmt      *pg_query.Node
	paramOIDs []uint32
}

type pgPortal struct {
	prep          *pgPrepared
	params        [][]byte
	paramFormats  []int16
	resultFormats []int16
	// a portal executed with a row limit keeps the rows it has not sent yet
	started bool
	rest    []pgproto3.BackendMessage
	tag     string
}

func NewPGDB() *PGDB {
	return &PGDB{Tables: map[string]*PGTable{}, stmts: map[string]*pgPrepared{}, portals: map[string]*pgPortal{}}
}

// AddTable creates a table.
func (db *PGDB) AddTable(name string, cols ...PGColumn) *PGTable {
	t := &PGTable{Name: name, Cols: cols}
	db.Tables[name] = t
	return t
}

func (t *PGTable) col(name string) int {
	for i, c := range t.Cols {
		if c.Name == name {
			return i
		}
	}
	return -1
}

type pgErr struct{ code, msg string }

func (e *pgErr) Error() string { return e.code + ": " + e.msg }

func unsupported(format string, a ...interface{}) error {
	return &pgErr{"XXVRF", "reference database: unsupported: " + fmt.Sprintf(format, a...)}
}

func sqlErr(code, format string, a ...interface{}) error {
	return &pgErr{code, fmt.Sprintf(format, a...)}
}

func errorResponse(err error) *pgproto3.ErrorResponse {
	if pe, ok := err.(*pgErr); ok {
		return &pgproto3.ErrorResponse{Severity: "ERROR", Code: pe.code, Message: pe.msg}
	}
	return &pgproto3.ErrorResponse{Severity: "ERROR", Code: "XX000", Message: err.Error()}
}

// DecodeBytea decodes PostgreSQL bytea input syntax (hex and escape formats).
func DecodeBytea(s []byte) ([]byte, error) {
	if len(s) >= 2 && s[0] == '\\' && s[1] == 'x' {
		h := bytes.Map(func(r rune) rune {
			if r == ' ' || r == '\n' || r == '\t' {
				return -1
			}
			return r
		}, s[2:])
		out := make([]byte, hex.DecodedLen(len(h)))
		if _, err := hex.Decode(out, h); err != nil {
			return nil, sqlErr("22P02", "invalid hexadecimal data")
		}
		return out, nil
	}
	out := []byte{} // the empty input is the empty value, not NULL
	for i := 0; i < len(s); i++ {
		if s[i] != '\\' {
			out = append(out, s[i])
			continue
		}
		if i+1 < len(s) && s[i+1] == '\\' {
			out = append(out, '\\')
			i++
			continue
		}
		if i+3 < len(s) && s[i+1] >= '0' && s[i+1] <= '3' && s[i+2] >= '0' && s[i+2] <= '7' && s[i+3] >= '0' && s[i+3] <= '7' {
			out = append(out, (s[i+1]-'0')<<6|(s[i+2]-'0')<<3|(s[i+3]-'0'))
			i += 3
			continue
		}
		return nil, sqlErr("22P02", "invalid input syntax for type bytea")
	}
	return out, nil
}

// fromText converts the text representation of a value into the stored bytes for a column type.
func fromText(oid uint32, s []byte) ([]byte, error) {
	switch oid {
	case OIDBytea:
		return DecodeBytea(s)
	case OIDText:
		if bytes.IndexByte(s, 0) >= 0 {
			return nil, sqlErr("22021", "invalid byte sequence for encoding \"UTF8\": 0x00")
		}
		return append([]byte{}, s...), nil
	case OIDInt4:
		v, err := strconv.ParseInt(strings.TrimSpace(string(s)), 10, 32)
		if err != nil {
			return nil, sqlErr("22P02", "invalid input syntax for type integer: %q", s)
		}
		return []byte(strconv.FormatInt(v, 10)), nil
	case OIDInt8:
		v, err := strconv.ParseInt(strings.TrimSpace(string(s)), 10, 64)
		if err != nil {
			return nil, sqlErr("22P02", "invalid input syntax for type bigint: %q", s)
		}
		return []byte(strconv.FormatInt(v, 10)), nil
	}
	return nil, unsupported("type oid %d", oid)
}

func fromBinary(oid uint32, b []byte) ([]byte, error) {
	switch oid {
	case OIDBytea, OIDText:
		return append([]byte{}, b...), nil
	case OIDInt4:
		if len(b) != 4 {
			return nil, sqlErr("22P03", "incorrect binary data format for int4 (%d bytes)", len(b))
		}
		return []byte(strconv.FormatInt(int64(int32(binary.BigEndian.Uint32(b))), 10)), nil
	case OIDInt8:
		if len(b) != 8 {
			return nil, sqlErr("22P03", "incorrect binary data format for int8 (%d bytes)", len(b))
		}
		return []byte(strconv.FormatInt(int64(binary.BigEndian.Uint64(b)), 10)), nil
	}
	return nil, unsupported("type oid %d", oid)
}

// Stored representation: bytea/text raw bytes, integers as decimal text.
func toWire(oid uint32, v []byte, format int16) []byte {
	if v == nil {
		return nil
	}
	if format == 0 {
		if oid == OIDBytea {
			return []byte("\\x" + hex.EncodeToString(v))
		}
		return append([]byte{}, v...)
	}
	switch oid {
	case OIDInt4:
		n, err := strconv.ParseInt(string(v), 10, 32)
		if err != nil {
			// not an integer: only a retyped clone (a column announced as the declared type that
			// holds bytes the reader cannot decrypt) has such values; they travel as they are
			return append([]byte{}, v...)
		}
		var b [4]byte
		binary.BigEndian.PutUint32(b[:], uint32(int32(n)))
		return b[:]
	case OIDInt8:
		n, err := strconv.ParseInt(string(v), 10, 64)
		if err != nil {
			return append([]byte{}, v...)
		}
		var b [8]byte
		binary.BigEndian.PutUint64(b[:], uint64(n))
		return b[:]
	}
	return append([]byte{}, v...)
}

// ---- expression evaluation -------------------------------------------------------------

type evalCtx struct {
	db     *PGDB
	portal *pgPortal // nil for simple queries
	tables []*boundTable
}

type boundTable struct {
	t     *PGTable
	alias string
	row   [][]byte
}

// value is an evaluated expression: bytes (nil = NULL) and, when known, its type.
type value struct {
	b     []byte
	oid   uint32 // 0 = unknown (string literal / parameter not yet coerced)
	null  bool
	param int // >0: parameter number whose raw form is still to be coerced
	isInt bool
}

func (c *evalCtx) column(ref *pg_query.ColumnRef) (value, error) {
	var parts []string
	for _, f := range ref.Fields {
		if s := f.GetString_(); s != nil {
			parts = append(parts, s.Sval)
		} else {
			return value{}, unsupported("column ref field %v", f)
		}
	}
	var tbl, col string
	switch len(parts) {
	case 1:
		col = parts[0]
	case 2:
		tbl, col = parts[0], parts[1]
	default:
		return value{}, unsupported("column ref %v", parts)
	}
	for _, bt := range c.tables {
		if tbl != "" && tbl != bt.alias && tbl != bt.t.Name {
			continue
		}
		if i := bt.t.col(col); i >= 0 {
			v := bt.row[i]
			return value{b: v, oid: bt.t.Cols[i].OID, null: v == nil}, nil
		}
	}
	return value{}, sqlErr("42703", "column %q does not exist", strings.Join(parts, "."))
}

func (c *evalCtx) paramRaw(n int) ([]byte, int16, error) {
	if c.portal == nil {
		return nil, 0, sqlErr("42P02", "there is no parameter $%d", n)
	}
	if n < 1 || n > len(c.portal.params) {
		return nil, 0, sqlErr("08P01", "bind message supplies %d parameters, but $%d is referenced", len(c.portal.params), n)
	}
	var f int16
	switch len(c.portal.paramFormats) {
	case 0:
	case 1:
		f = c.portal.paramFormats[0]
	default:
		if n-1 < len(c.portal.paramFormats) {
			f = c.portal.paramFormats[n-1]
		}
	}
	return c.portal.params[n-1], f, nil
}

// coerce turns a literal/parameter of unknown type into the stored form for oid.
func (c *evalCtx) coerce(v value, oid uint32) (value, error) {
	if v.null {
		return value{null: true, oid: oid}, nil
	}
	if v.param > 0 {
		raw, f, err := c.paramRaw(v.param)
		if err != nil {
			return value{}, err
		}
		if raw == nil {
			return value{null: true, oid: oid}, nil
		}
		// declared parameter type must be compatible with the target column
		if c.portal != nil && v.param-1 < len(c.portal.prep.paramOIDs) {
			if d := c.portal.prep.paramOIDs[v.param-1]; d != 0 && d != oid && !(isIntOID(d) && isIntOID(oid)) && !(d == OIDText && oid != OIDBytea) {
				return value{}, sqlErr("42804", "parameter $%d declared as type oid %d but used as type oid %d", v.param, d, oid)
			}
		}
		var b []byte
		if f == 1 {
			b, err = fromBinary(oid, raw)
		} else {
			b, err = fromText(oid, raw)
		}
		if err != nil {
			return value{}, err
		}
		return value{b: b, oid: oid}, nil
	}
	if v.oid == oid || (isIntOID(v.oid) && isIntOID(oid)) {
		if v.oid != oid {
			return value{b: v.b, oid: oid}, nil
		}
		return v, nil
	}
	if v.oid == 0 {
		if v.isInt && !isIntOID(oid) {
			return value{}, sqlErr("42804", "integer literal used where type oid %d expected", oid)
		}
		b, err := fromText(oid, v.b)
		if err != nil {
			return value{}, err
		}
		return value{b: b, oid: oid}, nil
	}
	if v.oid == OIDText && oid == OIDBytea || v.oid == OIDBytea && oid == OIDText {
		return value{}, sqlErr("42804", "type mismatch between text and bytea")
	}
	return value{}, sqlErr("42804", "cannot coerce type oid %d to %d", v.oid, oid)
}

func isIntOID(o uint32) bool { return o == OIDInt4 || o == OIDInt8 }

func typeNameOID(tn *pg_query.TypeName) (uint32, error) {
	var last string
	for _, n := range tn.Names {
		if s := n.GetString_(); s != nil {
			last = s.Sval
		}
	}
	switch strings.ToLower(last) {
	case "bytea":
		return OIDBytea, nil
	case "text", "varchar", "bpchar":
		return OIDText, nil
	case "int4", "int", "integer":
		return OIDInt4, nil
	case "int8", "bigint":
		return OIDInt8, nil
	}
	return 0, unsupported("type name %q", last)
}

func (c *evalCtx) eval(n *pg_query.Node) (value, error) {
	switch {
	case n == nil:
		return value{}, unsupported("nil expression")
	case n.GetAConst() != nil:
		ac := n.GetAConst()
		if ac.Isnull {
			return value{null: true}, nil
		}
		switch v := ac.Val.(type) {
		case *pg_query.A_Const_Sval:
			return value{b: []byte(v.Sval.Sval)}, nil
		case *pg_query.A_Const_Ival:
			return value{b: []byte(strconv.FormatInt(int64(v.Ival.Ival), 10)), isInt: true}, nil
		case *pg_query.A_Const_Fval:
			// pg_query reports integers beyond int32 as Float tokens
			return value{b: []byte(v.Fval.Fval), isInt: true}, nil
		case nil:
			// pg_query encodes integer 0 as an Ival with zero value omitted
			return value{b: []byte("0"), isInt: true}, nil
		}
		return value{}, unsupported("constant %T", ac.Val)
	case n.GetParamRef() != nil:
		return value{param: int(n.GetParamRef().Number)}, nil
	case n.GetColumnRef() != nil:
		return c.column(n.GetColumnRef())
	case n.GetTypeCast() != nil:
		tc := n.GetTypeCast()
		oid, err := typeNameOID(tc.TypeName)
		if err != nil {
			return value{}, err
		}
		v, err := c.eval(tc.Arg)
		if err != nil {
			return value{}, err
		}
		return c.coerce(v, oid)
	case n.GetFuncCall() != nil:
		fc := n.GetFuncCall()
		name := ""
		for _, p := range fc.Funcname {
			if s := p.GetString_(); s != nil {
				name = strings.ToLower(s.Sval)
			}
		}
		if (name == "substr" || name == "substring") && len(fc.Args) == 3 {
			v, err := c.eval(fc.Args[0])
			if err != nil {
				return value{}, err
			}
			from, err1 := c.evalInt(fc.Args[1])
			cnt, err2 := c.evalInt(fc.Args[2])
			if err1 != nil || err2 != nil {
				return value{}, unsupported("substr arguments")
			}
			if v.null {
				return v, nil
			}
			if v.oid != OIDBytea && v.oid != OIDText {
				return value{}, sqlErr("42883", "function substr(oid %d) does not exist", v.oid)
			}
			// PostgreSQL semantics: 1-based start, characters before 1 count against length
			start, end := from-1, from-1+cnt
			if start < 0 {
				start = 0
			}
			if end > len(v.b) {
				end = len(v.b)
			}
			if end < start {
				end = start
			}
			if start > len(v.b) {
				start, end = len(v.b), len(v.b)
			}
			return value{b: append([]byte{}, v.b[start:end]...), oid: v.oid}, nil
		}
		return value{}, unsupported("function %s/%d", name, len(fc.Args))
	}
	return value{}, unsupported("expression %T", n.Node)
}

func (c *evalCtx) evalInt(n *pg_query.Node) (int, error) {
	v, err := c.eval(n)
	if err != nil {
		return 0, err
	}
	i, err := strconv.Atoi(string(v.b))
	return i, err
}

// tri-state boolean
const (
	bFalse = iota
	bTrue
	bNull
)

func (c *evalCtx) cond(n *pg_query.Node) (int, error) {
	switch {
	case n == nil:
		return bTrue, nil
	case n.GetBoolExpr() != nil:
		be := n.GetBoolExpr()
		switch be.Boolop {
		case pg_query.BoolExprType_AND_EXPR:
			res := bTrue
			for _, a := range be.Args {
				r, err := c.cond(a)
				if err != nil {
					return 0, err
				}
				if r == bFalse {
					res = bFalse
				} else if r == bNull && res != bFalse {
					res = bNull
				}
			}
			return res, nil
		case pg_query.BoolExprType_OR_EXPR:
			res := bFalse
			for _, a := range be.Args {
				r, err := c.cond(a)
				if err != nil {
					return 0, err
				}
				if r == bTrue {
					res = bTrue
				} else if r == bNull && res != bTrue {
					res = bNull
				}
			}
			return res, nil
		case pg_query.BoolExprType_NOT_EXPR:
			r, err := c.cond(be.Args[0])
			if err != nil {
				return 0, err
			}
			switch r {
			case bTrue:
				return bFalse, nil
			case bFalse:
				return bTrue, nil
			}
			return bNull, nil
		}
	case n.GetNullTest() != nil:
		nt := n.GetNullTest()
		v, err := c.eval(nt.Arg)
		if err != nil {
			return 0, err
		}
		if (nt.Nulltesttype == pg_query.NullTestType_IS_NULL) == v.null {
			return bTrue, nil
		}
		return bFalse, nil
	case n.GetAExpr() != nil:
		ae := n.GetAExpr()
		op := ""
		for _, p := range ae.Name {
			if s := p.GetString_(); s != nil {
				op = s.Sval
			}
		}
		ordering := op == "<" || op == "<=" || op == ">" || op == ">="
		if ae.Kind != pg_query.A_Expr_Kind_AEXPR_OP || (op != "=" && op != "<>" && op != "!=" && !ordering) {
			return 0, unsupported("operator %v %q", ae.Kind, op)
		}
		l, err := c.eval(ae.Lexpr)
		if err != nil {
			return 0, err
		}
		r, err := c.eval(ae.Rexpr)
		if err != nil {
			return 0, err
		}
		// coerce the untyped side to the typed side
		switch {
		case l.oid != 0 && (r.oid == 0 || r.param > 0):
			r, err = c.coerce(r, l.oid)
		case r.oid != 0 && (l.oid == 0 || l.param > 0):
			l, err = c.coerce(l, r.oid)
		case l.oid == 0 && r.oid == 0:
			if l.isInt != r.isInt {
				return 0, unsupported("comparison of untyped operands")
			}
		case l.oid != r.oid && !(isIntOID(l.oid) && isIntOID(r.oid)):
			return 0, sqlErr("42883", "operator does not exist: oid %d %s oid %d", l.oid, op, r.oid)
		}
		if err != nil {
			return 0, err
		}
		if l.null || r.null {
			return bNull, nil
		}
		if ordering {
			// ordering is defined by this reference for integers only
			if !((isIntOID(l.oid) || l.oid == 0 && l.isInt) && (isIntOID(r.oid) || r.oid == 0 && r.isInt)) {
				return 0, unsupported("ordering operator %q on non-integer operands", op)
			}
			a, err1 := strconv.ParseInt(string(l.b), 10, 64)
			b, err2 := strconv.ParseInt(string(r.b), 10, 64)
			if err1 != nil || err2 != nil {
				return 0, unsupported("ordering operator %q on %q, %q", op, l.b, r.b)
			}
			var t bool
			switch op {
			case "<":
				t = a < b
			case "<=":
				t = a <= b
			case ">":
				t = a > b
			case ">=":
				t = a >= b
			}
			if t {
				return bTrue, nil
			}
			return bFalse, nil
		}
		eq := bytes.Equal(l.b, r.b)
		if (op == "=") == eq {
			return bTrue, nil
		}
		return bFalse, nil
	}
	return 0, unsupported("condition %T", n.Node)
}

// ---- statements ------------------------------------------------------------------------

type resultSet struct {
	cols []PGColumn
	rows [][][]byte
	tag  string
}

func (db *PGDB) table(rv *pg_query.RangeVar) (*boundTable, error) {
	t, ok := db.Tables[rv.Relname]
	if !ok {
		return nil, sqlErr("42P01", "relation %q does not exist", rv.Relname)
	}
	alias := rv.Relname
	if rv.Alias != nil {
		alias = rv.Alias.Aliasname
	}
	return &boundTable{t: t, alias: alias}, nil
}

func (db *PGDB) targets(c *evalCtx, list []*pg_query.Node) ([]PGColumn, func() ([][]byte, error), error) {
	type tgt struct {
		name string
		expr *pg_query.Node
		star *boundTable
		all  bool
	}
	var tg []tgt
	var cols []PGColumn
	for _, n := range list {
		rt := n.GetResTarget()
		if rt == nil {
			return nil, nil, unsupported("target %T", n.Node)
		}
		if cr := rt.Val.GetColumnRef(); cr != nil {
			last := cr.Fields[len(cr.Fields)-1]
			if last.GetAStar() != nil {
				var only string
				if len(cr.Fields) == 2 {
					only = cr.Fields[0].GetString_().Sval
				}
				for _, bt := range c.tables {
					if only != "" && only != bt.alias {
						continue
					}
					tg = append(tg, tgt{star: bt})
					cols = append(cols, bt.t.Cols...)
				}
				continue
			}
			name := last.GetString_().Sval
			if rt.Name != "" {
				name = rt.Name
			}
			// type from the column
			var oid uint32
			for _, bt := range c.tables {
				if len(cr.Fields) == 2 && cr.Fields[0].GetString_().Sval != bt.alias {
					continue
				}
				if i := bt.t.col(last.GetString_().Sval); i >= 0 {
					oid = bt.t.Cols[i].OID
					break
				}
			}
			if oid == 0 {
				return nil, nil, sqlErr("42703", "column %q does not exist", last.GetString_().Sval)
			}
			tg = append(tg, tgt{name: name, expr: rt.Val})
			cols = append(cols, PGColumn{name, oid})
			continue
		}
		// constant / cast targets
		name := rt.Name
		if name == "" {
			name = "?column?"
		}
		tg = append(tg, tgt{name: name, expr: rt.Val})
		cols = append(cols, PGColumn{name, OIDText})
	}
	row := func() ([][]byte, error) {
		var out [][]byte
		for _, t := range tg {
			if t.star != nil {
				out = append(out, t.star.row...)
				continue
			}
			v, err := c.eval(t.expr)
			if err != nil {
				return nil, err
			}
			if v.param > 0 || (v.oid == 0 && !v.null) {
				v, err = c.coerce(v, OIDText)
				if err != nil {
					return nil, err
				}
			}
			if v.null {
				out = append(out, nil)
			} else {
				out = append(out, v.b)
			}
		}
		return out, nil
	}
	return cols, row, nil
}

func (db *PGDB) exec(stmt *pg_query.Node, portal *pgPortal) (*resultSet, error) {
	c := &evalCtx{db: db, portal: portal}
	switch {
	case stmt.GetInsertStmt() != nil:
		ins := stmt.GetInsertStmt()
		bt, err := db.table(ins.Relation)
		if err != nil {
			return nil, err
		}
		var idx []int
		if len(ins.Cols) == 0 {
			for i := range bt.t.Cols {
				idx = append(idx, i)
			}
		} else {
			for _, cn := range ins.Cols {
				i := bt.t.col(cn.GetResTarget().Name)
				if i < 0 {
					return nil, sqlErr("42703", "column %q of relation %q does not exist", cn.GetResTarget().Name, bt.t.Name)
				}
				idx = append(idx, i)
			}
		}
		sel := ins.SelectStmt.GetSelectStmt()
		if sel == nil || len(sel.ValuesLists) == 0 {
			return nil, unsupported("INSERT without VALUES")
		}
		var newRows [][][]byte
		for _, vl := range sel.ValuesLists {
			items := vl.GetList().Items
			if len(items) > len(idx) {
				return nil, sqlErr("42601", "INSERT has more expressions than target columns")
			}
			row := make([][]byte, len(bt.t.Cols))
			for k, it := range items {
				v, err := c.eval(it)
				if err != nil {
					return nil, err
				}
				v, err = c.coerce(v, bt.t.Cols[idx[k]].OID)
				if err != nil {
					return nil, err
				}
				if !v.null {
					row[idx[k]] = v.b
				}
			}
			newRows = append(newRows, row)
		}
		rs := &resultSet{tag: fmt.Sprintf("INSERT 0 %d", len(newRows))}
		if len(ins.ReturningList) > 0 {
			c.tables = []*boundTable{bt}
			cols, rowFn, err := db.targets(c, ins.ReturningList)
			if err != nil {
				return nil, err
			}
			rs.cols = cols
			for _, r := range newRows {
				bt.row = r
				out, err := rowFn()
				if err != nil {
					return nil, err
				}
				rs.rows = append(rs.rows, out)
			}
		}
		bt.t.Rows = append(bt.t.Rows, newRows...)
		return rs, nil

	case stmt.GetUpdateStmt() != nil:
		up := stmt.GetUpdateStmt()
		bt, err := db.table(up.Relation)
		if err != nil {
			return nil, err
		}
		c.tables = []*boundTable{bt}
		n := 0
		var touched [][][]byte
		for ri, row := range bt.t.Rows {
			bt.row = row
			ok, err := c.cond(up.WhereClause)
			if err != nil {
				return nil, err
			}
			if ok != bTrue {
				continue
			}
			nr := append([][]byte{}, row...)
			for _, tl := range up.TargetList {
				rt := tl.GetResTarget()
				i := bt.t.col(rt.Name)
				if i < 0 {
					return nil, sqlErr("42703", "column %q does not exist", rt.Name)
				}
				v, err := c.eval(rt.Val)
				if err != nil {
					return nil, err
				}
				v, err = c.coerce(v, bt.t.Cols[i].OID)
				if err != nil {
					return nil, err
				}
				if v.null {
					nr[i] = nil
				} else {
					nr[i] = v.b
				}
			}
			bt.t.Rows[ri] = nr
			touched = append(touched, nr)
			n++
		}
		rs := &resultSet{tag: fmt.Sprintf("UPDATE %d", n)}
		if len(up.ReturningList) > 0 {
			cols, rowFn, err := db.targets(c, up.ReturningList)
			if err != nil {
				return nil, err
			}
			rs.cols = cols
			for _, r := range touched {
				bt.row = r
				out, err := rowFn()
				if err != nil {
					return nil, err
				}
				rs.rows = append(rs.rows, out)
			}
		}
		return rs, nil

	case stmt.GetDeleteStmt() != nil:
		del := stmt.GetDeleteStmt()
		bt, err := db.table(del.Relation)
		if err != nil {
			return nil, err
		}
		c.tables = []*boundTable{bt}
		var keep, gone [][][]byte
		n := 0
		for _, row := range bt.t.Rows {
			bt.row = row
			ok, err := c.cond(del.WhereClause)
			if err != nil {
				return nil, err
			}
			if ok == bTrue {
				n++
				gone = append(gone, row)
			} else {
				keep = append(keep, row)
			}
		}
		bt.t.Rows = keep
		rs := &resultSet{tag: fmt.Sprintf("DELETE %d", n)}
		if len(del.ReturningList) > 0 {
			cols, rowFn, err := db.targets(c, del.ReturningList)
			if err != nil {
				return nil, err
			}
			rs.cols = cols
			for _, r := range gone {
				bt.row = r
				out, err := rowFn()
				if err != nil {
					return nil, err
				}
				rs.rows = append(rs.rows, out)
			}
		}
		return rs, nil

	case stmt.GetSelectStmt() != nil:
		sel := stmt.GetSelectStmt()
		if sel.Op != pg_query.SetOperation_SETOP_NONE || len(sel.ValuesLists) > 0 {
			return nil, unsupported("set operations / VALUES")
		}
		var joinConds []*pg_query.Node
		var addFrom func(n *pg_query.Node) error
		addFrom = func(n *pg_query.Node) error {
			switch {
			case n.GetRangeVar() != nil:
				bt, err := db.table(n.GetRangeVar())
				if err != nil {
					return err
				}
				c.tables = append(c.tables, bt)
			case n.GetJoinExpr() != nil:
				j := n.GetJoinExpr()
				if j.Jointype != pg_query.JoinType_JOIN_INNER {
					return unsupported("join type %v", j.Jointype)
				}
				if err := addFrom(j.Larg); err != nil {
					return err
				}
				if err := addFrom(j.Rarg); err != nil {
					return err
				}
				if j.Quals != nil {
					joinConds = append(joinConds, j.Quals)
				}
			default:
				return unsupported("from item %T", n.Node)
			}
			return nil
		}
		for _, f := range sel.FromClause {
			if err := addFrom(f); err != nil {
				return nil, err
			}
		}
		cols, rowFn, err := db.targets(c, sel.TargetList)
		if err != nil {
			return nil, err
		}
		rs := &resultSet{cols: cols}
		var rec func(k int) error
		rec = func(k int) error {
			if k == len(c.tables) {
				for _, jc := range joinConds {
					ok, err := c.cond(jc)
					if err != nil {
						return err
					}
					if ok != bTrue {
						return nil
					}
				}
				ok, err := c.cond(sel.WhereClause)
				if err != nil {
					return err
				}
				if ok != bTrue {
					return nil
				}
				out, err := rowFn()
				if err != nil {
					return err
				}
				rs.rows = append(rs.rows, out)
				return nil
			}
			for _, row := range c.tables[k].t.Rows {
				c.tables[k].row = row
				if err := rec(k + 1); err != nil {
					return err
				}
			}
			return nil
		}
		if len(c.tables) == 0 {
			out, err := rowFn()
			if err != nil {
				return nil, err
			}
			rs.rows = append(rs.rows, out)
		} else if err := rec(0); err != nil {
			return nil, err
		}
		rs.tag = fmt.Sprintf("SELECT %d", len(rs.rows))
		return rs, nil
	}
	return nil, unsupported("statement %T", stmt.Node)
}

// describe returns the result columns of a statement without executing it (nil = no data).
func (db *PGDB) describe(stmt *pg_query.Node) ([]PGColumn, error) {
	c := &evalCtx{db: db}
	switch {
	case stmt.GetSelectStmt() != nil:
		sel := stmt.GetSelectStmt()
		var add func(n *pg_query.Node) error
		add = func(n *pg_query.Node) error {
			if rv := n.GetRangeVar(); rv != nil {
				bt, err := db.table(rv)
				if err != nil {
					return err
				}
				c.tables = append(c.tables, bt)
				return nil
			}
			if j := n.GetJoinExpr(); j != nil {
				if err := add(j.Larg); err != nil {
					return err
				}
				return add(j.Rarg)
			}
			return unsupported("from item %T", n.Node)
		}
		for _, f := range sel.FromClause {
			if err := add(f); err != nil {
				return nil, err
			}
		}
		cols, _, err := db.targets(c, sel.TargetList)
		return cols, err
	case stmt.GetUpdateStmt() != nil && len(stmt.GetUpdateStmt().ReturningList) > 0:
		bt, err := db.table(stmt.GetUpdateStmt().Relation)
		if err != nil {
			return nil, err
		}
		c.tables = []*boundTable{bt}
		cols, _, err := db.targets(c, stmt.GetUpdateStmt().ReturningList)
		return cols, err
	case stmt.GetDeleteStmt() != nil && len(stmt.GetDeleteStmt().ReturningList) > 0:
		bt, err := db.table(stmt.GetDeleteStmt().Relation)
		if err != nil {
			return nil, err
		}
		c.tables = []*boundTable{bt}
		cols, _, err := db.targets(c, stmt.GetDeleteStmt().ReturningList)
		return cols, err
	case stmt.GetInsertStmt() != nil && len(stmt.GetInsertStmt().ReturningList) > 0:
		bt, err := db.table(stmt.GetInsertStmt().Relation)
		if err != nil {
			return nil, err
		}
		c.tables = []*boundTable{bt}
		cols, _, err := db.targets(c, stmt.GetInsertStmt().ReturningList)
		return cols, err
	}
	return nil, nil
}

// paramTypes infers, for Describe(Statement), the type of each $n from its use.
func (db *PGDB) paramTypes(p *pgPrepared) []uint32 {
	types := map[int]uint32{}
	maxN := 0
	note := func(n *pg_query.Node, oid uint32) {
		if n == nil {
			return
		}
		if tc := n.GetTypeCast(); tc != nil {
			if o, err := typeNameOID(tc.TypeName); err == nil {
				oid = o
			}
			n = tc.Arg
		}
		if pr := n.GetParamRef(); pr != nil {
			if int(pr.Number) > maxN {
				maxN = int(pr.Number)
			}
			if oid != 0 {
				types[int(pr.Number)] = oid
			}
		}
	}
	colOID := func(tables []*PGTable, n *pg_query.Node) uint32 {
		if n == nil {
			return 0
		}
		if fc := n.GetFuncCall(); fc != nil && len(fc.Args) > 0 {
			n = fc.Args[0]
		}
		cr := n.GetColumnRef()
		if cr == nil {
			return 0
		}
		name := cr.Fields[len(cr.Fields)-1].GetString_()
		if name == nil {
			return 0
		}
		for _, t := range tables {
			if i := t.col(name.Sval); i >= 0 {
				return t.Cols[i].OID
			}
		}
		return 0
	}
	var walkCond func(tables []*PGTable, n *pg_query.Node)
	walkCond = func(tables []*PGTable, n *pg_query.Node) {
		if n == nil {
			return
		}
		if be := n.GetBoolExpr(); be != nil {
			for _, a := range be.Args {
				walkCond(tables, a)
			}
		}
		if ae := n.GetAExpr(); ae != nil {
			note(ae.Rexpr, colOID(tables, ae.Lexpr))
			note(ae.Lexpr, colOID(tables, ae.Rexpr))
		}
	}
	var fromTables func(n *pg_query.Node) []*PGTable
	fromTables = func(n *pg_query.Node) []*PGTable {
		if rv := n.GetRangeVar(); rv != nil {
			if t, ok := db.Tables[rv.Relname]; ok {
				return []*PGTable{t}
			}
		}
		if j := n.GetJoinExpr(); j != nil {
			return append(fromTables(j.Larg), fromTables(j.Rarg)...)
		}
		return nil
	}
	s := p.stmt
	switch {
	case s.GetInsertStmt() != nil:
		ins := s.GetInsertStmt()
		t := db.Tables[ins.Relation.Relname]
		if t == nil {
			break
		}
		var idx []int
		if len(ins.Cols) == 0 {
			for i := range t.Cols {
				idx = append(idx, i)
			}
		} else {
			for _, cn := range ins.Cols {
				idx = append(idx, t.col(cn.GetResTarget().Name))
			}
		}
		if sel := ins.SelectStmt.GetSelectStmt(); sel != nil {
			for _, vl := range sel.ValuesLists {
				for k, it := range vl.GetList().Items {
					if k < len(idx) && idx[k] >= 0 {
						note(it, t.Cols[idx[k]].OID)
					}
				}
			}
		}
	case s.GetUpdateStmt() != nil:
		up := s.GetUpdateStmt()
		t := db.Tables[up.Relation.Relname]
		if t == nil {
			break
		}
		for _, tl := range up.TargetList {
			if i := t.col(tl.GetResTarget().Name); i >= 0 {
				note(tl.GetResTarget().Val, t.Cols[i].OID)
			}
		}
		walkCond([]*PGTable{t}, up.WhereClause)
	case s.GetDeleteStmt() != nil:
		if t := db.Tables[s.GetDeleteStmt().Relation.Relname]; t != nil {
			walkCond([]*PGTable{t}, s.GetDeleteStmt().WhereClause)
		}
	case s.GetSelectStmt() != nil:
		var ts []*PGTable
		for _, f := range s.GetSelectStmt().FromClause {
			ts = append(ts, fromTables(f)...)
		}
		walkCond(ts, s.GetSelectStmt().WhereClause)
	}
	out := make([]uint32, maxN)
	for i := range out {
		out[i] = types[i+1]
		if i < len(p.paramOIDs) && p.paramOIDs[i] != 0 {
			out[i] = p.paramOIDs[i]
		}
		if out[i] == 0 {
			out[i] = OIDText
		}
	}
	return out
}

func rowDescription(cols []PGColumn, formats []int16) *pgproto3.RowDescription {
	rd := &pgproto3.RowDescription{}
	for i, c := range cols {
		var f int16
		switch len(formats) {
		case 0:
		case 1:
			f = formats[0]
		default:
			if i < len(formats) {
				f = formats[i]
			}
		}
		size := int16(-1)
		switch c.OID {
		case OIDInt4:
			size = 4
		case OIDInt8:
			size = 8
		}
		rd.Fields = append(rd.Fields, pgproto3.FieldDescription{Name: []byte(c.Name), TableOID: 16384, TableAttributeNumber: uint16(i + 1),
			DataTypeOID: c.OID, DataTypeSize: size, TypeModifier: -1, Format: f})
	}
	return rd
}

func dataRows(rs *resultSet, formats []int16) []pgproto3.BackendMessage {
	var out []pgproto3.BackendMessage
	for _, r := range rs.rows {
		dr := &pgproto3.DataRow{}
		for i, v := range r {
			var f int16
			switch len(formats) {
			case 0:
			case 1:
				f = formats[0]
			default:
				if i < len(formats) {
					f = formats[i]
				}
			}
			dr.Values = append(dr.Values, toWire(rs.cols[i].OID, v, f))
		}
		out = append(out, dr)
	}
	return out
}

// Respond consumes the frontend messages that reached the database in one step and returns
// the backend messages a PostgreSQL server would answer with.
func (db *PGDB) Respond(msgs []pgproto3.FrontendMessage) []pgproto3.BackendMessage {
	var out []pgproto3.BackendMessage
	fail := func(err error) {
		out = append(out, errorResponse(err))
		db.failed = true
	}
	for _, m := range msgs {
		switch m := m.(type) {
		case *pgproto3.Query:
			db.Statements = append(db.Statements, m.String)
			res, err := pg_query.Parse(m.String)
			if err != nil {
				out = append(out, errorResponse(sqlErr("42601", "syntax error: %v", err)), &pgproto3.ReadyForQuery{TxStatus: 'I'})
				continue
			}
			if len(res.Stmts) == 0 {
				out = append(out, &pgproto3.EmptyQueryResponse{}, &pgproto3.ReadyForQuery{TxStatus: 'I'})
				continue
			}
			for _, st := range res.Stmts {
				rs, err := db.exec(st.Stmt, nil)
				if err != nil {
					out = append(out, errorResponse(err))
					break
				}
				if rs.cols != nil {
					out = append(out, rowDescription(rs.cols, nil))
					out = append(out, dataRows(rs, nil)...)
				}
				out = append(out, &pgproto3.CommandComplete{CommandTag: []byte(rs.tag)})
			}
			out = append(out, &pgproto3.ReadyForQuery{TxStatus: 'I'})
		case *pgproto3.Sync:
			db.failed = false
			out = append(out, &pgproto3.ReadyForQuery{TxStatus: 'I'})
		case *pgproto3.Flush, *pgproto3.Terminate:
		default:
			if db.failed {
				continue // extended protocol: discard until Sync
			}
			switch m := m.(type) {
			case *pgproto3.Parse:
				db.Statements = append(db.Statements, m.Query)
				res, err := pg_query.Parse(m.Query)
				if err != nil {
					fail(sqlErr("42601", "syntax error: %v", err))
					continue
				}
				if len(res.Stmts) != 1 {
					fail(sqlErr("42601", "cannot insert multiple commands into a prepared statement"))
					continue
				}
				if _, exists := db.stmts[m.Name]; exists && m.Name != "" {
					fail(sqlErr("42P05", "prepared statement %q already exists", m.Name))
					continue
				}
				p := &pgPrepared{query: m.Query, stmt: res.Stmts[0].Stmt, paramOIDs: append([]uint32{}, m.ParameterOIDs...)}
				if _, err := db.describe(p.stmt); err != nil {
					fail(err)
					continue
				}
				db.stmts[m.Name] = p
				out = append(out, &pgproto3.ParseComplete{})
			case *pgproto3.Bind:
				p, ok := db.stmts[m.PreparedStatement]
				if !ok {
					fail(sqlErr("26000", "prepared statement %q does not exist", m.PreparedStatement))
					continue
				}
				var params [][]byte
				for _, x := range m.Parameters {
					if x == nil {
						params = append(params, nil)
					} else {
						params = append(params, append([]byte{}, x...))
					}
				}
				db.Binds = append(db.Binds, params)
				if need := len(db.paramTypes(p)); need != len(params) {
					fail(sqlErr("08P01", "bind message supplies %d parameters, but prepared statement requires %d", len(params), need))
					continue
				}
				db.portals[m.DestinationPortal] = &pgPortal{prep: p, params: params,
					paramFormats: append([]int16{}, m.ParameterFormatCodes...), resultFormats: append([]int16{}, m.ResultFormatCodes...)}
				out = append(out, &pgproto3.BindComplete{})
			case *pgproto3.Describe:
				if m.ObjectType == 'S' {
					p, ok := db.stmts[m.Name]
					if !ok {
						fail(sqlErr("26000", "prepared statement %q does not exist", m.Name))
						continue
					}
					out = append(out, &pgproto3.ParameterDescription{ParameterOIDs: db.paramTypes(p)})
					cols, err := db.describe(p.stmt)
					if err != nil {
						fail(err)
						continue
					}
					if cols == nil {
						out = append(out, &pgproto3.NoData{})
					} else {
						out = append(out, rowDescription(cols, nil))
					}
				} else {
					po, ok := db.portals[m.Name]
					if !ok {
						fail(sqlErr("34000", "portal %q does not exist", m.Name))
						continue
					}
					cols, err := db.describe(po.prep.stmt)
					if err != nil {
						fail(err)
						continue
					}
					if cols == nil {
						out = append(out, &pgproto3.NoData{})
					} else {
						out = append(out, rowDescription(cols, po.resultFormats))
					}
				}
			case *pgproto3.Execute:
				po, ok := db.portals[m.Portal]
				if !ok {
					fail(sqlErr("34000", "portal %q does not exist", m.Portal))
					continue
				}
				if !po.started {
					rs, err := db.exec(po.prep.stmt, po)
					if err != nil {
						fail(err)
						continue
					}
					po.started, po.tag = true, rs.tag
					if rs.cols != nil {
						po.rest = dataRows(rs, po.resultFormats)
					}
				}
				// Execute with a row limit: that many rows, then PortalSuspended (the portal is
				// complete only when fewer rows than the limit were left)
				if n := int(m.MaxRows); n > 0 && len(po.rest) >= n {
					out = append(out, po.rest[:n]...)
					po.rest = po.rest[n:]
					out = append(out, &pgproto3.PortalSuspended{})
					continue
				}
				out = append(out, po.rest...)
				po.rest = nil
				out = append(out, &pgproto3.CommandComplete{CommandTag: []byte(po.tag)})
			case *pgproto3.Close:
				if m.ObjectType == 'S' {
					delete(db.stmts, m.Name)
				} else {
					delete(db.portals, m.Name)
				}
				out = append(out, &pgproto3.CloseComplete{})
			default:
				fail(unsupported("frontend message %T", m))
			}
		}
	}
	return out
}

// Clone returns a deep copy of the tables (prepared statements and portals are per session
// and are not copied).
func (db *PGDB) Clone() *PGDB {
	c := NewPGDB()
	for name, t := range db.Tables {
		nt := &PGTable{Name: t.Name, Cols: append([]PGColumn{}, t.Cols...)}
		for _, r := range t.Rows {
			nr := make([][]byte, len(r))
			for i, v := range r {
				if v != nil {
					nr[i] = append([]byte{}, v...)
				}
			}
			nt.Rows = append(nt.Rows, nr)
		}
		c.Tables[name] = nt
	}
	return c
}

// ResetSession forgets prepared statements and portals (a new connection).
func (db *PGDB) ResetSession() {
	db.stmts = map[string]*pgPrepared{}
	db.portals = map[string]*pgPortal{}
	db.failed = false
}

// Direct answers a message group as the database would without any proxy in between and
// returns the messages with their wire bytes.
func (db *PGDB) Direct(msgs []pgproto3.FrontendMessage) []Msg {
	var out []Msg
	for _, a := range db.Respond(msgs) {
		if c, err := cloneBackend(a); err == nil {
			out = append(out, c)
		}
	}
	return out
}
