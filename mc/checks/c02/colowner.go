package main

// colowner.go: columns with an explicit client_id in the encryptor configuration. The column's
// client_id names whose keys protect the value (every session writes under it); it is not a
// reading permission: a session of another identity must not get such a value in clear. Every
// (column kind, writing session, reading session, result format) is run through the write chain and
// the decryption subscriber chain the proxy factories build (envl.FactoryWriteChain /
// FactoryReadChain), with the per-column context PgProxy.onColumnDecryption prepares.

import (
	"bytes"
	"fmt"

	"github.com/cossacklabs/acra/encryptor/base/config"

	"verif/envl"
	"verif/ev"
	"verif/fx"
)

const colOwnerYAML = `
schemas:
  - table: t
    columns: [id, ob, os, osb, oss, om]
    encrypted:
      - column: ob
        crypto_envelope: acrablock
        client_id: alpha_1
      - column: os
        crypto_envelope: acrastruct
        client_id: alpha_1
      - column: osb
        crypto_envelope: acrablock
        searchable: true
        client_id: alpha_1
      - column: oss
        crypto_envelope: acrastruct
        searchable: true
        client_id: alpha_1
      - column: om
        crypto_envelope: acrablock
        masking: "xx"
        plaintext_length: 2
        plaintext_side: left
        client_id: alpha_1
`

type colOwnerCase struct {
	Scenario string `json:"scenario"` // "column-client-id"
	Column   string `json:"column"`
	Writer   string `json:"writing_session"`
	Reader   string `json:"reading_session"`
	Binary   bool   `json:"binary_result_format"`
}

func phaseColumnOwner(r *ev.Run, only *colOwnerCase) {
	w := fx.NewWorld(fx.Options{Seed: "c02-colowner", Rotations: 1})
	defer w.Close()
	st, err := config.MapTableSchemaStoreFromConfig([]byte(colOwnerYAML), false)
	if err != nil {
		ev.Fatalf("column owner: config: %v", err)
	}
	ts := st.GetTableSchema("t")
	mask := st.GetGlobalSettingsMask()
	pt := []byte("secret of alpha_1, 33 bytes long.")
	ids := map[string][]byte{"alpha_1": fx.Alpha, "bravo_2": fx.Bravo, "alpha_1x": fx.AlphaX, "no-keys": fx.NoKeys}
	n := 0
	for _, col := range []string{"ob", "os", "osb", "oss", "om"} {
		setting := ts.GetColumnEncryptionSettings(col)
		if setting == nil || string(setting.ClientID()) != "alpha_1" {
			ev.Fatalf("column owner: column %s has no client_id setting", col)
		}
		for _, writer := range []string{"alpha_1", "bravo_2"} {
			wc, err := envl.FactoryWriteChain(w, mask)
			if err != nil {
				ev.Fatalf("column owner: write chain: %v", err)
			}
			stored, err := wc.EncryptWithClientID(envl.WriteClientID(ids[writer], setting), append([]byte{}, pt...), setting)
			if err != nil || bytes.Contains(stored, pt) {
				ev.Fatalf("column owner: %s written by %s is not protected (%v)", col, writer, err)
			}
			for _, reader := range []string{"alpha_1", "bravo_2", "alpha_1x", "no-keys"} {
				for _, bin := range []bool{false, true} {
					c := colOwnerCase{"column-client-id", col, writer, reader, bin}
					if only != nil && *only != c {
						continue
					}
					obs, err := envl.FactoryReadChain(w, mask, true, nil, nil)
					if err != nil {
						ev.Fatalf("column owner: read chain: %v", err)
					}
					ctx := envl.ColumnCtx(ids[reader], 0, bin, len(stored), setting)
					o := envl.Guard(func() ([]byte, error) {
						_, out, err := obs.OnColumnDecryption(ctx, 0, append([]byte{}, stored...))
						return out, err
					})
					r.Eval(1)
					r.Transitions(1)
					r.Traces(1)
					n++
					class := "not-revealed"
					switch {
					case o.Panic != "":
						class = "panic"
						r.Violation(fmt.Sprintf("C02/column-client-id/%s/panic:%s", col, envl.PanicSite(o.Stack)), fmt.Sprintf("reading column %s (client_id alpha_1) in a session of %s panicked: %s", col, reader, o.Panic), c)
					case reader == "alpha_1":
						class = "owner"
						if col != "om" && !bytes.Equal(o.Out, pt) {
							class = "owner-not-revealed" // C01's subject; counted, not judged here
						}
					case bytes.Contains(o.Out, pt) || (col == "om" && bytes.Contains(o.Out, pt[2:])):
						class = "revealed"
						r.Violation(fmt.Sprintf("C02/column-client-id/%s/revealed-to-another-session", col),
							fmt.Sprintf("column %s is configured with client_id alpha_1; a value written by a session of %s came back in clear in a session of %s (binary format %v): %.40q", col, writer, reader, bin, o.Out), c)
					}
					r.Distinct(fmt.Sprintf("colowner|%s|%s|%s|%v|%s", col, writer, reader, bin, class))
					r.Class("column-client-id:"+class, 1)
				}
			}
		}
	}
	r.States(n)
	r.Set("column_client_id_cases", n)
}
