package kslab

import (
	"crypto/rand"
	"errors"
	"fmt"
	"io"
	"reflect"
	"runtime"
	"strconv"
	"sync"
	"unsafe"

	"github.com/cossacklabs/acra/keystore"
	"github.com/cossacklabs/acra/keystore/filesystem"
)

// Observation taps used by C07 (keys at rest). Added next to the existing seams; nothing
// here changes the behaviour of Store / Lab.
//
//   - CacheTap: a recording wrapper installed in place of the unexported key cache of a v1
//     handle: every (name, value) handed to cache.Add is logged, values are passed through
//     untouched, Entries() returns what the cache holds now for every name ever added.
//   - DrawTap: a process-wide wrapper around crypto/rand.Reader (on top of the kslab
//     multiplexer) that attributes every random draw to the goroutine that made it. A
//     check that runs one Lab per goroutine (the Explorer does) calls Begin() when the Lab
//     is created and Draws() when it judges it: the result is every random byte string the
//     real code drew for that Lab - symmetric keys, private key seeds, cache keys, export
//     keys - independent of what reached the storage. Works in RandShared mode, i.e. with
//     parallel labs (Store.Rand.Draws() needs RandPerStore and therefore sequential labs).

// CacheAdd is one logged cache.Add call.
type CacheAdd struct {
	Name  string
	Value []byte
}

// CacheTap records the traffic into a v1 key cache.
type CacheTap struct {
	inner keystore.Cache
	mu    sync.Mutex
	adds  []CacheAdd
	names map[string]bool
}

var _ keystore.Cache = (*CacheTap)(nil)

// Add logs and forwards.
func (c *CacheTap) Add(keyID string, keyValue []byte) {
	c.mu.Lock()
	c.adds = append(c.adds, CacheAdd{Name: keyID, Value: append([]byte(nil), keyValue...)})
	c.names[keyID] = true
	c.mu.Unlock()
	c.inner.Add(keyID, keyValue)
}

// Get forwards.
func (c *CacheTap) Get(keyID string) ([]byte, bool) { return c.inner.Get(keyID) }

// Clear forwards.
func (c *CacheTap) Clear() { c.inner.Clear() }

// Adds returns a copy of the logged Add calls.
func (c *CacheTap) Adds() []CacheAdd {
	c.mu.Lock()
	defer c.mu.Unlock()
	return append([]CacheAdd(nil), c.adds...)
}

// Entries returns the present content of the cache for every name that was ever added
// (read through the inner cache's Get: for an LRU this also touches the entries).
func (c *CacheTap) Entries() []CacheAdd {
	c.mu.Lock()
	names := make([]string, 0, len(c.names))
	for n := range c.names {
		names = append(names, n)
	}
	c.mu.Unlock()
	var out []CacheAdd
	for _, n := range names {
		if v, ok := c.inner.Get(n); ok {
			out = append(out, CacheAdd{Name: n, Value: v})
		}
	}
	return out
}

// TapCache replaces the key cache of the main v1 handle by a recording wrapper around it
// (the unexported field filesystem.KeyStore.cache is reached by reflection, like the
// cache encryptor). It must be called again after Reopen (new handle, new cache).
func (s *Store) TapCache() (*CacheTap, error) {
	if s.V1 == nil {
		return nil, errors.New("kslab: TapCache needs a v1 store")
	}
	return tapCacheOf(s.V1)
}

func tapCacheOf(ks *filesystem.KeyStore) (tap *CacheTap, err error) {
	defer func() {
		if v := recover(); v != nil {
			err = fmt.Errorf("kslab: cannot reach filesystem.KeyStore.cache: %v", v)
		}
	}()
	f := reflect.ValueOf(ks).Elem().FieldByName("cache")
	if !f.IsValid() {
		return nil, errors.New("kslab: filesystem.KeyStore has no field cache any more")
	}
	w := reflect.NewAt(f.Type(), unsafe.Pointer(f.UnsafeAddr())).Elem()
	cur, ok := w.Interface().(keystore.Cache)
	if !ok || cur == nil {
		return nil, errors.New("kslab: filesystem.KeyStore.cache is not a keystore.Cache")
	}
	if t, ok := cur.(*CacheTap); ok {
		return t, nil
	}
	tap = &CacheTap{inner: cur, names: map[string]bool{}}
	w.Set(reflect.ValueOf(keystore.Cache(tap)))
	return tap, nil
}

// ---------------------------------------------------------------- random draws per goroutine

type drawTap struct {
	inner io.Reader
	mu    sync.Mutex
	logs  map[uint64]*[][]byte
}

var (
	theDrawTap  *drawTap
	drawTapOnce sync.Once
)

// InstallDrawTap wraps the process-wide crypto/rand.Reader (after InstallRand) so that
// draws can be attributed to goroutines. Idempotent.
func InstallDrawTap() {
	InstallRand()
	drawTapOnce.Do(func() {
		theDrawTap = &drawTap{inner: rand.Reader, logs: map[uint64]*[][]byte{}}
		rand.Reader = theDrawTap
	})
}

func (d *drawTap) Read(p []byte) (int, error) {
	n, err := d.inner.Read(p)
	if n > 0 {
		id := goid()
		d.mu.Lock()
		l := d.logs[id]
		d.mu.Unlock()
		if l != nil {
			*l = append(*l, append([]byte(nil), p[:n]...))
		}
	}
	return n, err
}

// BeginDraws starts (or restarts) the draw log of the calling goroutine.
func BeginDraws() {
	InstallDrawTap()
	id := goid()
	l := new([][]byte)
	theDrawTap.mu.Lock()
	theDrawTap.logs[id] = l
	theDrawTap.mu.Unlock()
}

// Draws returns every random byte string drawn by the calling goroutine since BeginDraws.
func Draws() [][]byte {
	if theDrawTap == nil {
		return nil
	}
	id := goid()
	theDrawTap.mu.Lock()
	l := theDrawTap.logs[id]
	theDrawTap.mu.Unlock()
	if l == nil {
		return nil
	}
	return append([][]byte(nil), (*l)...)
}

// EndDraws forgets the draw log of the calling goroutine.
func EndDraws() {
	if theDrawTap == nil {
		return
	}
	id := goid()
	theDrawTap.mu.Lock()
	delete(theDrawTap.logs, id)
	theDrawTap.mu.Unlock()
}

// goid is the id of the calling goroutine (parsed from the stack header; only used to
// key the draw logs).
func goid() uint64 {
	var buf [64]byte
	b := buf[:runtime.Stack(buf[:], false)]
	// "goroutine 123 [running]:"
	const prefix = "goroutine "
	if len(b) < len(prefix) {
		return 0
	}
	b = b[len(prefix):]
	i := 0
	for i < len(b) && b[i] >= '0' && b[i] <= '9' {
		i++
	}
	id, _ := strconv.ParseUint(string(b[:i]), 10, 64)
	return id
}
