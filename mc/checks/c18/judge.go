package main

// Oracle of C18 (what the statement demands, nothing more):
//
//  1. Confidentiality: the bundle bytes contain no private / symmetric key value of the
//     source (any slot, any generation, also destroyed ones) raw, hex or base64. The access
//     keys are excluded by definition. Opened with its access keys by an independent decoder,
//     the bundle holds key material of selected slots only, only of surviving keys, and in
//     public-only mode no private / symmetric material at all.
//  2. Good import: every unselected slot of the target is exactly what it was (absent in an
//     empty target). Every selected slot holds what the path carries, with identical values:
//     - v1-backuper with explicit ids carries the CURRENT key only (KeyStoragePrivate /
//     KeyPoisonPrivate: the private file; ...Public: the public file; KeySymmetric, KeySearch:
//     the key file). It overwrites the target's current file; the target's own history files
//     stay. Expected: target current == source current, nothing else changes.
//     - v1-backuper without ids carries every file of the key folder, history files
//     (<name>.old/<timestamp>) included: order (timestamps) and current marker (current file vs
//     history) travel with the names. Into an empty target the slot must come out identical
//     (same values, same newest-first order, same current); into a non-empty target the
//     source's survivors must all be there in the same relative order, the current key must
//     be the source's (the target's if the source has none) and nothing else may appear.
//     - v2-rings / v2-backuper carry whole key rings: seqnums, key states, validity ranges,
//     current marker, key data (ExportPrivateKeys: private + public + symmetric; otherwise
//     public data only and rings without public data are left out). Expected: the imported
//     ring equals the source ring field by field (destroyed keys stay destroyed and empty).
//     An existing ring: default delegate -> the import is refused and that ring is untouched
//     (rings of the same bundle imported before the conflict may be present or not: the
//     statement does not say); skip -> untouched, import goes on; overwrite -> equals source.
//     - v1-to-v2 carries current keys only (ImportKeyFileV1 adds the key as the new current
//     key of the ring). Expected: ring's current key == source current (both parts), older
//     keys of the target ring untouched.
//     The target's read-current / read-all answers (kslab Handle) must agree: read-current
//     returns the carried current key; read-all offers every carried key (identical sequence
//     to the source's answer when the slot was imported whole into a slot that was empty).
//  3. Tampering: any single altered byte of the bundle or of the access keys, or other access
//     keys, makes the import fail and leaves every stored byte of the target unchanged
//     (MemFS walk / back end snapshot). An altered access key blob that still decodes to the
//     very same key values (JSON / base64 slack) is not "wrong access keys": both outcomes
//     are accepted there.

import (
	"bytes"
	"crypto/sha256"
	"encoding/base64"
	"encoding/hex"
	"fmt"
	"sort"
	"strings"

	"github.com/cossacklabs/acra/keystore"
	"github.com/cossacklabs/acra/keystore/filesystem"
	keystoreV2 "github.com/cossacklabs/acra/keystore/v2/keystore"

	"verif/ev"
	"verif/kslab"
)

// ---------------------------------------------------------------- views

type view struct {
	v2     bool
	Phys   kslab.Phys
	Ring   kslab.RingDetail
	Cur    kslab.CurAnswer
	All    [][]byte
	AllErr error
	asked  bool // Cur / All were read
}

// physOf reads the stored content of a slot below the key store API (never creates anything).
func physOf(s *kslab.Store, sl kslab.Slot) view {
	v := view{v2: s.Cfg.Format == "v2"}
	v.Phys = s.Inspect(sl)
	if v.v2 {
		v.Ring = s.RingDetail(sl)
	}
	return v
}

// withAnswers adds the read-current / read-all answers of the key store API. NOTE: the v2
// readers open key rings read-write, which CREATES an empty ring for a slot that has none;
// answers are therefore only asked for slots that hold keys (source) or after every physical
// view has been taken (target).
func withAnswers(s *kslab.Store, sl kslab.Slot, v view) view {
	v.Cur = s.Side.ReadCurrent(sl)
	v.All, v.AllErr = s.Side.ReadAll(sl)
	v.asked = true
	return v
}

// physViews: physical views of every slot.
func physViews(s *kslab.Store) map[kslab.Slot]view {
	m := make(map[kslab.Slot]view, len(allSlots))
	for _, sl := range allSlots {
		m[sl] = physOf(s, sl)
	}
	return m
}

func hexes(l [][]byte) string {
	p := make([]string, len(l))
	for i, b := range l {
		p[i] = hex.EncodeToString(b)
	}
	return strings.Join(p, ",")
}

// fp is a complete fingerprint of the stored content of a slot.
func (v view) fp() string {
	s := fmt.Sprintf("S[%s]c%d P[%s]c%d N%v A(%s)", hexes(v.Phys.Secrets), v.Phys.Cur, hexes(v.Phys.Publics), v.Phys.PubCur, v.Phys.Names, v.Phys.Anomaly)
	if v.v2 {
		s += fmt.Sprintf(" R%v cur%d e(%s)", v.Ring.Exists, v.Ring.Current, v.Ring.Err)
		for _, k := range v.Ring.Keys {
			s += fmt.Sprintf(" {%d %s %d %d %x %x %s|%s}", k.Seq, k.State, k.ValidSince.UnixNano(), k.ValidUntil.UnixNano(), k.Secret, k.Public, k.SecretErr, k.PublicErr)
		}
	}
	return s
}

func (v view) empty() bool {
	return len(v.Phys.Secrets) == 0 && len(v.Phys.Publics) == 0 && !v.Ring.Exists
}

func (v view) curSecret() []byte {
	if v.Phys.Cur >= 0 && v.Phys.Cur < len(v.Phys.Secrets) {
		return v.Phys.Secrets[v.Phys.Cur]
	}
	return nil
}

func (v view) curPublic() []byte {
	if v.Phys.PubCur >= 0 && v.Phys.PubCur < len(v.Phys.Publics) {
		return v.Phys.Publics[v.Phys.PubCur]
	}
	return nil
}

// physSnap hashes every stored byte of a mem-backed store (names, modes, content).
func physSnap(s *kslab.Store) [32]byte {
	h := sha256.New()
	if s.Mem != nil {
		for _, f := range s.Mem.Walk() {
			fmt.Fprintf(h, "%q %v %o %d:", f.Path, f.Dir, f.Mode, len(f.Data))
			h.Write(f.Data)
		}
	} else {
		snap, err := s.Backend.Snapshot()
		if err != nil {
			panic(err)
		}
		paths := make([]string, 0, len(snap))
		for p := range snap {
			paths = append(paths, p)
		}
		sort.Strings(paths)
		for _, p := range paths {
			fmt.Fprintf(h, "%q %d:", p, len(snap[p]))
			h.Write(snap[p])
		}
	}
	var out [32]byte
	copy(out[:], h.Sum(nil))
	return out
}

// ---------------------------------------------------------------- secret scanning

type secretVal struct {
	sl  kslab.Slot
	ord int
	val []byte
}

// needles of one secret: raw, (pairs: the 32-byte scalar at the end of the Themis container),
// hex lower/upper, base64 std/url at the three alignments.
func needles(sec []byte, pair bool) map[string][]byte {
	n := map[string][]byte{"raw": sec}
	if pair && len(sec) > 32 {
		n["raw-scalar"] = sec[len(sec)-32:]
	}
	core := sec
	if pair && len(sec) > 32 {
		core = sec[len(sec)-32:]
	}
	h := hex.EncodeToString(core)
	n["hex"] = []byte(h)
	n["HEX"] = []byte(strings.ToUpper(h))
	for o := 0; o < 3; o++ {
		buf := append(make([]byte, o), core...)
		full := (len(buf) * 8) / 6
		drop := []int{0, 2, 3}[o]
		for name, enc := range map[string]*base64.Encoding{"base64": base64.RawStdEncoding, "base64url": base64.RawURLEncoding} {
			e := enc.EncodeToString(buf)
			n[fmt.Sprintf("%s@%d", name, o)] = []byte(e[drop:full])
		}
	}
	return n
}

func findSecret(hay []byte, s secretVal) string {
	nd := needles(s.val, s.sl.Kind.IsPair())
	names := make([]string, 0, len(nd))
	for k := range nd {
		names = append(names, k)
	}
	sort.Strings(names)
	for _, k := range names {
		if bytes.Contains(hay, nd[k]) {
			return strings.SplitN(k, "@", 2)[0]
		}
	}
	return ""
}

// ---------------------------------------------------------------- export oracle

func kindClasses(sel Selection, st kslab.State) (class, feat string) {
	if sel.All {
		class = "all"
	}
	rank := map[string]int{"empty": 0, "single": 1, "intact": 2, "rotated-destroyed": 3, "current-destroyed": 4}
	feat = "empty"
	var cs []string
	slots := sel.Slots
	if sel.All {
		slots = universe
	}
	for _, sl := range slots {
		if !sel.All {
			cs = append(cs, sl.Kind.Class())
		}
		if f := st.Slot(sl).Feature(); rank[f] > rank[feat] {
			feat = f
		}
	}
	if !sel.All {
		class = strings.Join(cs, "+")
	}
	return
}

func idsOrAll(t Tuple) string {
	if t.Sel.All {
		return "export-all"
	}
	return "export-ids"
}

func judgeExport(src *source, t Tuple, b *Bundle, xerr error) (fs []finding, usable bool) {
	explicit := !t.Sel.All
	_, feat := kindClasses(t.Sel, src.state)
	base := fmt.Sprintf("C18/%s/%s/%s/", t.Path, idsOrAll(t), t.Mode)
	if xerr != nil {
		if p, ok := kslab.IsPanic(xerr); ok {
			return []finding{{base + "export-panics", fmt.Sprintf("export panicked: %s", p.Value), t}}, false
		}
		if t.Path == PathV1 && explicit {
			// the ids name the CURRENT key of a slot: with the current key destroyed there is
			// nothing to export and a refusal is what the statement admits
			for _, sl := range t.Sel.Slots {
				sec, pub := carried(t.Path, t.Mode, sl, explicit)
				v := src.views[sl]
				if (sec && v.Phys.Cur < 0) || (pub && v.Phys.PubCur < 0) {
					return nil, false
				}
			}
		}
		if (t.Path == PathV1 || t.Path == PathCLI) && !explicit {
			// whole folder: find the slot whose files alone make the export fail
			memSrc := src
			if src.lab.S.Mem == nil {
				// directory-backed source (command line): reproduce the state in memory for the analysis
				var err error
				if memSrc, err = buildSource(PathV1, srcState{Hist: t.History}); err != nil {
					ev.Fatalf("%v", err)
				}
				defer memSrc.lab.Close()
			}
			for _, c := range v1Culprits(memSrc, t.Mode) {
				fs = append(fs, finding{fmt.Sprintf("C18/%s/%s/export-fails/%s", t.Path, idsOrAll(t), c), fmt.Sprintf("export of the whole key folder failed: %v; the files of %s alone make it fail [source: %s]", xerr, c, src.state.StorageCanon()), t})
			}
			if len(fs) > 0 {
				return fs, false
			}
		}
		return []finding{{base + "export-fails/" + feat, fmt.Sprintf("export of keys that exist in the source failed: %v [source: %s]", xerr, src.state.StorageCanon()), t}}, false
	}
	// 1. nothing secret in the bytes that travel
	for _, s := range src.secrets {
		if how := findSecret(b.Data, s); how != "" {
			fs = append(fs, finding{fmt.Sprintf("C18/%s/bundle-contains-key-in-clear/%s", t.Path, how), fmt.Sprintf("the bundle contains key #%d of %s in clear (%s)", s.ord, s.sl, how), t})
		}
	}
	// 2. opened with the access keys: only what was selected, only what the mode promises
	o, err := openBundle(t.Path, *b)
	if err == nil && (t.Path == PathV2Rings || t.Path == PathV2Backup) {
		b.Rings = map[string]bool{}
		for _, ring := range o.Rings {
			b.Rings[string(ring.Purpose)] = true
		}
	}
	if err != nil {
		fs = append(fs, finding{base + "bundle-cannot-be-opened-with-its-access-keys", fmt.Sprintf("the export reported success but its output (%d bytes, all zero: %v) cannot be opened with the access keys it returned: %v", len(b.Data), allZero(b.Data), err), t})
		return fs, false
	}
	for _, s := range src.secrets {
		how := findSecret(o.Plain, s)
		if how == "" {
			continue
		}
		st := src.state.Slot(s.sl)
		sec, _ := carried(t.Path, t.Mode, s.sl, explicit)
		switch {
		case !t.Sel.has(s.sl):
			fs = append(fs, finding{base + "bundle-carries-unselected-key", fmt.Sprintf("the decrypted bundle holds key #%d of %s, which is not selected", s.ord, s.sl), t})
		case !sec:
			fs = append(fs, finding{base + "bundle-carries-private-material-the-mode-excludes", fmt.Sprintf("the decrypted bundle holds the secret of key #%d of %s in mode %s", s.ord, s.sl, t.Mode), t})
		case !st.Survives(s.ord):
			fs = append(fs, finding{base + "bundle-carries-destroyed-key", fmt.Sprintf("the decrypted bundle holds key #%d of %s, which was destroyed", s.ord, s.sl), t})
		case t.Path == PathV1 && explicit && s.ord != st.Cur:
			fs = append(fs, finding{base + "bundle-carries-rotated-key", fmt.Sprintf("the decrypted bundle holds rotated key #%d of %s although the ids name the current key", s.ord, s.sl), t})
		}
	}
	// an "everything" export of a populated store that carries nothing
	if t.Sel.All && len(o.Rings) == 0 && len(o.Files) == 0 {
		for _, sl := range universe {
			sec, pub := carried(t.Path, t.Mode, sl, explicit)
			if !src.views[sl].empty() && (sec || pub) {
				fs = append(fs, finding{base + "bundle-is-empty", fmt.Sprintf("the export reported success but the bundle holds no key at all (the source holds keys, e.g. %s)", sl), t})
				return fs, false
			}
		}
	}
	// structure: files / rings of unselected slots
	if !t.Sel.All {
		okRing := map[string]bool{}
		for _, sl := range t.Sel.Slots {
			okRing[kslab.V2RingPath(sl)] = true
		}
		for _, ring := range o.Rings {
			if !okRing[string(ring.Purpose)] {
				fs = append(fs, finding{base + "bundle-carries-unselected-ring", fmt.Sprintf("the bundle holds key ring %q, which is not selected", ring.Purpose), t})
			}
		}
		if t.Path == PathV1 {
			want := map[string]bool{}
			for _, sl := range t.Sel.Slots {
				for _, n := range v1FileNames(sl) {
					want[n] = true
				}
			}
			for _, f := range o.Files {
				if !want[f.Name] {
					fs = append(fs, finding{base + "bundle-carries-unselected-file", fmt.Sprintf("the bundle holds file %q, which belongs to no selected key", f.Name), t})
				}
			}
		}
	}
	return fs, true
}

// v1Culprits: for a failed whole-folder export, the slots ("kind:current-only" or
// "kind:with-rotated-keys") whose files alone make KeyBackuper.Export fail.
func v1Culprits(src *source, mode string) []string {
	seen := map[string]bool{}
	var out []string
	for _, sl := range universe {
		st := src.state.Slot(sl)
		if len(src.views[sl].Phys.Secrets) == 0 && len(src.views[sl].Phys.Publics) == 0 {
			continue
		}
		clone := src.lab.S.Mem.Clone()
		keep := v1FileNames(sl)
		for _, f := range clone.Walk() {
			if f.Dir {
				continue
			}
			mine := false
			for _, n := range keep {
				p := kslab.MemRoot + "/" + n
				if f.Path == p || strings.HasPrefix(f.Path, p+".old/") {
					mine = true
				}
			}
			if !mine {
				clone.Raw().Remove(f.Path)
			}
		}
		bk, err := filesystem.NewKeyBackuper(kslab.MemRoot, "", clone, scell(kslab.DefaultMasterKeys().V1), nil)
		if err != nil {
			continue
		}
		if _, err := bk.Export(nil, exportMode(mode)); err != nil {
			c := sl.Kind.String() + ":current-only"
			if len(st.Surv) > 1 || (len(st.Surv) == 1 && st.Cur == 0) {
				c = sl.Kind.String() + ":with-rotated-keys"
			}
			if !seen[c] {
				seen[c] = true
				out = append(out, c)
			}
		}
	}
	return out
}

// v1FileNames: current file names (private, public) of a slot relative to the key folder.
func v1FileNames(sl kslab.Slot) []string {
	switch sl.Kind {
	case kslab.StoragePair:
		return []string{sl.Client + "_storage", sl.Client + "_storage.pub"}
	case kslab.StorageSym:
		return []string{sl.Client + "_storage_sym"}
	case kslab.SearchHMAC:
		return []string{sl.Client + "_hmac"}
	case kslab.PoisonPair:
		return []string{".poison_key/poison_key", ".poison_key/poison_key.pub"}
	case kslab.PoisonSym:
		return []string{".poison_key/poison_key_sym"}
	}
	return []string{"secure_log_key"}
}

// ---------------------------------------------------------------- import oracle

func eqList(a, b [][]byte) bool {
	if len(a) != len(b) {
		return false
	}
	for i := range a {
		if !bytes.Equal(a[i], b[i]) {
			return false
		}
	}
	return true
}

func indexOf(l [][]byte, v []byte) int {
	for i, x := range l {
		if bytes.Equal(x, v) {
			return i
		}
	}
	return -1
}

func allZero(b []byte) bool {
	for _, x := range b {
		if x != 0 {
			return false
		}
	}
	return len(b) > 0
}

func valueClass(got, want []byte) string {
	switch {
	case got == nil:
		return "missing"
	case allZero(got):
		return "all-zero-bytes"
	case len(got) != len(want):
		return "other-length"
	}
	return "other-value"
}

// withoutIndex returns l without element i (i < 0: l).
func withoutIndex(l [][]byte, i int) [][]byte {
	if i < 0 || i >= len(l) {
		return l
	}
	out := append([][]byte(nil), l[:i]...)
	return append(out, l[i+1:]...)
}

// subsequence: every element of sub appears in l, in the same relative order.
func subsequence(sub, l [][]byte) bool {
	j := 0
	for _, x := range l {
		if j < len(sub) && bytes.Equal(sub[j], x) {
			j++
		}
	}
	return j == len(sub)
}

func judgeImport(src *source, t Tuple, rings map[string]bool, before, after map[kslab.Slot]view, ierr error) (fs []finding, outcome string) {
	v2 := t.Path == PathV2Rings || t.Path == PathV2Backup
	// v2: a slot travels iff its ring is in the (opened) bundle; whether the bundle holds the
	// right rings is judged at export. Other paths: by what the path / mode carries.
	travels := func(sl kslab.Slot, sec, pub bool) bool {
		if v2 {
			return rings[kslab.V2RingPath(sl)]
		}
		return sec || pub
	}
	explicit := !t.Sel.All && t.Path != PathMigrate
	how := idsOrAll(t)
	if t.Path == PathMigrate {
		how = "migrate"
	}
	base := fmt.Sprintf("C18/%s/%s/", t.Path, how)
	add := func(key, msg string) { fs = append(fs, finding{base + key, msg, t}) }
	if p, ok := kslab.IsPanic(ierr); ok {
		add(t.Mode+"/import-panics", "import panicked: "+p.Value)
	}

	// which selected slots travel in the bundle, and which of them collide with a ring / file of the target
	type sv struct {
		sl       kslab.Slot
		sec, pub bool
	}
	var travelling []sv
	conflict := false
	for _, sl := range universe {
		if !t.Sel.has(sl) || src.state.Slot(sl).N == 0 {
			continue
		}
		sec, pub := carried(t.Path, t.Mode, sl, explicit)
		if v2 && (sec || pub) && !travels(sl, sec, pub) {
			add(t.Mode+"/selected-ring-missing-from-bundle", fmt.Sprintf("key ring of %s is selected and mode %s carries it, but the bundle does not hold it", sl, t.Mode))
		}
		if !travels(sl, sec, pub) {
			continue
		}
		travelling = append(travelling, sv{sl, sec, pub})
		if v2 && before[sl].Ring.Exists {
			conflict = true
		}
	}
	expectRefusal := conflict && t.Target == TgtSame
	outcome = "imported"
	switch {
	case len(travelling) == 0:
		outcome = "nothing-to-carry"
	case expectRefusal:
		outcome = "existing-ring-refused"
	case conflict && t.Target == TgtSameSkip:
		outcome = "existing-ring-skipped"
	case conflict && t.Target == TgtSameOver:
		outcome = "existing-ring-overwritten"
	}
	migrationHistory := false
	if t.Path == PathMigrate {
		for _, sl := range universe {
			v := src.views[sl]
			n := len(v.Phys.Secrets)
			if v.Phys.Cur >= 0 {
				n--
			}
			if n > 0 {
				migrationHistory = true
			}
		}
	}
	switch {
	case expectRefusal && ierr == nil:
		add(t.Mode+"/existing-ring-not-refused-by-default-delegate", "the target already holds a selected key ring and the import with the default delegate reported success")
	case !expectRefusal && ierr != nil && t.Path == PathMigrate:
		// judged per slot below: the migration goes on after a key that fails
	case !expectRefusal && ierr != nil:
		_, feat := kindClasses(t.Sel, src.state)
		destroyedTravels := false
		for _, sl := range universe {
			if !t.Sel.has(sl) {
				continue
			}
			// (a ring whose keys are ALL destroyed travels even in public mode: no key data, so no "no public data")
			for _, k := range src.views[sl].Ring.Keys {
				destroyedTravels = destroyedTravels || k.State == "destroyed"
			}
		}
		pfx := base + t.Mode + "/"
		if v2 {
			// both v2 paths end in KeyStore.ImportKeyRings: one entry point, one key
			pfx = "C18/v2-import/"
			feat = "no-destroyed-key/" + feat
			if destroyedTravels {
				feat = "ring-with-destroyed-key"
			}
		}
		fs = append(fs, finding{pfx + "import-of-untampered-bundle-fails/" + feat, fmt.Sprintf("import with the right access keys failed: %v [source: %s]", ierr, src.state.StorageCanon()), t})
		outcome = "FAILED"
		// the only further demand on a failed import: it must not leave debris behind
		for _, sl := range allSlots {
			if after[sl].fp() != before[sl].fp() {
				fs = append(fs, finding{pfx + "failed-import-changed-target", fmt.Sprintf("the import failed (%v) but slot %s of the target changed (ring exists=%v with %d keys afterwards, exists=%v before)", ierr, sl, after[sl].Ring.Exists, len(after[sl].Ring.Keys), before[sl].Ring.Exists), t})
				break
			}
		}
		return fs, outcome
	}
	migErrExplained := false
	if t.Path == PathMigrate && migrationHistory {
		if ierr != nil {
			migErrExplained = true
			add("source-with-rotated-keys/migration-reports-failure", fmt.Sprintf("MigrateV1toV2 of a v1 key store that holds rotated keys returned %q (history files <key>.old/<timestamp> are classified as private storage keys of a client named after the time stamp and cannot be decrypted) [source: %s]", ierr, src.state.StorageCanon()))
			outcome = "current-keys-only+error"
		} else {
			outcome = "current-keys-only"
		}
	}

	for _, sl := range allSlots {
		b, a := before[sl], after[sl]
		s, inSrc := src.views[sl]
		selected := inSrc && t.Sel.has(sl) && src.state.Slot(sl).N > 0
		sec, pub := false, false
		if selected {
			sec, pub = carried(t.Path, t.Mode, sl, explicit)
		}
		cls := sl.Kind.Class()
		// (v2, public-only mode, a ring without public data whose keys are ALL destroyed has no
		// key data at all, so the "no public data -> leave the ring out" rule does not trigger
		// and the ring travels as a list of destroyed, empty keys: no key material is made
		// available by that, the statement does not forbid it; it is judged like any ring)
		if !selected || !travels(sl, sec, pub) {
			if a.fp() != b.fp() {
				if b.empty() {
					add(t.Mode+"/unselected-key-appears-in-target", fmt.Sprintf("slot %s was not selected (or the mode carries nothing of it) but the target now holds keys there", sl))
				} else {
					add(t.Mode+"/unselected-key-of-target-changed", fmt.Sprintf("slot %s was not selected but the target's keys there changed", sl))
				}
			}
			continue
		}
		feat := src.state.Slot(sl).Feature()
		nBefore := len(fs)
		switch t.Path {
		case PathV1, PathCLI:
			if explicit {
				judgeV1IDs(add, t, sl, s, b, a, sec, pub)
			} else {
				judgeV1All(add, t, sl, s, b, a, sec, pub)
			}
		case PathV2Rings, PathV2Backup:
			switch {
			case b.Ring.Exists && (t.Target == TgtSame || t.Target == TgtSameSkip):
				if a.fp() != b.fp() {
					add(fmt.Sprintf("%s/%s/existing-ring-changed", t.Mode, t.Target), fmt.Sprintf("key ring of %s existed in the target and must stay as it was (%s)", sl, t.Target))
				}
				continue
			case expectRefusal && a.fp() == b.fp():
				// a ring of the same bundle that was not reached before the refusal: admitted
				continue
			case ierr != nil && a.fp() == b.fp():
				continue // failure already reported
			}
			if d := ringDiff(s.Ring, a.Ring, sl, sec); d != "" && ierr != nil {
				// the import stopped (expected refusal at another ring, or a failure already
				// reported) and left this ring half-made
				fs = append(fs, finding{"C18/v2-import/failed-import-changed-target", fmt.Sprintf("the import failed (%v) but the key ring of %s in the target changed and is not the source's ring either: %s", ierr, sl, d), t})
				continue
			}
			if d := ringDiff(s.Ring, a.Ring, sl, sec); d != "" {
				// one entry point (ExportKeyRings -> ImportKeyRings) behind both v2 paths: one key per kind of difference
				what := strings.SplitN(d, " ", 2)[0]
				if strings.HasPrefix(what, "secret") || strings.HasPrefix(what, "public") || strings.HasPrefix(what, "private") {
					what = t.Mode + "/" + what
				}
				fs = append(fs, finding{"C18/v2-import/imported-ring-differs:" + what, fmt.Sprintf("key ring of %s (%s, %s) in the target differs from the source: %s", sl, cls, feat, d), t})
				continue
			}
			if expectRefusal {
				outcome = "existing-ring-refused(partial-import-before-it)"
			}
		case PathMigrate:
			judgeMigrated(add, t, sl, s, b, a)
		}
		// the target's answers (not when the stored content is already wrong: they would only mirror it)
		if len(fs) == nBefore && a.asked && (ierr == nil || t.Path == PathMigrate) {
			judgeAnswers(add, t, sl, s, b, a, sec, pub, explicit)
		}
	}
	if t.Path == PathMigrate && ierr != nil && !migErrExplained && len(fs) == 0 {
		add("migration-reports-failure-without-visible-cause", fmt.Sprintf("MigrateV1toV2 returned %q although every current key arrived [source: %s]", ierr, src.state.StorageCanon()))
	}
	if t.Path == PathMigrate && ierr != nil && !migErrExplained {
		outcome = "FAILED"
	}
	return fs, outcome
}

func judgeV1IDs(add func(key, msg string), t Tuple, sl kslab.Slot, s, b, a view, sec, pub bool) {
	cls := sl.Kind.Class()
	expS, expCur := b.Phys.Secrets, b.Phys.Cur
	if sec {
		expS = append([][]byte{s.curSecret()}, withoutIndex(b.Phys.Secrets, b.Phys.Cur)...)
		expCur = 0
	}
	if !eqList(a.Phys.Secrets, expS) || a.Phys.Cur != expCur {
		got := a.curSecret()
		switch {
		case sec && allZero(got):
			// one key for every kind: the same zeroize-before-encode pattern at each export id case
			add("imported-secret-is-all-zero-bytes", fmt.Sprintf("current secret of %s in the target is %d zero bytes, not the source's current key%s", sl, len(got), anomaly(a)))
		case sec && !bytes.Equal(got, s.curSecret()):
			add(fmt.Sprintf("%s/imported-secret-differs-from-source:%s", cls, valueClass(got, s.curSecret())), fmt.Sprintf("current secret of %s in the target is %s (%d bytes), not the source's current key%s", sl, valueClass(got, s.curSecret()), len(got), anomaly(a)))
		default:
			add(fmt.Sprintf("%s/%s/target-secrets-not-as-expected", t.Mode, cls), fmt.Sprintf("secrets of %s in the target: %d (current index %d), expected %d (current index %d): the source's current key first, the target's own history unchanged%s", sl, len(a.Phys.Secrets), a.Phys.Cur, len(expS), expCur, anomaly(a)))
		}
	}
	if !sl.Kind.IsPair() {
		return
	}
	expP, expPC := b.Phys.Publics, b.Phys.PubCur
	if pub {
		expP = append([][]byte{s.curPublic()}, withoutIndex(b.Phys.Publics, b.Phys.PubCur)...)
		expPC = 0
	}
	if !eqList(a.Phys.Publics, expP) || a.Phys.PubCur != expPC {
		add(fmt.Sprintf("%s/%s/target-public-keys-not-as-expected", t.Mode, cls), fmt.Sprintf("public keys of %s in the target: %d (current index %d), expected %d (current index %d)", sl, len(a.Phys.Publics), a.Phys.PubCur, len(expP), expPC))
	}
}

func anomaly(v view) string {
	if v.Phys.Anomaly == "" {
		return ""
	}
	return " [target storage: " + v.Phys.Anomaly + "]"
}

func judgeV1All(add func(key, msg string), t Tuple, sl kslab.Slot, s, b, a view, sec, pub bool) {
	cls := sl.Kind.Class()
	part := func(name string, carriedPart bool, sv, bv, av [][]byte, sc, bc, ac int) {
		if !carriedPart {
			if !eqList(av, bv) || ac != bc {
				add(fmt.Sprintf("%s/%s/%s-part-not-carried-but-changed", t.Mode, cls, name), fmt.Sprintf("%s part of %s is not carried in mode %s but changed in the target", name, sl, t.Mode))
			}
			return
		}
		var wantCur []byte
		switch {
		case sc >= 0:
			wantCur = sv[sc]
		case bc >= 0:
			wantCur = bv[bc]
		}
		var gotCur []byte
		if ac >= 0 && ac < len(av) {
			gotCur = av[ac]
		}
		if len(bv) == 0 {
			// slot was empty in the target: identical copy
			if !eqList(av, sv) || ac != sc {
				switch {
				case len(av) != len(sv):
					add(fmt.Sprintf("%s/%s/%s-keys-missing-or-extra", t.Mode, cls, name), fmt.Sprintf("%s of %s: target holds %d values, source %d (history travels as <key>.old/<timestamp> files)%s", name, sl, len(av), len(sv), anomaly(a)))
				case ac != sc:
					add(fmt.Sprintf("%s/%s/%s-current-marker-differs", t.Mode, cls, name), fmt.Sprintf("%s of %s: current index %d in the target, %d in the source", name, sl, ac, sc))
				default:
					add(fmt.Sprintf("%s/%s/%s-values-or-order-differ", t.Mode, cls, name), fmt.Sprintf("%s of %s: same number of values but other bytes or another order than in the source%s", name, sl, anomaly(a)))
				}
			}
			return
		}
		if !subsequence(sv, av) {
			add(fmt.Sprintf("%s/%s/%s-keys-of-source-missing-or-reordered", t.Mode, cls, name), fmt.Sprintf("%s of %s: not every surviving key of the source is in the target in the source's order", name, sl))
		}
		for _, x := range av {
			if indexOf(sv, x) < 0 && indexOf(bv, x) < 0 {
				add(fmt.Sprintf("%s/%s/%s-unknown-value-in-target", t.Mode, cls, name), fmt.Sprintf("%s of %s: the target holds a value that is neither the source's nor its own", name, sl))
				break
			}
		}
		if !bytes.Equal(gotCur, wantCur) {
			add(fmt.Sprintf("%s/%s/%s-current-key-wrong", t.Mode, cls, name), fmt.Sprintf("%s of %s: the current key of the target is not the source's current key", name, sl))
		}
	}
	part("secret", sec, s.Phys.Secrets, b.Phys.Secrets, a.Phys.Secrets, s.Phys.Cur, b.Phys.Cur, a.Phys.Cur)
	if sl.Kind.IsPair() {
		part("public", pub, s.Phys.Publics, b.Phys.Publics, a.Phys.Publics, s.Phys.PubCur, b.Phys.PubCur, a.Phys.PubCur)
	}
}

func allDestroyed(r kslab.RingDetail) bool {
	for _, k := range r.Keys {
		if k.State != "destroyed" {
			return false
		}
	}
	return len(r.Keys) > 0
}

// ringDiff compares an imported ring with the source ring ("" = identical as far as the mode carries).
func ringDiff(s, a kslab.RingDetail, sl kslab.Slot, sec bool) string {
	switch {
	case !a.Exists:
		return "ring-missing (the key ring does not exist in the target)"
	case a.Err != "" && s.Err == "":
		return "ring-unreadable " + a.Err
	case len(a.Keys) != len(s.Keys):
		return fmt.Sprintf("key-count %d keys in the target, %d in the source", len(a.Keys), len(s.Keys))
	case a.Current != s.Current:
		return fmt.Sprintf("current-marker seqnum %d in the target, %d in the source", a.Current, s.Current)
	}
	for i, sk := range s.Keys {
		ak := a.Keys[i]
		switch {
		case ak.Seq != sk.Seq:
			return fmt.Sprintf("seqnum key %d has seqnum %d in the target, %d in the source (order)", i, ak.Seq, sk.Seq)
		case ak.State != sk.State:
			return fmt.Sprintf("key-state key seqnum %d is %s in the target, %s in the source", sk.Seq, ak.State, sk.State)
		case !ak.ValidSince.Equal(sk.ValidSince) || !ak.ValidUntil.Equal(sk.ValidUntil):
			return fmt.Sprintf("validity key seqnum %d has another validity range in the target", sk.Seq)
		}
		destroyed := sk.State == "destroyed"
		switch {
		case destroyed && (ak.Secret != nil || ak.Public != nil):
			return fmt.Sprintf("destroyed-key-has-data key seqnum %d is destroyed in the source but has data in the target", sk.Seq)
		case destroyed:
		case sec && !bytes.Equal(ak.Secret, sk.Secret):
			return fmt.Sprintf("secret:%s secret of key seqnum %d differs (%s)", valueClass(ak.Secret, sk.Secret), sk.Seq, ak.SecretErr)
		case !sec && ak.Secret != nil:
			return fmt.Sprintf("private-material-in-public-import key seqnum %d has private / symmetric data in the target", sk.Seq)
		case sl.Kind.IsPair() && !bytes.Equal(ak.Public, sk.Public):
			return fmt.Sprintf("public:%s public key of key seqnum %d differs (%s)", valueClass(ak.Public, sk.Public), sk.Seq, ak.PublicErr)
		}
	}
	return ""
}

func judgeMigrated(add func(key, msg string), t Tuple, sl kslab.Slot, s, b, a view) {
	cls := sl.Kind.String()
	if s.Phys.Cur < 0 {
		// nothing current in the source: nothing to migrate for this slot
		if a.fp() != b.fp() {
			add(cls+"/slot-without-current-key-changed-target", fmt.Sprintf("%s has no current key in the source but the target's ring changed", sl))
		}
		return
	}
	if !a.Ring.Exists || len(a.Ring.Keys) != len(b.Ring.Keys)+1 {
		add(cls+"/current-key-not-added", fmt.Sprintf("%s: the target ring has %d keys after the migration, %d before; expected exactly one more (the source's current key)", sl, len(a.Ring.Keys), len(b.Ring.Keys)))
		return
	}
	old := map[int]kslab.RingKey{}
	for _, bk := range b.Ring.Keys {
		old[bk.Seq] = bk
	}
	var nk kslab.RingKey
	fresh := 0
	for _, ak := range a.Ring.Keys {
		bk, was := old[ak.Seq]
		if !was {
			nk = ak
			fresh++
			continue
		}
		if ak.State != bk.State || !bytes.Equal(ak.Secret, bk.Secret) || !bytes.Equal(ak.Public, bk.Public) {
			add(cls+"/older-key-of-target-changed", fmt.Sprintf("%s: key seqnum %d of the target ring changed", sl, bk.Seq))
		}
	}
	if fresh != 1 {
		add(cls+"/current-key-not-added", fmt.Sprintf("%s: %d new seqnums in the target ring, expected one", sl, fresh))
		return
	}
	switch {
	case !bytes.Equal(nk.Secret, s.curSecret()):
		add(fmt.Sprintf("%s/migrated-secret-differs:%s", cls, valueClass(nk.Secret, s.curSecret())), fmt.Sprintf("%s: the migrated key's secret is not the source's current key (%s)", sl, nk.SecretErr))
	case sl.Kind.IsPair() && !bytes.Equal(nk.Public, s.curPublic()):
		add(fmt.Sprintf("%s/migrated-public-differs:%s", cls, valueClass(nk.Public, s.curPublic())), fmt.Sprintf("%s: the migrated key's public part is not the source's (%s)", sl, nk.PublicErr))
	case a.Ring.Current != nk.Seq:
		add(cls+"/migrated-key-not-current", fmt.Sprintf("%s: current seqnum is %d, the migrated key has %d", sl, a.Ring.Current, nk.Seq))
	case nk.State == "destroyed":
		add(cls+"/migrated-key-destroyed", fmt.Sprintf("%s: the migrated key is %s", sl, nk.State))
	}
}

// judgeAnswers: read-current / read-all of the target through the key store API.
func judgeAnswers(add func(key, msg string), t Tuple, sl kslab.Slot, s, b, a view, sec, pub, explicit bool) {
	cls := sl.Kind.Class()
	v2 := t.Path == PathV2Rings || t.Path == PathV2Backup
	if v2 && b.Ring.Exists && t.Target != TgtSameOver {
		return // ring kept as it was (judged physically)
	}
	// the current key the path carries
	var wantSec, wantPub []byte
	whole := false // slot imported whole into an empty slot: answers must equal the source's
	switch {
	case v2:
		wantSec, wantPub = nil, nil
		for _, k := range s.Ring.Keys {
			if k.Seq == s.Ring.Current && k.State != "destroyed" {
				wantSec, wantPub = k.Secret, k.Public
			}
		}
		whole = true
	case (t.Path == PathV1 || t.Path == PathCLI) && !explicit:
		wantSec, wantPub = s.curSecret(), s.curPublic()
		whole = b.empty()
	default:
		wantSec, wantPub = s.curSecret(), s.curPublic()
	}
	// (the poison pair reader returns both parts at once: it cannot answer when only one part was carried into an empty slot)
	pairReaderIncomplete := sl.Kind == kslab.PoisonPair && (!pub || !sec) && (len(a.Phys.Publics) == 0 || len(a.Phys.Secrets) == 0 || (v2 && !sec))
	if sec && wantSec != nil && !pairReaderIncomplete {
		switch {
		case a.Cur.SecretErr != nil:
			add(fmt.Sprintf("%s/%s/target-read-current-fails", t.Mode, cls), fmt.Sprintf("read-current(%s) of the target fails (%v) although the current key was carried", sl, a.Cur.SecretErr))
		case !bytes.Equal(a.Cur.Secret, wantSec):
			add(fmt.Sprintf("%s/target-read-current-returns-other-key:%s", cls, valueClass(a.Cur.Secret, wantSec)), fmt.Sprintf("read-current(%s) of the target returns %s, not the source's current key", sl, valueClass(a.Cur.Secret, wantSec)))
		}
	}
	if !sec && b.empty() && a.Cur.SecretErr == nil && a.Cur.Secret != nil {
		add(fmt.Sprintf("%s/%s/target-answers-private-key-after-public-import", t.Mode, cls), fmt.Sprintf("read-current(%s) of the target returns a private / symmetric key although only public material was carried", sl))
	}
	if pub && wantPub != nil && sl.Kind.IsPair() {
		switch {
		case a.Cur.PublicErr != nil && !pairReaderIncomplete:
			add(fmt.Sprintf("%s/%s/target-read-current-public-fails", t.Mode, cls), fmt.Sprintf("read-current(%s) public part fails in the target (%v)", sl, a.Cur.PublicErr))
		case a.Cur.PublicErr == nil && !bytes.Equal(a.Cur.Public, wantPub):
			add(fmt.Sprintf("%s/target-read-current-returns-other-public-key", cls), fmt.Sprintf("read-current(%s) public part of the target is not the source's", sl))
		}
	}
	if !sec || !kslab.Supports(kslab.OpReadAll, sl.Kind) {
		return
	}
	if whole && s.AllErr == nil {
		if a.AllErr != nil || !eqList(a.All, s.All) {
			add(fmt.Sprintf("%s/%s/target-read-all-differs-from-source", t.Mode, cls), fmt.Sprintf("read-all(%s): the target answers %d keys (err=%v), the source %d keys; values and order must be identical", sl, len(a.All), a.AllErr, len(s.All)))
		}
		return
	}
	if wantSec != nil && (a.AllErr != nil || indexOf(a.All, wantSec) < 0) {
		add(fmt.Sprintf("%s/%s/target-read-all-lacks-carried-key", t.Mode, cls), fmt.Sprintf("read-all(%s) of the target (err=%v) does not offer the carried current key", sl, a.AllErr))
	}
}

// ---------------------------------------------------------------- tampering

func positions(n, depth int) []int {
	if n <= 0 {
		return nil
	}
	if depth <= opt.flipDepth || n <= opt.sparse {
		out := make([]int, n)
		for i := range out {
			out[i] = i
		}
		return out
	}
	var out []int
	last := -1
	for i := 0; i < opt.sparse; i++ {
		p := i * (n - 1) / (opt.sparse - 1)
		if p != last {
			out = append(out, p)
			last = p
		}
	}
	return out
}

func tamperings(t Tuple, b Bundle, depth int) []Tuple {
	return tamperingsAt(t, b, positions(len(b.Data), depth), positions(len(b.Access), depth))
}

// tamperingsSparse: k equidistant positions regardless of depth (all of them in a replay).
func tamperingsSparse(t Tuple, b Bundle, k int) []Tuple {
	pos := func(n int) []int {
		if opt.replaying || n <= k {
			return positions(n, 0)
		}
		var out []int
		for i := 0; i < k; i++ {
			out = append(out, i*(n-1)/(k-1))
		}
		return out
	}
	return tamperingsAt(t, b, pos(len(b.Data)), pos(len(b.Access)))
}

func tamperingsAt(t Tuple, b Bundle, dataPos, accessPos []int) []Tuple {
	var out []Tuple
	mk := func(kind string, pos int, mask byte) {
		tt := t
		tt.Tamper, tt.Pos, tt.Mask = kind, pos, int(mask)
		out = append(out, tt)
	}
	for _, p := range dataPos {
		for _, m := range opt.masks {
			mk("bundle", p, m)
		}
	}
	for _, p := range accessPos {
		for _, m := range opt.masks {
			mk("access", p, m)
		}
	}
	mk("wrong-keys", 0, 0)
	if t.Path != PathV1 && t.Path != PathCLI {
		mk("wrong-enc", 0, 0)
		mk("wrong-sig", 0, 0)
	}
	return out
}

func freshKey() []byte {
	k, err := keystore.GenerateSymmetricKey()
	if err != nil {
		panic(err)
	}
	return k
}

func packAccess(path string, enc, sig []byte) []byte {
	switch path {
	case PathV1, PathCLI:
		return enc
	case PathV2Rings:
		return append(append([]byte(nil), enc...), sig...)
	}
	out, err := (&keystoreV2.SerializedKeys{Encryption: enc, Signature: sig}).Marshal()
	if err != nil {
		panic(err)
	}
	return out
}

// applyTamper builds the altered bundle; equivalent = the altered access key blob decodes
// to exactly the original key values.
func applyTamper(tt Tuple, b Bundle) (out Bundle, equivalent bool) {
	out = Bundle{Data: append([]byte(nil), b.Data...), Access: append([]byte(nil), b.Access...)}
	enc, sig, _ := accessKeysOf(tt.Path, b.Access)
	switch tt.Tamper {
	case "bundle":
		out.Data[tt.Pos] ^= byte(tt.Mask)
	case "access":
		out.Access[tt.Pos] ^= byte(tt.Mask)
		if e2, s2, err := accessKeysOf(tt.Path, out.Access); err == nil && bytes.Equal(e2, enc) && bytes.Equal(s2, sig) {
			equivalent = true
		}
	case "wrong-keys":
		out.Access = packAccess(tt.Path, freshKey(), freshKey())
	case "wrong-enc":
		out.Access = packAccess(tt.Path, freshKey(), sig)
	case "wrong-sig":
		out.Access = packAccess(tt.Path, enc, freshKey())
	}
	return out, equivalent
}

func tamperClass(tt Tuple) string { return "tamper-" + tt.Tamper }

func tamperText(tt Tuple) string {
	switch tt.Tamper {
	case "bundle":
		return fmt.Sprintf("byte %d of the bundle xor %#x", tt.Pos, tt.Mask)
	case "access":
		return fmt.Sprintf("byte %d of the access keys xor %#x", tt.Pos, tt.Mask)
	case "wrong-keys":
		return "freshly generated (wrong) access keys"
	case "wrong-enc":
		return "the right signature key but a wrong encryption key"
	case "wrong-sig":
		return "the right encryption key but a wrong signature key"
	}
	return tt.Tamper
}

func changedText(changed bool) string {
	if changed {
		return "changed"
	}
	return "byte-for-byte unchanged"
}
