package envl

// Additions for C01 (round trip / pass-through): the write-side handlers that are not in
// Producers, a reference recogniser of protected values written from the documented layouts
// (it never calls Acra's matchers), and a mask of the structural (non-secret, length/tag/type)
// bytes of a stored value.

import (
	"bytes"
	"encoding/binary"
	"strings"

	"github.com/cossacklabs/acra/crypto"
	"github.com/cossacklabs/acra/hmac"
)

// ExtraProducers are the remaining write-side entry points: EncryptHandler and
// SearchableDataEncryptor on their own (the elements of the proxy chain), ReEncryptHandler on
// its own and the proxy chain on the re-encrypting column "rb".
var ExtraProducers = []Producer{
	{"EncryptHandler(struct)", StructCont, func(l *Lab, id, pt []byte) ([]byte, error) {
		return crypto.NewEncryptHandler(l.W.Registry).EncryptWithClientID(id, pt, l.Settings["s"])
	}},
	{"EncryptHandler(block)", BlockCont, func(l *Lab, id, pt []byte) ([]byte, error) {
		return crypto.NewEncryptHandler(l.W.Registry).EncryptWithClientID(id, pt, l.Settings["b"])
	}},
	{"SearchableDataEncryptor(struct)", StructSearch, func(l *Lab, id, pt []byte) ([]byte, error) {
		se, err := hmac.NewSearchableEncryptor(l.W.KS, l.W.Registry, l.W.Registry)
		if err != nil {
			return nil, err
		}
		return se.EncryptWithClientID(id, pt, l.Settings["ss"])
	}},
	{"SearchableDataEncryptor(block)", BlockSearch, func(l *Lab, id, pt []byte) ([]byte, error) {
		se, err := hmac.NewSearchableEncryptor(l.W.KS, l.W.Registry, l.W.Registry)
		if err != nil {
			return nil, err
		}
		return se.EncryptWithClientID(id, pt, l.Settings["bs"])
	}},
	{"ReEncryptHandler(block,reencrypt)", BlockCont, func(l *Lab, id, pt []byte) ([]byte, error) {
		return crypto.NewReEncryptHandler(l.W.KS).EncryptWithClientID(id, pt, l.Settings["rb"])
	}},
	{"ProxyChain(block,reencrypt)", BlockCont, chainProducer("rb")},
}

// AllProducers = Producers followed by ExtraProducers.
func AllProducers() []Producer {
	return append(append([]Producer{}, Producers...), ExtraProducers...)
}

// ReEncrypting reports whether the producer contains ReEncryptHandler on a column that
// re-encrypts AcraStructs into AcraBlocks: column "rb" (explicit) and the proxy chain on the
// plain acrablock column "b" (reencrypting_to_acrablocks defaults to true; CheckReEncryptDefaults
// asserts it). The searchable acrablock column does not re-encrypt (ReEncryptHandler skips
// settings that are not encryption-only).
func ReEncrypting(p Producer) bool {
	return strings.Contains(p.Name, "reencrypt") || p.Name == "ProxyChain(block)"
}

// CheckReEncryptDefaults returns an error text when the schema no longer gives the settings
// ReEncrypting relies on.
func (l *Lab) CheckReEncryptDefaults() string {
	if !l.Settings["rb"].ShouldReEncryptAcraStructToAcraBlock() || !l.Settings["b"].ShouldReEncryptAcraStructToAcraBlock() {
		return "columns rb/b are expected to re-encrypt AcraStructs to AcraBlocks"
	}
	if l.Settings["s"].GetCryptoEnvelope() == l.Settings["b"].GetCryptoEnvelope() {
		return "columns s and b are expected to use different envelopes"
	}
	return ""
}

// HasHMAC reports whether a column revealer has the HMAC processor in its chain.
func HasHMAC(r Revealer) bool { return r.Column && strings.Contains(r.Name, "hmac") }

// ---- reference recogniser (documented layouts) ------------------------------------------
//
// Secure Cell Seal:   alg(4) iv_len(4)=12 tag_len(4)=16 msg_len(4) iv(12) tag(16) ct[msg_len]
// AcraStruct:         '"'x8  pubkey(45: "UEC2" be32(45) crc(4) point(33))
//                     wrapped key(84: magic(4) le32(84) Seal(32))  le64(data_len)  Seal(data)
// AcraBlock:          '"'x4  le64(rest_len = total-4)  kek_type(1)=0  key_id(2)  dek_type(1)=0
//                     le16(key_len)=76  Seal(32-byte key)  Seal(data)
// Serialized container: '%'x3  le64(total length)  envelope_id(1: 0xF1 struct, 0xF0 block)  envelope
// Searchable value:   0x7F hmac-sha256(32)  container

const (
	sealOverhead   = 44
	structHeader   = 8 + 45 + 84 + 8
	blockHeader    = 4 + 8 + 1 + 2 + 1 + 2
	wrappedKeyLen  = 32 + sealOverhead // a sealed 32-byte key
	containerHdr   = 3 + 8 + 1
	EnvIDStruct    = 0xF1
	EnvIDBlock     = 0xF0
	SearchHashSize = 33
)

// refSeal: b is exactly one Seal cell holding a non-empty message.
func refSeal(b []byte) bool {
	if len(b) <= sealOverhead {
		return false
	}
	return binary.LittleEndian.Uint32(b[4:]) == 12 && binary.LittleEndian.Uint32(b[8:]) == 16 &&
		uint64(binary.LittleEndian.Uint32(b[12:])) == uint64(len(b)-sealOverhead)
}

// RefStruct: x is exactly one well-formed AcraStruct.
func RefStruct(x []byte) bool {
	if len(x) <= structHeader+sealOverhead {
		return false
	}
	if !bytes.Equal(x[:8], []byte(`""""""""`)) {
		return false
	}
	pk := x[8 : 8+45]
	if string(pk[:4]) != "UEC2" || binary.BigEndian.Uint32(pk[4:]) != 45 {
		return false
	}
	wk := x[53 : 53+84]
	if binary.LittleEndian.Uint32(wk[4:]) != 84 || !refSeal(wk[8:]) {
		return false
	}
	if binary.LittleEndian.Uint64(x[137:]) != uint64(len(x)-structHeader) {
		return false
	}
	return refSeal(x[structHeader:])
}

// RefBlock: x is exactly one well-formed AcraBlock.
func RefBlock(x []byte) bool {
	if len(x) <= blockHeader+wrappedKeyLen+sealOverhead {
		return false
	}
	if !bytes.Equal(x[:4], []byte(`""""`)) {
		return false
	}
	if binary.LittleEndian.Uint64(x[4:]) != uint64(len(x)-4) {
		return false
	}
	if x[12] != 0 || x[15] != 0 || binary.LittleEndian.Uint16(x[16:]) != wrappedKeyLen {
		return false
	}
	return refSeal(x[blockHeader:blockHeader+wrappedKeyLen]) && refSeal(x[blockHeader+wrappedKeyLen:])
}

// RefContainer: x is exactly one serialized container around a well-formed envelope; returns
// the kind of the inner envelope.
func RefContainer(x []byte) (Form, bool) {
	if len(x) <= containerHdr || !bytes.Equal(x[:3], []byte("%%%")) {
		return "", false
	}
	if binary.LittleEndian.Uint64(x[3:]) != uint64(len(x)) {
		return "", false
	}
	switch x[11] {
	case EnvIDStruct:
		if RefStruct(x[containerHdr:]) {
			return StructCont, true
		}
	case EnvIDBlock:
		if RefBlock(x[containerHdr:]) {
			return BlockCont, true
		}
	}
	return "", false
}

// RefRecognise: x is exactly one protected value of one of the four non-searchable forms.
func RefRecognise(x []byte) (Form, bool) {
	if RefStruct(x) {
		return StructRaw, true
	}
	if RefBlock(x) {
		return BlockRaw, true
	}
	return RefContainer(x)
}

// HasTagSequence: x contains the AcraBlock tag (4 quotes; the AcraStruct tag contains it) or
// the container tag (3 percent signs).
func HasTagSequence(x []byte) bool {
	return bytes.Contains(x, []byte(`""""`)) || bytes.Contains(x, []byte("%%%"))
}

// StructuralMask marks the bytes of a stored value of form f that are tags, length/type/id
// fields or Themis header words (everything that is a function of lengths and key identity, not
// of the plaintext or of randomness).
func StructuralMask(f Form, v []byte) []bool {
	m := make([]bool, len(v))
	for _, fld := range Fields(f, v) {
		structural := fld.Numeric
		switch {
		case strings.HasSuffix(fld.Name, ".tag") && !strings.Contains(fld.Name, "seal"):
			structural = true // container.tag, struct.tag, block.tag, struct.pubkey.tag
		case fld.Name == "hash.alg":
			structural = true
		case strings.HasSuffix(fld.Name, "pubkey.crc"):
			structural = false // depends on the random key
		}
		if structural {
			for i := fld.Off; i < fld.Off+fld.Len && i < len(v); i++ {
				m[i] = true
			}
		}
	}
	return m
}
