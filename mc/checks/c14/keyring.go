package main

import (
	"bytes"
	"fmt"
	"strings"

	keystoreV1 "github.com/cossacklabs/acra/keystore"
	keystoreV2 "github.com/cossacklabs/acra/keystore/v2/keystore"
	"github.com/cossacklabs/acra/keystore/v2/keystore/api"
	"github.com/cossacklabs/acra/keystore/v2/keystore/asn1"
	"github.com/cossacklabs/acra/keystore/v2/keystore/crypto"
	"github.com/cossacklabs/acra/keystore/v2/keystore/filesystem"
	"github.com/cossacklabs/acra/keystore/v2/keystore/filesystem/backend"
	"github.com/cossacklabs/acra/keystore/v2/keystore/signature"

	"verif/ev"
)

// Key rings: keystore/v2 ASN.1 readers, the signature verifier and the real key store opening a
// ring file / importing an export blob, on DER produced by the real v2 code (seeds) with every
// tag and length octet set to boundary values, every truncation, and Sigma^<=L of DER tokens.

var (
	v2EncKey = bytes.Repeat([]byte{0x21}, 32)
	v2SigKey = bytes.Repeat([]byte{0x42}, 32)
)

type ringFx struct {
	suite  *crypto.KeyStoreSuite
	notary *signature.Notary
	path   string // ring path (without the .keyring suffix)
	sigCtx []byte
}

func v2Suite() *crypto.KeyStoreSuite {
	s, err := crypto.NewSCellSuite(append([]byte(nil), v2EncKey...), append([]byte(nil), v2SigKey...))
	if err != nil {
		ev.Fatalf("v2 suite: %v", err)
	}
	return s
}

// makeRingSeeds builds a v2 key store in memory with the real code and returns the stored
// bytes of one signed key ring, its inner KeyRing DER and an export blob.
func makeRingSeeds(seeds map[string][]byte) {
	be := backend.NewInMemory()
	fsks, err := filesystem.CustomKeyStore(be, v2Suite())
	if err != nil {
		ev.Fatalf("v2 keystore: %v", err)
	}
	ks := keystoreV2.NewServerKeyStore(fsks)
	id := []byte("alpha_1")
	for i := 0; i < 2; i++ {
		if err := ks.GenerateDataEncryptionKeys(id); err != nil {
			ev.Fatalf("v2 keys: %v", err)
		}
		if err := ks.GenerateClientIDSymmetricKey(id); err != nil {
			ev.Fatalf("v2 keys: %v", err)
		}
	}
	paths, _ := be.ListAll()
	ringPath := ""
	for _, p := range paths {
		if strings.HasSuffix(p, ".keyring") && strings.Contains(p, "storage") && ringPath == "" {
			ringPath = strings.TrimSuffix(p, ".keyring")
		}
	}
	if ringPath == "" {
		for _, p := range paths {
			if strings.HasSuffix(p, ".keyring") {
				ringPath = strings.TrimSuffix(p, ".keyring")
				break
			}
		}
	}
	if ringPath == "" {
		ev.Fatalf("v2: no key ring written (paths %v)", paths)
	}
	data, err := be.Get(ringPath + ".keyring")
	if err != nil {
		ev.Fatalf("v2: %v", err)
	}
	seeds["ring/path"] = []byte(ringPath)
	seeds["ring/container"] = append([]byte(nil), data...)
	vc, err := asn1.UnmarshalVerifiedContainer(data)
	if err != nil {
		ev.Fatalf("v2: own container does not parse: %v", err)
	}
	seeds["ring/keyring"] = append([]byte(nil), vc.Payload.Data.FullBytes...)
	var ringPaths []string
	for _, p := range paths {
		if strings.HasSuffix(p, ".keyring") {
			ringPaths = append(ringPaths, strings.TrimSuffix(p, ".keyring"))
		}
	}
	exp, err := fsks.ExportKeyRings(ringPaths, v2Suite(), keystoreV1.ExportPrivateKeys)
	if err != nil {
		ev.Fatalf("v2 export: %v", err)
	}
	seeds["ring/export"] = exp
}

// derNode is one TLV of a DER document.
type derNode struct {
	tagOff, lenOff, lenLen, valOff, valLen int
}

func derWalk(b []byte, off, end int, out *[]derNode, depth int) {
	for off < end && depth < 12 {
		if off+2 > end {
			return
		}
		tagOff := off
		tag := b[off]
		off++
		if tag&0x1f == 0x1f { // high tag number: not produced by the seeds
			return
		}
		lenOff := off
		l := int(b[off])
		off++
		lenLen := 1
		if l&0x80 != 0 {
			n := l & 0x7f
			if n == 0 || n > 4 || off+n > end {
				return
			}
			l = 0
			for i := 0; i < n; i++ {
				l = l<<8 | int(b[off+i])
			}
			off += n
			lenLen += n
		}
		if off+l > end {
			return
		}
		*out = append(*out, derNode{tagOff, lenOff, lenLen, off, l})
		if tag&0x20 != 0 { // constructed
			derWalk(b, off, off+l, out, depth+1)
		} else if tag == 0x04 && l > 2 && b[off] == 0x30 { // OCTET STRING wrapping DER
			var inner []derNode
			derWalk(b, off, off+l, &inner, depth+1)
			if len(inner) > 0 && inner[0].valOff+inner[0].valLen == off+l {
				*out = append(*out, inner...)
			}
		}
		off += l
	}
}

// derEdits: every tag octet and every length encoding of the document set to boundary values.
func derEdits(name string, doc []byte) []editT {
	var nodes []derNode
	derWalk(doc, 0, len(doc), &nodes, 0)
	if len(nodes) < 3 {
		ev.Fatalf("DER walk of %s found %d nodes", name, len(nodes))
	}
	var out []editT
	out = append(out, editT{name + " unaltered", doc})
	tags := []byte{0x00, 0x01, 0x02, 0x03, 0x04, 0x05, 0x06, 0x0A, 0x0C, 0x13, 0x17, 0x18, 0x1F, 0x30, 0x31, 0x3F, 0x80, 0xA0, 0xA1, 0xA2, 0xBF, 0xFF}
	for ni, n := range nodes {
		for _, t := range tags {
			if doc[n.tagOff] == t {
				continue
			}
			d := append([]byte(nil), doc...)
			d[n.tagOff] = t
			out = append(out, editT{fmt.Sprintf("%s node %d tag@%d=%#x", name, ni, n.tagOff, t), d})
		}
		// length encodings: short forms, long forms with boundary values
		cur := uint64(n.valLen)
		rest := uint64(len(doc) - n.valOff)
		var encs [][]byte
		for _, v := range []uint64{0, 1, cur - 1, cur + 1, rest, rest + 1, rest - 1, 0x7F} {
			if v < 0x80 {
				encs = append(encs, []byte{byte(v)})
			}
		}
		encs = append(encs, []byte{0x80}, []byte{0xFF}, []byte{0x81, 0x00}, []byte{0x81, 0x7F}, []byte{0x81, 0x80}, []byte{0x81, 0xFF},
			[]byte{0x82, 0x00, 0x01}, []byte{0x82, 0xFF, 0xFF}, []byte{0x83, 0xFF, 0xFF, 0xFF},
			[]byte{0x84, 0x7F, 0xFF, 0xFF, 0xFF}, []byte{0x84, 0x80, 0x00, 0x00, 0x00}, []byte{0x84, 0xFF, 0xFF, 0xFF, 0xFF},
			[]byte{0x85, 0x01, 0x00, 0x00, 0x00, 0x00},
			[]byte{0x88, 0x7F, 0xFF, 0xFF, 0xFF, 0xFF, 0xFF, 0xFF, 0xFF}, []byte{0x88, 0x80, 0, 0, 0, 0, 0, 0, 0}, []byte{0x88, 0xFF, 0xFF, 0xFF, 0xFF, 0xFF, 0xFF, 0xFF, 0xFF},
			[]byte{0x89, 0x01, 0, 0, 0, 0, 0, 0, 0, 0})
		for _, v := range []uint64{cur, cur + 1, rest + 1} { // non-minimal long forms
			encs = append(encs, []byte{0x81, byte(v)}, []byte{0x82, byte(v >> 8), byte(v)})
		}
		for _, enc := range encs {
			if bytes.Equal(enc, doc[n.lenOff:n.lenOff+n.lenLen]) {
				continue
			}
			d := append([]byte(nil), doc[:n.lenOff]...)
			d = append(d, enc...)
			d = append(d, doc[n.lenOff+n.lenLen:]...)
			out = append(out, editT{fmt.Sprintf("%s node %d length@%d=%x", name, ni, n.lenOff, enc), d})
		}
	}
	for t := 0; t < len(doc); t++ {
		out = append(out, editT{fmt.Sprintf("%s truncated to %d of %d bytes", name, t, len(doc)), doc[:t]})
	}
	return out
}

func (e *Env) ringSpaces(thorough bool) []*Space {
	if e.ring == nil {
		suite := v2Suite()
		notary, err := signature.NewNotary(suite.SignatureAlgorithms)
		if err != nil {
			ev.Fatalf("notary: %v", err)
		}
		path := string(e.seed("ring/path"))
		e.ring = &ringFx{suite: suite, notary: notary, path: path,
			sigCtx: []byte("AKSv2 keystore: key ring signature: " + path)}
	}
	fxr := e.ring
	useRing := func(r api.KeyRing) string {
		cur, err := r.CurrentKey()
		all, _ := r.AllKeys()
		for _, s := range append(all, cur, -1, 0, 1<<31) {
			r.State(s)
			r.ValidSince(s)
			r.ValidUntil(s)
			fs, _ := r.Formats(s)
			for _, f := range fs {
				r.PublicKey(s, f)
				r.PrivateKey(s, f)
				r.SymmetricKey(s, f)
			}
		}
		if err != nil {
			return "opened:no-current"
		}
		return "opened"
	}
	decs := []*Decoder{
		e.dec("asn1.UnmarshalVerifiedContainer", func(in []byte) (string, error) { _, err := asn1.UnmarshalVerifiedContainer(in); return "", err }),
		e.dec("asn1.UnmarshalKeyRing", func(in []byte) (string, error) {
			r, err := asn1.UnmarshalKeyRing(in)
			if err == nil {
				r.KeyWithSeqnum(r.Current)
			}
			return "", err
		}),
		e.dec("asn1.UnmarshalKeyDirectory", func(in []byte) (string, error) { _, err := asn1.UnmarshalKeyDirectory(in); return "", err }),
		e.dec("asn1.UnmarshalEncryptedKeys", func(in []byte) (string, error) { _, err := asn1.UnmarshalEncryptedKeys(in); return "", err }),
		e.dec("signature.Notary.Verify", func(in []byte) (string, error) {
			_, err := fxr.notary.Verify(in, fxr.sigCtx)
			return "", err
		}),
		e.dec("keystoreV2.OpenKeyRing", func(in []byte) (string, error) {
			be := backend.NewInMemory()
			if err := be.Put(fxr.path+".keyring", in); err != nil {
				return "", err
			}
			ks, err := filesystem.CustomKeyStore(be, fxr.suite)
			if err != nil {
				return "", err
			}
			defer ks.Close()
			r, err := ks.OpenKeyRing(fxr.path)
			if err != nil {
				return "", err
			}
			return useRing(r), nil
		}),
		e.dec("keystoreV2.ImportKeyRings", func(in []byte) (string, error) {
			ks, err := filesystem.NewInMemory(fxr.suite)
			if err != nil {
				return "", err
			}
			defer ks.Close()
			ids, err := ks.ImportKeyRings(in, fxr.suite, nil)
			if err != nil {
				return "", err
			}
			for _, id := range ids {
				if r, err := ks.OpenKeyRing(id); err == nil {
					useRing(r)
				}
			}
			return "imported", nil
		}),
	}
	var items []editT
	items = append(items, derEdits("signed key ring", e.seed("ring/container"))...)
	items = append(items, derEdits("KeyRing", e.seed("ring/keyring"))...)
	items = append(items, derEdits("export blob", e.seed("ring/export"))...)
	e.boundInfo["keyring-der"] = fmt.Sprintf("3 seeds (signed ring %d B, KeyRing %d B, export %d B): every TLV tag x 22 values, every TLV length x short/long-form boundary encodings, every truncation",
		len(e.seed("ring/container")), len(e.seed("ring/keyring")), len(e.seed("ring/export")))
	out := []*Space{listSpace("keyring", "keyring/fields", items, decs)}
	a := alphabet{Name: "der", Tok: [][]byte{{0x30}, {0x31}, {0x02}, {0x04}, {0x0A}, {0x17}, {0x0C}, {0x06}, {0xA1}, {0xA2}, {0x00}, {0x01}, {0x02, 0x01, 0x02}, {0x7F}, {0x80}, {0x81}, {0x84, 0xFF, 0xFF, 0xFF, 0xFF}, {0x88, 0x7F, 0xFF, 0xFF, 0xFF, 0xFF, 0xFF, 0xFF, 0xFF}, {0xFF}, {'a'}}}
	l := 4
	if thorough {
		l = 5
	}
	out = append(out, e.sigma("keyring", "keyring-der", a, l, decs, nil, nil)...)
	return out
}
