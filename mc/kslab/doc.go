// Package kslab is the shared key store test-bed of the /verif checks (C06 rotation and
// destruction histories, C07 keys at rest, C08 crash/I-O-failure safety, C17 concurrent
// writers, C18 export/import). Everything runs the REAL Acra key store code; kslab only
// supplies storage seams, identities, a reference model and an explorer.
//
// # Storage seams (record + fault injection)
//
//   - MemFS: in-memory implementation of v1's filesystem.Storage with os-like errors
//     (os.IsNotExist works), hard links, modes, Snapshot/Restore/Clone, Walk, a call log
//     (Record(true); Log() []Call with op name, path arguments, byte payload, result) and a
//     fault hook. MemFS.Raw() is an unlogged, unfaulted view of the same content.
//     Conformance with the real FileStorage: SelfTestMemFS (also `go test ./kslab`,
//     `bin/check C06 -selftest`).
//   - RecBackend: the same capabilities around any v2 api.Backend (NewRecInMemory wraps the
//     real in-memory back end, NewRecBackend(CreateDirectoryBackend(dir)) the real directory
//     one); SnapshotBackend / NewInMemoryFrom / RestoreInMemory for snapshots.
//   - Faults: SetHook(func(Call) Fault) on either seam. Call.Index numbers the calls since
//     ResetLog(); Fault.Action is Pass, Fail (call not executed, Fault.Err or ErrInjected
//     returned), CrashBefore, CrashAfter or Torn (first Fault.TornLen bytes of a WriteFile /
//     Copy / Put payload are stored, then crash). A crash is a panic(*Crash) raised inside
//     the seam call: run the operation under Crashable(func(){...}) to catch it. After a
//     crash the seam is dead (data calls return ErrCrashed, so deferred clean-up code of the
//     interrupted operation cannot touch the storage; v2 lock calls still pass through so
//     the real lock is released) until Revive() / Store.Reopen(). FailAt(k, fault) is the
//     usual one-shot hook. Typical C08 loop: s.Mem.ResetLog(); run op once to count calls
//     n := s.Mem.Calls(); then for k < n: restore snapshot, SetHook(FailAt(k, ...)),
//     Crashable(op), Reopen, inspect.
//
// # Stores
//
// Open(Config, seed) builds an empty real key store: Config{Format "v1"|"v2", Storage
// "mem"|"dir", Cache (v1: keystore.WithoutCache, 1, keystore.InfiniteCacheSize, n),
// ForeignWrites}. StandardConfigs lists the six variants of the properties. A Store has
//   - Main: the handle under test (cache per config, seam instrumented: Store.Mem for
//     v1-mem, Store.Backend for v2),
//   - Side: a cache-less handle on the same storage that bypasses log and hook,
//   - V1 / V2: the concrete real objects (*filesystem.KeyStore, *keystoreV2.ServerKeyStore)
//     for calls outside the alphabet (export, import, CacheOnStart ...),
//   - Reopen(): fresh main handle on the same storage; Close().
//
// Handle methods are the operation alphabet, mapped 1:1 on the real API of both formats
// (interface KS): Generate, ReadCurrent, ReadAll, ListKeys, ListRotated, DestroyCurrent,
// DestroyRotated(index), ResetCache. Supports(code, kind) tells what the API genuinely
// lacks (no "all keys" read for HMAC / audit log keys, no destruction of audit log keys):
// those return ErrUnsupported, nothing is faked. A panic of the real code is returned as
// *PanicError (IsPanic, Site()).
//
// Store.Inspect(slot) reads the physical content of a slot below the server key store API
// (v1: key files decrypted by the harness with the master key; v2: ring opened through the
// low-level ring API, seqnum by seqnum) - it is immune to defects of the "all keys"
// readers and is what canonical states are made of. Store.PeekCache decodes v1 cache
// entries (through the handle's own cache encryptor, reached by reflection).
//
// # Randomness and identities
//
// InstallRand() (implicit in Open) makes a deterministic multiplexer the process-wide
// crypto/rand.Reader. Default mode RandShared: one lock-free shared stream for all stores
// (parallel labs). SetRandMode(RandPerStore): every Store draws from its own stream and logs
// its draws (Store.Rand.Draws(): secret scanning, byte-exact replays); one Store call at a
// time in that mode. Key bytes are never relied upon: Tracker assigns "key #n of slot s" by
// inspecting the storage right after each generate, and maps every value read back later
// to its ordinal (private keys by value). Tracker.Probe(slot, n) is a value protected under
// key #n (AcraStruct / AcraBlock / HMAC), ProbeReadable checks that a set of offered keys
// still reads it.
//
// # Lab, model, explorer
//
// Lab = Store + Tracker + handle bookkeeping. Lab.Apply(Op) executes one operation of a
// history and returns a normalised Result (ordinals instead of bytes); Lab.State() is the
// canonical state: per slot {generated N, surviving ordinals newest-first in storage
// order, current marker, public parts for pairs} plus, for cached handles, the decoded
// cache entries, the clean flag and the surviving ordinals offered so far; State.Canon()
// is the de-duplication string. Ops are JSON-serialisable (replay files).
//
// The reference model is a set of pure functions on SlotState (model.go): ModelCurrent,
// SurvivorsNewestFirst, Rotated (rows of the rotated listing), ListedIndexKey, After(op)
// (predicted post-state), Feature (finding-key class of a state).
//
// Explorer[O,R] is a generic level-synchronous BFS: a state is identified with its
// shortest history; successors are computed by fresh system + replay + one operation, in
// parallel on all cores (par.Do), de-duplicated on Canon(); callbacks: Ops (enabled
// operations per state), Before, Oracle (per transition), OnState (per distinct state);
// Stats reports states, transitions, traces, replayed steps, depth.
package kslab
