package kslab

import (
	"bytes"
	"fmt"
	"sort"
	"strings"

	"github.com/cossacklabs/themis/gothemis/keys"

	"github.com/cossacklabs/acra/acrablock"
	"github.com/cossacklabs/acra/acrastruct"
	"github.com/cossacklabs/acra/hmac"
)

// ---------------------------------------------------------------- key identities

// KeyMat is the key material of one generated key as recorded right after generation.
type KeyMat struct {
	Secret []byte // private key of a pair, or the symmetric key
	Public []byte // pairs only
}

type slotTrack struct {
	mats   []KeyMat       // ordinal-1 -> material
	secOrd map[string]int // secret value -> ordinal
	pubOrd map[string]int
	files  map[string]int // v1: relative file name of a history file -> ordinal of its content
	probes map[int][]byte
}

// Tracker maps key values to generation ordinals: key #n of a slot is the n-th key
// generated for it in this history. Ordinals are learnt by inspecting the storage below
// the key store API right after every generate.
type Tracker struct {
	slots map[Slot]*slotTrack
}

func newTracker() *Tracker { return &Tracker{slots: map[Slot]*slotTrack{}} }

func (t *Tracker) slot(sl Slot) *slotTrack {
	st := t.slots[sl]
	if st == nil {
		st = &slotTrack{secOrd: map[string]int{}, pubOrd: map[string]int{}, files: map[string]int{}, probes: map[int][]byte{}}
		t.slots[sl] = st
	}
	return st
}

// N is the number of keys generated so far for the slot.
func (t *Tracker) N(sl Slot) int { return len(t.slot(sl).mats) }

// Material returns the recorded material of key #ord.
func (t *Tracker) Material(sl Slot, ord int) (KeyMat, bool) {
	st := t.slot(sl)
	if ord < 1 || ord > len(st.mats) {
		return KeyMat{}, false
	}
	return st.mats[ord-1], true
}

// SecretOrd / PublicOrd return the ordinal of a value, 0 when it is not a key of the slot.
func (t *Tracker) SecretOrd(sl Slot, v []byte) int { return t.slot(sl).secOrd[string(v)] }
func (t *Tracker) PublicOrd(sl Slot, v []byte) int { return t.slot(sl).pubOrd[string(v)] }

// Owner finds the slot and ordinal of a secret or public value among all slots.
func (t *Tracker) Owner(v []byte) (Slot, int, bool) {
	for sl, st := range t.slots {
		if o := st.secOrd[string(v)]; o != 0 {
			return sl, o, true
		}
		if o := st.pubOrd[string(v)]; o != 0 {
			return sl, o, true
		}
	}
	return Slot{}, 0, false
}

// learn assigns the next ordinal to the values of p not seen before (expected: exactly the
// new current key after a successful generate) and refreshes the file-name map.
func (t *Tracker) learn(sl Slot, p Phys) (newOrd int, problem string) {
	st := t.slot(sl)
	var fresh [][]byte
	for _, v := range p.Secrets {
		if st.secOrd[string(v)] == 0 {
			fresh = append(fresh, v)
		}
	}
	var freshPub [][]byte
	for _, v := range p.Publics {
		if st.pubOrd[string(v)] == 0 {
			freshPub = append(freshPub, v)
		}
	}
	switch {
	case len(fresh) == 0 && len(freshPub) == 0:
	case len(fresh) == 1 && len(freshPub) == 0 && !sl.Kind.IsPair():
		st.mats = append(st.mats, KeyMat{Secret: cp(fresh[0])})
		newOrd = len(st.mats)
		st.secOrd[string(fresh[0])] = newOrd
	case len(fresh) == 1 && len(freshPub) == 1 && sl.Kind.IsPair():
		st.mats = append(st.mats, KeyMat{Secret: cp(fresh[0]), Public: cp(freshPub[0])})
		newOrd = len(st.mats)
		st.secOrd[string(fresh[0])] = newOrd
		st.pubOrd[string(freshPub[0])] = newOrd
	default:
		problem = fmt.Sprintf("%d new secret and %d new public values appeared at once in %s", len(fresh), len(freshPub), sl)
	}
	t.noteFiles(sl, p)
	return newOrd, problem
}

func (t *Tracker) noteFiles(sl Slot, p Phys) {
	st := t.slot(sl)
	for i, n := range p.Names {
		if i < len(p.Secrets) && strings.Contains(n, ".old/") {
			if o := st.secOrd[string(p.Secrets[i])]; o != 0 {
				st.files[n] = o
			}
		}
	}
}

func (t *Tracker) historyNames(sl Slot) []string {
	st := t.slot(sl)
	out := make([]string, 0, len(st.files))
	for n := range st.files {
		out = append(out, n)
	}
	sort.Strings(out)
	return out
}

// ProbeData is the fixed plaintext of every probe.
var ProbeData = []byte("kslab probe: written before the rotation")

// Probe returns a value protected under key #ord with the material recorded when that key
// was generated: an AcraStruct for pairs, an AcraBlock for symmetric storage/poison keys,
// the HMAC of ProbeData for HMAC and audit log keys.
func (t *Tracker) Probe(sl Slot, ord int) ([]byte, error) {
	st := t.slot(sl)
	if p, ok := st.probes[ord]; ok {
		return p, nil
	}
	m, ok := t.Material(sl, ord)
	if !ok {
		return nil, fmt.Errorf("no key #%d in %s", ord, sl)
	}
	var p []byte
	var err error
	switch {
	case sl.Kind.IsPair():
		p, err = acrastruct.CreateAcrastruct(ProbeData, &keys.PublicKey{Value: cp(m.Public)}, nil)
	case sl.Kind == StorageSym || sl.Kind == PoisonSym:
		p, err = acrablock.CreateAcraBlock(ProbeData, cp(m.Secret), nil)
	default:
		p = hmac.GenerateHMAC(cp(m.Secret), ProbeData)
	}
	if err != nil {
		return nil, err
	}
	st.probes[ord] = p
	return p, nil
}

// ProbeReadable tells whether probe can be read with the offered keys (as returned by
// ReadAll, or the single current key for HMAC / audit log keys).
func ProbeReadable(k Kind, probe []byte, offered [][]byte) bool {
	switch {
	case k.IsPair():
		privs := make([]*keys.PrivateKey, len(offered))
		for i, v := range offered {
			privs[i] = &keys.PrivateKey{Value: cp(v)}
		}
		out, err := acrastruct.DecryptRotatedAcrastruct(cp(probe), privs, nil)
		return err == nil && bytes.Equal(out, ProbeData)
	case k == StorageSym || k == PoisonSym:
		b, err := acrablock.NewAcraBlockFromData(cp(probe))
		if err != nil {
			return false
		}
		ks := make([][]byte, len(offered))
		for i, v := range offered {
			ks[i] = cp(v)
		}
		out, err := b.Decrypt(ks, nil)
		return err == nil && bytes.Equal(out, ProbeData)
	default:
		for _, v := range offered {
			if bytes.Equal(hmac.GenerateHMAC(cp(v), ProbeData), probe) {
				return true
			}
		}
		return false
	}
}

// ---------------------------------------------------------------- canonical state

// SlotState is the canonical state of one slot: which of the keys #1..#N survive, in the
// order the storage holds them (newest first), and which one is marked current.
type SlotState struct {
	Slot    Slot   `json:"slot"`
	N       int    `json:"generated"`               // keys generated so far (#1..#N)
	Surv    []int  `json:"survivors"`               // surviving ordinals, newest first in storage order (-1: unknown value)
	Cur     int    `json:"current"`                 // ordinal marked current, 0 = none
	PubSurv []int  `json:"pub_survivors,omitempty"` // pairs: the same for public parts
	PubCur  int    `json:"pub_current,omitempty"`
	Extra   string `json:"extra,omitempty"`
	Anomaly string `json:"anomaly,omitempty"`
}

func (s SlotState) String() string {
	out := fmt.Sprintf("%s n=%d cur=%d %v", s.Slot, s.N, s.Cur, s.Surv)
	if s.Slot.Kind.IsPair() && (s.PubCur != s.Cur || fmt.Sprint(s.PubSurv) != fmt.Sprint(s.Surv)) {
		out += fmt.Sprintf(" pub:cur=%d %v", s.PubCur, s.PubSurv)
	}
	if s.Extra != "" {
		out += " " + s.Extra
	}
	if s.Anomaly != "" {
		out += " ANOMALY(" + s.Anomaly + ")"
	}
	return out
}

// Survives reports whether key #ord is among the survivors.
func (s SlotState) Survives(ord int) bool {
	for _, o := range s.Surv {
		if o == ord {
			return true
		}
	}
	return false
}

// State is the canonical state of a Lab.
type State struct {
	Slots []SlotState `json:"slots"`
	// Cached handles only: decoded cache entries ("K=#2", "H=[cur,#1]", "K=+" ...), whether
	// the handle is clean (opened or reset, and no key changed since), and per slot the
	// surviving ordinals the handle has offered so far.
	Cache   []string `json:"cache,omitempty"`
	Clean   bool     `json:"clean"`
	Offered [][]int  `json:"offered,omitempty"`
	cached  bool
}

// StorageCanon is the canonical form of the stored keys only (comparable across
// configurations of the same format and, without Extra, across formats).
func (s State) StorageCanon() string {
	parts := make([]string, len(s.Slots))
	for i, sl := range s.Slots {
		parts[i] = sl.String()
	}
	return strings.Join(parts, "; ")
}

// Canon is the de-duplication key of the explorer.
func (s State) Canon() string {
	c := s.StorageCanon()
	if s.cached {
		c += fmt.Sprintf(" | cache{%s} clean=%v offered=%v", strings.Join(s.Cache, ","), s.Clean, s.Offered)
	}
	return c
}

// Slot returns the state of one slot.
func (s State) Slot(sl Slot) SlotState {
	for _, x := range s.Slots {
		if x.Slot == sl {
			return x
		}
	}
	return SlotState{Slot: sl}
}

// OfferedBy returns the surviving ordinals the cached handle has offered for sl.
func (s State) OfferedBy(sl Slot) []int {
	for i, x := range s.Slots {
		if x.Slot == sl && i < len(s.Offered) {
			return s.Offered[i]
		}
	}
	return nil
}

// ---------------------------------------------------------------- lab

// Result is the normalised observation of one operation.
type Result struct {
	Op          Op
	Unsupported bool
	Err         error // outcome of operations without a value (gen, dcur, drot, reset, reopen), or of all/list
	// cur
	CurSecret, CurPublic       int // ordinal; 0 = not a key of this slot (see Foreign) or error
	CurSecretErr, CurPublicErr error
	HasPublic                  bool
	// all
	All     []int    // ordinals in the order returned (0 = not a key of this slot)
	AllVals [][]byte // raw values (probe checks)
	CurVal  []byte
	// list / listrot
	Listed []Listed
	// Foreign describes returned values that are keys of another slot or unknown bytes.
	Foreign []string
	NewOrd  int    // gen: ordinal learnt for the new key (0 when none appeared)
	Problem string // harness-level inconsistency (identity tracking)
}

// Lab is one real key store with identity tracking and the handle bookkeeping the cached
// oracles need. A Lab is single-threaded; different Labs may run in parallel goroutines.
type Lab struct {
	Cfg   Config
	Slots []Slot
	S     *Store
	T     *Tracker

	clean   bool
	offered map[Slot]map[int]bool
	History []Op
	state   *State // memo of State() until the next Apply
}

// NewLab opens a fresh empty key store for the slots of interest.
func NewLab(cfg Config, slots []Slot) (*Lab, error) {
	s, err := Open(cfg, "lab")
	if err != nil {
		return nil, err
	}
	return &Lab{Cfg: cfg, Slots: slots, S: s, T: newTracker(), clean: true, offered: map[Slot]map[int]bool{}}, nil
}

// Close releases the store.
func (l *Lab) Close() { l.S.Close() }

func (l *Lab) offer(sl Slot, ord int) {
	if ord <= 0 {
		return
	}
	if l.offered[sl] == nil {
		l.offered[sl] = map[int]bool{}
	}
	l.offered[sl][ord] = true
}

func (l *Lab) identify(sl Slot, v []byte, public bool, res *Result) int {
	var o int
	if public {
		o = l.T.PublicOrd(sl, v)
	} else {
		o = l.T.SecretOrd(sl, v)
	}
	if o == 0 {
		if osl, oo, ok := l.T.Owner(v); ok {
			res.Foreign = append(res.Foreign, fmt.Sprintf("key #%d of %s", oo, osl))
		} else {
			res.Foreign = append(res.Foreign, fmt.Sprintf("unknown %d-byte value", len(v)))
		}
	}
	return o
}

// Apply executes one operation on the real store and returns the normalised observation.
func (l *Lab) Apply(op Op) Result {
	l.state = nil
	l.History = append(l.History, op)
	res := Result{Op: op}
	sl := op.Slot()
	if !op.Global() && !Supports(op.Code, op.Kind) {
		res.Unsupported = true
		return res
	}
	h := l.S.Main
	if op.Mutating() {
		if l.Cfg.ForeignWrites {
			h = l.S.Side
		}
		l.clean = false
	}
	switch op.Code {
	case OpGenerate:
		res.Err = h.Generate(sl)
		p := l.S.Inspect(sl)
		res.NewOrd, res.Problem = l.T.learn(sl, p)
	case OpDestroyCurrent:
		res.Err = h.DestroyCurrent(sl)
	case OpDestroyRotated:
		res.Err = h.DestroyRotated(sl, op.Index)
	case OpReadCurrent:
		a := h.ReadCurrent(sl)
		res.HasPublic, res.CurSecretErr, res.CurPublicErr = a.HasPublic, a.SecretErr, a.PublicErr
		if a.SecretErr == nil {
			res.CurSecret = l.identify(sl, a.Secret, false, &res)
			res.CurVal = a.Secret
			l.offer(sl, res.CurSecret)
		}
		if a.HasPublic && a.PublicErr == nil {
			res.CurPublic = l.identify(sl, a.Public, true, &res)
		}
	case OpReadAll:
		vals, err := h.ReadAll(sl)
		res.Err = err
		if err == nil {
			res.AllVals = vals
			res.All = make([]int, len(vals))
			for i, v := range vals {
				res.All[i] = l.identify(sl, v, false, &res)
				l.offer(sl, res.All[i])
			}
		}
	case OpListKeys:
		res.Listed, res.Err = h.ListKeys()
	case OpListRotated:
		res.Listed, res.Err = h.ListRotated()
	case OpResetCache:
		res.Err = h.ResetCache()
		l.clean = true
	case OpReopen:
		res.Err = l.S.Reopen()
		l.clean = true
		l.offered = map[Slot]map[int]bool{}
	default:
		res.Problem = "unknown operation " + op.Code
	}
	return res
}

// SlotState inspects one slot below the API and canonicalises it.
func (l *Lab) SlotState(sl Slot) SlotState {
	p := l.S.Inspect(sl)
	l.T.noteFiles(sl, p)
	st := SlotState{Slot: sl, N: l.T.N(sl), Extra: p.Extra, Anomaly: p.Anomaly}
	for i, v := range p.Secrets {
		o := l.T.SecretOrd(sl, v)
		if o == 0 {
			o = -1
		}
		st.Surv = append(st.Surv, o)
		if i == p.Cur {
			st.Cur = o
		}
	}
	for i, v := range p.Publics {
		o := l.T.PublicOrd(sl, v)
		if o == 0 {
			o = -1
		}
		st.PubSurv = append(st.PubSurv, o)
		if i == p.PubCur {
			st.PubCur = o
		}
	}
	return st
}

// State inspects every slot (and, for cached handles, the cache) and canonicalises.
func (l *Lab) State() State {
	if l.state != nil {
		return *l.state
	}
	s := l.inspectAll()
	l.state = &s
	return s
}

// Canon is State().Canon() (System interface of the Explorer).
func (l *Lab) Canon() string { return l.State().Canon() }

func (l *Lab) inspectAll() State {
	s := State{Clean: true, cached: l.Cfg.Cached()}
	for _, sl := range l.Slots {
		s.Slots = append(s.Slots, l.SlotState(sl))
	}
	if !s.cached {
		return s
	}
	s.Clean = l.clean
	for i, sl := range l.Slots {
		var off []int
		for o := range l.offered[sl] {
			if s.Slots[i].Survives(o) {
				off = append(off, o)
			}
		}
		sort.Ints(off)
		s.Offered = append(s.Offered, off)
		s.Cache = append(s.Cache, l.cacheView(sl)...)
	}
	return s
}

// cacheView renders the cache entries relevant to a slot without run-dependent names:
// K / K.pub / /K.pub (public key cached under its full path) / H (file list) / old#n
// (history file holding key #n); values: #n secret, pub#n, + tombstone, [..] file list.
func (l *Lab) cacheView(sl Slot) []string {
	n := v1NamesOf(sl)
	hist := l.T.historyNames(sl)
	known := append([]string{n.priv}, hist...)
	st := l.T.slot(sl)
	var out []string
	for _, name := range l.S.CacheNames(sl, hist) {
		e := l.S.PeekCache(sl, name, known)
		if !e.Present {
			continue
		}
		label := name
		switch {
		case name == n.priv:
			label = "K"
		case n.pub != "" && name == n.pub, name == n.priv+".pub":
			label = "K.pub"
		case strings.HasPrefix(name, ".historical."):
			label = "H"
		case strings.HasPrefix(name, "/") || strings.HasPrefix(name, l.S.Dir):
			label = "/K.pub"
		default:
			label = fmt.Sprintf("old#%d", st.files[name])
		}
		var val string
		switch {
		case e.Tombstone:
			val = "+"
		case e.Opaque:
			val = "?"
		case e.Files != nil:
			var fs []string
			for _, f := range e.Files {
				if f == n.priv {
					fs = append(fs, "cur")
				} else {
					fs = append(fs, fmt.Sprintf("#%d", st.files[f]))
				}
			}
			val = "[" + strings.Join(fs, " ") + "]"
		case e.Public != nil:
			val = fmt.Sprintf("pub#%d", l.T.PublicOrd(sl, e.Public))
		default:
			val = fmt.Sprintf("#%d", l.T.SecretOrd(sl, e.Secret))
		}
		out = append(out, sl.String()+":"+label+"="+val)
	}
	return out
}

// Replay applies a history without judging it and returns the last result.
func (l *Lab) Replay(h []Op) (last Result) {
	for _, op := range h {
		last = l.Apply(op)
	}
	return last
}
