// Package fx builds the small real Acra worlds (key store, clients, crypto registry,
// translator service, column-processor chains) that the checks drive.
package fx

import (
	"bytes"
	"context"
	"io"
	"os"

	"github.com/sirupsen/logrus"

	translator "github.com/cossacklabs/acra/cmd/acra-translator/common"
	"github.com/cossacklabs/acra/crypto"
	"github.com/cossacklabs/acra/decryptor/base"
	"github.com/cossacklabs/acra/keystore"
	"github.com/cossacklabs/acra/keystore/filesystem"
	"github.com/cossacklabs/acra/logging"
	"github.com/cossacklabs/acra/poison"

	"verif/detrand"
	"verif/ev"
)

// Client identities used everywhere.
var (
	Alpha  = []byte("alpha_1")
	Bravo  = []byte("bravo_2")
	AlphaX = []byte("alpha_1x")
	NoKeys = []byte("nokeys_9")
)

// MasterKey is the (fixed) v1 master key.
var MasterKey = bytes.Repeat([]byte{7}, 32)

// Quiet silences logrus (Acra logs a lot on error paths).
func Quiet() {
	if os.Getenv("VERIF_LOGS") != "" { // debugging aid: Acra's own log lines on stderr
		logrus.SetLevel(logrus.DebugLevel)
		return
	}
	logrus.SetOutput(io.Discard)
	logrus.SetLevel(logrus.PanicLevel)
}

// World is a v1 key store on a scratch directory with keys for Alpha and Bravo,
// poison keys, the crypto registry initialised on it and a translator service.
type World struct {
	Dir       string
	KS        *filesystem.KeyStore
	Rand      *detrand.Reader
	Callbacks *CountingCallback
	Service   *translator.TranslatorService
	Registry  crypto.RegistryHandler
}

// CountingCallback is a poison callback that only counts.
type CountingCallback struct{ N int }

func (c *CountingCallback) Call() error { c.N++; return nil }

// Options for NewWorld.
type Options struct {
	Seed          string
	CacheSize     int  // keystore.WithoutCache by default (0 means: no cache)
	PoisonKeys    bool // generate poison keys
	WithCallbacks bool // translator poison callbacks
	Rotations     int  // extra rotations of every client key
}

// Scratch creates a private 0700 scratch directory; the caller removes it.
func Scratch(prefix string) string {
	base := os.Getenv("VERIF_SCRATCH")
	if base == "" {
		base = os.TempDir()
	}
	d, err := os.MkdirTemp(base, "verif-"+prefix+"-")
	if err != nil {
		ev.Fatalf("scratch: %v", err)
	}
	os.Chmod(d, 0o700)
	return d
}

// NewKeyStoreV1 opens a v1 key store handle on dir.
func NewKeyStoreV1(dir string, cacheSize int) *filesystem.KeyStore {
	enc, err := keystore.NewSCellKeyEncryptor(append([]byte(nil), MasterKey...))
	if err != nil {
		ev.Fatalf("encryptor: %v", err)
	}
	ks, err := filesystem.NewCustomFilesystemKeyStore().KeyDirectory(dir).Encryptor(enc).CacheSize(cacheSize).Build()
	if err != nil {
		ev.Fatalf("keystore: %v", err)
	}
	return ks
}

// GenClientKeys generates every per-client key kind.
func GenClientKeys(ks *filesystem.KeyStore, id []byte) {
	must(ks.GenerateDataEncryptionKeys(id))
	must(ks.GenerateClientIDSymmetricKey(id))
	must(ks.GenerateHmacKey(id))
}

func must(err error) {
	if err != nil {
		ev.Fatalf("fixture: %v", err)
	}
}

// NewWorld builds the world. The crypto registry is a process-wide singleton: one world per
// process at a time.
func NewWorld(o Options) *World {
	w := &World{Dir: Scratch("ks")}
	w.Rand = detrand.New("world/" + o.Seed)
	detrand.Install(w.Rand)
	cache := o.CacheSize
	if cache == 0 {
		cache = keystore.WithoutCache
	}
	w.KS = NewKeyStoreV1(w.Dir, cache)
	for _, id := range [][]byte{Alpha, Bravo, AlphaX} {
		GenClientKeys(w.KS, id)
		for i := 0; i < o.Rotations; i++ {
			GenClientKeys(w.KS, id)
		}
	}
	if o.PoisonKeys {
		must(w.KS.GeneratePoisonKeyPair())
		must(w.KS.GeneratePoisonSymmetricKey())
	}
	must(crypto.InitRegistry(w.KS))
	w.Registry = crypto.NewRegistryHandler(w.KS)
	td := &translator.TranslatorData{Keystorage: w.KS}
	if o.WithCallbacks {
		w.Callbacks = &CountingCallback{}
		st := poison.NewCallbackStorage()
		st.AddCallback(w.Callbacks)
		td.PoisonRecordCallbacks = st
	}
	svc, err := translator.NewTranslatorService(td)
	must(err)
	w.Service = svc
	return w
}

// Close removes the scratch directory.
func (w *World) Close() { os.RemoveAll(w.Dir) }

// Ctx returns a context carrying a logger and the access context of client id.
func Ctx(id []byte) context.Context {
	ctx := logging.SetLoggerToContext(context.Background(), logrus.NewEntry(logrus.StandardLogger()))
	return base.SetAccessContextToContext(ctx, base.NewAccessContext(base.WithClientID(id)))
}

// DPC returns the DataProcessorContext for client id on key store ks.
func DPC(ks keystore.DataEncryptorKeyStore, id []byte) *base.DataProcessorContext {
	return &base.DataProcessorContext{Keystore: ks, Context: Ctx(id)}
}
