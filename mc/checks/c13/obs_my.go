package main

import (
	"bytes"
	"strings"

	"github.com/cossacklabs/acra/sqlparser"

	"verif/sqlgen"
)

// Oracle of the "observers" phase on sqlparser trees (MySQL dialects).
//
// t0 = Parse(received), t1 = Parse(sent). The documented substitutions are UNDONE in t1 at
// exactly the sites where the description of the statement (obsDesc, written by the
// generator from the configuration) permits them, and only when t1 holds exactly the
// documented form there; then t0 and t1 must be structurally equal under the comparison of
// the other phases (sqlgen.Diff, identifier bytes included). Anything the observers did
// elsewhere, or in another form, is left in t1 and shows up as a difference.
//
// Permitted at a comparison `L op R` of t0 (all independent of each other):
//
//	(2) L is a searchable column (or substr(<searchable column>, 1, 33) written by the client)
//	    and R is a searchable column: BOTH operands may be wrapped in substr(x, 1, 33);
//	    R is a literal or placeholder: L may be wrapped in substr(L, 1, 33) or in
//	    convert(substr(L, 1, 33), binary) (hmac/decryptor/mysql adds the conversion for
//	    literals on purpose, see the comment there);
//	(3) at such a site, or when L is a consistently tokenized column and R a literal or
//	    placeholder: =, <=>, like, ilike may become = ; !=, not like, not ilike may become != ;
//	    any other operator must stay;
//	(1) L is a protected column and R a literal: the literal's value and literal type may
//	    change (the CastType, sign folding etc. are still compared); `_binary <literal>` is a
//	    literal spelling: the introducer may go TOGETHER WITH a substitution of the value (the
//	    sent literal differs from the received one in type or bytes: a search hash as a hex
//	    number, a token). `col > _binary 'abc'` sent as `col > 'abc'` - the same value without
//	    the introducer - is no substitution: the database compares by the column's collation
//	    instead of byte-wise, another meaning;
//	(4) `value = column`, `value != column`, `value <=> column` may be sent with the operands
//	    exchanged (symmetric operators; what the PostgreSQL observers do); the value may be any
//	    literal, a float included.
//
// Assignments: a literal (possibly inside parentheses or under a unary operator such as
// _binary, as encryptor/mysql.UpdateExpressionValue looks through them) at a VALUES position
// of a protected column, or assigned to a protected column in SET / ON DUPLICATE KEY UPDATE,
// may change value and literal type.
//
// The property leaves open WHICH comparisons get the search-hash form; wrapping both
// searchable columns under an operator outside the two families (t1.s < t2.s) substitutes
// hashes for values without touching the operator and is accepted.

type undoLog struct {
	wrapOne, wrapBoth, opFam, cmpLit, assignLit, swapped int
}

func (u *undoLog) shape() string {
	var p []string
	add := func(n int, s string) {
		if n > 0 {
			p = append(p, s)
		}
	}
	add(u.swapped, "operands-of-symmetric-operator-exchanged")
	add(u.wrapOne, "left-wrapped")
	add(u.wrapBoth, "both-wrapped")
	add(u.opFam, "operator-in-family")
	add(u.cmpLit, "compared-literal-substituted")
	add(u.assignLit, "assigned-literal-substituted")
	if len(p) == 0 {
		return "re-serialised-without-substitution"
	}
	return strings.Join(p, "+")
}

func myColKey(c *sqlparser.ColName) string {
	if c == nil {
		return ""
	}
	var parts []string
	if !c.Qualifier.Qualifier.IsEmpty() {
		parts = append(parts, c.Qualifier.Qualifier.String())
	}
	if !c.Qualifier.Name.IsEmpty() {
		parts = append(parts, c.Qualifier.Name.String())
	}
	parts = append(parts, c.Name.String())
	return strings.Join(parts, ".")
}

func myIsIntLit(e sqlparser.Expr, want string) bool {
	v, ok := e.(*sqlparser.SQLVal)
	return ok && v.Type == sqlparser.IntVal && string(v.Val) == want && len(v.CastType) == 0
}

// mySubstr33 returns the column of substr(col, 1, 33).
func mySubstr33(e sqlparser.Expr) (*sqlparser.ColName, bool) {
	s, ok := e.(*sqlparser.SubstrExpr)
	if !ok || s.Name == nil || !myIsIntLit(s.From, "1") || !myIsIntLit(s.To, "33") {
		return nil, false
	}
	return s.Name, true
}

// myUnconvertBinary returns x of convert(x, binary).
func myUnconvertBinary(e sqlparser.Expr) (sqlparser.Expr, bool) {
	c, ok := e.(*sqlparser.ConvertExpr)
	if !ok || c.Type == nil {
		return nil, false
	}
	t := c.Type
	if !strings.EqualFold(strings.TrimSpace(t.Type), "binary") || t.Length != nil || t.Scale != nil || t.Operator != "" || t.Charset != "" {
		return nil, false
	}
	return c.Expr, true
}

// myBinaryIntroducer returns the literal of `_binary <literal>`.
func myBinaryIntroducer(e sqlparser.Expr) (*sqlparser.SQLVal, bool) {
	u, ok := e.(*sqlparser.UnaryExpr)
	if !ok || strings.TrimSpace(u.Operator) != "_binary" {
		return nil, false
	}
	v, ok := u.Expr.(*sqlparser.SQLVal)
	if !ok || myLitKind(v) != "lit" {
		return nil, false
	}
	return v, true
}

// myValueKind: myLitKind, with `_binary <literal>` (a binary string literal of MySQL) as "lit".
func myValueKind(e sqlparser.Expr) string {
	if _, ok := myBinaryIntroducer(e); ok {
		return "lit"
	}
	return myLitKind(e)
}

// mySwapValue: a value that may change sides with a column under a symmetric operator.
func mySwapValue(e sqlparser.Expr) bool {
	if v, ok := e.(*sqlparser.SQLVal); ok && v.Type == sqlparser.FloatVal {
		return true
	}
	return myValueKind(e) != ""
}

func myLitKind(e sqlparser.Expr) string {
	v, ok := e.(*sqlparser.SQLVal)
	if !ok {
		return ""
	}
	switch v.Type {
	case sqlparser.StrVal, sqlparser.IntVal, sqlparser.HexNum, sqlparser.HexVal, sqlparser.PgEscapeString:
		return "lit"
	case sqlparser.ValArg, sqlparser.PgPlaceholder:
		return "placeholder"
	}
	return ""
}

func myOpFamily(op string) string {
	switch op {
	case sqlparser.EqualStr, sqlparser.NullSafeEqualStr, sqlparser.LikeStr, sqlparser.ILikeStr:
		return sqlparser.EqualStr
	case sqlparser.NotEqualStr, sqlparser.NotLikeStr, sqlparser.NotILikeStr:
		return sqlparser.NotEqualStr
	}
	return ""
}

func myComparisons(t sqlparser.SQLNode) []*sqlparser.ComparisonExpr {
	var out []*sqlparser.ComparisonExpr
	for _, sl := range sqlgen.Slots(t) {
		if c, ok := sl.Get().(*sqlparser.ComparisonExpr); ok {
			out = append(out, c)
		}
	}
	return out
}

// myUndoLit copies the received literal over the sent one when both are plain literals at
// corresponding places (looking through identical parentheses / unary operators).
func myUndoLit(e0, e1 sqlparser.Expr) bool {
	for {
		switch a := e0.(type) {
		case *sqlparser.ParenExpr:
			b, ok := e1.(*sqlparser.ParenExpr)
			if !ok {
				return false
			}
			e0, e1 = a.Expr, b.Expr
			continue
		case *sqlparser.UnaryExpr:
			b, ok := e1.(*sqlparser.UnaryExpr)
			if !ok || a.Operator != b.Operator {
				return false
			}
			e0, e1 = a.Expr, b.Expr
			continue
		}
		break
	}
	if myLitKind(e0) != "lit" || myLitKind(e1) != "lit" {
		return false
	}
	a, b := e0.(*sqlparser.SQLVal), e1.(*sqlparser.SQLVal)
	if a.Type == b.Type && bytes.Equal(a.Val, b.Val) {
		return false
	}
	b.Type, b.Val = a.Type, append([]byte(nil), a.Val...)
	return true
}

func myUndoCmp(c0, c1 *sqlparser.ComparisonExpr, d *obsDesc, u *undoLog) {
	// (4) `value = column`, `value != column`, `value <=> column` may be sent with the operands
	// exchanged (symmetric operators; the pinned MySQL observers do not do it, the PostgreSQL
	// ones do - the same permission for both)
	switch c0.Operator {
	case sqlparser.EqualStr, sqlparser.NotEqualStr, sqlparser.NullSafeEqualStr:
		if _, rcol := c0.Right.(*sqlparser.ColName); rcol && mySwapValue(c0.Left) {
			if !mySwapValue(c1.Left) && mySwapValue(c1.Right) {
				c0.Left, c0.Right = c0.Right, c0.Left
				u.swapped++
			}
		}
	}
	var lkey string
	if col, ok := c0.Left.(*sqlparser.ColName); ok {
		lkey = myColKey(col)
	}
	rKind := myValueKind(c0.Right)
	var rkey string
	if col, ok := c0.Right.(*sqlparser.ColName); ok {
		rkey = myColKey(col)
	}
	lSearch := lkey != "" && d.has(d.Search, lkey)
	rSearch := rkey != "" && d.has(d.Search, rkey)
	siteSearch := lSearch && (rSearch || rKind != "")
	siteToken := lkey != "" && d.has(d.Token, lkey) && rKind != ""
	if siteSearch {
		if rSearch {
			lc, ok1 := mySubstr33(c1.Left)
			rc, ok2 := mySubstr33(c1.Right)
			if ok1 && ok2 {
				c1.Left, c1.Right = lc, rc
				u.wrapBoth++
			}
		} else {
			x := c1.Left
			if y, ok := myUnconvertBinary(x); ok {
				x = y
			}
			if lc, ok := mySubstr33(x); ok {
				c1.Left = lc
				u.wrapOne++
			}
		}
	}
	if (siteSearch || siteToken) && c1.Operator != c0.Operator {
		if fam := myOpFamily(c0.Operator); fam != "" && c1.Operator == fam {
			c1.Operator = c0.Operator
			u.opFam++
		}
	}
	if lkey != "" && d.has(d.Prot, lkey) && rKind == "lit" {
		// `_binary <literal>` may be sent as a plain (hex) literal: the introducer belongs to the
		// literal's spelling
		if v0, intro := myBinaryIntroducer(c0.Right); intro && myLitKind(c1.Right) == "lit" {
			// only together with a substitution of the value
			if v1 := c1.Right.(*sqlparser.SQLVal); v1.Type != v0.Type || !bytes.Equal(v1.Val, v0.Val) {
				c1.Right = c0.Right
				u.cmpLit++
			}
		} else if myUndoLit(c0.Right, c1.Right) {
			u.cmpLit++
		}
	}
}

func myUndoAssign(e0, e1 sqlparser.UpdateExprs, d *obsDesc, u *undoLog) {
	if len(e0) != len(e1) {
		return
	}
	for i := range e0 {
		if e0[i] == nil || e1[i] == nil || e0[i].Name == nil {
			continue
		}
		if d.has(d.Assign, myColKey(e0[i].Name)) && myUndoLit(e0[i].Expr, e1[i].Expr) {
			u.assignLit++
		}
	}
}

// myUndo applies the permitted substitutions backwards on t1.
func myUndo(t0, t1 sqlparser.Statement, d *obsDesc) *undoLog {
	u := &undoLog{}
	c0, c1 := myComparisons(t0), myComparisons(t1)
	if len(c0) == len(c1) {
		for i := range c0 {
			myUndoCmp(c0[i], c1[i], d, u)
		}
	}
	switch a := t0.(type) {
	case *sqlparser.Insert:
		b, ok := t1.(*sqlparser.Insert)
		if !ok {
			break
		}
		r0, ok0 := a.Rows.(sqlparser.Values)
		r1, ok1 := b.Rows.(sqlparser.Values)
		if ok0 && ok1 && len(r0) == len(r1) {
			for i := range r0 {
				if len(r0[i]) != len(r1[i]) {
					continue
				}
				for j := range r0[i] {
					if j < len(d.ProtPos) && d.ProtPos[j] && myUndoLit(r0[i][j], r1[i][j]) {
						u.assignLit++
					}
				}
			}
		}
		myUndoAssign(sqlparser.UpdateExprs(a.OnDup), sqlparser.UpdateExprs(b.OnDup), d, u)
	case *sqlparser.Update:
		if b, ok := t1.(*sqlparser.Update); ok {
			myUndoAssign(a.Exprs, b.Exprs, d, u)
		}
	}
	return u
}

// myIntroducerLost: some comparison of the received statement has `_binary <literal>` on its
// right and the sent statement has, at the same comparison, the same literal (type and bytes)
// without the introducer: a comparison nobody substituted a value in was re-serialised from a
// tree somebody had normalised.
func myIntroducerLost(t0, t1 sqlparser.Statement) bool {
	c0, c1 := myComparisons(t0), myComparisons(t1)
	if len(c0) != len(c1) {
		return false
	}
	for i := range c0 {
		v0, ok := myBinaryIntroducer(c0[i].Right)
		if !ok {
			continue
		}
		if v1, ok := c1[i].Right.(*sqlparser.SQLVal); ok && v1.Type == v0.Type && bytes.Equal(v1.Val, v0.Val) {
			return true
		}
	}
	return false
}

// myDiffClass names the failure class of a tree difference.
func myDiffClass(diff string) string {
	i := strings.Index(diff, ": ")
	path := diff
	if i >= 0 {
		path = diff[:i]
	}
	last := path
	if j := strings.LastIndex(path, "."); j >= 0 {
		last = path[j+1:]
	}
	last = reIndex.ReplaceAllString(last, "")
	switch {
	case strings.HasPrefix(last, "Operator"):
		return "operator-altered"
	case strings.Contains(path, "(SQLVal)") && (last == "Val" || last == "Type" || last == "CastType"):
		return "literal-altered"
	case last == "val" || last == "v" || last == "quote" || last == "unquote":
		return "identifier-altered"
	case strings.Contains(diff, "node type"):
		return "operand-altered"
	case strings.Contains(diff, "length ") || strings.Contains(diff, "nil vs"):
		return "clause-or-element-lost-or-added"
	}
	return "tree-differs"
}
