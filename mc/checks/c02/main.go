// C02 — data protected for one client is never revealed under another identity.
//
// Bounded-exhaustive enumeration on the real implementation:
//   - reveal matrix: ordered pairs (A,B) of distinct identities from {alpha_1, bravo_2, alpha_1x}
//     (alpha_1x strictly extends alpha_1: prefix confusion) x key histories (0..R rotations of A
//     and of B, artefacts of every key generation of A) x key store format {v1 directory,
//     v2 in-memory} x 5 plaintext classes x every producer of envl.Producers under A x every
//     reveal entry point of envl (GenericRevealers) under B, column processors also with the
//     value embedded in other bytes; tokens of A (5 token types, Anonymize and
//     AnonymizeConsistently, memory/BoltDB storages with and without the encrypting wrapper, a
//     context-blind storage isolating the tokenizer's own scoping) detokenized under B; token
//     storages and the token encryptor driven directly; A's search hashes verified under B.
//   - forged identity: every RPC of grpc_api.DecryptService (reflection) on
//     TLSDecryptServiceWrapper with a TLS peer of B and a request naming A, over a recording stub
//     and over the real service; every HTTP route over an in-process TLS connection of B.
//   - key relocation: every stored key file / key ring copied over every other one and loaded
//     under the target's identity; key distinctness over all generated keys.
//
// Oracle: error, or the stored protected bytes / the token handed back unchanged; never A's
// plaintext (also not as a substring); the service behind the TLS wrapper sees B's id (or the
// call fails); a relocated key of another client fails to load; generated keys pairwise differ.
package main

import (
	"flag"
	"fmt"

	"verif/envl"
	"verif/ev"
	"verif/fx"
	"verif/par"
)

func rotVectors(maxR int) [][3]int {
	var out [][3]int
	for a := 0; a <= maxR; a++ {
		for b := 0; b <= maxR; b++ {
			for c := 0; c <= maxR; c++ {
				if a != 0 && b != 0 && c != 0 {
					continue // no ordered pair is evaluated on such a world (see pairsOf)
				}
				out = append(out, [3]int{a, b, c})
			}
		}
	}
	return out
}

func main() {
	strictPub := flag.Bool("strict-public", false, "treat loading another client's (plain, unauthenticated) v1 public key file as a violation")
	r := ev.New("C02", "model_checking")
	fx.Quiet()
	all := envl.GenericRevealers()
	k := &checker{r: r, revs: map[string]envl.Revealer{}}
	for _, rv := range all {
		k.revs[rv.Name] = rv
	}
	maxR := 1
	matrixFormats := []string{fmtV1, fmtV2Mem}
	relocFormats := []string{fmtV1}
	forgedFormats := []string{fmtV1}
	if r.Thorough() {
		maxR = 2
		relocFormats = []string{fmtV1, fmtV2Mem, fmtV2Dir}
		forgedFormats = []string{fmtV1, fmtV2Mem}
	}
	full := [3]int{1, 1, 1}

	if r.Replay != "" {
		var c caseT
		r.LoadReplay(&c)
		fmt.Printf("replay: %+v\n", c)
		if c.Scenario == "column-client-id" {
			var cc colOwnerCase
			r.LoadReplay(&cc)
			phaseColumnOwner(r, &cc)
			r.Finish()
		}
		if c.Scenario == "open-connections" {
			phaseOpenConnections(r)
			r.Finish()
		}
		if c.Scenario == "concurrent" {
			initRegistryForReplay()
			phaseConcurrent(r)
			r.Finish()
		}
		tag := "replay"
		if set, ok := idSets[c.IDSet]; ok {
			ids, idSet = set, c.IDSet
			tag = c.IDSet + "-ids"
		}
		w := buildWorld(tag, c.Format, c.R, true)
		defer w.Close()
		switch c.Scenario {
		case "reveal", "token", "storage", "hash":
			k.eval(w, c)
		case "forged-grpc":
			(&forged{r: r, w: w, pki: newPKI(ids), all: all}).runGRPC(&c)
		case "forged-http":
			(&forged{r: r, w: w, pki: newPKI(ids), all: all}).runHTTP(&c)
		case "relocate":
			if c.Format == fmtV1 {
				newV1Relocator(r, w, *strictPub).run(&c)
			} else {
				newV2Relocator(r, w, w.v2b).run(&c)
			}
		case "distinct":
			d := &distinctness{r: r, seen: map[string]keyLabel{}}
			d.collect(w)
		default:
			ev.Fatalf("unknown scenario %q in replay", c.Scenario)
		}
		w.Close()
		r.Finish()
	}

	// 0. columns with an explicit client_id (small, first)
	phaseColumnOwner(r, nil)

	dist := &distinctness{r: r, seen: map[string]keyLabel{}}
	controls := 0
	worlds := 0
	capped := false

	// 1. reveal matrix, bound by bound (rotation bound 0 first, so that a cap leaves it complete)
	for bound := 0; bound <= maxR && !capped; bound++ {
		for _, f := range matrixFormats {
			for _, rv := range rotVectors(bound) {
				if bound > 0 && rv[0] < bound && rv[1] < bound && rv[2] < bound {
					continue // done at a smaller bound
				}
				if r.Expired() {
					capped = true
					break
				}
				w := buildWorld("matrix", f, rv, true)
				worlds++
				cases, inputs := k.casesOf(w, all, &controls)
				r.States(inputs)
				for i := 0; i < len(cases); i += len(cases)/2 + 1 {
					r.Sample(cases[i])
				}
				done := par.Do(len(cases), r.Expired, func(i int) { k.eval(w, cases[i]) })
				if done < len(cases) {
					r.Capped(fmt.Sprintf("wall budget: world %s: %d of %d reveal attempts done (rotation bound %d complete)", w.name, done, len(cases), bound-1))
					capped = true
				}
				dist.collect(w)
				w.Close()
			}
		}
	}

	// 2. forged identity
	if !capped {
		for _, f := range forgedFormats {
			w := buildWorld("forged", f, full, true)
			worlds++
			fg := &forged{r: r, w: w, pki: newPKI(ids), all: all}
			fg.runGRPC(nil)
			if f == fmtV1 {
				fg.runHTTP(nil)
				if httpStarted != nil {
					httpStarted.cancel()
				}
			}
			dist.collect(w)
			w.Close()
		}
	} else {
		r.Capped("forged identity scenarios not run")
	}

	// 3. key relocation
	if !capped {
		for _, f := range relocFormats {
			w := buildWorld("relocation", f, full, false)
			worlds++
			if f == fmtV1 {
				newV1Relocator(r, w, *strictPub).run(nil)
			} else {
				newV2Relocator(r, w, w.v2b).run(nil)
			}
			for _, n := range w.notes {
				r.Capped(n)
			}
			dist.collect(w)
			w.Close()
		}
	} else {
		r.Capped("key relocation not run")
	}
	// 3a. long identities that differ only at the very end (reveal matrix and relocation, both formats)
	if !capped {
		phaseLongIdentities(r, k, all, &controls, *strictPub)
	}
	// 3b. identity of open connections under later handshakes
	if !capped {
		phaseOpenConnections(r)
	}
	// 4. overlapping requests of different identities through one translator service (E1)
	if !capped {
		phaseConcurrent(r)
	} else {
		r.Capped("concurrent requests not run")
	}
	r.Set("keys_compared_pairwise", dist.n)
	r.Class("distinctness:keys", int(int64(dist.n)))
	r.Distinct(fmt.Sprintf("distinctness|%d keys|collisions=%v", dist.n, r.HasViolations()))

	r.Rule("state = one (owner A, requesting identity B, rotations of A and of B, key generation of A, key store format, artefact) input: artefact = plaintext class x producer, or token value x storage x mode, or stored key file/ring (relocation), or request payload (forged identity); transition = one reveal-type operation under B on that input (reveal entry point, detokenize, storage get, hash verification, RPC / HTTP request over a connection of B naming A, key load after relocation); distinct_nontrivial counts distinct (entry point, form, history class, embedding, outcome) tuples")
	r.Set("identities", []string{string(ids[0]), string(ids[1]), string(ids[2])})
	r.Set("max_rotations", maxR)
	r.Set("keystore_formats_reveal", matrixFormats)
	r.Set("keystore_formats_relocation", relocFormats)
	r.Set("keystore_formats_forged", forgedFormats)
	r.Set("plaintext_classes", classNames)
	r.Set("producers", len(envl.Producers))
	r.Set("reveal_entry_points", len(all))
	r.Set("worlds_built", worlds)
	r.Set("positive_controls(owner can reveal)", controls)
	r.Assume("Themis is replaced by the pure-Go stand-in /verif/shim/gothemis (AEAD assumption: decryption with another key or another context fails)",
		"identities are the three fixture client ids; rotations per client bounded by max_rotations; one value per plaintext class and token type",
		"TLS client ids: Acra's DistinguishedNameExtractor with a CN->id converter instead of hex(sha512(DN)); certificates from an in-process CA; handshakes over net.Pipe through network.TLSConnectionWrapper",
		"HTTP routes are listed by hand (gin engine not reachable from the harness module); gRPC methods are enumerated by reflection",
		"keystore v1 public key files are plain and unauthenticated by design: loading another client's public key after relocation is recorded, not a violation (use -strict-public)",
		"same-client relocation across purposes is recorded only: the property binds keys to clients, not purposes")
	r.Finish()
}
