#!/usr/bin/env python3
"""usage: mkoverlay.py <outdir> [--sync file ...] [--flock file] [--modsync module file ...] [--lru]
Writes <outdir>/overlay.json for `go build -overlay`:
 * every --sync file (path relative to the repository) is copied from the repository's CURRENT
   working tree with its `"sync"` import rewritten to the scheduler-aware virtual package
   github.com/cossacklabs/acra/verifsync (nothing else changes, so an edit in those files is
   what gets compiled);
 * --modsync <module> <file...>: the same rewrite for files of a dependency (version taken from the
   repository's go.mod, source from the module cache), e.g. go.etcd.io/bbolt db.go;
 * --flock <file> (a file also named under --sync): every `syscall.Flock(` call of that file goes
   through a function that asks the exported hook VerifFlockHook(fd, how) first (a non-nil error is
   returned INSTEAD of calling flock(2): environment answer of the fault enumerator);
 * the virtual package itself is added to the acra module;
 * --lru replaces github.com/golang/groupcache/lru/lru.go by an instrumented copy that reports
   every cache operation to a hook (access monitor of E1).
Fails loudly if a file has no plain `"sync"` import to rewrite."""
import json, os, re, sys, glob

out = sys.argv[1]
args = sys.argv[2:]
repo = os.environ.get("VERIF_REPO", "/repo")
root = os.environ.get("VERIF_ROOT", os.path.dirname(os.path.dirname(os.path.abspath(__file__))))
os.makedirs(out, exist_ok=True)
replace = {}
sync_files, lru = [], False
mod_files = []  # (module, file)
flock_files = []
i = 0
while i < len(args):
    if args[i] == "--sync":
        i += 1
        while i < len(args) and not args[i].startswith("--"):
            sync_files.append(args[i]); i += 1
        continue
    if args[i] == "--modsync":
        mod = args[i + 1]
        i += 2
        while i < len(args) and not args[i].startswith("--"):
            mod_files.append((mod, args[i])); i += 1
        continue
    if args[i] == "--flock":
        flock_files.append(args[i + 1]); i += 2
        continue
    if args[i] == "--lru":
        lru = True
    i += 1
for rel in sync_files:
    src = open(os.path.join(repo, rel)).read()
    new, n = re.subn(r'(?m)^(\s*)"sync"\s*$', r'\1sync "github.com/cossacklabs/acra/verifsync"', src)
    if n != 1:
        sys.exit("mkoverlay: %s: expected exactly one plain \"sync\" import, found %d" % (rel, n))
    if rel in flock_files:
        new, n = re.subn(r'\bsyscall\.Flock\(', 'verifFlock(', new)
        if n == 0:
            sys.exit("mkoverlay: %s: no syscall.Flock call to rewrite" % rel)
        new += """
// ---- added by the /verif build overlay: environment seam of flock(2) ----

// VerifFlockHook is installed by the harness; a non-nil error is returned instead of calling flock(2).
var VerifFlockHook func(fd int, how int) error

func verifFlock(fd int, how int) error {
	if h := VerifFlockHook; h != nil {
		if err := h(fd, how); err != nil {
			return err
		}
	}
	return syscall.Flock(fd, how)
}
"""
    dst = os.path.join(out, rel.replace("/", "__"))
    open(dst, "w").write(new)
    replace[os.path.join(repo, rel)] = dst
for rel in flock_files:
    if rel not in sync_files:
        sys.exit("mkoverlay: --flock %s must also be listed under --sync" % rel)
for mod, rel in mod_files:
    m = re.search(r'(?m)^\s*%s (v\S+)' % re.escape(mod), open(os.path.join(repo, "go.mod")).read())
    if not m:
        sys.exit("mkoverlay: %s not found in go.mod" % mod)
    path = os.path.expanduser("~/go/pkg/mod/%s@%s/%s" % (mod, m.group(1), rel))
    if not os.path.exists(path):
        sys.exit("mkoverlay: %s not in the module cache" % path)
    src = open(path).read()
    # a dependency cannot import a package of the acra module (and the go command does not accept
    # new package directories inside the module cache): the lock types are added to the
    # dependency's own file and sync.Mutex / sync.RWMutex are renamed
    new, n1 = re.subn(r'\bsync\.Mutex\b', 'verifMutex', src)
    new, n2 = re.subn(r'\bsync\.RWMutex\b', 'verifRWMutex', new)
    if n1 + n2 == 0:
        sys.exit("mkoverlay: %s: no sync.Mutex / sync.RWMutex to rewrite" % path)
    # the lock types are appended to the same file (a new file in a module-cache directory is not
    # seen by the go command's module index)
    shim = open(os.path.join(root, "shim", "overlay", "verifsync", "sync.go")).read()
    shim = shim[shim.index("// AcquireHook"):]
    shim = "var (\n" + shim[shim.index("\tAcquireHook"):]
    shim = re.sub(r'(?s)type \(\n.*?\n\)\n', '', shim)  # aliases of the other sync types are not needed
    shim = shim.replace('sync.Mutex', '@@M@@').replace('sync.RWMutex', '@@RW@@')
    shim = re.sub(r'\bRWMutex\b', 'verifRWMutex', shim)
    shim = re.sub(r'\bMutex\b', 'verifMutex', shim)
    shim = shim.replace('"verifMutex"', '"Mutex"').replace('"verifRWMutex"', '"RWMutex"')
    shim = shim.replace('@@M@@', 'sync.Mutex').replace('@@RW@@', 'sync.RWMutex')
    shim = shim.replace('AcquireHook', 'VerifAcquireHook').replace('ReleaseHook', 'VerifReleaseHook')
    new += "\n// ---- added by the /verif build overlay: scheduler-aware lock types ----\n\n" + shim
    dst = os.path.join(out, (mod + "/" + rel).replace("/", "__"))
    open(dst, "w").write(new)
    replace[path] = dst
replace[os.path.join(repo, "verifsync", "sync.go")] = os.path.join(root, "shim", "overlay", "verifsync", "sync.go")
if lru:
    m = re.search(r'github.com/golang/groupcache (v\S+)', open(os.path.join(repo, "go.mod")).read())
    if not m:
        sys.exit("mkoverlay: groupcache version not found in go.mod")
    cands = glob.glob(os.path.expanduser("~/go/pkg/mod/github.com/golang/groupcache@%s/lru/lru.go" % m.group(1)))
    if len(cands) != 1:
        sys.exit("mkoverlay: groupcache lru.go not found uniquely: %r" % cands)
    src = open(cands[0]).read()
    # report every operation on the cache object: Add/Remove/RemoveOldest/Clear write, Get writes too
    # (it moves the element to the front of the list), Len reads
    def hook(name, write):
        return '\tif Hook != nil {\n\t\tHook(c, "%s", %s)\n\t}\n' % (name, "true" if write else "false")
    for name, write in [("Add", True), ("Get", True), ("Remove", True), ("RemoveOldest", True), ("Clear", True), ("Len", False)]:
        pat = re.compile(r'(func \(c \*Cache\) %s\([^)]*\)[^\n]*\{\n)' % name)
        src, n = pat.subn(lambda m: m.group(1) + hook("lru." + name, write), src)
        if n != 1:
            sys.exit("mkoverlay: cannot instrument lru.%s" % name)
    src += "\n// Hook is installed by the /verif harness (access monitor).\nvar Hook func(c *Cache, op string, write bool)\n"
    dst = os.path.join(out, "groupcache_lru.go")
    open(dst, "w").write(src)
    replace[cands[0]] = dst
json.dump({"Replace": replace}, open(os.path.join(out, "overlay.json"), "w"), indent=1)
