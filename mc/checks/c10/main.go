// C10 — tokens are format-preserving, reversible for the owner, and consistent; two different
// values never share a token within one client context.
//
// Bounded-exhaustive model checking on the real pseudonymization code. One function per phase:
//
//	phaseShapes       (E4) every token type x boundary value x client context x {consistent, random}
//	                  x store stack {memory, BoltDB} x {plain, encrypting wrapper} x entry point
//	                  {Pseudoanonymizer, TranslatorService, DataTokenizer via TokenEncryptor /
//	                  TokenProcessor, PostgreSQL binary bound value}; all draws fresh.
//	phaseOutOfRange   (E4) integers outside int32 for an int32 column at the SQL boundary.
//	phaseMenus        (E4) sequences of 2-3 tokenize calls over two values and two client contexts
//	                  under every random-draw menu with at most 2 deviations from "fresh"
//	                  (each token draw returns: fresh | the previous token | a token of another
//	                  plaintext | a token of the same plaintext | a token of the other context |
//	                  another plaintext), plus "all draws of one call collide" and "another instance
//	                  tokenizes the same value right after our lookup missed".
//	phaseMaintenance  (E2) BFS with state de-duplication over histories of depth <= 4 over
//	                  {tokenize v/w, random tokenize v, detokenize, disable all / v, enable, remove
//	                  all / disabled} using VisitMetadata with the callbacks of cmd/acra-tokens.
//	phaseCLI          (E2) the same kind of histories with maintenance done by the real acra-tokens
//	                  subcommands (cmd/acra-tokens/tokens: RegisterFlags, Parse, Execute on the BoltDB
//	                  file): {disable, enable, remove --all, remove --only_disabled, remove --all
//	                  --dry_run, status} x every set of at most 2 (thorough: also 3 and 4) of the options
//	                  --accessed_after/--accessed_before/--created_after/--created_before x every
//	                  option with its limit before / between / after the times of the stored records
//	                  (408 operations; "age" = the records stored so far become old), breadth-first
//	                  with state de-duplication from three root histories (empty store: 2 operations;
//	                  old and fresh records side by side, the same all disabled: 1 operation; thorough
//	                  one more), each history followed by the owner's probes. Space, oracle and the reason for worker processes: cli.go,
//	                  cliworker.go.
//	(phaseConcurrent  (E1) is added by the lead: see the tap in world.go.)
//
// Oracle (all phases): the token has the Go type and the shape of the value; the owner gets the
// original back; another client and unknown tokens get the token itself without an error;
// consistent mode returns one token per (context, value) in an execution; two values of one
// context never get one token — checked over the population of the execution and on the store
// contents; out-of-range integers are rejected or handed back unchanged; all four store stacks
// give the same observation vector; disabled tokens are not detokenized, removed ones are
// unknown; an acra-tokens command changes exactly the records its options select (within every
// given date limit, and disabled for remove --only_disabled), so every other token stays
// reversible for the owner and consistent. Never a panic.
package main

import (
	"fmt"
	"os"
	"runtime/pprof"
	"strconv"
	"strings"
	"sync"

	"verif/ev"
	"verif/par"
)

var (
	stateMu sync.Mutex
	stateOf = map[string]struct{}{}
)

func noteState(r *ev.Run, s string) {
	stateMu.Lock()
	if _, ok := stateOf[s]; !ok {
		stateOf[s] = struct{}{}
		r.States(1)
	}
	stateMu.Unlock()
}

func report(r *ev.Run, fs []finding, payload interface{}) {
	for _, f := range fs {
		r.Violation(f.Key, f.Msg, payload)
	}
}

// runAllStores executes cfg on every store stack, reports the findings of each and demands equal
// observation vectors and equal canonical store contents.
func runAllStores(r *ev.Run, cfg traceCfg) traceOut {
	outs := map[string]traceOut{}
	for _, st := range storeKinds {
		c := cfg
		c.Store = st
		o := runTrace(c)
		if o.Infeasible {
			return o
		}
		account(r, c, o)
		outs[st] = o
	}
	vec := func(o traceOut) string { return strings.Join(o.Obs, ";") + "#" + o.State }
	diverge := func(a, b, what string) {
		if va, vb := vec(outs[a]), vec(outs[b]); va != vb {
			c := cfg
			c.Store = b
			r.Violation(fmt.Sprintf("C10/store-divergence/%s/%s/%s/%s/%s-vs-%s", what, cfg.Type, cfg.Entry, cfg.menuKind(), b, a),
				fmt.Sprintf("store stacks disagree: %s: %s || %s: %s", a, va, b, vb), c)
		}
	}
	// the property: memory and BoltDB agree
	diverge("memory", "boltdb", "backend")
	diverge("memory+enc", "boltdb+enc", "backend")
	// stronger, kept because it holds: the encrypting wrapper is transparent — except where the
	// zero-length-value finding (own key C10/empty-value/...) was raised in this very execution
	emptyFinding := false
	for _, f := range outs["memory+enc"].Findings {
		emptyFinding = emptyFinding || strings.HasPrefix(f.Key, "C10/empty-value/")
	}
	if !emptyFinding {
		diverge("memory", "memory+enc", "wrapper")
	}
	first := outs["memory"]
	return first
}

func account(r *ev.Run, c traceCfg, o traceOut) {
	r.Eval(1)
	r.Traces(1)
	r.Transitions(o.Steps)
	noteState(r, c.Type+"|"+o.State)
	mode := "random"
	if c.Consistent {
		mode = "consistent"
	}
	r.Distinct(strings.Join([]string{c.Type, c.Store, c.Entry, mode, c.menuClass(), o.Outcome}, "|"))
	cl := "held"
	if len(o.Findings) > 0 {
		cl = "violated"
	}
	r.Class("seq:"+c.Type+":"+mode+":"+cl, 1)
	if o.Leftover {
		r.Class("seq:leftover-candidate-record-answered-own-client", 1)
	}
	report(r, o.Findings, c)
}

// ---------------------------------------------------------------------------------------------
// value alphabets

func intBoundaries(t string) []string {
	min, max := int64(-1<<31), int64(1<<31-1)
	if t == "int64" {
		min, max = -1<<63, 1<<63-1
	}
	var out []string
	for _, v := range []int64{min, min + 1, -1, 0, 1, max - 1, max} {
		out = append(out, strconv.FormatInt(v, 10))
	}
	return out
}

func pattern(n int, salt byte) []byte {
	b := make([]byte, n)
	for i := range b {
		b[i] = 'a' + (salt+byte(i))%26
	}
	return b
}

func emailOfLen(n int) []byte {
	if n < 5 {
		return []byte("a@b.c")[:n]
	}
	return append(pattern(n-4, 3), []byte("@b.c")...)
}

func shapeValues(t string, thorough bool) []string {
	var out []string
	hexs := func(bs ...[]byte) {
		for _, b := range bs {
			out = append(out, ev.Hex(b))
		}
	}
	switch t {
	case "int32", "int64":
		return intBoundaries(t)
	case "str":
		hexs([]byte(""), []byte("a"), []byte("ab"), []byte("abc"), []byte("h\xc3\xa9llo w"), []byte("8 bytes!"), pattern(300, 1))
	case "bytes":
		hexs([]byte{}, []byte{0}, []byte{0xff}, []byte{0, 0xff}, []byte{0, 1, 0xff}, []byte{'a', 0, 'b', 0xff, 0, 0, 'c'},
			[]byte{0xff, 0xff, 0xff, 0xff, 0xff, 0xff, 0xff, 0xff}, append(pattern(298, 2), 0, 0xff))
	case "email":
		for n := 1; n <= 12; n++ {
			hexs(emailOfLen(n))
		}
		hexs([]byte("vassily.poupkine@bigco.has.long.address.net"))
	}
	return out
}

// ---------------------------------------------------------------------------------------------

func phaseShapes(r *ev.Run) {
	type job struct{ cfg traceCfg }
	var jobs []job
	inputs := 0
	for _, t := range typeNames {
		vals := shapeValues(t, r.Thorough())
		inputs += len(vals)
		for i, v := range vals {
			w := vals[(i+1)%len(vals)]
			for c := 0; c < 2; c++ {
				for _, consistent := range []bool{true, false} {
					entries := []string{"pa", "dt"}
					if consistent {
						entries = append(entries, "svc")
					}
					if isInt(t) {
						entries = append(entries, "pgbin")
					}
					for _, e := range entries {
						jobs = append(jobs, job{traceCfg{Phase: "seq", Entry: e, Consistent: consistent, Type: t, Vals: []string{v, w},
							Calls: []call{{c, 0}, {c, 0}, {1 - c, 0}, {c, 1}}, Saturate: -1, Inject: -1}})
					}
				}
			}
		}
	}
	r.States(inputs)
	r.Set("shape_values", inputs)
	for i := 0; i < len(jobs); i += len(jobs)/3 + 1 {
		r.Sample(jobs[i].cfg)
	}
	done := par.Do(len(jobs), r.Expired, func(i int) { lockThread(); runAllStores(r, jobs[i].cfg) })
	if done < len(jobs) {
		r.Capped(fmt.Sprintf("shapes: %d of %d configurations done", done, len(jobs)))
	}
}

// oorCfg is the replay payload of the out-of-range phase.
type oorCfg struct {
	Phase      string `json:"phase"` // "oor"
	Store      string `json:"store"`
	Via        string `json:"via"` // text | pgbin
	Consistent bool   `json:"consistent"`
	Text       string `json:"text"`
}

var oorTexts = []string{"2147483648", "-2147483649", "4294967296", "4294967297", "-4294967295", "9223372036854775807", "-9223372036854775808"}

func runOOR(c oorCfg) (fs []finding, obs string, steps int) {
	x := newExec(c.Store, "int32", "oor")
	defer x.close()
	add := func(key, msg string) { fs = append(fs, finding{key, msg}) }
	// make sure the truncated images are not accidentally special: tokenize 0 and 1 first
	for _, s := range []string{"0", "1"} {
		x.tokenize("dt", c.Consistent, 0, parseVal("int32", s))
	}
	in := []byte(c.Text)
	var out []byte
	var res result
	if c.Via == "pgbin" {
		v, _ := strconv.ParseInt(c.Text, 10, 64)
		r := x.tokenize("pgbin", c.Consistent, 0, tval{T: "int32", I: v})
		res = r
		if r.Err == nil && r.Panic == "" && r.Note == "" {
			out = r.Val.text()
		}
	} else {
		out, res = x.tokenizeText(0, in, "int32", c.Consistent)
	}
	steps++
	switch {
	case res.Panic != "":
		obs = "tokenize:panic"
		add("C10/DataTokenizer.Tokenize/int32-column-out-of-range-integer/panic:"+panicSite(res.Stack), res.Panic)
	case res.Err != nil || res.Note != "":
		obs = "tokenize:rejected"
	case string(out) == c.Text:
		obs = "tokenize:unchanged"
	default:
		// a token was handed out: it must lead back to exactly the integer that was given
		back, r2 := x.detokenizeText(0, out, "int32")
		steps++
		if r2.Err != nil || r2.Panic != "" || string(back) != c.Text {
			obs = "tokenize:altered"
			add("C10/DataTokenizer.Tokenize/int32-column-out-of-range-integer/silently-truncated",
				fmt.Sprintf("integer %s for an int32 column was tokenized to %s, which detokenizes to %q (err %v): the stored original is not the integer the application sent (via %s)", c.Text, out, back, r2.Err, c.Via))
		} else {
			obs = "tokenize:tokenized-reversibly"
		}
	}
	// the same text arriving from the database in a detokenized column is an unknown token
	back, r3 := x.detokenizeText(0, in, "int32")
	steps++
	switch {
	case r3.Panic != "":
		obs += ",detokenize:panic"
		add("C10/DataTokenizer.Detokenize/int32-column-out-of-range-integer/panic:"+panicSite(r3.Stack), r3.Panic)
	case r3.Err != nil:
		obs += ",detokenize:rejected"
	case string(back) == c.Text:
		obs += ",detokenize:unchanged"
	default:
		obs += ",detokenize:altered"
		add("C10/DataTokenizer.Detokenize/int32-column-out-of-range-integer/silently-truncated",
			fmt.Sprintf("integer %s read from an int32 token column came back as %q: neither an error nor the value itself", c.Text, back))
	}
	return
}

func phaseOutOfRange(r *ev.Run) {
	r.States(len(oorTexts))
	for _, st := range storeKinds {
		for _, consistent := range []bool{true, false} {
			for _, txt := range oorTexts {
				for _, via := range []string{"text", "pgbin"} {
					if via == "pgbin" && st != "memory" {
						continue
					}
					c := oorCfg{"oor", st, via, consistent, txt}
					fs, obs, steps := runOOR(c)
					r.Eval(1)
					r.Traces(1)
					r.Transitions(steps)
					r.Distinct("oor|" + st + "|" + via + "|" + fmt.Sprint(consistent) + "|" + obs)
					r.Class("oor:"+obs, 1)
					report(r, fs, c)
				}
			}
		}
	}
}

// ---------------------------------------------------------------------------------------------

type pair struct{ t, v, w string }

func menuPairs(thorough bool) []pair {
	h := func(s string) string { return ev.Hex([]byte(s)) }
	p := []pair{
		{"int32", "0", "2147483647"},
		{"int64", "0", "9223372036854775807"},
		{"str", h("a"), h("b")},
		{"str", h("abc"), h("abd")},
		{"bytes", ev.Hex([]byte{0}), ev.Hex([]byte{0xff})},
		{"email", h("a@b.cd"), h("x@y.zw")},
	}
	if thorough {
		p = append(p,
			pair{"int32", "-2147483648", "-1"},
			pair{"int64", "-9223372036854775808", "-1"},
			pair{"str", h("8 bytes!"), h("8 bytes?")},
			pair{"bytes", ev.Hex([]byte{0, 1, 0xff}), ev.Hex([]byte{0xff, 1, 0})},
			pair{"email", h("abcd@efg.hij"), h("klmn@opq.rst")},
		)
	}
	return p
}

// callSeqs: every sequence of minLen..maxLen calls over {(alpha,v),(alpha,w),(bravo,v),(bravo,w)}
// that starts with (alpha,v) (the other starts are renamings of these).
func callSeqs(maxLen, minLen int) [][]call {
	alpha := []call{{0, 0}, {0, 1}, {1, 0}, {1, 1}}
	var out [][]call
	var rec func(cur []call)
	rec = func(cur []call) {
		if len(cur) >= minLen {
			out = append(out, append([]call{}, cur...))
		}
		if len(cur) == maxLen {
			return
		}
		for _, a := range alpha {
			rec(append(cur, a))
		}
	}
	rec([]call{{0, 0}})
	return out
}

func phaseMenus(r *ev.Run) {
	type job struct {
		base   traceCfg
		maxDev int
	}
	var jobs []job
	// quick: sequences of 2-3 calls, Pseudoanonymizer with <= 2 deviations, the other entry
	// points with <= 1. thorough: additionally 3 deviations on the Pseudoanonymizer, 2 on the
	// others, and sequences of 4 calls with <= 1 deviation.
	type plan struct {
		seqs  [][]call
		devPA int
		devOt int
	}
	plans := []plan{{callSeqs(3, 2), 2, 1}}
	maxDev := 2
	if r.Thorough() {
		plans = []plan{{callSeqs(3, 2), 3, 2}, {callSeqs(4, 4), 1, 1}}
		maxDev = 3
	}
	nseq := 0
	for _, pl := range plans {
		nseq += len(pl.seqs)
		for _, p := range menuPairs(r.Thorough()) {
			for _, seq := range pl.seqs {
				for _, consistent := range []bool{true, false} {
					entries := []string{"pa", "dt"}
					if consistent {
						entries = append(entries, "svc")
					}
					for _, e := range entries {
						base := traceCfg{Phase: "seq", Entry: e, Consistent: consistent, Type: p.t, Vals: []string{p.v, p.w}, Calls: seq, Saturate: -1, Inject: -1}
						dv := pl.devOt
						if e == "pa" {
							dv = pl.devPA
						}
						jobs = append(jobs, job{base, dv})
						if e != "pa" && !r.Thorough() {
							continue
						}
						for i := 1; i < len(seq); i++ {
							b := base
							b.Saturate = i
							jobs = append(jobs, job{b, 0})
						}
						if consistent {
							for i := 0; i < len(seq); i++ {
								b := base
								b.Inject = i
								jobs = append(jobs, job{b, 1})
							}
						}
					}
				}
			}
		}
	}
	r.Set("menu_pairs", len(menuPairs(r.Thorough())))
	r.Set("menu_call_sequences", nseq)
	r.Set("menu_max_deviations", maxDev)
	var menus, capped sync.Map
	done := par.Do(len(jobs), r.Expired, func(i int) {
		lockThread()
		j := jobs[i]
		n := 0
		exploreMenusAll(r, j.base, j.maxDev, func() { n++ })
		menus.Store(i, n)
		if r.Expired() {
			capped.Store(i, true)
		}
	})
	total := 0
	menus.Range(func(_, v interface{}) bool { total += v.(int); return true })
	r.Set("menus_executed_per_store", total)
	if done < len(jobs) {
		r.Capped(fmt.Sprintf("menus: %d of %d (pair, sequence, mode, entry) jobs done", done, len(jobs)))
	}
	r.Sample(jobs[len(jobs)/2].base)
}

// exploreMenusAll is exploreMenus with every menu executed on all store stacks (the memory run
// supplies the choice points).
func exploreMenusAll(r *ev.Run, base traceCfg, maxDev int, count func()) {
	var rec func(cfg traceCfg)
	rec = func(cfg traceCfg) {
		if r.Expired() {
			return
		}
		o := runAllStores(r, cfg)
		if o.Infeasible {
			return
		}
		count()
		if len(cfg.Menu) >= maxDev {
			return
		}
		last := -1
		if n := len(cfg.Menu); n > 0 {
			last = cfg.Menu[n-1].Attempt
		}
		for _, p := range o.Points {
			if p.Attempt <= last {
				continue
			}
			for _, ch := range p.Avail {
				next := cfg
				next.Menu = append(append([]dev{}, cfg.Menu...), dev{p.Attempt, ch})
				rec(next)
			}
		}
	}
	rec(base)
}

// ---------------------------------------------------------------------------------------------

func phaseMaintenance(r *ev.Run) {
	h := func(s string) string { return ev.Hex([]byte(s)) }
	type conf struct {
		typ   string
		vals  []string
		entry string
		g0    bool
	}
	confs := []conf{{"str", []string{h("abc"), h("hello")}, "pa", false}}
	depth := 4
	if r.Thorough() {
		depth = 5
		confs = append(confs,
			conf{"str", []string{h("abc"), h("hello")}, "svc", true},
			conf{"str", []string{h("a"), h("hello")}, "dt", false},
			conf{"email", []string{h("ab@cd.ef"), h("abcd@efg.hij")}, "pa", false},
			conf{"bytes", []string{ev.Hex([]byte{0, 0xff}), ev.Hex([]byte{0xff, 0, 1, 2})}, "pa", true},
			conf{"int64", []string{"0", "-9223372036854775808"}, "pa", false},
			conf{"int32", []string{"2147483647", "-1"}, "svc", false},
		)
	}
	r.Set("maintenance_depth", depth)
	r.Set("maintenance_ops", maintOps)
	for _, cf := range confs {
		base := maintCfg{Phase: "maint", Entry: cf.entry, Type: cf.typ, Vals: cf.vals, Granularity0: cf.g0}
		ops := maintOps
		probe := base
		probe.Store = "memory"
		sel := true
		for _, st := range storeKinds {
			probe.Store = st
			sel = sel && selectiveOK(probe)
		}
		if !sel {
			// integers: the records of v and w have the same stored length, acra-tokens cannot tell them apart
			ops = nil
			for _, o := range maintOps {
				if o != "disv" {
					ops = append(ops, o)
				}
			}
		}
		frontier := [][]string{{}}
		seen := map[string]bool{"": true}
		for d := 1; d <= depth && len(frontier) > 0; d++ {
			var cands [][]string
			for _, hist := range frontier {
				for _, o := range ops {
					cands = append(cands, append(append([]string{}, hist...), o))
				}
			}
			states := make([]string, len(cands))
			done := par.Do(len(cands), r.Expired, func(i int) {
				lockThread()
				var first maintOut
				for k, st := range storeKinds {
					c := base
					c.Store, c.Ops = st, cands[i]
					o := runMaint(c)
					r.Eval(1)
					r.Traces(1)
					r.Transitions(o.Steps)
					r.Distinct(strings.Join([]string{"maint", c.Type, st, c.Entry, cands[i][len(cands[i])-1], o.Outcome}, "|"))
					cl := "held"
					if len(o.Findings) > 0 {
						cl = "violated"
					}
					r.Class("maint:"+c.Type+":"+cl, 1)
					report(r, o.Findings, c)
					if k == 0 {
						first = o
						continue
					}
					if a, b := strings.Join(first.Obs, ";")+"#"+first.State, strings.Join(o.Obs, ";")+"#"+o.State; a != b {
						r.Violation(fmt.Sprintf("C10/maintenance/%s/store-divergence/%s-vs-memory", c.Type, st),
							fmt.Sprintf("store stacks disagree after %s: memory: %s || %s: %s", strings.Join(cands[i], ","), a, st, b), c)
					}
				}
				states[i] = first.State
			})
			if done < len(cands) {
				r.Capped(fmt.Sprintf("maintenance %s/%s: depth %d incomplete (%d of %d histories); depth %d complete", cf.typ, cf.entry, d, done, len(cands), d-1))
				break
			}
			var next [][]string
			for i, s := range states {
				if !seen[s] {
					seen[s] = true
					noteState(r, "maint|"+cf.typ+"|"+s)
					next = append(next, cands[i])
				}
			}
			frontier = next
		}
		r.Set("maintenance_states_"+cf.typ+"_"+cf.entry, len(seen))
	}
	r.Sample(maintCfg{Phase: "maint", Store: "boltdb+enc", Entry: "pa", Type: "str", Vals: confs[0].vals, Ops: []string{"tv", "disv", "tv", "en"}})
	if r.Thorough() {
		for _, st := range storeKinds {
			fs, steps := bulkMaintenance(st, 300)
			r.Eval(1)
			r.Traces(1)
			r.Transitions(steps)
			report(r, fs, maintCfg{Phase: "bulk", Store: st})
		}
	}
}

// ---------------------------------------------------------------------------------------------

func replay(r *ev.Run) {
	var head struct {
		Phase string `json:"phase"`
	}
	r.LoadReplay(&head)
	switch head.Phase {
	case "seq":
		var c traceCfg
		r.LoadReplay(&c)
		o := runTrace(c)
		if o.Infeasible {
			fmt.Println("note: the draw menu names a choice that is not available at that draw; those draws were fresh")
		}
		fmt.Printf("replay seq %s/%s/%s menu=%s\n  obs: %s\n  store: %s\n", c.Store, c.Entry, c.Type, c.menuString(), strings.Join(o.Obs, "\n       "), o.State)
		account(r, c, o)
	case "oor":
		var c oorCfg
		r.LoadReplay(&c)
		fs, obs, _ := runOOR(c)
		fmt.Printf("replay oor %s %s: %s\n", c.Store, c.Text, obs)
		r.Eval(1)
		report(r, fs, c)
	case "maint", "cli":
		var c maintCfg
		r.LoadReplay(&c)
		o := runMaint(c)
		fmt.Printf("replay maint %s/%s %s\n  obs: %s\n  state: %s\n", c.Store, c.Type, strings.Join(c.Ops, ","), strings.Join(o.Obs, "\n       "), o.State)
		r.Eval(1)
		report(r, o.Findings, c)
	case "bulk":
		var c maintCfg
		r.LoadReplay(&c)
		fs, _ := bulkMaintenance(c.Store, 300)
		r.Eval(1)
		report(r, fs, c)
	default:
		ev.Fatalf("unknown replay phase %q", head.Phase)
	}
}

func main() {
	if os.Getenv("C10_CLI_WORKER") != "" {
		cliWorkerMain() // executes histories with acra-tokens commands for the phase in cli.go
		return
	}
	r := ev.New("C10", "model_checking")
	if p := os.Getenv("C10_CPUPROFILE"); p != "" {
		f, _ := os.Create(p)
		pprof.StartCPUProfile(f)
		defer pprof.StopCPUProfile()
	}
	setupWorld()
	if r.Replay != "" {
		var probe struct {
			Phase string `json:"phase"`
		}
		r.LoadReplay(&probe)
		if probe.Phase == "concurrent" {
			phaseConcurrent(r)
			teardownWorld()
			r.Finish()
		}
		replay(r)
		teardownWorld()
		r.Finish()
	}
	// C10_PHASES (debugging aid, e.g. "cli"): run only the named phases; such a run is not the check
	only := os.Getenv("C10_PHASES")
	for _, ph := range []struct {
		name string
		run  func(*ev.Run)
	}{{"shapes", phaseShapes}, {"oor", phaseOutOfRange}, {"menus", phaseMenus}, {"maintenance", phaseMaintenance}, {"cli", phaseCLI}, {"concurrent", phaseConcurrent}} {
		if only == "" || strings.Contains(","+only+",", ","+ph.name+",") {
			ph.run(r)
		}
	}
	if only != "" {
		r.Capped("only the phases " + only + " were run (C10_PHASES)")
	}
	teardownWorld()
	pprof.StopCPUProfile()

	r.Rule("sequential: state = canonical store content (consistent records value->token and token records token->value per client context, tokens renamed in order) reached by one (type, values, call sequence, mode, entry point, draw menu) on one store stack; transition = one TokenStorage call or entry-point call; draw menus are enumerated completely up to 2 deviations from 'fresh' per execution (plus 'every draw of one call collides' and 'another instance tokenizes the same value after our lookup missed'); maintenance: BFS over operation histories up to depth 4, a history is extended only if it reached a store content (model state + orphan records) not seen before; distinct_nontrivial counts distinct (type, store stack, entry, mode, menu class / last operation, outcome) tuples; acra-tokens histories: the operations are {tokenize v/w, random tokenize v, detokenize latest token of v/w, age} + 6 commands x every set of at most 2 date options (thorough: every set at the quick tier's depths, then one more operation with at most 2) x 3 limit positions per option (before every record time, between the aged and the fresh record times, after every record time); breadth-first from each root history to the depth recorded in cli_roots, a history is extended only if it reached a state (model state + orphan records + creation/access era and disabled flag of every stored record) not seen before from that root; every history runs on BoltDB with and without the encrypting wrapper in a worker process and ends with the owner detokenizing the latest tokens of v and w and tokenizing v and w consistently again; transition = one TokenStorage call, entry-point call or acra-tokens command; the last operation enters distinct_nontrivial as command[option names] without the limit positions")
	r.Set("store_stacks", storeKinds)
	r.Set("entry_points", []string{"Pseudoanonymizer.Anonymize/AnonymizeConsistently/Deanonymize", "TranslatorService.Tokenize/Detokenize", "TokenEncryptor.EncryptWithClientID->DataTokenizer.Tokenize", "TokenProcessor.OnColumn->DataTokenizer.Detokenize", "pgBoundValue(binary).GetData/SetData around DataTokenizer"})
	r.Assume("Themis is replaced by the pure-Go stand-in /verif/shim/gothemis (only used by the encrypting wrapper)",
		"BoltDB is opened like Acra does (bolt.Open(path, 0600, nil)) but with NoSync (durability is not part of the property); the file is emptied between executions by deleting the root bucket",
		"token draws are identified as the crypto/rand reads made during a tokenize call outside TokenStorage calls; forced draws encode the wanted token for math/rand.Rand.Intn/Int31n as used by pseudonymization/random.go",
		"'limited to the records of v' is expressed through the stored-data length handed to the VisitMetadata callback (acra-tokens itself limits by timestamps, which have one-second resolution)",
		"the Redis store is not exercised (no server available); concurrency is the subject of a separate phase",
		"acra-tokens commands: the subcommands are driven through RegisterFlags/Parse/Execute in process (main()'s os.Args dispatch is not), with --token_db on a copy of the execution's BoltDB file and the execution continuing on a copy of the file the command left (the subcommands never close the database they open); tokens.DefaultConfigPath is empty (no configuration file), logrus' ExitFunc panics so that a log.Fatal of a subcommand is a failed command; BoltDB files are on /dev/shm when it exists and VERIF_SCRATCH is not set (the commands commit synchronously)",
		"record times come from the wall clock of the stores (time.Now in TokenStorage.Save/Get); 'age' rewrites creation and access time of every stored record to 2010-01-01 with Acra's EmbedMetadata/ExtractMetadata (the environment move 'time passes'); the limit positions 2000 / 2015-06-01 / 2100-01-01 assume the wall clock of the machine is between 2015-06-01 and 2099-12-30 (checked on every record time read); no limit is closer than years to a record time, so the treatment of a limit equal to a record time is not examined",
		"which records a command must change is computed from the option help texts and the record metadata read with Stat right before the command (access-time updates by Get are Acra's, not modelled); the harness's own inspection reads are made with the access-time granularity raised through SetAccessTimeGranularity so that they do not move access times; the counters printed by status are part of the observation vector (compared between the two stacks), no oracle is put on them")
	r.Finish()
}
