package main

import (
	"fmt"
	"strings"

	acracensor "github.com/cossacklabs/acra/acra-censor"
	"github.com/cossacklabs/acra/sqlparser"
	"github.com/cossacklabs/acra/sqlparser/dialect"
	mysqldialect "github.com/cossacklabs/acra/sqlparser/dialect/mysql"
	pgdialect "github.com/cossacklabs/acra/sqlparser/dialect/postgresql"

	"verif/ev"
)

// SQL: tokenizer/parser of both dialects (MySQL also in ANSI_QUOTES mode), HandleRawSQLQuery
// (normalise + redact) and AcraCensor.HandleQuery with a small configuration.
//
// The dialect is a process-wide singleton (sqlparser.SetDefaultDialect); a worker is
// single-threaded, so every decoder sets the dialect it is named after before the call.

type sqlFx struct {
	dialects map[string]dialect.Dialect
}

const censorStrictYAML = `
version: 0.85.0
handlers:
  - handler: query_ignore
    queries:
      - select 1
  - handler: deny
    queries:
      - insert into t values (1)
    tables:
      - secret
    patterns:
      - select %%COLUMN%% from t %%WHERE%%
      - "%%INSERT%%"
      - select a from t where a = %%VALUE%%
      - select a from t where a in (%%LIST_OF_VALUES%%)
      - select a from t where a = (%%SUBQUERY%%)
      - "%%UNION%%"
  - handler: allow
    queries:
      - select t from t
    tables:
      - t
    patterns:
      - "%%SELECT%%"
  - handler: denyall
`

const censorLenientYAML = `
version: 0.85.0
ignore_parse_error: true
handlers:
  - handler: deny
    tables:
      - secret
    patterns:
      - "%%UNION%%"
      - select %%COLUMN%% from secret
  - handler: allow
    tables:
      - t
    patterns:
      - "%%SELECT%%"
      - "%%INSERT%%"
  - handler: allowall
`

func stmtClass(st sqlparser.Statement) string {
	switch st.(type) {
	case nil:
		return "nil"
	case *sqlparser.Select:
		return "select"
	case *sqlparser.Union:
		return "union"
	case *sqlparser.Insert:
		return "insert"
	case *sqlparser.ParenSelect:
		return "parenselect"
	case sqlparser.NotParsedStatement:
		return "notparsed"
	case sqlparser.EmptyStatement:
		return "empty"
	}
	return "other"
}

func (e *Env) sqlSpaces(thorough bool) []*Space {
	if e.sql == nil {
		e.sql = &sqlFx{dialects: map[string]dialect.Dialect{
			"mysql":      mysqldialect.NewMySQLDialect(),
			"mysql-ansi": mysqldialect.NewMySQLDialect(mysqldialect.SetANSIMode(true)),
			"postgresql": pgdialect.NewPostgreSQLDialect(),
		}}
	}
	var decs []*Decoder
	for _, dn := range []string{"mysql", "mysql-ansi", "postgresql"} {
		d := e.sql.dialects[dn]
		strict := sqlparser.New(sqlparser.ModeStrict)
		lenient := sqlparser.New(sqlparser.ModeDefault)
		// censors are configured under their dialect (patterns are parsed at load time)
		sqlparser.SetDefaultDialect(d)
		cs, cl := acracensor.NewAcraCensor(), acracensor.NewAcraCensor()
		if err := cs.LoadConfiguration([]byte(censorStrictYAML)); err != nil {
			ev.Fatalf("censor config (%s): %v", dn, err)
		}
		if err := cl.LoadConfiguration([]byte(censorLenientYAML)); err != nil {
			ev.Fatalf("censor config (%s): %v", dn, err)
		}
		decs = append(decs,
			e.dec("sqlparser.Parse["+dn+"]", func(in []byte) (string, error) {
				sqlparser.SetDefaultDialect(d)
				st, err := strict.Parse(string(in))
				if err != nil {
					return "", err
				}
				_ = sqlparser.String(st)
				return stmtClass(st), nil
			}),
			e.dec("sqlparser.HandleRawSQLQuery["+dn+"]", func(in []byte) (string, error) {
				sqlparser.SetDefaultDialect(d)
				_, _, st, err := lenient.HandleRawSQLQuery(string(in))
				if err != nil {
					return "", err
				}
				return stmtClass(st), nil
			}),
			e.dec("acracensor.HandleQuery["+dn+",strict]", func(in []byte) (string, error) {
				sqlparser.SetDefaultDialect(d)
				if err := cs.HandleQuery(string(in)); err != nil {
					return "denied", err
				}
				return "allowed", nil
			}),
			e.dec("acracensor.HandleQuery["+dn+",ignore_parse_error]", func(in []byte) (string, error) {
				sqlparser.SetDefaultDialect(d)
				if err := cl.HandleQuery(string(in)); err != nil {
					return "denied", err
				}
				return "allowed", nil
			}),
		)
	}
	sqlparser.SetDefaultDialect(e.sql.dialects["mysql"])
	a := alphabet{Name: "sql", Tok: toks(`'`, `"`, "`", `\`, "(", ")", "/*", "/*!", "*/", "--", "#", "$", "$1", "E'", "0x", "x'", ":", "?", ";", "\x00", "\x80",
		"select ", "from ", "where ", "insert ", "values ", "union ", "t", "1", ",", "=", " ")}
	if !thorough {
		// quick: all twelve decoders up to L=3; at L=4 the three lenient-firewall entry points only
		// (HandleQuery runs HandleRawSQLQuery, which runs the parser, the printer and the normalizer)
		out := e.sigma("sql", "sql", a, 3, decs, nil, nil)
		var lenientCensors []*Decoder
		for _, d := range decs {
			if strings.HasPrefix(d.Name, "acracensor.") && strings.HasSuffix(d.Name, ",ignore_parse_error]") {
				lenientCensors = append(lenientCensors, d)
			}
		}
		top := e.sigma("sql", "sql", a, 4, lenientCensors, nil, nil)
		e.boundInfo["sql"] = fmt.Sprintf("L<=3 over %d tokens for all decoders, L=4 for the ignore_parse_error firewall entry points", len(a.Tok))
		out = append(out, e.censorPatternSpaces(false)...)
		return append(out, top[4])
	}
	// thorough: all twelve decoders up to L=4; at L=5 the six AcraCensor entry points only
	// (HandleQuery runs HandleRawSQLQuery, which runs the parser twice, the printer and the
	// normalizer: the other six decoders are reached through them)
	out := e.sigma("sql", "sql", a, 4, decs, nil, nil)
	var censors []*Decoder
	for _, d := range decs {
		if strings.HasPrefix(d.Name, "acracensor.") {
			censors = append(censors, d)
		}
	}
	top := e.sigma("sql", "sql", a, 5, censors, nil, nil)
	out = append(out, e.censorPatternSpaces(true)...)
	return append(out, top[5])
}
