package kslab

import (
	"fmt"
	"strings"

	"github.com/cossacklabs/acra/keystore"
)

// Kind is one of the six key kinds of the key store properties.
type Kind int

const (
	StoragePair Kind = iota // client storage key pair (AcraStruct)
	StorageSym              // client storage symmetric key (AcraBlock)
	SearchHMAC              // client searchable-encryption HMAC key
	PoisonPair              // poison record key pair
	PoisonSym               // poison record symmetric key
	AuditLog                // audit log integrity key
	NumKinds
)

var kindNames = [...]string{"storage-pair", "storage-sym", "search-hmac", "poison-pair", "poison-sym", "audit-log"}

// AllKinds lists every kind in a fixed order.
var AllKinds = []Kind{StoragePair, StorageSym, SearchHMAC, PoisonPair, PoisonSym, AuditLog}

func (k Kind) String() string { return kindNames[k] }

// MarshalText / UnmarshalText make Kind readable in replay files.
func (k Kind) MarshalText() ([]byte, error) { return []byte(k.String()), nil }
func (k *Kind) UnmarshalText(b []byte) error {
	for i, n := range kindNames {
		if n == string(b) {
			*k = Kind(i)
			return nil
		}
	}
	return fmt.Errorf("unknown key kind %q", b)
}

// IsPair: the key is an EC key pair (otherwise a 32-byte symmetric key).
func (k Kind) IsPair() bool { return k == StoragePair || k == PoisonPair }

// PerClient: the kind exists once per client id (otherwise once per key store).
func (k Kind) PerClient() bool { return k == StoragePair || k == StorageSym || k == SearchHMAC }

// Class is the code-path class used in finding keys: pair | sym | hmac | log.
func (k Kind) Class() string {
	switch k {
	case StoragePair, PoisonPair:
		return "pair"
	case StorageSym, PoisonSym:
		return "sym"
	case SearchHMAC:
		return "hmac"
	}
	return "log"
}

// Clients used by the key store checks.
const (
	Alpha = "alpha_1"
	Bravo = "bravo_2"
)

// Slot is one independently rotated key: (kind, client); Client is "" for per-store kinds.
type Slot struct {
	Kind   Kind   `json:"kind"`
	Client string `json:"client,omitempty"`
}

func (s Slot) String() string {
	if s.Client == "" {
		return s.Kind.String()
	}
	return s.Kind.String() + "@" + s.Client
}

// SlotOf normalises (kind, client): per-store kinds ignore the client.
func SlotOf(k Kind, client string) Slot {
	if !k.PerClient() {
		client = ""
	}
	return Slot{k, client}
}

// Slots builds the slot list kinds x clients (per-store kinds once).
func Slots(kinds []Kind, clients []string) []Slot {
	var out []Slot
	seen := map[Slot]bool{}
	for _, k := range kinds {
		for _, c := range clients {
			s := SlotOf(k, c)
			if !seen[s] {
				seen[s] = true
				out = append(out, s)
			}
		}
	}
	return out
}

// Operation codes of the key store alphabet.
const (
	OpGenerate       = "gen"     // generate or rotate the key of a slot
	OpReadCurrent    = "cur"     // read the current key (pairs: private and public part)
	OpReadAll        = "all"     // read all keys offered for decryption, newest first
	OpListKeys       = "list"    // key listing (current keys, index 1)
	OpListRotated    = "listrot" // listing of rotated keys (index 2..)
	OpDestroyCurrent = "dcur"    // destroy the current key of a slot
	OpDestroyRotated = "drot"    // destroy the rotated key with a listing index
	OpResetCache     = "reset"   // drop the handle's key cache
	OpReopen         = "reopen"  // close the handle, open a fresh one on the same storage
)

// Op is one operation of a history (JSON form is the replay format).
type Op struct {
	Code   string `json:"op"`
	Kind   Kind   `json:"kind"`
	Client string `json:"client,omitempty"`
	Index  int    `json:"index,omitempty"`
}

// Slot returns the slot the operation addresses (meaningless for list/reset/reopen).
func (o Op) Slot() Slot { return SlotOf(o.Kind, o.Client) }

// Global reports whether the operation addresses the whole store rather than a slot.
func (o Op) Global() bool {
	switch o.Code {
	case OpListKeys, OpListRotated, OpResetCache, OpReopen:
		return true
	}
	return false
}

// Mutating reports whether the operation is meant to change stored keys.
func (o Op) Mutating() bool {
	return o.Code == OpGenerate || o.Code == OpDestroyCurrent || o.Code == OpDestroyRotated
}

func (o Op) String() string {
	if o.Global() {
		return o.Code
	}
	if o.Code == OpDestroyRotated {
		return fmt.Sprintf("%s(%s,%d)", o.Code, o.Slot(), o.Index)
	}
	return fmt.Sprintf("%s(%s)", o.Code, o.Slot())
}

// HistoryString renders a history compactly.
func HistoryString(h []Op) string {
	parts := make([]string, len(h))
	for i, o := range h {
		parts[i] = o.String()
	}
	return strings.Join(parts, " ")
}

// Config selects one key store variant.
type Config struct {
	Format  string `json:"format"`  // "v1" | "v2"
	Storage string `json:"storage"` // "mem" (v1: MemFS, v2: real in-memory back end behind RecBackend) | "dir" (real directory)
	// Cache is the v1 key cache size in Acra's convention: keystore.WithoutCache (-1),
	// keystore.InfiniteCacheSize (0), or n > 0 entries. Ignored by v2 (it has no cache).
	Cache int `json:"cache"`
	// ForeignWrites routes the mutating operations (gen, dcur, drot) through a second,
	// cache-less handle on the same storage (another process changes the keys while a
	// long-running handle keeps reading).
	ForeignWrites bool `json:"foreign_writes,omitempty"`
	// DirSpelling is how the operator spelled the v1 key directory: "" canonical, "slash" with a
	// trailing path separator (as in --keys_dir=/var/lib/acra/keys/). Same directory either way.
	DirSpelling string `json:"dir_spelling,omitempty"`
	// Link is a capability of the v1 storage: "" the storage supports hard links (Storage.Link
	// works, MemFS and the real FileStorage on a POSIX file system), otherwise Storage.Link is
	// refused on every call and the key store has to take its Storage.Copy path; everything else
	// is the unchanged storage of the configuration (MemFS or the real filesystem.FileStorage).
	// The value names the way the refusal is reported (see LinkRefusals): "eperm" *os.LinkError
	// EPERM (FAT/exFAT, fs.protected_hardlinks), "enotsup" *os.LinkError EOPNOTSUPP (network and
	// FUSE mounts), "exdev" *os.LinkError EXDEV (history directory on another mount), "plain" an
	// error without errno (what Acra's own Redis storage returns). Ignored by v2.
	Link string `json:"link,omitempty"`
}

// LinkRefusals are the values of Config.Link other than "" (hard links supported).
var LinkRefusals = []string{"eperm", "enotsup", "exdev", "plain"}

// LinkRefused reports whether the v1 storage of the configuration refuses hard links.
func (c Config) LinkRefused() bool { return c.Format == "v1" && c.Link != "" }

// spell returns the key directory as the operator wrote it.
func (c Config) spell(dir string) string {
	if c.DirSpelling == "slash" {
		return dir + "/"
	}
	return dir
}

// Cached reports whether the main handle has a key cache.
func (c Config) Cached() bool { return c.Format == "v1" && c.Cache != keystore.WithoutCache }

// Name is a short stable identifier, e.g. "v1-mem-cache1", "v2-dir".
func (c Config) Name() string {
	n := c.Format + "-" + c.Storage
	if c.Format == "v1" {
		switch c.Cache {
		case keystore.WithoutCache:
			n += "-nocache"
		case keystore.InfiniteCacheSize:
			n += "-cacheinf"
		default:
			n += fmt.Sprintf("-cache%d", c.Cache)
		}
	}
	if c.ForeignWrites {
		n += "-foreign"
	}
	if c.DirSpelling != "" {
		n += "-dir" + c.DirSpelling
	}
	if c.LinkRefused() {
		n += "-nolink-" + c.Link
	}
	return n
}

// FormatClass is the finding-key prefix of the configuration: "v1", "v2" (storage and
// cache do not matter for defects of the format itself).
func (c Config) FormatClass() string { return c.Format }

// StandardConfigs are the variants named by the key store properties.
var StandardConfigs = []Config{
	{Format: "v1", Storage: "mem", Cache: keystore.WithoutCache},
	{Format: "v1", Storage: "mem", Cache: 1},
	{Format: "v1", Storage: "mem", Cache: keystore.InfiniteCacheSize},
	{Format: "v1", Storage: "dir", Cache: keystore.WithoutCache},
	{Format: "v2", Storage: "mem"},
	{Format: "v2", Storage: "dir"},
}
