package main

// File layer of "acra-keys export" / "acra-keys import": the bundle and its access key travel in
// two files written by keys.WriteExportedData and read back whole by the import command
// (os.ReadFile). Every sequence of up to 3 exports to the SAME pair of paths over a menu of
// bundle sizes (an operator re-exporting a different selection to the paths used before), from
// every initial state of the paths (absent / an older longer file / an older shorter file), is
// executed on the real function; the oracle is what an import needs: after an export that
// reported success both files hold exactly the bytes of the last export (no tail of an earlier,
// longer bundle) and are private (0600).

import (
	"bytes"
	"fmt"
	"os"
	"path/filepath"

	"github.com/cossacklabs/acra/cmd/acra-keys/keys"
	"github.com/cossacklabs/acra/keystore"

	"verif/ev"
	"verif/fx"
)

type fileParams struct{ data, key string }

func (p fileParams) ExportKeysFile() string         { return p.key }
func (p fileParams) ExportDataFile() string         { return p.data }
func (p fileParams) ExportIDs() []keystore.ExportID { return nil }
func (p fileParams) ExportAll() bool                { return false }
func (p fileParams) ExportPrivate() bool            { return false }
func (p fileParams) Export([]keystore.ExportID, keystore.ExportMode) (*keystore.KeysBackup, error) {
	return nil, nil
}

type filesReplay struct {
	Part    string `json:"part"`
	Initial int    `json:"initial_file_size"` // -1: absent
	Sizes   []int  `json:"bundle_sizes"`
}

var fileSizes = []int{0, 1, 246, 1127}

func fill(n int, b byte) []byte { return bytes.Repeat([]byte{b}, n) }

func runFiles(r *ev.Run, dir string, rp filesReplay, idx int) {
	d := filepath.Join(dir, fmt.Sprintf("f%d", idx))
	if err := os.MkdirAll(d, 0o700); err != nil {
		ev.Fatalf("scratch: %v", err)
	}
	defer os.RemoveAll(d)
	p := fileParams{data: filepath.Join(d, "bundle"), key: filepath.Join(d, "secret")}
	if rp.Initial >= 0 {
		for _, f := range []string{p.data, p.key} {
			if err := os.WriteFile(f, fill(rp.Initial, 'o'), 0o600); err != nil {
				ev.Fatalf("scratch: %v", err)
			}
		}
	}
	for i, n := range rp.Sizes {
		data, key := fill(n, byte('A'+i)), fill(n/2+1, byte('a'+i))
		err := keys.WriteExportedData(data, key, p)
		r.Transitions(1)
		r.Eval(1)
		if err != nil {
			r.Violation("C18/acra-keys-files/export/write-failed", fmt.Sprintf("WriteExportedData failed on private scratch files: %v", err), rp)
			return
		}
		for _, chk := range []struct {
			path string
			want []byte
			name string
		}{{p.data, data, "bundle"}, {p.key, key, "secret"}} {
			got, rerr := os.ReadFile(chk.path)
			if rerr != nil {
				ev.Fatalf("read back: %v", rerr)
			}
			if !bytes.Equal(got, chk.want) {
				class := "differs"
				if len(got) > len(chk.want) && bytes.Equal(got[:len(chk.want)], chk.want) {
					class = "tail-of-an-earlier-file-kept"
				}
				r.Violation("C18/acra-keys-files/export/"+chk.name+"-file/"+class,
					fmt.Sprintf("after export #%d (%d bytes) to paths used before, the %s file holds %d bytes (%s): an import reads the whole file", i+1, len(chk.want), chk.name, len(got), class), rp)
			}
			if fi, serr := os.Stat(chk.path); serr == nil && fi.Mode().Perm() != 0o600 {
				r.Violation("C18/acra-keys-files/export/"+chk.name+"-file/mode", fmt.Sprintf("%s file mode %v", chk.name, fi.Mode().Perm()), rp)
			}
		}
	}
	r.Distinct(fmt.Sprintf("files|init%d|%v", rp.Initial, rp.Sizes))
}

func filesPart(r *ev.Run) {
	dir := fx.Scratch("c18files")
	defer os.RemoveAll(dir)
	if r.Replay != "" {
		var rp filesReplay
		r.LoadReplay(&rp)
		runFiles(r, dir, rp, 0)
		return
	}
	maxLen := 2
	if r.Thorough() {
		maxLen = 3
	}
	n := 0
	var rec func(cur []int)
	for _, init := range []int{-1, 10, 2000} {
		rec = func(cur []int) {
			if len(cur) > 0 {
				runFiles(r, dir, filesReplay{Part: "acra-keys-files", Initial: init, Sizes: append([]int{}, cur...)}, n)
				n++
			}
			if len(cur) == maxLen {
				return
			}
			for _, s := range fileSizes {
				rec(append(cur, s))
			}
		}
		rec(nil)
	}
	r.States(n)
	r.Set("acra_keys_files_histories", n)
}
