package kslab

import (
	"bytes"
	"errors"
	"fmt"
	"os"
	"path/filepath"
	"sort"

	"github.com/cossacklabs/themis/gothemis/keys"

	"github.com/cossacklabs/acra/acrastruct"
	apiV2 "github.com/cossacklabs/acra/keystore/v2/keystore/api"
	cryptoV2 "github.com/cossacklabs/acra/keystore/v2/keystore/crypto"
)

// Additions for the crash / I-O-failure check (C08): storage images of a Store, checkpoints of
// a Lab (storage image + key identities + bookkeeping), identity learning that tolerates the
// partial states an interrupted write leaves behind, and access to the v2 low-level objects.
// Nothing here changes the behaviour of the existing kslab API.

// Seam is what MemFS and RecBackend have in common: call log and fault hook.
type Seam interface {
	SetHook(h Hook)
	Record(on bool)
	Log() []Call
	Calls() int
	ResetLog()
	Crashed() bool
}

// Seam returns the instrumented storage seam of the main handle (nil for v1 on a real directory).
func (s *Store) Seam() Seam {
	switch {
	case s.Backend != nil:
		return s.Backend
	case s.Mem != nil:
		return s.Mem
	}
	return nil
}

// FailReleasing is a hook like FailAt(k, Fault{Action: Fail, Err: err}) for a call that
// releases a lock (Unlock / RUnlock): "the call not executed" would leave the real lock held by
// the very goroutine that goes on working with the key store, which no real back end does (the
// in-memory one cannot fail; the directory one closes its poisoned flock). The inner lock is
// released, then the error is reported. Other calls at index k fail as with FailAt.
func (b *RecBackend) FailReleasing(k int, err error) Hook {
	return func(c Call) Fault {
		if c.Index != k {
			return Fault{}
		}
		// the hook runs with the seam's bookkeeping mutex held; lock state has its own mutex
		switch c.Op {
		case "Unlock":
			b.lockMu.Lock()
			held := b.wHeld
			b.wHeld = false
			b.lockMu.Unlock()
			if held {
				b.Inner.Unlock()
			}
		case "RUnlock":
			b.lockMu.Lock()
			held := b.rHeld > 0
			if held {
				b.rHeld--
			}
			b.lockMu.Unlock()
			if held {
				b.Inner.RUnlock()
			}
		}
		return Fault{Action: Fail, Err: err}
	}
}

// StorageImage is the complete content of the storage under a Store.
type StorageImage struct {
	mem *MemSnap
	be  BackendSnap
}

// Paths lists the stored paths (v2) or file paths (v1-mem) of the image, sorted.
func (im *StorageImage) Paths() []string {
	var out []string
	if im.be != nil {
		for p := range im.be {
			out = append(out, p)
		}
	}
	if im.mem != nil {
		for p, n := range im.mem.t.nodes {
			if !n.dir {
				out = append(out, p)
			}
		}
	}
	sort.Strings(out)
	return out
}

// Data returns the bytes stored under path in the image (nil when absent).
func (im *StorageImage) Data(path string) []byte {
	if im.be != nil {
		return im.be[path]
	}
	if im.mem != nil {
		if n, ok := im.mem.t.nodes[cleanPath(path)]; ok && !n.dir {
			return n.data
		}
	}
	return nil
}

// SnapshotStorage copies the storage content (v1-mem, v2-mem, v2-dir). Not logged, not faulted.
func (s *Store) SnapshotStorage() (*StorageImage, error) {
	switch {
	case s.Mem != nil:
		return &StorageImage{mem: s.Mem.Snapshot()}, nil
	case s.Backend != nil:
		var snap BackendSnap
		var err error
		if s.Cfg.Storage == "dir" {
			snap, err = snapshotDir(s.Dir)
		} else {
			snap, err = SnapshotBackend(s.Backend.Inner)
		}
		if err != nil {
			return nil, err
		}
		return &StorageImage{be: snap}, nil
	}
	return nil, errors.New("kslab: storage images are not available for v1 on a real directory")
}

// bookkeeping files of the v2 directory back end that are not key data
func v2Bookkeeping(rel string) bool { return rel == ".lock" || rel == "version" }

func snapshotDir(root string) (BackendSnap, error) {
	snap := BackendSnap{}
	err := filepath.Walk(root, func(p string, fi os.FileInfo, err error) error {
		if err != nil {
			return err
		}
		if fi.IsDir() {
			return nil
		}
		rel, err := filepath.Rel(root, p)
		if err != nil {
			return err
		}
		if v2Bookkeeping(rel) {
			return nil
		}
		d, err := os.ReadFile(p)
		if err != nil {
			return err
		}
		snap[rel] = d
		return nil
	})
	return snap, err
}

func restoreDir(root string, snap BackendSnap) error {
	cur, err := snapshotDir(root)
	if err != nil {
		return err
	}
	for rel := range cur {
		if _, keep := snap[rel]; !keep {
			if err := os.Remove(filepath.Join(root, rel)); err != nil {
				return err
			}
		}
	}
	for rel, d := range snap {
		if old, ok := cur[rel]; ok && bytes.Equal(old, d) {
			continue
		}
		p := filepath.Join(root, rel)
		if err := os.MkdirAll(filepath.Dir(p), 0o700); err != nil {
			return err
		}
		if err := os.WriteFile(p, d, 0o600); err != nil {
			return err
		}
	}
	return nil
}

// RestoreStorage replaces the storage content by the image ("the machine comes back with this
// disk"), revives the seam, releases locks an interrupted operation left held and opens fresh
// handles. Hook and call log of the seam are left alone: remove the hook first.
func (s *Store) RestoreStorage(im *StorageImage) (err error) {
	defer catch(&err)
	switch {
	case s.Mem != nil:
		if im.mem == nil {
			return errors.New("kslab: image does not belong to a v1-mem store")
		}
		s.Mem.Restore(im.mem)
	case s.Backend != nil:
		if im.be == nil {
			return errors.New("kslab: image does not belong to a v2 store")
		}
		s.Backend.Revive() // release what is held on the current inner back end first
		if s.Cfg.Storage == "dir" {
			if err := restoreDir(s.Dir, im.be); err != nil {
				return err
			}
		} else {
			// the side handle is bound to the inner back end object: rebuild it on the new one
			if s.rawV2 != nil {
				s.rawV2.Close()
				s.rawV2 = nil
			}
			s.Side = nil
			s.Backend.RestoreInMemory(im.be)
		}
	default:
		return errors.New("kslab: storage images are not available for v1 on a real directory")
	}
	return s.Reopen()
}

// SideV2 is the low-level v2 key store of the cache-less, uninstrumented side handle.
func (s *Store) SideV2() apiV2.MutableKeyStore { return s.rawV2 }

// MainV2 is the low-level v2 key store of the main (instrumented) handle.
func (s *Store) MainV2() apiV2.MutableKeyStore { return s.mainV2 }

// V2Suite returns a crypto suite with the fixed kslab master keys.
func V2Suite() (*cryptoV2.KeyStoreSuite, error) { return v2Suite() }

// ---------------------------------------------------------------- tracker

// Clone returns an independent copy of the identities learnt so far.
func (t *Tracker) Clone() *Tracker {
	c := newTracker()
	for sl, st := range t.slots {
		n := c.slot(sl)
		n.mats = append([]KeyMat(nil), st.mats...)
		for k, v := range st.secOrd {
			n.secOrd[k] = v
		}
		for k, v := range st.pubOrd {
			n.pubOrd[k] = v
		}
		for k, v := range st.files {
			n.files[k] = v
		}
		for k, v := range st.probes {
			n.probes[k] = v
		}
	}
	return c
}

// PairWorks tells whether public and private are the two halves of one working key pair (a
// value sealed for the public key opens with the private key).
func PairWorks(public, private []byte) bool {
	defer func() { recover() }()
	c, err := acrastruct.CreateAcrastruct(ProbeData, &keys.PublicKey{Value: cp(public)}, nil)
	if err != nil {
		return false
	}
	out, err := acrastruct.DecryptRotatedAcrastruct(c, []*keys.PrivateKey{{Value: cp(private)}}, nil)
	return err == nil && bytes.Equal(out, ProbeData)
}

// LearnLoose assigns ordinals to every value of p not seen before, tolerating what an
// interrupted write can leave: a private half without its public half or the other way round,
// several new keys at once (import). New values get the next ordinals in storage age order
// (oldest first); a new private and a new public value share an ordinal only when they form a
// working pair. It returns the ordinals assigned and notes about values that fit nowhere.
func (t *Tracker) LearnLoose(sl Slot, p Phys) (ords []int, notes []string) {
	st := t.slot(sl)
	type item struct {
		sec, pub []byte
	}
	var items []item
	seenS, seenP := map[string]bool{}, map[string]bool{}
	var freshPub [][]byte
	for i := len(p.Publics) - 1; i >= 0; i-- { // oldest first
		v := p.Publics[i]
		if st.pubOrd[string(v)] == 0 && !seenP[string(v)] {
			seenP[string(v)] = true
			freshPub = append(freshPub, v)
		}
	}
	used := make([]bool, len(freshPub))
	for i := len(p.Secrets) - 1; i >= 0; i-- { // oldest first
		v := p.Secrets[i]
		if st.secOrd[string(v)] != 0 || seenS[string(v)] {
			continue
		}
		seenS[string(v)] = true
		it := item{sec: v}
		if sl.Kind.IsPair() {
			for j, pv := range freshPub {
				if !used[j] && PairWorks(pv, v) {
					used[j] = true
					it.pub = pv
					break
				}
			}
		}
		items = append(items, it)
	}
	for j, pv := range freshPub {
		if used[j] {
			continue
		}
		// a public value without private half: usable as a key at all?
		if _, err := acrastruct.CreateAcrastruct(ProbeData, &keys.PublicKey{Value: cp(pv)}, nil); err != nil {
			notes = append(notes, fmt.Sprintf("stored public value of %d bytes is not a usable public key", len(pv)))
			continue
		}
		items = append(items, item{pub: pv})
	}
	for _, it := range items {
		st.mats = append(st.mats, KeyMat{Secret: cp(it.sec), Public: cp(it.pub)})
		o := len(st.mats)
		if it.sec != nil {
			st.secOrd[string(it.sec)] = o
		}
		if it.pub != nil {
			st.pubOrd[string(it.pub)] = o
		}
		ords = append(ords, o)
	}
	t.noteFiles(sl, p)
	return ords, notes
}

// ---------------------------------------------------------------- lab checkpoints

// Checkpoint is a restorable image of a Lab: storage content, key identities, history. What a
// handle keeps in memory (key cache, offered keys) is not part of it: Rollback opens a fresh handle.
type Checkpoint struct {
	Image *StorageImage
	tr    *Tracker
	hist  []Op
}

// Checkpoint records the present storage content and identities.
func (l *Lab) Checkpoint() (*Checkpoint, error) {
	im, err := l.S.SnapshotStorage()
	if err != nil {
		return nil, err
	}
	return &Checkpoint{Image: im, tr: l.T.Clone(), hist: append([]Op(nil), l.History...)}, nil
}

// Rollback puts the lab back into the checkpointed state with a freshly opened main handle
// (nothing of the old handle's memory survives: that is what a restart does).
func (l *Lab) Rollback(cp *Checkpoint) error {
	if s := l.S.Seam(); s != nil {
		s.SetHook(nil)
	}
	if err := l.S.RestoreStorage(cp.Image); err != nil {
		return err
	}
	l.T = cp.tr.Clone()
	l.History = append([]Op(nil), cp.hist...)
	l.clean = true
	l.offered = map[Slot]map[int]bool{}
	l.state = nil
	return nil
}

// Restart discards the main handle and opens a fresh one on whatever the storage holds now
// (after a simulated crash): Store.Reopen plus the lab's handle bookkeeping.
func (l *Lab) Restart() error {
	if s := l.S.Seam(); s != nil {
		s.SetHook(nil)
	}
	l.clean = true
	l.offered = map[Slot]map[int]bool{}
	l.state = nil
	return l.S.Reopen()
}

// Note records an operation executed on the lab's store outside Lab.Apply (operations that are
// not part of the kslab alphabet: import, save, ...): history and memoised state are kept right.
func (l *Lab) Note(op Op) {
	l.History = append(l.History, op)
	l.state = nil
	if op.Mutating() {
		l.clean = false
	}
}

// Relearn inspects a slot and assigns ordinals to new values loosely (see LearnLoose).
func (l *Lab) Relearn(sl Slot) (ords []int, notes []string) {
	l.state = nil
	return l.T.LearnLoose(sl, l.S.Inspect(sl))
}

// Remove forwards to the inner back end when that can remove paths (an optional capability:
// the repository under test may or may not have it); logged and faultable like other calls.
func (b *RecBackend) Remove(path string) error {
	return b.run(Call{Op: "Remove", Paths: []string{path}}, func() error {
		if r, ok := b.Inner.(interface{ Remove(string) error }); ok {
			return r.Remove(path)
		}
		return errors.New("kslab: the inner back end cannot remove paths")
	}, nil)
}
