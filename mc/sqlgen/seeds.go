package sqlgen

import (
	"fmt"
	"go/ast"
	"go/parser"
	"go/token"
	"os"
	"path/filepath"
	"sort"
	"strconv"
	"strings"

	"verif/ev"
)

// Seed is one statement literal found in Acra's parser tests.
type Seed struct {
	SQL   string `json:"sql"`
	Table string `json:"table"` // enclosing top-level declaration ("validSQL", "TestConvert", ...)
	File  string `json:"file"`
	Hint  string `json:"dialect_hint,omitempty"` // source text of the case's `dialect:` field, if any
}

// RepoDir is the repository the checks read test tables from.
func RepoDir() string {
	if v := os.Getenv("VERIF_REPO"); v != "" {
		return v
	}
	return "/repo"
}

// MinSeeds is the number of valid-case literals below which extraction is considered broken.
const MinSeeds = 300

// ExtractSeeds parses sqlparser/parse_test.go (and precedence_test.go) of the current tree
// with go/ast and returns the `input:` string literals of the valid-case tables plus the
// elements of []string tables of valid statements. Tables whose name contains "invalid"
// (expected parse errors) are not used. Fails loudly when fewer than MinSeeds are found in
// parse_test.go.
func ExtractSeeds() []Seed {
	var out []Seed
	dir := filepath.Join(RepoDir(), "sqlparser")
	for _, name := range []string{"parse_test.go", "precedence_test.go"} {
		path := filepath.Join(dir, name)
		fset := token.NewFileSet()
		f, err := parser.ParseFile(fset, path, nil, 0)
		if err != nil {
			ev.Fatalf("seed extraction: cannot parse %s: %v", path, err)
		}
		n := 0
		for _, d := range f.Decls {
			top := declName(d)
			ast.Inspect(d, func(node ast.Node) bool {
				// locally named tables (validSQL := ..., invalidSQL := ...) inside test functions
				if as, ok := node.(*ast.AssignStmt); ok && len(as.Lhs) == 1 && len(as.Rhs) == 1 {
					if id, ok := as.Lhs[0].(*ast.Ident); ok {
						if cl, ok := as.Rhs[0].(*ast.CompositeLit); ok {
							n += collectTable(cl, top+"."+id.Name, name, &out)
							return false
						}
					}
				}
				if vs, ok := node.(*ast.ValueSpec); ok && len(vs.Names) == 1 && len(vs.Values) == 1 {
					if cl, ok := vs.Values[0].(*ast.CompositeLit); ok {
						n += collectTable(cl, vs.Names[0].Name, name, &out)
						return false
					}
				}
				return true
			})
		}
		if name == "parse_test.go" && n < MinSeeds {
			ev.Fatalf("seed extraction: only %d valid-case literals found in %s (expected >= %d): table layout changed?", n, path, MinSeeds)
		}
	}
	// de-duplicate, keep first occurrence, deterministic order
	seen := map[string]bool{}
	var uniq []Seed
	for _, s := range out {
		k := s.SQL + "\x00" + s.Hint
		if seen[k] {
			continue
		}
		seen[k] = true
		uniq = append(uniq, s)
	}
	return uniq
}

func declName(d ast.Decl) string {
	switch d := d.(type) {
	case *ast.FuncDecl:
		return d.Name.Name
	case *ast.GenDecl:
		var names []string
		for _, s := range d.Specs {
			if vs, ok := s.(*ast.ValueSpec); ok {
				for _, n := range vs.Names {
					names = append(names, n.Name)
				}
			}
		}
		sort.Strings(names)
		return strings.Join(names, ",")
	}
	return "?"
}

// collectTable gathers statement literals of one table literal.
func collectTable(cl *ast.CompositeLit, table, file string, out *[]Seed) int {
	if strings.Contains(strings.ToLower(table), "invalid") {
		return 0
	}
	n := 0
	// []string{...} tables
	if at, ok := cl.Type.(*ast.ArrayType); ok {
		if id, ok := at.Elt.(*ast.Ident); ok && id.Name == "string" {
			for _, e := range cl.Elts {
				if s, ok := strLit(e); ok {
					*out = append(*out, Seed{SQL: s, Table: table, File: file})
					n++
				}
			}
			return n
		}
	}
	// []struct{input ...}{ {input: "..", dialect: ..}, ... }
	for _, e := range cl.Elts {
		row, ok := e.(*ast.CompositeLit)
		if !ok {
			continue
		}
		var sql, hint string
		found := false
		for _, fe := range row.Elts {
			kv, ok := fe.(*ast.KeyValueExpr)
			if !ok {
				continue
			}
			k, ok := kv.Key.(*ast.Ident)
			if !ok {
				continue
			}
			switch k.Name {
			case "input":
				if s, ok := strLit(kv.Value); ok {
					sql, found = s, true
				}
			case "dialect":
				hint = exprText(kv.Value)
			}
		}
		if found {
			*out = append(*out, Seed{SQL: sql, Table: table, File: file, Hint: hint})
			n++
		}
	}
	return n
}

func strLit(e ast.Expr) (string, bool) {
	switch v := e.(type) {
	case *ast.BasicLit:
		if v.Kind != token.STRING {
			return "", false
		}
		s, err := strconv.Unquote(v.Value)
		return s, err == nil
	case *ast.BinaryExpr:
		if v.Op != token.ADD {
			return "", false
		}
		a, ok1 := strLit(v.X)
		b, ok2 := strLit(v.Y)
		return a + b, ok1 && ok2
	case *ast.ParenExpr:
		return strLit(v.X)
	}
	return "", false
}

func exprText(e ast.Expr) string {
	switch v := e.(type) {
	case *ast.CallExpr:
		var args []string
		for _, a := range v.Args {
			args = append(args, exprText(a))
		}
		return exprText(v.Fun) + "(" + strings.Join(args, ",") + ")"
	case *ast.SelectorExpr:
		return exprText(v.X) + "." + v.Sel.Name
	case *ast.Ident:
		return v.Name
	case *ast.BasicLit:
		return v.Value
	}
	return fmt.Sprintf("%T", e)
}

// HintAllows tells whether a seed's dialect hint (the dialect its test case is run with)
// admits the installed dialect. Cases without a hint are run by Acra's tests with the MySQL
// default; here they are offered to every dialect and kept where the parser accepts them.
func (s Seed) HintAllows(dialect string) bool {
	switch {
	case s.Hint == "":
		return true
	case strings.HasPrefix(s.Hint, "postgresql."):
		return dialect == PostgreSQL
	case strings.Contains(s.Hint, "SetANSIMode(true)"):
		return dialect == MySQLANSI
	case strings.HasPrefix(s.Hint, "mysql."):
		return dialect == MySQL
	}
	return true
}

func sprint(p interface{}) string { return fmt.Sprint(p) }
