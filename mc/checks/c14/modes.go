package main

import (
	"fmt"
	"sort"

	"github.com/cossacklabs/acra/decryptor/mysql"
	mybase "github.com/cossacklabs/acra/decryptor/mysql/base"
	"github.com/cossacklabs/acra/sqlparser"

	"verif/fx"
)

// Two further dimensions of the quantifier "no input can crash a handler":
//
// (A) MODE x PREFIX WIDTH (MySQL). A decoder entry point is enumerated in every mode flag it
//     has, and every length-prefixed field of its input is written with every width the wire
//     format has for a length-encoded integer (1 byte, 0xfc + 2, 0xfd + 3, 0xfe + 8 - the
//     reader does not demand the shortest form), every declared value of a boundary set that is
//     relative to the bytes really present, and every truncation. The decoder with a mode flag
//     is the column definition parser mysql.ParseResultField (MariaDB extended type info
//     negotiated or not); it is reached directly and through sessions of the real
//     mysql.Handler in which the capability was / was not negotiated by the two hand-shake
//     packets (text result set, COM_STMT_PREPARE response: parameter and column definitions).
//
// (B) SESSION-START STATE OF THE READER (PostgreSQL). The first packet of a connection has its
//     own framing ([length][tag][body], the length counts itself and the tag); the reader of a
//     fresh client-side PacketHandler is enumerated over every first-packet kind x every
//     declared length 0..16 and the boundary set x every number of bytes that really follow,
//     next to the steady state (general tagged messages: every tag x the same lengths x the
//     same numbers of bytes).

// ---------------------------------------------------------------------------------------
// (A) MySQL column definitions: mode x field x prefix width x declared value x truncation
// ---------------------------------------------------------------------------------------

var lenencWidths = []int{1, 3, 4, 9}

// lenencPrefix writes the length-encoded integer v in the form that takes w bytes.
func lenencPrefix(w int, v uint64) []byte {
	switch w {
	case 1:
		return []byte{byte(v)}
	case 3:
		return []byte{0xfc, byte(v), byte(v >> 8)}
	case 4:
		return []byte{0xfd, byte(v), byte(v >> 8), byte(v >> 16)}
	}
	b := make([]byte, 9)
	b[0] = 0xfe
	putInt(b[1:], v, false)
	return b
}

type cdPart struct {
	name     string
	prefixed bool
	data     []byte
}

// columnDefinitionParts: the parts of a ColumnDefinition41 payload; ext: with the MariaDB
// extended type info block (type 0x00, value "json"); def: with a default value (COM_FIELD_LIST).
func columnDefinitionParts(ext, def bool) []cdPart {
	ps := []cdPart{
		{"catalog", true, []byte("def")}, {"schema", true, []byte("db")}, {"table", true, []byte("t")},
		{"orgtable", true, []byte("t")}, {"name", true, []byte("s")}, {"orgname", true, []byte("s")},
	}
	if ext {
		ps = append(ps, cdPart{"extinfo", true, []byte{0x00, 0x04, 'j', 's', 'o', 'n'}})
	}
	ps = append(ps, cdPart{"tail", false, []byte{0x0c, 63, 0, 255, 0, 0, 0, byte(mybase.TypeBlob), 0x80, 0, 0, 0, 0}})
	if def {
		ps = append(ps, cdPart{"default", true, []byte("dflt")})
	}
	return ps
}

// cdBase: one payload (shape, field, width, declared value) and where the altered prefix starts.
type cdBase struct {
	desc  string
	data  []byte
	start int // offset of the altered prefix
	ext   bool
	def   bool
}

// declaredValues: the boundary set for a declared length: around 0, around the real length,
// every distance 0..9 below and above the number of bytes that follow the prefix (a block that
// ends 1..9 bytes before / beyond the payload, for every prefix width), the marker bytes of the
// one-byte form, and the powers of two of C03 up to the width.
func declaredValues(w int, actual, rest uint64) []uint64 {
	vals := []uint64{0, 1, actual - 1, actual, actual + 1, 0x7f, 0x80, 0xfa, 0xff, 0x100, 0xffff, 0x10000, 1<<24 - 1,
		1<<31 - 1, 1 << 31, 1<<32 - 1, 1 << 32, 1<<63 - 1, 1 << 63, 1<<64 - 1, 1<<64 - 2, 1<<64 - 9, 1<<64 - 10}
	for k := uint64(0); k <= 9; k++ {
		vals = append(vals, rest-k, rest+k)
	}
	if w == 1 {
		vals = append(vals, 0xfb) // NULL marker
	}
	var mask uint64 = 1<<64 - 1
	if w < 9 {
		mask = 1<<(8*uint(w-1)) - 1
	}
	if w == 1 {
		mask = 0xff
	}
	seen := map[uint64]bool{}
	var out []uint64
	for _, v := range vals {
		v &= mask
		if w == 1 && v >= 0xfc && v <= 0xfe { // would be another width
			continue
		}
		if !seen[v] {
			seen[v] = true
			out = append(out, v)
		}
	}
	sort.Slice(out, func(i, j int) bool { return out[i] < out[j] })
	return out
}

func columnDefinitionBases() []cdBase {
	var out []cdBase
	for _, shape := range [][2]bool{{false, false}, {true, false}, {false, true}, {true, true}} {
		parts := columnDefinitionParts(shape[0], shape[1])
		for fi, f := range parts {
			if !f.prefixed {
				continue
			}
			for _, w := range lenencWidths {
				// bytes behind the altered prefix
				rest := len(f.data)
				for _, p := range parts[fi+1:] {
					rest += len(p.data)
					if p.prefixed {
						rest++
					}
				}
				for _, v := range declaredValues(w, uint64(len(f.data)), uint64(rest)) {
					var d []byte
					start := 0
					for pi, p := range parts {
						if pi == fi {
							start = len(d)
							d = append(d, lenencPrefix(w, v)...)
						} else if p.prefixed {
							d = append(d, byte(len(p.data)))
						}
						d = append(d, p.data...)
					}
					out = append(out, cdBase{
						desc: fmt.Sprintf("column definition (extended type info block: %v, default value: %v), length of %s written as a %d-byte length-encoded integer with the value %#x (real length %d, %d bytes follow the prefix)",
							shape[0], shape[1], f.name, w, v, len(f.data), rest),
						data: d, start: start, ext: shape[0], def: shape[1]})
				}
			}
		}
	}
	return out
}

func myRawPkt(seq byte, payload []byte) []byte {
	return append([]byte{byte(len(payload)), byte(len(payload) >> 8), byte(len(payload) >> 16), seq}, payload...)
}

func fbBytes(f func(b *fb)) []byte {
	b := &fb{}
	f(b)
	return b.buf
}

func (e *Env) mysqlModeSpaces(thorough bool) []*Space {
	m := e.my
	bases := columnDefinitionBases()
	// direct: every base x every cut that keeps at least the first byte of the altered prefix
	cum := make([]int, len(bases)+1)
	for i, b := range bases {
		cum[i+1] = cum[i] + len(b.data) - b.start
	}
	locate := func(i int) (int, int) {
		k := sort.Search(len(bases), func(k int) bool { return cum[k+1] > i })
		return k, i - cum[k]
	}
	e.boundInfo["mysql-coldef-lenenc"] = fmt.Sprintf("%d payloads = 4 shapes (with / without extended type info block, with / without default value) x every length-prefixed field x prefix widths %v x declared values {0,1,real-1,real,real+1,rest-9..rest+9,0x7f,0x80,0xfa,0xfb,0xff,0x100,0xffff,0x10000,2^24-1,2^31-1,2^31,2^32-1,2^32,2^63-1,2^63,2^64-10,2^64-9,2^64-2,2^64-1 reduced to the width}; direct parser: x every truncation behind the first prefix byte, both modes; sessions: whole payloads in a well-framed packet, capability negotiated / not negotiated",
		len(bases), lenencWidths)
	var out []*Space
	out = append(out, &Space{Name: "mysql-coldef-lenenc/fields", Group: "mysql", N: cum[len(bases)],
		Decs: []*Decoder{e.byName["mysql.ParseResultField"], e.byName["mysql.ParseResultField[mariadb extended type info]"]},
		Gen: func(i int) []byte {
			k, t := locate(i)
			d := bases[k].data
			return d[:len(d)-t]
		},
		Desc: func(i int) string {
			k, t := locate(i)
			if t == 0 {
				return bases[k].desc
			}
			return fmt.Sprintf("%s, truncated to %d of %d bytes", bases[k].desc, len(bases[k].data)-t, len(bases[k].data))
		}})

	// sessions: the capability MARIADB_CLIENT_EXTENDED_TYPE_INFO (0x8 of the extended
	// capabilities) is announced by the server hand-shake and by the client response, or by neither
	handshakes := func(maria bool) (sh, hs []byte) {
		var cap byte
		if maria {
			cap = mysql.MariaDBClientExtendedTypeInfo
		}
		sh = fbBytes(func(b *fb) {
			myPkt(b, "Handshake", 0, func(b *fb) {
				b.raw(10).cstr("5.5.5-10.6.4-MariaDB").raw(7, 0, 0, 0).bytes([]byte("12345678")).raw(0)
				b.raw(0xff, 0xf7&^0x08).raw(33).raw(2, 0).raw(0x08, 0x00).raw(21)
				b.bytes(make([]byte, 6)).raw(cap, 0, 0, 0)
				b.bytes([]byte("123456789012")).raw(0)
				b.cstr("mysql_native_password")
			})
		})
		hs = fbBytes(func(b *fb) {
			myPkt(b, "HandshakeResponse", 1, func(b *fb) {
				b.num("capabilities", 4, myCapLongPassword|myCapLongFlag|myCapLocalFiles|myCapProtocol41|myCapTransactions|myCapSecureConn|myCapPluginAuth)
				b.num("maxpacket", 4, 1<<24).raw(33)
				b.bytes(make([]byte, 19)).raw(cap, 0, 0, 0)
				b.cstr("user").raw(4, 1, 2, 3, 4).cstr("mysql_native_password")
			})
		})
		return
	}
	// the OK packet that ends the connection phase: only then client packets are commands
	authOK := myRawPkt(2, []byte{0, 0, 0, 2, 0, 0, 0})
	textQ := fbBytes(func(b *fb) { myCommand(b, "ComQuery", mysql.CommandQuery, []byte(myTextQuery)) })
	prepQ := fbBytes(func(b *fb) { myCommand(b, "ComStmtPrepare", mysql.CommandStatementPrepare, []byte(myPrepQuery)) })
	for _, maria := range []bool{false, true} {
		maria := maria
		sh, hs := handshakes(maria)
		// a well-formed column definition of this mode
		var good []byte
		for _, p := range columnDefinitionParts(maria, false) {
			if p.prefixed {
				good = append(good, byte(len(p.data)))
			}
			good = append(good, p.data...)
		}
		textResult := func(in []byte) []byte {
			var s []byte
			s = append(s, myRawPkt(1, []byte{3})...)
			s = append(s, myRawPkt(2, good)...)
			s = append(s, myRawPkt(3, in)...)
			s = append(s, myRawPkt(4, good)...)
			s = append(s, fbBytes(func(b *fb) { myEOF(b, "ColEOF", 5) })...)
			s = append(s, myRawPkt(6, append(append([]byte{1, '1'}, 0xfb), 5, 'p', 'l', 'a', 'i', 'n'))...)
			s = append(s, fbBytes(func(b *fb) { myEOF(b, "RowEOF", 7) })...)
			return s
		}
		prepResult := func(param, col []byte) []byte {
			var s []byte
			s = append(s, myRawPkt(1, []byte{0, 1, 0, 0, 0, 3, 0, 1, 0, 0, 0, 0})...)
			s = append(s, myRawPkt(2, param)...)
			s = append(s, fbBytes(func(b *fb) { myEOF(b, "ParamEOF", 3) })...)
			s = append(s, myRawPkt(4, good)...)
			s = append(s, myRawPkt(5, col)...)
			s = append(s, myRawPkt(6, good)...)
			s = append(s, fbBytes(func(b *fb) { myEOF(b, "ColEOF", 7) })...)
			return s
		}
		sess := func(steps func(in []byte) []step) func(in []byte) (string, error) {
			return func(in []byte) (string, error) {
				if len(in) == 0 {
					return "not-a-payload", nil
				}
				sqlparser.SetDefaultDialect(m.dialect)
				return runSession(m.factory, fx.Alpha, steps(in))
			}
		}
		mode := "extended type info not negotiated"
		if maria {
			mode = "mariadb extended type info negotiated"
		}
		decs := []*Decoder{
			e.dec("mysql.Handler.ProxyDatabaseConnection[query response column definition; "+mode+"]", sess(func(in []byte) []step {
				return []step{{false, sh}, {true, hs}, {false, authOK}, {true, textQ}, {false, textResult(in)}}
			})),
			e.dec("mysql.Handler.ProxyDatabaseConnection[prepare response parameter definition; "+mode+"]", sess(func(in []byte) []step {
				return []step{{false, sh}, {true, hs}, {false, authOK}, {true, prepQ}, {false, prepResult(in, good)}}
			})),
			e.dec("mysql.Handler.ProxyDatabaseConnection[prepare response column definition; "+mode+"]", sess(func(in []byte) []step {
				return []step{{false, sh}, {true, hs}, {false, authOK}, {true, prepQ}, {false, prepResult(good, in)}}
			})),
		}
		// the payloads whose shape belongs to the mode (quick); thorough: every shape in both modes
		var idx []int
		for i, b := range bases {
			if thorough || (b.ext == maria && !b.def) {
				idx = append(idx, i)
			}
		}
		name := "mysql-session-coldef-lenenc[plain]"
		if maria {
			name = "mysql-session-coldef-lenenc[mariadb]"
		}
		out = append(out, &Space{Name: name, Group: "mysql", N: len(idx), Decs: decs,
			Gen:  func(i int) []byte { return bases[idx[i]].data },
			Desc: func(i int) string { return bases[idx[i]].desc + ", as the payload of a well-framed packet" }})
	}
	return out
}

// ---------------------------------------------------------------------------------------
// (B) PostgreSQL: the reader at the start of a session and in its steady state
// ---------------------------------------------------------------------------------------

// pgDeclaredLengths: every declared length 0..16 and the boundary set.
func pgDeclaredLengths() []uint32 {
	var out []uint32
	for v := uint32(0); v <= 17; v++ {
		out = append(out, v)
	}
	return append(out, 0x7f, 0x80, 0xff, 0x100, 0xffff, 0x10000, 1<<20+3, 1<<20+4, 1<<20+5, 1<<31-1, 1<<31, 1<<31+4, 1<<32-9, 1<<32-8, 1<<32-5, 1<<32-4, 1<<32-1)
}

const pgMaxFollow = 13 // bytes that really follow the header: 0..13

func (e *Env) pgStartSpaces(thorough bool, cliFirst, cli *Decoder) []*Space {
	lens := pgDeclaredLengths()
	u32 := func(v uint32) []byte { return []byte{byte(v >> 24), byte(v >> 16), byte(v >> 8), byte(v)} }
	body := []byte("user\x00u\x00\x00\x00\x00\x00\x00\x00\x00\x00")[:pgMaxFollow]
	// first packets: [length][4-byte tag][body]
	kinds := []struct {
		name string
		tag  []byte
	}{
		{"StartupMessage 3.0", []byte{0, 3, 0, 0}}, {"SSLRequest", []byte{4, 210, 22, 47}}, {"CancelRequest", []byte{4, 210, 22, 46}},
		{"GSSENCRequest", []byte{4, 210, 22, 48}}, {"StartupMessage 2.0", []byte{0, 2, 0, 0}}, {"StartupMessage 3.1", []byte{0, 3, 0, 1}}, {"unknown tag", []byte{0xff, 0xff, 0xff, 0xff}},
	}
	var first []editT
	for _, k := range kinds {
		for _, l := range lens {
			hdr := append(u32(l), k.tag...)
			for n := 0; n <= pgMaxFollow; n++ {
				if l > 17 && n != 0 && n != 4 && n != pgMaxFollow {
					continue // a length far beyond the data: nothing, the tag's worth, everything
				}
				first = append(first, editT{fmt.Sprintf("first packet of a connection: %s, declared length %d, %d bytes follow the 8-byte header", k.name, l, n),
					append(append([]byte(nil), hdr...), body[:n]...)})
			}
			for c := 1; c < 8; c++ {
				first = append(first, editT{fmt.Sprintf("first packet of a connection: %s, declared length %d, header cut to %d bytes", k.name, l, c), append([]byte(nil), hdr[:c]...)})
			}
		}
	}
	// general messages: [tag][length][body]
	var general []editT
	for _, tag := range []byte("QPBEXSDCHFpdcfz\x00") {
		for _, l := range lens {
			hdr := append([]byte{tag}, u32(l)...)
			for n := 0; n <= pgMaxFollow; n++ {
				if l > 17 && n != 0 && n != 4 && n != pgMaxFollow {
					continue
				}
				general = append(general, editT{fmt.Sprintf("general message %q, declared length %d, %d bytes follow the 5-byte header", tag, l, n),
					append(append([]byte(nil), hdr...), body[:n]...)})
			}
			for c := 1; c < 5; c++ {
				general = append(general, editT{fmt.Sprintf("general message %q, declared length %d, header cut to %d bytes", tag, l, c), append([]byte(nil), hdr[:c]...)})
			}
		}
	}
	e.boundInfo["pg-reader-states"] = fmt.Sprintf("session start: %d first-packet kinds x %d declared lengths (0..17 and the boundary set up to 2^32-1) x (0..%d bytes behind the header - lengths above 17: 0, 4 or %[3]d bytes - + 7 cuts of the header); steady state: 16 tags x the same lengths x (the same numbers of bytes + 4 cuts of the header)",
		len(kinds), len(lens), pgMaxFollow)
	return []*Space{
		listSpace("postgresql", "pg-reader-start", first, []*Decoder{e.byName["postgresql.PacketHandler.ReadClientPacket[first]"], cliFirst}),
		listSpace("postgresql", "pg-reader-steady", general, []*Decoder{e.byName["postgresql.PacketHandler.ReadClientPacket[started]"], cli}),
	}
}
